TB = "Trusted: go/types, go/ssa, go/cfg, callgraph cha/vta (x/tools v0.29.0), the frozen tables printed in the evidence; application callbacks are opaque (assumed to terminate, not to re-enter Root, not to mutate library memory). Runtime values are not decided."

claim("C09", "SSA phi-closure monotonicity of the exclusion accumulator + dominance (control-dependence) rules on the selection walker",
      "Decides four structural necessary conditions of @skip/@include on every path of the directive evaluator and the selection walker: accumulator monotone (order independence), polarity per arm, every resolver-reaching dispatch gated by the evaluator's result for the same selection, operation variable map with defaults used. These are exactly the clauses the 2x6x6 combination space depends on; the directive semantics has no value-dependent part beyond them.",
      TB)

claim("C06", "path-prefix typestate (forward dataflow over the SSA CFG counting Errors.in applications per error source and kind) + who-may-prefix table + AST structure of the error adder",
      "Decides on every CFG path of the field resolver, list resolver and error adder that each error receives the response-key prefix exactly once per field level and the list-index prefix exactly once per element with the SSA value that indexed the source, that grouped errors are flattened member by member and Extensions carried, and that no other kind of path segment is added anywhere. Four genuine defects are listed as known findings (value kept next to its error in three resolver arms; 'fragment at L:C' path segment), all pinned by existing tests.",
      TB)

claim("C01", "SSA dominance / phi-source rules on the entry point, response-map flow (who-may-write) over the call graph, loop-shape rules (induction, single dominating append) and switch-exhaustiveness against go/types implementer sets",
      "Decides the operation-choice clause completely (sources of the operation value, len==1 fallback guard, no resolver-reaching call without an operation) and structural necessary conditions of selection semantics: response maps written only by the field resolver under alias-or-name, every list loop mirrors the source in order with exactly one element per iteration, selection/type switches exhaustive, __typename from the container type.",
      TB)
claim("C04", "SSA must-pass-through (dominance by len(errors)==0 of the producing call), phi-leaf provenance of returned/stored values, range-guard analysis of narrowing Convert instructions, structural rules on the input-object coercer",
      "Decides that no application resolver (interface, root or reflected) can be invoked with an argument map other than the one the argument builder produced without errors, that every value leaving the argument substitution or entering the operation's variable map is the declared type's CoerceIn result, that every narrowing numeric conversion in input coercers is range-guarded, and the required/undeclared/default handling of arguments and input objects. Six genuine defects found by these rules were repaired (fix: commits).",
      TB)
claim("C10", "SSA dominance (fd != nil before every resolver invocation), kind-set comparison between dispatcher / field lookup, guard analysis of argument stores and reports, call-graph reachability of Validate methods, interprocedural *Ref-rejection check for type conditions",
      "Decides that undefined fields, undeclared arguments (every container kind), missing required arguments, unknown/misplaced directives on every request node kind and undefined inline type conditions cannot reach a resolver without an error being recorded. One genuine defect (named fragment on an undefined type accepted) is pinned by an existing test and listed as known finding; two were repaired.",
      TB)

claim("C02", "ordered-guard analysis of the strategy dispatch in SSA (type-assertion and nil-test facts dominating each strategy-specific call) + sibling comparison of the three invocation arms",
      "Decides the precedence clause the statement spells out (interface resolver > root resolver > reflection, for fields and for lists) on every path, and that the three arms share one argument pipeline and one error pipeline. Equality of responses across strategies is not decided. Two genuine defects found by the sibling comparison were repaired (reflection arm bypassed the argument builder; reflection arm bypassed the error adder).",
      TB)
claim("C08", "SSA rules on the abstract arms of the type dispatcher (which Type value reaches the selection-set resolver, under which guard), classification of the fragment applicability tests with sibling comparison, who-may-write table for the Go type binding",
      "Decides that the union arm dispatches by the runtime Go type to a member object and guards it against regression; reports (as known findings, feature gaps of the library) that interface-typed values are resolved against the static interface and that fragment applicability is identity-only; inline and named fragments must agree.",
      TB)

EFF = "interprocedural effect (mod-set) analysis over go/ssa: access-path provenance with freshness, bottom-up summaries over the CHA call graph to a fixpoint, must/may locksets per instruction, guard matching across calls"
claim("C11", EFF + "; query: no write summarised for ResolveExecutable / AddEvent lands in a location reachable from the parsed request or in an object of a request AST type",
      "Decides, for every path of every function reachable from ResolveExecutable and AddEvent at once, that resolution writes nothing into the parsed request (read-only use of the AST) - the structural reason why repeated resolves equal fresh parses and the printed form is unchanged. Five genuine defects found by this rule were repaired (literal substitution in place, in-place coercion of literals and variable defaults, argument list reordering, subscription overwriting the field's container type). One reviewed exemption (write-once cache Field.ConType) is printed in the evidence.",
      TB)
claim("C12", EFF + "; queries: request-time writes/reads of schema-typed state vs. the guard table, Lock/Unlock pairing, lock-order graph",
      "Decides, for all interleavings at once, the lock discipline that makes concurrent requests race-free on library state: every request-time write to shared schema state is either into request-fresh memory or into one of four guarded fields with its mutex held on the same object (also when the writer is a callee and the holder a caller), every read of those fields holds the mutex, locks are released on all paths and ordered acyclically. The race fixed in fac9237 (regField) is guarded against regression. Isolation of responses is not decided.",
      TB + " Assumes Root values are created by NewRoot (init ran before the first request).")
claim("C19", "SSA structure rules on subscribe / Unsubscribe / AddEvent: who-may-write the registry, removal pattern inside descending induction loops, pairing of removal and clean-up callback, guards and operands of Send in the publish loop",
      "Decides the loop and pairing shape that the sequential delivery semantics depends on: registration appends, removals cannot skip elements, each removal has exactly one clean-up and there is no other clean-up, delivery is ascending, once per matching subscriber, with that subscriber's own selection, counted under the same guard, failures recorded exactly when Send fails, clean-up by identity. Outcomes over histories are not decided.",
      TB)
claim("C20", EFF + "; queries: every registry access and every Subscriber callback holds Root.subLock; pairing; lock order; two-phase clean-up re-check",
      "Decides for all interleavings that the registry and the subscriber callbacks are only touched under the one registry mutex, that the mutex is always released and never re-acquired, and that the clean-up phase re-validates identity inside its own critical section. Linearizability of outcomes is not decided.",
      TB)

claim("C14", EFF + "; queries on the load transaction: Root fields written vs. restored under err != nil, writes into possibly pre-existing schema objects vs. reference-replacement / idempotent exemptions, freshness of the duplicated tables",
      "Decides for every failure point at once (any error return of any function inside ParseReader / AddTypes) that everything the transaction writes into the Root itself is saved and restored under err != nil alone, that the tables it works on are fresh duplicates, and enumerates every write into an object that may pre-date the call. The Root.schema leak found this way was repaired (6576018); in-place merging of extend blocks (six Extend implementations) is a genuine defect that needs copy-on-extend and is listed as known finding per implementation.",
      TB)

claim("C17", "table agreement over the type-checked AST (constructor field-name sets vs. case-constant sets of every serving Resolve, frozen case->member table with member-type check), static types of list-valued results, effect analysis of the Resolve methods, AST polarity rule for the deprecation filter, SSA rule for __type null",
      "Decides for all schemas at once that every introspection field of every __ type is served by every Go type that can stand behind it, by the member it names, that list results stay inside the library's own list handling whatever resolver strategy the application uses, that introspection is read-only, and that deprecation filtering is uniform. Three genuine defects found by these rules were repaired (interfaces as []Type, wrapper description = kind, Interface ignoring includeDeprecated).",
      TB)

claim("C05", "phi-leaf provenance of every value leaving the type dispatcher / appended by the list resolver, guard analysis at every CoerceOut call site, range-guard analysis of narrowing conversions and finiteness of float results in output coercers, set comparison of kind/location constants with the built-in enums",
      "Decides that no raw resolver value can reach the response except through the declared type's output coercer (or as a recursively resolved object/list), that a failed coercion cannot leak its operand, that integer narrowing and float overflow/NaN cannot pass an output coercer silently, and that reported kinds/locations are enum members. Nine genuine defects found by these rules were repaired; four are pinned by existing tests and listed as known findings (raw object at depth exhaustion, accessor value kept with its error, VARIABLE_DEFINITION missing from __DirectiveLocation, Enum.CoerceOut accepting any string).",
      TB)
claim("C07", "constant-key and guard rules on the envelope builders (SSA), interval (finite-domain) reasoning over the rune in the string writer, provenance of non-constant strings written by the value writer, finiteness of float coercer results",
      "Decides the envelope shape (only data/errors, errors only with an error, error groups never empty, error entries only with the four allowed keys and always a message), and - for every code point at once - that no character that must be escaped can reach a raw write in the string writer and that the value writer never writes an unescaped non-constant string; together with C05.FINITE this is what valid JSON depends on structurally. Line/column arithmetic and decode-equality are not decided.",
      TB)
claim("C18", "interval reasoning over the rune (as C07.ESC), provenance of written strings (C07.RAW), set comparison of escape letters emitted by the writer vs. accepted by the reader, set comparison of dynamic types produced by the reader vs. handled by the writer",
      "Decides the agreement of the value writer's and reader's tables (escape letters, \\u width, value kinds) and the escaping discipline for every code point; the round trip itself and tight-mode separators are not decided.",
      TB)

claim("C13", "coverage matrix built from the call graph (reachability from Root.validate / ReplaceRefs), the effect engine's *Ref-conditional writes, guard analysis (duplicate checks, emptiness, assertion failures), sibling comparison of the input-type predicates, and comparison of Locate's table with the specification's",
      "Decides which (position x rule family) cells of the schema validation are enforced by code that is reachable and whose result is not dropped: reference replacement at every reference position with failing lookup, duplicate rejection in every member table, name checks, input/output type tests with one predicate per class, emptiness, union members, interface conformance, directive-use validation per carrying position, directive cycles, the location table. One defect was repaired (directive arguments accepted wrappers of output types); missing directive-use validation on fields / field arguments / input fields and the wrong location of argument definitions are pinned by existing tests and listed as known findings.",
      TB)
claim("C15", "set comparison, per schema struct, of members stored by the SDL reader (SSA stores in scanner functions) with members loaded in functions reachable from the struct's Write; whole-list printing loops; raw quoted writes in printers; enumeration completeness of ggqlgen's output loops",
      "Decides that the SDL printer reads every member the SDL reader stores (so nothing is dropped by printing), prints member lists completely, escapes quoted text, and that ggqlgen's outputs are assembled from Type.SDL only. The unescaped description writer was repaired; ggqlgen -w/-e dropping directive definitions is a genuine defect needing an API addition and is listed as known finding. The round trip itself is not decided.",
      TB)
claim("C16", "who-may-write rule for the ordered type list, dominance of the re-sort over every return of add(), absence of map iteration in every Extend implementation and schema printer (sibling agreement)",
      "Decides the structural reasons the schema cannot depend on arrangement: canonical (rank, name) table order re-established after every insertion, extension merges in declaration order in all implementations (the Input.Extend map iteration found this way was repaired), printers iterate ordered lists; reference replacement coverage is C13.REFS. Equivalence of arrangements as such is not decided - this check is deliberately thin.",
      TB)

claim("C03", "path-partitioned abstract interpretation of the three scanners over SSA (net input consumption per loop iteration, look-ahead cell, eof flag, callee summaries to a fixpoint), recursion measures over the SCCs of the in-package call graph (depth counter, structural descent, visited set, input consumption, nesting counter; reference-following cycles reported), and panic-site rules on SSA (interface comparison, nil scanner results, constant-table index ranges, nil maps, reflected calls, depth-guard dominance)",
      "Decides the crash- and hang-freedom clauses that are visible in the shape of the code: every scanner loop consumes input or leaves on every path (including error and end-of-input paths); every recursion cycle carries a decreasing measure and scanner recursion a bounded nesting counter; the enumerated panic sites (uncomparable interface ==, nil Type stored by the scanners, table index beyond the table, store into a nil map, reflect.Value.Call with unchecked arguments, descent past the depth guard) are guarded. Eight genuine defects found this way were repaired (stray-byte loop, uncomparable !=, nil variable/list type, fragment-spread recursion, reflected arguments, non-Latin-1 names, unbounded parser nesting, SetContextRecursive on cyclic fragments). It does not decide absence of every run-time panic (arbitrary nil dereferences, slice bounds outside the rule set, panics inside user resolvers or the standard library) nor bounded wall-clock time of user resolvers or readers.",
      TB)

# ---- additions made while extending the rule sets (sessions 3+): appended to technique / level text
ADD = {
 "C01": ("; type-test exclusion sets before the root resolver's list accessors (frozen native-carrier table); origin of the synthetic root field's selections; re-statement of C09 (directive rules), C10.FIELD and the dispatcher-origin part of C06.G1",
         " Also decides that the native Go list carriers never reach the root resolver's accessors, that the selections resolved are those of the operation chosen in the same call, that the directive rules of C09 hold (excluded selections contribute no key), that the field definition is looked up in the container of each resolution, and that list elements are resolved by the type dispatcher on the element type (inner lists mirrored)."),
 "C02": ("; native-carrier exclusion sets; use/def of the error results of lazy-binding writers; origin of reflect.StructField values stored into FieldDef (FieldByName* vs Field(i)+Anonymous, Index/Offset never cached); absence of default reads in strategy-specific code",
         " Also decides that typed Go slices are walked by the library under every strategy, that the verdict of the lazily cached Go-type binding never reaches a response, that Go field bindings follow Go's own selector resolution (promoted fields) and hold no struct-layout fact, and that schema defaults are applied by the shared argument builder only. Two further genuine panics on the reflection path (null list member into a bound Go struct, nil root object) were found by C03.RVALID and repaired."),
 "C03": ("; size-change termination over the recursive components (closure of size-change graphs under composition, closures and captured cells included); validity guards (IsValid / Kind / nil test) on uses of reflect.ValueOf results; exit structure of the reviewed reader retry loop; descent loops",
         " The recursion verdict is the size-change principle: every idempotent composition of the call edges' size-change graphs has a strictly decreasing parameter, so a value taken from another parameter (a variable table) does not count as descent. reflect.Value methods that panic on the zero Value are guarded wherever the Value comes from an interface that may be nil; the reader retry loop retries only under err == nil. Two more genuine defects found and repaired (ten in all)."),
 "C04": ("; origin of every value stored by the argument builder (result of the substitution call of the same invocation); variable binding followed through a helper",
         " Also decides that argument values are coerced in every evaluation (nothing remembered from an earlier one) and that a binder helper's error dominates every resolver-reaching call."),
 "C05": ("; effect analysis: no write rooted at an untyped-data parameter of a request-time function; bound tests dominating time.Unix in the Time scalar",
         " Also decides that the library never writes into the resolver's own data (values coerced in place would alias between fields) and that seconds turned into a Time are bounded from both sides (four-digit years)."),
 "C06": ("; origin of the error slice that receives the index prefix (static call of the type dispatcher on List.Base, or a delegating closure); effect analysis of the helpers of the error adder; unconditional-prepend shape of (*Error).in; nilable-kind coverage of IsNil",
         " Also decides that inner lists get their own index (element errors come from the dispatcher), that the error group handed in by a resolver is not rewritten while it is flattened, that the path prefix is prepended unconditionally, and that every nilable kind is recognised as null at a failing position."),
 "C07": ("; mode-specialised path enumeration (E9) of the list and map emitters of the value writer for the separator rule; plainness-predicate proof (interval reasoning over the scanning loop) for whole-string writes; formatter-output rule for numeric arms",
         " Also decides, for JSON output and each sign of indent, that every path from a non-first list element / map member to its first byte passes a comma and that none precedes the first item; that a fast path writing a whole string is guarded by a predicate proven to reject every must-escape code point; and that numbers are written as unmodified strconv formatter output."),
 "C08": ("; re-statement of C01.TYPENAME; who-stores table for fields holding Go types (derived records must be rewritten by every writer of Object.meta); consistency between re-typing of interface-typed values and relation-aware fragment tests",
         " Also decides that __typename is the name of the type the value is resolved as, that no second record of Go-type bindings can go stale, and that interface-typed values are not walked as their concrete type while fragment conditions are identity-only."),
 "C09": ("; path rule in the walker's loop (no non-excluded iteration without dispatch); origin rule for stores into directive lists of request nodes; variable binding followed through a helper",
         " Also decides that the directives are the only way a selection is left out and that directive uses stay attached to the selection they were written on."),
 "C10": ("; re-typing sites of interface-typed values vs. a lookup in the declared interface; guards of the reader's directive-use completion",
         " Also decides that selections under an interface-typed field are checked against the declared interface and that an omitted required directive argument still reaches the validator."),
 "C11": ("; conditional write-once exemption (the 'still unset' region holds only the store)",
         " The Field.ConType exemption of earlier sessions was found to hide a genuine defect (first evaluation validated arguments differently from later ones); it is now conditional and the defect repaired."),
 "C12": ("; use/def of lazy-binding errors; no write rooted at an untyped-data parameter (shared variable maps); shared vs. exclusive lock modes",
         " Also decides that one request's response cannot depend on the Go type another request made the binding cache see first, and that the library never writes into a caller's variable map."),
 "C13": ("; wrapper-transparency of the class predicates (type facts at every non-recursive answer); per-iteration coverage of replacement calls (dominance of back edges); one-at-a-time insertion guarded by a failed lookup; whole-table validation walk; flag/name same-node rule; predicate-per-position table of the conformance check",
         " Also decides that [[T]] of the wrong class is not admitted, that no loop of the reference walk skips an element's directive uses, that type and directive names are unique within one load, that validation walks the whole tables after every load, that the reserved-prefix waiver is taken from the named node itself, and that argument types are compared invariantly."),
 "C15": ("; must-emit rule for printer loops over member containers; raw-write rule over all helpers of the description writer with structural recognition of layout strings; no concatenation on rendered value text; re-statement of C07.ESC",
         " Also decides that no member of a definition is skipped by value when printing, that description helpers write text only through the escaping writer, and that rendered defaults are printed unmodified."),
 "C16": ("; one-at-a-time table insertion; reference replacement dominating each Extend; nil-lookup guard of default completion; origin of every Type bound to a name by the type reader; absence of validation calls below Extend",
         " Also decides that duplicates inside one load are seen, that extension content is reference-resolved before the merge, that an explicit null argument survives either load order, that names are never bound to definitions of the document being scanned, and that merging is validation-free."),
 "C17": ("; list-carrier set derived from the list resolver on each run; nil-schema guard of default root names; re-statement of C14.W3",
         " Also decides that every list-valued meta-field is of a carrier the list resolver walks itself under every strategy, that a declared schema block is never completed by default names, and that the tables introspection reads are never shared with a rolled-back load."),
 "C18": ("; E9 separator rule for SDL and JSON forms; dependence of the ParseFloat call on ParseInt's failure only; reader's byte reject set vs. writer's raw set (interval reasoning incl. byte predicates)",
         " Also decides the separator protocol of the tight SDL form (only a bracket delimits), that every non-integer number token reaches ParseFloat, and that the reader accepts every byte the writer emits raw."),
 "C19": ("; filter-rebuild removal idiom (exactly one of keep / clean-up per iteration); origin of registered subscriptions (range over the resolved map)",
         " Also decides that every subscription in the resolved response is registered, and recognises the single-pass filter form of removal."),
 "C20": ("; exclusive vs. shared lock modes; registry-element origin of every clean-up callback within the current critical section",
         " Also decides that clean-up callbacks are made only for subscriptions found in the registry under the lock, and that callbacks and registry writes hold the lock exclusively."),
}
for _k, (_t, _x) in ADD.items():
    _tech, _text, _note = CLAIMED[_k]
    CLAIMED[_k] = (_tech + _t, _text + _x, _note)

# ---- round 4
ADD4 = {
 "C01": ("; registry/link-pass rule for the *Fragment a spread points at; derivation-consistency of recorded and compared reflect.Type values (as C08.METADOM)",
         " Also decides that a spread read before its fragment's definition ends up pointing at the definition (registered placeholder, or a re-link pass over operations and fragment bodies), and that Go types are recorded and compared under one derivation."),
 "C03": ("; visited-set rule on reference-following edges inside loops (exponential fragment expansion); nil-fact rule on every use of a nil-tolerant field, followed into callees; structural recognition of raw read helpers",
         " Also decides that fragments spreading each other are expanded once per object (a genuine exponential blow-up was found and repaired) and that a fragment's absent type condition is never dereferenced."),
 "C04": ("; NaN-aware range guards (the false edge of an ordered float comparison is no bound); re-statement of C10.FIELD",
         " Also decides that NaN cannot pass a reject-form range test into a Float argument, and that arguments are coerced against the definition of the container of this evaluation."),
 "C05": ("; NaN-aware range guards",
         " Also decides that a float NaN cannot pass a reject-form range test into an Int / Int64 leaf."),
 "C06": ("; emptiness of the error accumulator at every append of an error constructed on the spot (field resolver, reflection resolver, dispatcher)",
         " Also decides that a failure already recorded for a field evaluation does not get a second, constructed entry."),
 "C07": ("; who-may-call rule tying every raw Read of the parser's reader to the newline accounting; byte provenance of assembled buffers handed to Write in the value writer",
         " Also decides that no byte of the document is consumed round the line counter (positions lie on the token's line) and that buffers assembled before writing hold only layout, formatter output or SDL names (Go string quoting is not JSON escaping)."),
 "C08": ("; derivation labels (raw / base / elem / ptr) of every reflect.Type stored into or compared with Object.meta, interprocedural over in-package call sites; control dependence of the comparison inside the type-table scan",
         " Also decides that the Go-type binding is recorded and tested under one derivation (value vs. pointer graphs), and that the lookup from a Go type examines every *Object of the table."),
 "C09": ("; effect summary of resolution restricted to selection sets / directive lists / fragments (struct copies alias, with kill); effect summary of SetContextRecursive",
         " Also decides that resolution never rewrites selection lists in place (a selection excluded once stays available for the next variable values) and that setting the context writes only Field.Context."),
 "C10": ("; control dependence of the argument lookup and of the coercion inside validateDirUse's loop; effect summary of the argument builder vs. schema definitions",
         " Also decides that every argument of a directive use is checked for existence whatever its value, and that forming arguments writes nothing into field or argument definitions."),
 "C11": ("; struct-copy aliasing with kill; partial provenance no longer memoised",
         " In-place filtering through a copied struct's slice header is now seen."),
 "C13": ("; control dependence of the checks inside Root.validate's loops (unfiltered); operand-origin rule for two-type calls of the sub-type predicate family; control dependence of the coercion in validateDirUse",
         " Also decides that validation is not restricted to a subset of the tables, that the sub-type relation never compares transformed (wrapper-stripped) types, and that a null directive argument is coerced like any other literal."),
 "C14": ("; dominance of each Extend by a successful reference replacement of the same extension",
         " Also decides that an undefined reference inside an extension is found before the shared target is modified."),
 "C15": ("; reader/printer order agreement (reachability between consumption points vs. reachability between emission points, 35 pairs); control dependence of the emission in the whole-schema printer",
         " Also decides that no pair of parts is printed in the opposite order to the one the reader consumes, and that the whole-schema printer leaves out nothing but built-ins."),
 "C16": ("; re-statement of C13.WALK (unfiltered whole-table validation after every load)",
         " Also decides that a later load cannot leave an earlier definition unvalidated."),
 "C17": ("; totality of helpers applied to node members inside Resolve methods (nil only for nil); re-statement of C16.EXTREFS",
         " Also decides that a declared default is never described as absent because of its value, and that root operation types added by `extend schema` are resolved types."),
 "C18": ("; nest/unnest typestate on every path to a successful return (spilled result cells resolved); byte provenance of assembled buffers",
         " Also decides that the nesting counter measures depth, not the number of containers read."),
 "C19": ("; the registration-origin rule over every call site of the registration function; set-guarded registration accepted",
         " Also covers registrations moved into helpers."),
 "C20": ("; returns not dominated by the registry lock vs. state of the Root (exact-mirror tolerance: constant steps beside registry writes); registration-once rule",
         " Also decides that a publish is never short-circuited on a shadow of the registry that can drift, and that a subscriber enters the registry once."),
}
for _k, (_t, _x) in ADD4.items():
    _tech, _text, _note = CLAIMED[_k]
    CLAIMED[_k] = (_tech + _t, _text + _x, _note)

# ---- round 5
ADD5 = {
 "C02": ("; who-may-call rule for the writers of the Go-type binding (reflection arm only); sibling agreement of the invocation arms on value-with-error",
         " Also decides that the lazily cached Go type is written on the reflection strategy only (mixed graphs) and that no strategy alone drops a value returned with an error."),
 "C03": ("; active-path guard sets on reference edges of fanning-out components",
         " A second genuine exponential walk (SetContextRecursive) was found by this rule and repaired."),
 "C04": ("; constant base 10 of integer parses in input coercers",
         " Also decides that integer text is read as decimal."),
 "C05": ("; representation sets: dynamic types returned by each built-in scalar's output coercer (paired with the error result) vs. a frozen table; constant base 10 of integer parses",
         " Also decides that an output coercer returns only values of its scalar's representation, whatever their magnitude."),
 "C06": ("; visited-set rule on the spread -> fragment edge; single-exit shape of the selection walker's loop",
         " Also decides that a fragment is applied to an object once (one entry per failure) and that no selection after a failing one is left out."),
 "C07": ("; reachability rule on the scratch map of shallow (subscription) field resolution; origin of every error appended at request time (never a schema node's field)",
         " Also decides that a rejected subscription request carries no data, and that reported errors are built for the submitted document."),
 "C08": ("; re-statement of the dispatcher-origin part of C06.G1",
         " Also decides that each list element reaches the dispatcher with the declared element type (members are chosen per element)."),
 "C09": ("; must-pass-through rule of the field resolver (key stored or error reported on every path)",
         " Also decides that a field no directive excludes cannot vanish from the response."),
 "C10": ("; re-statement of C04.ARMS for variables",
         " Also decides that an unset variable cannot satisfy a required argument."),
 "C11": ("; struct copies held in fresh objects",
         " A copied directive use that still shares its argument map with the request is seen."),
 "C12": ("; freshness of the argument map handed to application resolvers (provenance paths)",
         " Also decides that nothing handed to application code is taken from storage other requests reuse."),
 "C13": ("; control dependence of the per-field conformance check; effect summary of Root.validate vs. schema nodes (no verdict caches)",
         " Also decides that every field of every implemented interface is compared, and that validation keeps no verdict on schema nodes."),
 "C14": ("; single-entry rule for the multi-source loader",
         " Also decides that ParseFS is one load transaction."),
 "C15": ("; constant-format rule over the printer family; freshness of the whole-schema printer's result",
         " Also decides that schema text is never used as a format string and that the whole-schema printer renders on every call."),
 "C16": ("; effect summary of the reference replacement pass (placeholder replacements only); call-graph rule: no coercer reachable from the SDL scanner",
         " Also decides that nothing but the replacement itself depends on whether a name was bound at scan time or later."),
 "C17": ("; dominance of every reason lookup by the @deprecated test of the same use",
         " Also decides that deprecationReason is the reason of the @deprecated use itself."),
 "C18": ("; helper-call rule of the value writer (strings only through the escaping writer)",
         " Also decides that no other printing helper writes a string of a value."),
 "C19": ("; error gate of the registration",
         " Also decides that a subscription request answered with errors registers nobody."),
 "C20": ("; re-statement of C19.PAIR",
         " Also decides that a clean-up callback is made exactly where its subscription leaves the registry."),
}
for _k, (_t, _x) in ADD5.items():
    _tech, _text, _note = CLAIMED[_k]
    CLAIMED[_k] = (_tech + _t, _text + _x, _note)

# ---- round 6
ADD6 = {
 "C01": ("; operand-origin rule for the type handed to the selection walker by the fragment resolvers",
         " Also decides that the selections of an applying fragment are resolved on the object's own type."),
 "C02": ("; re-statement of C04.GATE for the reflected argument vector",
         " Also decides that reflection gets the arguments of this evaluation, like the other strategies."),
 "C03": ("; linear bound proof for variable-length prefixes of package-level tables",
         " Also decides that a prefix cut from a prepared table cannot exceed it."),
 "C04": ("; re-statement of C18.NUM for integer literals",
         " Also decides that integer literals are converted by strconv.ParseInt (no hand-written digit loop beside it)."),
 "C05": ("; list-element rule extended to list-walking helpers; re-statement of C10.FIELD",
         " Also decides that helpers of the list resolver coerce every member, and that a leaf is coerced with the definition of this evaluation's container."),
 "C06": ("; loop-header phi rule for prefixed error lists; control dependence of the per-member formatter in the response former",
         " Also decides that only errors of the current element are prefixed, and that every member of an error group becomes an entry."),
 "C07": ("; pooled-buffer typestate (reset dominating every use); re-statement of the list part of C05.LEAF",
         " Also decides that a pooled output buffer is reset when taken and that list members reach the response only through their coercer."),
 "C09": ("; sibling agreement of the arms of every Selection-kind switch on looking at directive uses; origin of results returned below the dispatcher",
         " Also decides that no function treats the directives of the three selection kinds differently, and that results are not served from a table of earlier results."),
 "C10": ("; constant-origin rule for the location-match flag; re-statement of C09.ONLY",
         " Also decides that a directive is accepted only after its location matched, and that no selection escapes the per-field checks by being passed over."),
 "C11": ("; no-alias rule for the container coercers",
         " Also decides that request literals reach resolvers only as copies."),
 "C13": ("; constant-origin rule for the location-match flag; re-statement of C16.EXTREFS",
         " Also decides the location flag's origin and that extension references are resolved (and refused) before the merge."),
 "C15": ("; re-statement of C18.NUM",
         " Also decides that every number text the printer emits for a default is read back."),
 "C16": ("; re-statement of C17.ROOTS",
         " Also decides that a derived schema is not topped up by later loads."),
 "C17": ("; every-iteration rule for the loader's insertion loop (added, refused, or the scalar exemption)",
         " Also decides that no definition is dropped silently."),
 "C18": ("; equality-guard rule for the boolean words in the value reader; E9 extensions (inductive non-negativity, table prefixes, package tables)",
         " Also decides that only the writer's exact words are read back as booleans."),
}
for _k, (_t, _x) in ADD6.items():
    _tech, _text, _note = CLAIMED[_k]
    CLAIMED[_k] = (_tech + _t, _text + _x, _note)

ADD7 = {
 "C03": ("; provenance rule for reflect.Value.Interface on struct-field values (exported-only binding)",
         " Also decides that a struct field read through reflection was bound under an exported-field test."),
 "C07": ("; lookahead rule: the scanner's line advance is deferred past the put-back byte wherever positions are copied after a token read",
         " Also decides that a token followed by a line break keeps its own line."),
}
for _k, (_t, _x) in ADD7.items():
    _tech, _text, _note = CLAIMED[_k]
    CLAIMED[_k] = (_tech + _t, _text + _x, _note)

ADD8 = {
 "C03": ("; nil-ness rule for pointer values converted to interfaces (a nil *Schema must not be put into a Type interface and then compared with nil)",
         " Also decides that an extension of the schema type is matched against a schema that exists."),
 "C04": ("; declared-type rule for the substitution arms (the coercer and the enum table come from the declared type itself, never from a type reached by looking through its list wrappers); default-coercion rule of the input-object coercer (a default filled in for an absent field is CoerceIn's result of the field's type)",
         " Also decides that a symbol or object literal given where a list is declared is not accepted as the element, and that a filled-in default is coerced like a supplied value (map arm; the registered-Go-value arm is a listed finding)."),
 "C09": ("; the include/skip policy decided by constant propagation over one iteration of the directive loop (twelve rows of directive name x condition value x earlier decision)",
         ""),
 "C16": ("; derivation rule for the implied schema: when no schema is declared the schema object is derived from the current root types on every load, not kept from the first",
         " Also decides that a schema implied by the type names follows later loads."),
 "C17": ("; root-operation table rule: for a declared schema only the declared operations exist, each looked up under its own operation name; for an implied schema the three default names",
         ""),
}
for _k, (_t, _x) in ADD8.items():
    _tech, _text, _note = CLAIMED[_k]
    CLAIMED[_k] = (_tech + _t, _text + _x, _note)

ADD9 = {
 "C01": ("; the single-operation fallback is guarded by an empty operation name",
         " Also decides that an operation name that is not in the document selects nothing."),
 "C04": ("",
         ""),
 "C16": ("; carry-over, derivation-site and extension-target rules for the implied schema (the registered Go type is carried over, only a load derives again, derived fields are not taken over as explicit ones, an extension is applied to a schema made for the load)",
         " Also decides that extending an implied schema gives the same schema however the definitions are split over loads."),
}
for _k, (_t, _x) in ADD9.items():
    _tech, _text, _note = CLAIMED[_k]
    CLAIMED[_k] = (_tech + _t, _text + _x, _note)

ADD10 = {
 "C18": ("; interval comparison of the code points the writer spells as \\uXXXX with the decoded values for which the escape reader makes an error (hex accumulator followed through phis, conversions and helper results); path form of the number rule (from every test of the token text or of ParseInt's error, every exit passes ParseFloat unless ParseInt accepted); interval of number-token lengths refused by the reader vs. the lengths strconv can print",
         " Also decides that no code point the writer escapes as \\uXXXX is refused by the reader on account of its decoded value, and that a float is tried for every number token ParseInt does not accept even when the conversions sit in a join, and that a bound on the length of number tokens leaves every printable length alone."),
}
for _k, (_t, _x) in ADD10.items():
    _tech, _text, _note = CLAIMED[_k]
    CLAIMED[_k] = (_tech + _t, _text + _x, _note)
