TB = "Trusted: go/types, go/ssa, go/cfg, callgraph cha/vta (x/tools v0.29.0), the frozen tables printed in the evidence; application callbacks are opaque (assumed to terminate, not to re-enter Root, not to mutate library memory). Runtime values are not decided."

claim("C09", "SSA phi-closure monotonicity of the exclusion accumulator + dominance (control-dependence) rules on the selection walker",
      "Decides four structural necessary conditions of @skip/@include on every path of the directive evaluator and the selection walker: accumulator monotone (order independence), polarity per arm, every resolver-reaching dispatch gated by the evaluator's result for the same selection, operation variable map with defaults used. These are exactly the clauses the 2x6x6 combination space depends on; the directive semantics has no value-dependent part beyond them.",
      TB)

claim("C06", "path-prefix typestate (forward dataflow over the SSA CFG counting Errors.in applications per error source and kind) + who-may-prefix table + AST structure of the error adder",
      "Decides on every CFG path of the field resolver, list resolver and error adder that each error receives the response-key prefix exactly once per field level and the list-index prefix exactly once per element with the SSA value that indexed the source, that grouped errors are flattened member by member and Extensions carried, and that no other kind of path segment is added anywhere. Four genuine defects are listed as known findings (value kept next to its error in three resolver arms; 'fragment at L:C' path segment), all pinned by existing tests.",
      TB)

claim("C01", "SSA dominance / phi-source rules on the entry point, response-map flow (who-may-write) over the call graph, loop-shape rules (induction, single dominating append) and switch-exhaustiveness against go/types implementer sets",
      "Decides the operation-choice clause completely (sources of the operation value, len==1 fallback guard, no resolver-reaching call without an operation) and structural necessary conditions of selection semantics: response maps written only by the field resolver under alias-or-name, every list loop mirrors the source in order with exactly one element per iteration, selection/type switches exhaustive, __typename from the container type.",
      TB)
claim("C04", "SSA must-pass-through (dominance by len(errors)==0 of the producing call), phi-leaf provenance of returned/stored values, range-guard analysis of narrowing Convert instructions, structural rules on the input-object coercer",
      "Decides that no application resolver (interface, root or reflected) can be invoked with an argument map other than the one the argument builder produced without errors, that every value leaving the argument substitution or entering the operation's variable map is the declared type's CoerceIn result, that every narrowing numeric conversion in input coercers is range-guarded, and the required/undeclared/default handling of arguments and input objects. Six genuine defects found by these rules were repaired (fix: commits).",
      TB)
claim("C10", "SSA dominance (fd != nil before every resolver invocation), kind-set comparison between dispatcher / field lookup, guard analysis of argument stores and reports, call-graph reachability of Validate methods, interprocedural *Ref-rejection check for type conditions",
      "Decides that undefined fields, undeclared arguments (every container kind), missing required arguments, unknown/misplaced directives on every request node kind and undefined inline type conditions cannot reach a resolver without an error being recorded. One genuine defect (named fragment on an undefined type accepted) is pinned by an existing test and listed as known finding; two were repaired.",
      TB)

claim("C02", "ordered-guard analysis of the strategy dispatch in SSA (type-assertion and nil-test facts dominating each strategy-specific call) + sibling comparison of the three invocation arms",
      "Decides the precedence clause the statement spells out (interface resolver > root resolver > reflection, for fields and for lists) on every path, and that the three arms share one argument pipeline and one error pipeline. Equality of responses across strategies is not decided. Two genuine defects found by the sibling comparison were repaired (reflection arm bypassed the argument builder; reflection arm bypassed the error adder).",
      TB)
claim("C08", "SSA rules on the abstract arms of the type dispatcher (which Type value reaches the selection-set resolver, under which guard), classification of the fragment applicability tests with sibling comparison, who-may-write table for the Go type binding",
      "Decides that the union arm dispatches by the runtime Go type to a member object and guards it against regression; reports (as known findings, feature gaps of the library) that interface-typed values are resolved against the static interface and that fragment applicability is identity-only; inline and named fragments must agree.",
      TB)

EFF = "interprocedural effect (mod-set) analysis over go/ssa: access-path provenance with freshness, bottom-up summaries over the CHA call graph to a fixpoint, must/may locksets per instruction, guard matching across calls"
claim("C11", EFF + "; query: no write summarised for ResolveExecutable / AddEvent lands in a location reachable from the parsed request or in an object of a request AST type",
      "Decides, for every path of every function reachable from ResolveExecutable and AddEvent at once, that resolution writes nothing into the parsed request (read-only use of the AST) - the structural reason why repeated resolves equal fresh parses and the printed form is unchanged. Five genuine defects found by this rule were repaired (literal substitution in place, in-place coercion of literals and variable defaults, argument list reordering, subscription overwriting the field's container type). One reviewed exemption (write-once cache Field.ConType) is printed in the evidence.",
      TB)
claim("C12", EFF + "; queries: request-time writes/reads of schema-typed state vs. the guard table, Lock/Unlock pairing, lock-order graph",
      "Decides, for all interleavings at once, the lock discipline that makes concurrent requests race-free on library state: every request-time write to shared schema state is either into request-fresh memory or into one of four guarded fields with its mutex held on the same object (also when the writer is a callee and the holder a caller), every read of those fields holds the mutex, locks are released on all paths and ordered acyclically. The race fixed in fac9237 (regField) is guarded against regression. Isolation of responses is not decided.",
      TB + " Assumes Root values are created by NewRoot (init ran before the first request).")
claim("C19", "SSA structure rules on subscribe / Unsubscribe / AddEvent: who-may-write the registry, removal pattern inside descending induction loops, pairing of removal and clean-up callback, guards and operands of Send in the publish loop",
      "Decides the loop and pairing shape that the sequential delivery semantics depends on: registration appends, removals cannot skip elements, each removal has exactly one clean-up and there is no other clean-up, delivery is ascending, once per matching subscriber, with that subscriber's own selection, counted under the same guard, failures recorded exactly when Send fails, clean-up by identity. Outcomes over histories are not decided.",
      TB)
claim("C20", EFF + "; queries: every registry access and every Subscriber callback holds Root.subLock; pairing; lock order; two-phase clean-up re-check",
      "Decides for all interleavings that the registry and the subscriber callbacks are only touched under the one registry mutex, that the mutex is always released and never re-acquired, and that the clean-up phase re-validates identity inside its own critical section. Linearizability of outcomes is not decided.",
      TB)

claim("C14", EFF + "; queries on the load transaction: Root fields written vs. restored under err != nil, writes into possibly pre-existing schema objects vs. reference-replacement / idempotent exemptions, freshness of the duplicated tables",
      "Decides for every failure point at once (any error return of any function inside ParseReader / AddTypes) that everything the transaction writes into the Root itself is saved and restored under err != nil alone, that the tables it works on are fresh duplicates, and enumerates every write into an object that may pre-date the call. The Root.schema leak found this way was repaired (6576018); in-place merging of extend blocks (six Extend implementations) is a genuine defect that needs copy-on-extend and is listed as known finding per implementation.",
      TB)

claim("C17", "table agreement over the type-checked AST (constructor field-name sets vs. case-constant sets of every serving Resolve, frozen case->member table with member-type check), static types of list-valued results, effect analysis of the Resolve methods, AST polarity rule for the deprecation filter, SSA rule for __type null",
      "Decides for all schemas at once that every introspection field of every __ type is served by every Go type that can stand behind it, by the member it names, that list results stay inside the library's own list handling whatever resolver strategy the application uses, that introspection is read-only, and that deprecation filtering is uniform. Three genuine defects found by these rules were repaired (interfaces as []Type, wrapper description = kind, Interface ignoring includeDeprecated).",
      TB)

claim("C05", "phi-leaf provenance of every value leaving the type dispatcher / appended by the list resolver, guard analysis at every CoerceOut call site, range-guard analysis of narrowing conversions and finiteness of float results in output coercers, set comparison of kind/location constants with the built-in enums",
      "Decides that no raw resolver value can reach the response except through the declared type's output coercer (or as a recursively resolved object/list), that a failed coercion cannot leak its operand, that integer narrowing and float overflow/NaN cannot pass an output coercer silently, and that reported kinds/locations are enum members. Nine genuine defects found by these rules were repaired; four are pinned by existing tests and listed as known findings (raw object at depth exhaustion, accessor value kept with its error, VARIABLE_DEFINITION missing from __DirectiveLocation, Enum.CoerceOut accepting any string).",
      TB)
claim("C07", "constant-key and guard rules on the envelope builders (SSA), interval (finite-domain) reasoning over the rune in the string writer, provenance of non-constant strings written by the value writer, finiteness of float coercer results",
      "Decides the envelope shape (only data/errors, errors only with an error, error groups never empty, error entries only with the four allowed keys and always a message), and - for every code point at once - that no character that must be escaped can reach a raw write in the string writer and that the value writer never writes an unescaped non-constant string; together with C05.FINITE this is what valid JSON depends on structurally. Line/column arithmetic and decode-equality are not decided.",
      TB)
claim("C18", "interval reasoning over the rune (as C07.ESC), provenance of written strings (C07.RAW), set comparison of escape letters emitted by the writer vs. accepted by the reader, set comparison of dynamic types produced by the reader vs. handled by the writer",
      "Decides the agreement of the value writer's and reader's tables (escape letters, \\u width, value kinds) and the escaping discipline for every code point; the round trip itself and tight-mode separators are not decided.",
      TB)

for p in ["C03","C13","C15","C16","C18"]:
    na(p, "rules designed (DESIGN.md section 4) but not yet implemented in the checker at this commit; will be claimed once its rule set runs clean")
