TB = "Trusted: go/types, go/ssa, go/cfg, callgraph cha/vta (x/tools v0.29.0), the frozen tables printed in the evidence; application callbacks are opaque (assumed to terminate, not to re-enter Root, not to mutate library memory). Runtime values are not decided."

claim("C09", "SSA phi-closure monotonicity of the exclusion accumulator + dominance (control-dependence) rules on the selection walker",
      "Decides four structural necessary conditions of @skip/@include on every path of the directive evaluator and the selection walker: accumulator monotone (order independence), polarity per arm, every resolver-reaching dispatch gated by the evaluator's result for the same selection, operation variable map with defaults used. These are exactly the clauses the 2x6x6 combination space depends on; the directive semantics has no value-dependent part beyond them.",
      TB)

claim("C06", "path-prefix typestate (forward dataflow over the SSA CFG counting Errors.in applications per error source and kind) + who-may-prefix table + AST structure of the error adder",
      "Decides on every CFG path of the field resolver, list resolver and error adder that each error receives the response-key prefix exactly once per field level and the list-index prefix exactly once per element with the SSA value that indexed the source, that grouped errors are flattened member by member and Extensions carried, and that no other kind of path segment is added anywhere. Four genuine defects are listed as known findings (value kept next to its error in three resolver arms; 'fragment at L:C' path segment), all pinned by existing tests.",
      TB)

for p in ["C01","C02","C03","C04","C05","C07","C08","C10","C11","C12","C13","C14","C15","C16","C17","C18","C19","C20"]:
    na(p, "rules designed (DESIGN.md section 4) but not yet implemented in the checker at this commit; will be claimed once its rule set runs clean")
