import json,glob
bad=[]
for f in sorted(glob.glob('/verif/mutants/C*.json')):
    for m in json.load(open(f)):
        srcs={}
        for e in m['edits']:
            s=srcs.get(e['file']) or open('/repo/'+e['file']).read()
            n=s.count(e['old'])
            if n<1 or (not e.get('nth') and n!=1):
                bad.append((f[-8:],m['name'],'anchor count',n)); break
            if e.get('nth'):
                idx=-1; off=0
                for i in range(e['nth']):
                    idx=s.index(e['old'],off); off=idx+len(e['old'])
                s=s[:idx]+e['new']+s[idx+len(e['old']):]
            else:
                s=s.replace(e['old'],e['new'],1)
            srcs[e['file']]=s
print(bad)
