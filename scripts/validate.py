#!/opt/veriftools/pyvenv/bin/python
import json, sys, glob, jsonschema
jsonschema.validate(json.load(open('/verif/MANIFEST.json')), json.load(open('/root/.vp/MANIFEST.schema.json')))
es = json.load(open('/root/.vp/EVIDENCE.schema.json'))
n = 0
for f in sorted(glob.glob('/verif/evidence/C*.json')):
    jsonschema.validate(json.load(open(f)), es); n += 1
print("manifest ok; %d evidence files ok" % n)
