#!/usr/bin/env python3
"""Generates /verif/MANIFEST.json from the table below (one row per property)."""
import json, sys, os

ENV = "GOFLAGS=-mod=mod GOPROXY=off GOSUMDB=off GOTOOLCHAIN=local GOWORK=off"

# id -> (technique, level text, level note, design section)
CLAIMED = {}
NOT_APPLICABLE = {}

def claim(pid, technique, text, note):
    CLAIMED[pid] = (technique, text, note)

def na(pid, reason):
    NOT_APPLICABLE[pid] = reason

exec(open(os.path.join(os.path.dirname(__file__), 'manifest_table.py')).read())

props = [json.loads(l)['id'] for l in open('/verif/properties.jsonl')]
checks = []
for pid in props:
    if pid in CLAIMED:
        tech, text, note = CLAIMED[pid]
        checks.append({
            "property_id": pid,
            "quick_cmd": f"./bin/ggqlcheck -property {pid} -tier quick",
            "thorough_cmd": f"./bin/ggqlcheck -property {pid} -tier thorough",
            "evidence_file": f"/verif/evidence/{pid}.json",
            "replay_cmd_template": "./bin/ggqlcheck -explain {path}",
            "engine": "ggqlcheck",
            "level_claimed": {"category": "other", "text": text, "design_ref": f"DESIGN.md section 4/{pid}"},
            "level_note": note,
            "technique": tech,
        })
m = {
    "version": 1,
    "setup_cmd": f"cd checker && {ENV} go build -o ../bin/ggqlcheck .",
    "hooks": {
        "guard": "verif",
        "enable": "none needed: the checks are static analyses of /repo's sources; no instrumentation exists and no file in /repo carries the verif build tag",
        "baseline_off_cmd": "sh /verif/scripts/baseline.sh",
        "source_commits": [],
        "add_only": True,
    },
    "engines": [{
        "name": "ggqlcheck",
        "path": "checker/",
        "serves_properties": sorted(CLAIMED),
        "kind_free_text": "repository-specific static analyser (go/packages + go/types + go/ssa + go/cfg + CHA/VTA call graph, golang.org/x/tools v0.29.0); decides structural necessary conditions of each property on /repo's current sources; nothing in /repo is executed",
    }],
    "checks": checks,
    "not_applicable": [{"property_id": p, "reason": NOT_APPLICABLE[p]} for p in props if p not in CLAIMED],
    "notes": "Static analysis only. Every check re-loads and type-checks /repo's working tree, enumerates obligations (rule, construct) and reports file:line for each violated one. Level 'other' everywhere: the checks decide the structural clauses named in each evidence file's coverage.explanation, not the full behavioural property. known_findings.json lists genuine defects recorded rather than repaired and 'fixed:' entries for repaired ones. Positive controls (mutants/*.json) are applied through the loader's overlay and never written to /repo. A tree whose unexported names or whose division into helper functions differs from the tree the rules were confirmed on is read in a normal form before the rules run (reference names from reference_names.json; helpers inlined at their call sites, or a statement in the role of a missing function taken out into one - DESIGN.md 8.7); stdout then carries NORMAL-FORM lines and the evidence says what was read as what (coverage.reference_names, coverage.normal_form).",
}
missing = [p for p in props if p not in CLAIMED and p not in NOT_APPLICABLE]
if missing:
    sys.exit("properties without a row: %s" % missing)
json.dump(m, open('/verif/MANIFEST.json', 'w'), indent=1)
print("claimed", len(checks), "not_applicable", len(m["not_applicable"]))
