#!/bin/sh
# benign_import.sh Cnn : copies a sub-agent's behaviour-preserving refactorings from /tmp/seed-Cnn-out into
# /verif/benign/Cnn-X/, then confirms each in a throw-away worktree: the patch applies to HEAD, the tree builds,
# the pinned suite still passes, and the equivalence test passes on the untouched and on the changed tree.
export GOFLAGS=-mod=mod GOPROXY=off GOSUMDB=off GOTOOLCHAIN=local GOWORK=off
P=$1; O=/tmp/seed-$P-out; V=/verif
W=$(mktemp -d /tmp/confirm.XXXXXX); rmdir $W
git -C /repo worktree add --detach $W HEAD -q || exit 2
trap 'git -C /repo worktree remove --force $W; rm -rf $W' EXIT INT TERM
for X in A B C D E F G H; do
  [ -f $O/patch_$X.diff ] || continue
  d=$V/benign/$P-$X; mkdir -p $d
  cp $O/patch_$X.diff $d/patch.diff; cp $O/equiv_${X}_test.go $d/equiv_test.go 2>/dev/null; cp $O/meta_$X.json $d/meta.json
  pkgdir=pkg/ggql
  runs=$(grep -o "^func Test[A-Za-z0-9_]*" $d/equiv_test.go | sed 's/func //' | paste -sd'|')
  cp $d/equiv_test.go $W/$pkgdir/zz_equiv_test.go
  clean=$( cd $W/$pkgdir && timeout 600 go test -vet=off -count=1 -run "^($runs)\$" . >/dev/null 2>&1; echo $? )
  rm -f $W/$pkgdir/zz_equiv_test.go
  if ! git -C $W apply $d/patch.diff; then echo "$P-$X: patch does not apply"; continue; fi
  build=$( cd $W && go build ./... >/dev/null 2>&1; echo $? )
  suite=$( cd $W && go test -vet=off -count=1 ./... 2>&1 | grep -E "^--- FAIL" | grep -v "TestParseHTTP\|TestRootParseFSErr" | wc -l )
  cp $d/equiv_test.go $W/$pkgdir/zz_equiv_test.go
  changed=$( cd $W/$pkgdir && timeout 600 go test -vet=off -count=1 -run "^($runs)\$" . >/dev/null 2>&1; echo $? )
  rm -f $W/$pkgdir/zz_equiv_test.go
  git -C $W checkout -- . ; git -C $W clean -fdq
  python3 - "$d" "$clean" "$build" "$suite" "$changed" <<'PY'
import json,sys
d,clean,build,suite,changed=sys.argv[1:]
m=json.load(open(d+'/meta.json'))
m['confirmed']={'equiv_on_untouched_tree':'pass' if clean=='0' else 'FAIL','builds_with_change':build=='0','other_suite_failures_with_change':int(suite),'equiv_on_changed_tree':'pass' if changed=='0' else 'FAIL'}
json.dump(m,open(d+'/meta.json','w'),indent=1)
print(d.split('/')[-1],m['confirmed'])
PY
done
