#!/bin/sh
# Runs the registered quick checks of every property against one or more seeded changes
# (/verif/seeded/<id>/patch.diff): applies the patch to /repo, runs the checker with a scratch
# evidence directory, and undoes the patch straight afterwards. Never commits to /repo.
# usage: seeded_run.sh <id>...   (default: all)
export GOFLAGS=-mod=mod GOPROXY=off GOSUMDB=off GOTOOLCHAIN=local GOWORK=off
V=/verif
[ $# -eq 0 ] && set -- $(ls $V/seeded | sort)
if [ -n "$(git -C /repo status --porcelain)" ]; then echo "/repo is not clean" >&2; exit 2; fi
SV=$(mktemp -d /tmp/seeded-verif.XXXXXX)
ln -s $V/known_findings.json $SV/known_findings.json
ln -s $V/mutants $SV/mutants
trap 'git -C /repo checkout -- . ; rm -rf "$SV"' EXIT INT TERM
rc=0
for id in "$@"; do
  d=$V/seeded/$id
  [ -f $d/patch.diff ] || { echo "$id: no patch.diff"; rc=2; continue; }
  if ! git -C /repo apply $d/patch.diff 2>$SV/apply.err; then echo "$id: patch does not apply: $(head -1 $SV/apply.err)"; rc=2; continue; fi
  rm -rf $SV/evidence
  $V/bin/ggqlcheck -verif $SV -property all -tier quick -no-controls -list > $SV/out.txt 2>&1
  git -C /repo checkout -- .
  prop=$(python3 -c "import json;print(json.load(open('$d/meta.json'))['property'])")
  python3 - $SV/evidence/violations > $d/check_output.txt <<'PY'
import json,glob,sys
rows=[]
for f in sorted(glob.glob(sys.argv[1]+'/*.json')):
    v=json.load(open(f))
    rows.append("%-9s %-10s %-13s %s | %s | %s"%(v.get('status','violated'),v['property'],v['rule'],v['construct'],v.get('pos',''),(v.get('detail') or '')[:220]))
print("\n".join(sorted(rows)))
PY
  grep -v "^  " $SV/out.txt | grep -E "cannot|CONTROL|panic" | cut -c 1-300 >> $d/check_output.txt
  own=$(grep -c "^VIOLATION property=$prop " $SV/out.txt)
  others=$(grep "^VIOLATION property=" $SV/out.txt | grep -vc "^VIOLATION property=$prop ")
  und=$(grep -c "^undecided" $d/check_output.txt)
  if [ "$own" -gt 0 ]; then v=DETECTED; else v=MISSED; rc=1; fi
  echo "$id property=$prop $v own-rule-reports=$own other-property-reports=$others undecided=$und"
done
exit $rc
