#!/bin/sh
# Runs the registered quick checks of every property against seeded changes (/verif/seeded/<id>/patch.diff).
# Each change is applied to a scratch clone of /repo's HEAD (never to /repo itself, never committed anywhere),
# the checker is pointed at the clone with a scratch evidence directory, and the clone is reset afterwards.
# Several clones work in parallel. usage: seeded_run.sh [-j N] <id>...   (default: all, 4 jobs)
export GOFLAGS=-mod=mod GOPROXY=off GOSUMDB=off GOTOOLCHAIN=local GOWORK=off
V=/verif
J=4
if [ "$1" = "-j" ]; then J=$2; shift 2; fi
[ $# -eq 0 ] && set -- $(ls $V/seeded | grep -v README | sort)
TOP=$(mktemp -d /tmp/seeded-run.XXXXXX)
trap 'rm -rf "$TOP"' EXIT INT TERM
echo "$@" | tr ' ' '\n' > $TOP/ids
worker() {
  w=$1
  C=$TOP/clone$w; SV=$TOP/verif$w
  git clone -q /repo $C || exit 2
  mkdir -p $SV; ln -s $V/known_findings.json $SV/known_findings.json; ln -s $V/mutants $SV/mutants
  n=0
  while read id; do
    n=$((n+1)); [ $(( (n-1) % J )) -eq $w ] || continue
    d=$V/seeded/$id
    [ -f $d/patch.diff ] || { echo "$id: no patch.diff"; continue; }
    git -C $C checkout -q -- . ; git -C $C clean -fdq
    if ! git -C $C apply $d/patch.diff 2>$SV/apply.err; then echo "$id: patch does not apply: $(head -1 $SV/apply.err)"; continue; fi
    rm -rf $SV/evidence
    ${BIN:-$V/bin/ggqlcheck} -repo $C -verif $SV -property all -tier quick -no-controls -list > $SV/out.txt 2>&1
    prop=$(python3 -c "import json;print(json.load(open('$d/meta.json'))['property'])")
    python3 - $SV/evidence/violations $C > $d/check_output.txt <<'PY'
import json,glob,sys
rows=[]
for f in sorted(glob.glob(sys.argv[1]+'/*.json')):
    v=json.load(open(f))
    if 'rule' not in v: continue
    rows.append("%-9s %-10s %-13s %s | %s | %s"%(v.get('status','violated'),v['property'],v['rule'],v['construct'],v.get('pos',''),(v.get('detail') or '')[:220]))
print("\n".join(sorted(rows)))
PY
    grep -v "^  " $SV/out.txt | grep -E "cannot|CONTROL|panic" | cut -c 1-300 >> $d/check_output.txt
    own=$(grep -c "^VIOLATION property=$prop " $SV/out.txt)
    others=$(grep "^VIOLATION property=" $SV/out.txt | grep -vc "^VIOLATION property=$prop ")
    und=$(grep -c "^undecided" $d/check_output.txt)
    if [ "$own" -gt 0 ]; then v=DETECTED; else v=MISSED; fi
    echo "$id property=$prop $v own-rule-reports=$own other-property-reports=$others undecided=$und"
  done < $TOP/ids
}
w=0
while [ $w -lt $J ]; do worker $w > $TOP/out$w 2>&1 & w=$((w+1)); done
wait
cat $TOP/out* | sort
grep -c MISSED $TOP/out* >/dev/null 2>&1
exit 0
