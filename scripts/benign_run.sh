#!/bin/sh
# Runs the registered quick checks of every property against the behaviour-preserving refactorings under
# /verif/benign/<id>/patch.diff, each applied to a scratch clone of /repo's HEAD. A VIOLATION line here is a
# false alarm of the checker (or a refactoring that is not behaviour-preserving after all: triage).
# usage: benign_run.sh [-j N] <id>...
export GOFLAGS=-mod=mod GOPROXY=off GOSUMDB=off GOTOOLCHAIN=local GOWORK=off
V=/verif
J=4
if [ "$1" = "-j" ]; then J=$2; shift 2; fi
[ $# -eq 0 ] && set -- $(ls $V/benign | sort)
TOP=$(mktemp -d /tmp/benign-run.XXXXXX)
trap 'rm -rf "$TOP"' EXIT INT TERM
echo "$@" | tr ' ' '\n' > $TOP/ids
worker() {
  w=$1
  C=$TOP/clone$w; SV=$TOP/verif$w
  git clone -q /repo $C || exit 2
  mkdir -p $SV; ln -s $V/known_findings.json $SV/known_findings.json; ln -s $V/mutants $SV/mutants
  n=0
  while read id; do
    n=$((n+1)); [ $(( (n-1) % J )) -eq $w ] || continue
    d=$V/benign/$id
    git -C $C checkout -q -- . ; git -C $C clean -fdq
    if ! git -C $C apply $d/patch.diff 2>$SV/apply.err; then echo "$id: patch does not apply: $(head -1 $SV/apply.err)"; continue; fi
    rm -rf $SV/evidence
    ${BIN:-$V/bin/ggqlcheck} -repo $C -verif $SV -property all -tier quick -no-controls > $SV/out.txt 2>&1
    grep "^VIOLATED\|^UNDECIDED" $SV/out.txt | cut -c1-400 > $d/check_output.txt
    grep -E "cannot|panic" $SV/out.txt | cut -c1-300 >> $d/check_output.txt
    nv=$(grep -c "^VIOLATION " $SV/out.txt)
    if [ "$nv" -gt 0 ]; then echo "$id ALARM reports=$nv"; else echo "$id silent"; fi
  done < $TOP/ids
}
w=0
while [ $w -lt $J ]; do worker $w > $TOP/out$w 2>&1 & w=$((w+1)); done
wait
cat $TOP/out* | sort
exit 0
