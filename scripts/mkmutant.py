#!/usr/bin/env python3
"""Turn the uncommitted edits of a scratch clone of /repo into a mutant descriptor entry.
usage: mkmutant.py <clone> <property> <name> <mutant|benign> <rule> [quick]
Appends to /verif/mutants/<property>.json. Each changed region becomes one {file, old, new}
edit whose old text is extended with context lines until it is unique in the original file."""
import sys, json, subprocess, difflib, os
clone, prop, name, kind, rule = sys.argv[1:6]
quick = len(sys.argv) > 6
files = subprocess.check_output(['git','-C',clone,'diff','--name-only']).decode().split()
edits = []
for f in files:
    old = subprocess.check_output(['git','-C',clone,'show','HEAD:'+f]).decode().splitlines(keepends=True)
    new = open(os.path.join(clone,f)).read().splitlines(keepends=True)
    sm = difflib.SequenceMatcher(None, old, new, autojunk=False)
    ops = [o for o in sm.get_opcodes() if o[0] != 'equal']
    # merge regions closer than 6 lines
    merged = []
    for tag,i1,i2,j1,j2 in ops:
        if merged and i1 - merged[-1][1] < 6:
            merged[-1][1] = i2; merged[-1][3] = j2
        else:
            merged.append([i1,i2,j1,j2])
    otext = ''.join(old)
    for i1,i2,j1,j2 in merged:
        ctx = 1
        while True:
            a, b = max(0,i1-ctx), min(len(old), i2+ctx)
            o = ''.join(old[a:b])
            if otext.count(o) == 1 or (a == 0 and b == len(old)):
                break
            ctx += 1
        n = ''.join(old[a:i1]) + ''.join(new[j1:j2]) + ''.join(old[i2:b])
        edits.append({'file': f, 'old': o, 'new': n})
path = '/verif/mutants/%s.json' % prop
cur = json.load(open(path)) if os.path.exists(path) else []
cur = [m for m in cur if m['name'] != name]
e = {'name': name, 'kind': kind, 'rule': rule}
if quick: e['quick'] = True
e['edits'] = edits
cur.append(e)
with open(path,'w') as fh:
    fh.write('[\n' + ',\n'.join(' ' + json.dumps(m, ensure_ascii=False) for m in cur) + '\n]\n')
print('added', name, 'to', path, 'with', len(edits), 'edit(s)')
