#!/bin/sh
# Re-confirms every kept change against /repo's current HEAD in scratch clones (never /repo itself):
#   seeded/<id>: the patch applies, the tree builds, demo_test.go passes on the untouched tree and fails with the change;
#   benign/<id>: the patch applies, the tree builds, equiv_test.go passes on both.
# usage: reconfirm.sh [-j N] [seeded/<id>|benign/<id>]...
export GOFLAGS=-mod=mod GOPROXY=off GOSUMDB=off GOTOOLCHAIN=local GOWORK=off
V=/verif; J=6
if [ "$1" = "-j" ]; then J=$2; shift 2; fi
[ $# -eq 0 ] && set -- $(cd $V && ls -d seeded/C* benign/C*)
TOP=$(mktemp -d /tmp/reconfirm.XXXXXX)
trap 'rm -rf "$TOP"' EXIT INT TERM
echo "$@" | tr ' ' '\n' > $TOP/ids
worker() {
  w=$1; C=$TOP/clone$w
  git clone -q /repo $C || exit 2
  n=0
  while read id; do
    n=$((n+1)); [ $(( (n-1) % J )) -eq $w ] || continue
    d=$V/$id
    [ -f $d/patch.diff ] || continue
    case $id in seeded/*) t=$d/demo_test.go;; *) t=$d/equiv_test.go;; esac
    [ -f $t ] || { echo "$id no-test"; continue; }
    git -C $C checkout -q -- . ; git -C $C clean -fdq
    runs=$(grep -o "^func Test[A-Za-z0-9_]*" $t | sed 's/func //' | paste -sd'|')
    pk=pkg/ggql; grep -q "^package main" $t && pk=cmd/ggqlgen
    race=""; grep -q -- "-race" $d/meta.json $t 2>/dev/null && race="-race"
    cp $t $C/$pk/zz_confirm_test.go
    a=$( cd $C/$pk && timeout 900 go test $race -vet=off -count=1 -run "^($runs)\$" . >/dev/null 2>&1; echo $? )
    rm -f $C/$pk/zz_confirm_test.go
    if ! git -C $C apply $d/patch.diff 2>/dev/null; then echo "$id NOAPPLY"; continue; fi
    bld=$( cd $C && go build ./... >/dev/null 2>&1; echo $? )
    cp $t $C/$pk/zz_confirm_test.go
    b=$( cd $C/$pk && timeout 900 go test $race -vet=off -count=1 -run "^($runs)\$" . >/dev/null 2>&1; echo $? )
    rm -f $C/$pk/zz_confirm_test.go
    case $id in
      seeded/*) if [ $a = 0 ] && [ $bld = 0 ] && [ $b != 0 ]; then v=ok; else v=STALE; fi;;
      *) if [ $a = 0 ] && [ $bld = 0 ] && [ $b = 0 ]; then v=ok; else v=STALE; fi;;
    esac
    echo "$id $v untouched=$a build=$bld changed=$b"
  done < $TOP/ids
}
w=0
while [ $w -lt $J ]; do worker $w > $TOP/out$w 2>&1 & w=$((w+1)); done
wait
cat $TOP/out* | sort
