#!/bin/sh
# Runs the repository's pinned test suite (no build tags / guard off) and checks
# that every test listed as stable_pass in /root/.vp/BASELINE.json passes.
export GOFLAGS=-mod=mod GOPROXY=off GOSUMDB=off GOTOOLCHAIN=local
unset GOWORK
cd /repo || exit 2
go test -json -vet=off -count=1 -timeout 25m ./... > /tmp/ggql-baseline.$$.json 2>/dev/null
python3 - /tmp/ggql-baseline.$$.json <<'PY'
import json,sys
want=None
try:
    want=set(json.load(open('/root/.vp/BASELINE.json'))['stable_pass'])
except Exception as e:
    print('no BASELINE.json:',e)
passed=set(); failed=set()
for l in open(sys.argv[1]):
    try: e=json.loads(l)
    except: continue
    if e.get('Test') and e.get('Action') in('pass','fail'):
        (passed if e['Action']=='pass' else failed).add(e['Package']+'::'+e['Test'])
if want is None:
    print('passed',len(passed),'failed',len(failed)); sys.exit(0)
missing=sorted(want-passed)
print('baseline: %d/%d stable tests pass; other failures: %s'%(len(want&passed),len(want),sorted(failed-want)))
for m in missing[:10]: print("MISSING",m)
sys.exit(1 if missing else 0)
PY
rc=$?
rm -f /tmp/ggql-baseline.$$.json
exit $rc
