#!/bin/sh
# dev helper: apply seeded patch <id> to the scratch clone /tmp/ggql-dev, run the dev checker for the
# given properties (default: the seeded change's own), print non-discharged obligations, undo.
export GOFLAGS=-mod=mod GOPROXY=off GOSUMDB=off GOTOOLCHAIN=local GOWORK=off
id=$1; shift
D=/tmp/ggql-dev
BIN=${BIN:-/verif/bin/ggqlcheck.dev}
[ -d $D ] || git clone -q /repo $D
git -C $D checkout -q -- . ; git -C $D apply /verif/seeded/$id/patch.diff || exit 2
props="$@"; [ -z "$props" ] && props=$(python3 -c "import json;print(json.load(open('/verif/seeded/$id/meta.json'))['property'])")
mkdir -p /tmp/dev-verif; cp /verif/known_findings.json /tmp/dev-verif/; rm -rf /tmp/dev-verif/mutants; ln -s /verif/mutants /tmp/dev-verif/mutants
for p in $props; do $BIN -repo $D -verif /tmp/dev-verif -property $p -no-controls -list 2>&1 | grep -v "^  discharged\|^  known\|^KNOWN-FINDING\|^VIOLATION\|^VIOLATED\|^UNDECIDED" | cut -c1-330; done
git -C $D checkout -q -- .
