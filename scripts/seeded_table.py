#!/usr/bin/env python3
"""Regenerates the table of seeded changes in DESIGN.md (between the SEEDED-TABLE markers) from
/verif/seeded/*/meta.json and check_output.txt (written by scripts/seeded_run.sh)."""
import json, glob, os, re
rows = []
for d in sorted(glob.glob('/verif/seeded/*/')):
    sid = os.path.basename(d.rstrip('/'))
    m = json.load(open(d + 'meta.json'))
    prop = m['property']
    own, other = [], []
    p = d + 'check_output.txt'
    if os.path.exists(p):
        for l in open(p):
            mm = re.match(r'(violated|undecided)\s+(C\d\d)\s+(\S+)\s', l)
            if not mm: continue
            (own if mm.group(2) == prop else other).append(mm.group(3))
    def uniq(x):
        out = []
        for i in x:
            if i not in out: out.append(i)
        return out
    own, other = uniq(own), uniq(other)
    verdict = 'caught' if own else ('caught under another property only' if other else 'MISSED')
    if m.get('superseded'): verdict = 'superseded by a fix (see meta.json)'
    needs = m.get('trigger', '')
    needs = needs if len(needs) < 160 else needs[:157] + '...'
    rows.append('| %s | %s | %s | %s | %s |' % (sid, m.get('title', '').replace('|', '/'), ', '.join(own) or '-', ', '.join(other) or '-', verdict))
table = '| id | change | reported by (own property) | also reported under | verdict |\n|---|---|---|---|---|\n' + '\n'.join(rows) + '\n'
s = open('/verif/DESIGN.md').read()
a, b = '<!-- SEEDED-TABLE:BEGIN -->\n', '<!-- SEEDED-TABLE:END -->'
i, j = s.index(a) + len(a), s.index(b)
open('/verif/DESIGN.md', 'w').write(s[:i] + table + s[j:])
print(len(rows), 'rows;', sum('MISSED' in r for r in rows), 'missed')
