#!/usr/bin/env python3
"""kf.py add <property> <rule> <construct> <what> <witness>  |  kf.py fixed <text>"""
import json, sys
p='/verif/known_findings.json'
d=json.load(open(p))
if sys.argv[1]=='add':
    _,_,prop,rule,cons,what,wit=sys.argv
    d['findings']=[f for f in d['findings'] if not (f['property']==prop and f['rule']==rule and f['construct']==cons)]
    d['findings'].append({'property':prop,'rule':rule,'construct':cons,'what':what,'witness':wit})
    d['findings'].sort(key=lambda f:(f['property'],f['rule'],f['construct']))
elif sys.argv[1]=='fixed':
    if sys.argv[2] not in d['fixed']: d['fixed'].append(sys.argv[2])
json.dump(d,open(p,'w'),indent=1)
