#!/bin/sh
# seed_import.sh Cnn : copies a sub-agent's deliverables from /tmp/seed-Cnn-out into /verif/seeded/Cnn-X/,
# then confirms each change in a throw-away worktree: the patch applies to HEAD, the tree builds, the pinned
# suite still passes (apart from the two tests that fail offline on the untouched tree), and the
# demonstration passes on the untouched tree and fails on the changed one.
export GOFLAGS=-mod=mod GOPROXY=off GOSUMDB=off GOTOOLCHAIN=local GOWORK=off
P=$1; O=/tmp/seed-$P-out; V=/verif
W=$(mktemp -d /tmp/confirm.XXXXXX); rmdir $W
git -C /repo worktree add --detach $W HEAD -q || exit 2
trap 'git -C /repo worktree remove --force $W; rm -rf $W' EXIT INT TERM
for X in A B C D E F G H I J K L M N O P; do
  [ -f $O/patch_$X.diff ] || continue
  d=$V/seeded/$P-$X; mkdir -p $d
  cp $O/patch_$X.diff $d/patch.diff; cp $O/demo_${X}_test.go $d/demo_test.go 2>/dev/null; cp $O/demo_$X.log $d/demo.log 2>/dev/null; cp $O/meta_$X.json $d/meta.json
  pkgdir=pkg/ggql
  cp $d/demo_test.go $W/$pkgdir/zz_demo_test.go
  runs=$(grep -o "^func Test[A-Za-z0-9_]*" $d/demo_test.go | sed 's/func //' | paste -sd'|')
  clean=$( cd $W/$pkgdir && timeout 600 go test $SEED_RACE -vet=off -count=1 -run "^($runs)\$" . >/tmp/confirm.$$.clean 2>&1; echo $? )
  rm -f $W/$pkgdir/zz_demo_test.go
  if ! git -C $W apply $d/patch.diff; then echo "$P-$X: patch does not apply"; continue; fi
  build=$( cd $W && go build ./... >/dev/null 2>&1; echo $? )
  suite=$( cd $W && go test -vet=off -count=1 ./... 2>&1 | grep -E "^--- FAIL" | grep -v "TestParseHTTP\|TestRootParseFSErr" | wc -l )
  cp $d/demo_test.go $W/$pkgdir/zz_demo_test.go
  changed=$( cd $W/$pkgdir && timeout 600 go test $SEED_RACE -vet=off -count=1 -run "^($runs)\$" . >/tmp/confirm.$$.changed 2>&1; echo $? )
  rm -f $W/$pkgdir/zz_demo_test.go
  git -C $W checkout -- . ; git -C $W clean -fdq
  python3 - "$d" "$clean" "$build" "$suite" "$changed" /tmp/confirm.$$.changed <<'PY'
import json,sys
d,clean,build,suite,changed,log=sys.argv[1:]
m=json.load(open(d+'/meta.json'))
tail=[l.rstrip() for l in open(log,errors='replace').read().splitlines() if l.strip()][:12]
m['confirmed']={'demo_on_untouched_tree':'pass' if clean=='0' else 'FAIL(exit %s)'%clean,
 'builds_with_change':build=='0','other_suite_failures_with_change':int(suite),
 'demo_on_changed_tree':'fails' if changed!='0' else 'PASSES (change not demonstrated)','changed_tree_output_head':tail}
json.dump(m,open(d+'/meta.json','w'),indent=1)
print(d.split('/')[-1],'clean-demo:',m['confirmed']['demo_on_untouched_tree'],'build:',build=='0','suite-failures:',suite,'changed-demo:',m['confirmed']['demo_on_changed_tree'])
PY
  rm -f /tmp/confirm.$$.clean /tmp/confirm.$$.changed
done
