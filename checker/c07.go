package main

import (
	"fmt"
	"go/ast"
	"go/constant"
	"go/token"
	"go/types"
	"os"
	"sort"
	"strings"

	"golang.org/x/tools/go/ssa"
)

func init() {
	register("C07", checkC07,
		"Structural conditions for a well-formed envelope and valid JSON: (ENV) the envelope map built by ResolveReader / ResolveExecutable only ever receives the constant keys \"data\" and \"errors\" (the synthetic top-level field's alias is the constant \"data\") and \"errors\" is stored only under err != nil; (NONEMPTY) every conversion of an error slice to Errors that becomes a returned error is guarded by 0 < len(x), and FormErrorsResult appends one entry per member; (ERRKEYS) an error entry only has the keys message, locations, path, extensions and always has message; (PRE) resolution only after parse+validation succeeded; (ESC) in the string writer no code point of [0,0x20) or '\"' or '\\\\' can reach a raw byte write and every backslash escape it emits is a JSON escape - decided by interval reasoning over the rune; (RAW) in the value writer every non-constant string written goes through the escaping writer or comes from a numeric/time formatter; (NUM) floats that reach the writer from the output coercers are finite (C05.FINITE).",
		"That line/column are positive and lie on the offending token (arithmetic on the scanner's look-ahead position) and that decoding the JSON gives back the same structure (round trip over values).")
	register("C18", checkC18,
		"Structural conditions for the value text formats: (ESC) and (RAW) as for C07 - no must-escape code point reaches a raw write, non-constant strings go through the escaping writer; (TABLE) every escape letter the writer can emit is accepted by the reader's escape switch and the \\u form is written with exactly four hex digits; (KINDS) the writer's type switch has a case for every dynamic type the value reader can produce (string, Var, Symbol, int64, float64, bool, []interface{}, map[string]interface{}; nil is tested first).",
		"The round trip itself (print∘parse = id over all strings and numbers) and the tight-mode separator rules (case analysis over adjacent runtime values).")
}

func checkC07(c *Ctx, r *Report) {
	r.rule("C07.ENV", "envelope maps receive only the constant keys data / errors; errors only under err != nil; top-level field alias is the constant \"data\"")
	r.rule("C07.NONEMPTY", "[]error -> Errors conversions that become returned errors are guarded by 0 < len; FormErrorsResult appends per member")
	r.rule("C07.ERRKEYS", "formOneErrorResult writes only message / locations / path / extensions, message on every path")
	r.rule("C07.PRE", "ResolveExecutable only after ParseExecutableReader returned no error (shared with C10.PRE)")
	r.rule("C07.ESC", "string writer: reach set of every raw byte write is disjoint from [0,0x1f] ∪ {0x22,0x5c}; two-byte escapes only for {\",\\,/} or constant letters; \\u only for code points < 0x10000")
	r.rule("C07.RAW", "value writer: Write([]byte(s)) with non-constant s only for formatter output, or under sdl mode for map keys")
	r.rule("C07.NUM", "Float/Float64 output coercers return only finite floats")
	a := c.anchors()
	c07Env(c, r, a)
	c07NonEmpty(c, r)
	c07ErrKeys(c, r)
	if a.entry != nil {
		c10Pre(c, r, a, "C07.PRE")
	}
	escRule(c, r, "C07.ESC")
	rawRule(c, r, "C07.RAW")
	finiteRule(c, r, "C07.NUM")
	numFmtWriterRule(c, r, "C07.NUMFMT")
	sepRule(c, r, "C07.SEP", false)
	c07Line(c, r)
	c07Ahead(c, r)
	c07SubNil(c, r, a)
	if len(a.missing) == 0 {
		importRulesFrom(c, r, "C05", func(c *Ctx, sub *Report) { c05Leaf(c, sub, a) }, "C07.LISTLEAF", "every member of a list reaches the response through the output coercer of the element type or a recursive resolve (C05.LEAF, list part): the float coercers are the only place that turns NaN and the infinities into null plus an error - a member taken as it is is printed as the bare word NaN, which no JSON parser accepts", "C05.LEAF~list element")
	}
	c07FreshErr(c, r, a)
	c07Pool(c, r)
}

func constStr(v ssa.Value) (string, bool) {
	k, ok := v.(*ssa.Const)
	if !ok || k.Value == nil || k.Value.Kind() != constant.String {
		return "", false
	}
	return constant.StringVal(k.Value), true
}

func c07Env(c *Ctx, r *Report, a *Anchors) {
	rr := c.fn("(*Root).ResolveReader")
	if rr == nil || a.entry == nil {
		r.undecided("C07.ENV", "anchors ResolveReader / ResolveExecutable", token.NoPos, "not found")
		return
	}
	r.fnSeen(fnName(rr), fnName(a.entry))
	n := 0
	for _, b := range rr.Blocks {
		for _, in := range b.Instrs {
			mu, ok := in.(*ssa.MapUpdate)
			if !ok || !isStrIfaceMap(mu.Map.Type()) {
				continue
			}
			n++
			k, isC := constStr(mu.Key)
			okKey := isC && (k == "data" || k == "errors")
			r.check("C07.ENV", fmt.Sprintf("%s: envelope store #%d uses key data or errors", fnName(rr), n), mu.Pos(), okKey, "the response envelope may only hold \"data\" and \"errors\"; got key "+shortPath(vpath(mu.Key)))
			if k == "errors" {
				g := hasGuard(b, func(g guard) bool {
					v, eq, ok := nilCmp(g.cond)
					return ok && eq != g.val && isErrorType(v.Type())
				})
				r.check("C07.ENV", fmt.Sprintf("%s: envelope store #%d (errors) only when there is an error", fnName(rr), n), mu.Pos(), g, "\"errors\" must be stored only under err != nil (a non-empty list)")
			}
		}
	}
	r.floor("C07.ENV", "envelope stores in ResolveReader", n, 2)
	// the synthetic top-level field's alias
	okAlias := false
	var pos token.Pos
	for _, b := range a.entry.Blocks {
		for _, in := range b.Instrs {
			st, ok := in.(*ssa.Store)
			if !ok {
				continue
			}
			fa, ok := st.Addr.(*ssa.FieldAddr)
			if !ok {
				continue
			}
			if o, f := fieldOwner(fa.X.Type(), fa.Field); o == "Field" && f == "Alias" {
				if s, isC := constStr(st.Val); isC && s == "data" {
					okAlias = true
				}
				pos = st.Pos()
			}
		}
	}
	r.check("C07.ENV", fnName(a.entry)+": the synthetic top-level field is aliased \"data\"", firstPos(pos, a.entry.Pos()), okAlias, "the only key the resolution writes into the result map must be the constant \"data\"")
	// the result map handed to the field resolver is a fresh map and what is returned
	okRes := true
	for _, ci := range callsIn(a.entry) {
		if ci.Common().StaticCallee() != a.field {
			continue
		}
		found := false
		for _, arg := range ci.Common().Args {
			if _, isMM := arg.(*ssa.MakeMap); isMM {
				found = true
			}
		}
		if !found {
			okRes = false
		}
	}
	r.check("C07.ENV", fnName(a.entry)+": resolution writes into a map made for this response", a.entry.Pos(), okRes, "the field resolver must receive a fresh result map")
}

func c07NonEmpty(c *Ctx, r *Report) {
	n := 0
	for _, fn := range c.allFns {
		k := 0
		for _, b := range fn.Blocks {
			for _, in := range b.Instrs {
				ct, ok := in.(*ssa.ChangeType)
				if !ok || !c.isNamed(ct.Type(), "Errors") || !isErrSlice(ct.X.Type()) {
					continue
				}
				// becomes an error value?
				toErr := false
				for _, ref := range *ct.Referrers() {
					if mi, ok := ref.(*ssa.MakeInterface); ok && isErrorType(mi.Type()) {
						toErr = true
					}
				}
				if !toErr {
					continue
				}
				n++
				k++
				guarded := hasGuard(b, func(g guard) bool {
					v, op, kk, ok := intCmp(g.cond)
					if !ok {
						return false
					}
					x, isLen := isLenOf(v)
					if !isLen {
						return false
					}
					// the guarded slice must be (a version of) the converted one
					same := sameVal(x, ct.X)
					if !same {
						lx, _ := phiLeaves(x)
						ly, _ := phiLeaves(ct.X)
						for _, p := range lx {
							for _, q := range ly {
								if p.val == q.val {
									same = true
								}
							}
						}
					}
					if !same {
						return false
					}
					if !g.val {
						op = negOp(op)
					}
					return (op == token.GTR && kk == 0) || (op == token.NEQ && kk == 0) || (op == token.GEQ && kk == 1)
				})
				r.check("C07.NONEMPTY", fmt.Sprintf("%s: error group #%d is built only from a non-empty slice", fnName(fn), k), ct.Pos(), guarded, "an empty Errors value returned as error makes the response carry \"errors\": [] (or a non-nil error without entries)")
			}
		}
	}
	r.floor("C07.NONEMPTY", "conversions []error -> Errors that become returned errors", n, 4)
	// FormErrorsResult
	fer := c.fn("FormErrorsResult")
	if fer == nil {
		r.undecided("C07.NONEMPTY", "anchor FormErrorsResult", token.NoPos, "not found")
		return
	}
	r.fnSeen("FormErrorsResult")
	loops := loopsOf(fer)
	inLoopAppend, plainAppend := false, false
	for _, ci := range callsIn(fer) {
		if !isBuiltinCall(ci, "append") {
			continue
		}
		if innermostLoop(loops, ci.Block()) != nil {
			inLoopAppend = true
		} else {
			plainAppend = true
		}
	}
	if !inLoopAppend {
		// the group arm written as a fill by index: eList := make([]interface{}, len(ea)); eList[i] = entry(ea[i])
		for _, b := range fer.Blocks {
			if innermostLoop(loops, b) == nil {
				continue
			}
			for _, in := range b.Instrs {
				st, ok := in.(*ssa.Store)
				if !ok {
					continue
				}
				ia, ok := st.Addr.(*ssa.IndexAddr)
				if !ok {
					continue
				}
				ms, ok := ia.X.(*ssa.MakeSlice)
				if !ok {
					continue
				}
				if _, isC := ia.Index.(*ssa.Const); isC {
					continue
				}
				// as long as the group: the length of the list is the length of the group
				if inner, isLen := isLenOf(ms.Len); isLen && isErrSlice(inner.Type()) || isLen && c.isNamed(inner.Type(), "Errors") {
					inLoopAppend = true
				}
			}
		}
	}
	if !plainAppend {
		// the single-error arm written as a literal: return []interface{}{one entry}
		for _, rt := range returnsOf(fer) {
			for _, res := range rt.Results {
				ls, _ := phiLeaves(res)
				for _, lf := range ls {
					if elems, ok := sliceLitElems(lf.val); ok && len(elems) >= 1 {
						plainAppend = true
					}
				}
			}
		}
	}
	r.check("C07.NONEMPTY", "FormErrorsResult: one entry per member of a group, one entry otherwise", fer.Pos(), inLoopAppend && plainAppend, "both arms must append")
}

func c07ErrKeys(c *Ctx, r *Report) {
	fn := c.fn("formOneErrorResult")
	if fn == nil {
		r.undecided("C07.ERRKEYS", "anchor formOneErrorResult", token.NoPos, "not found")
		return
	}
	r.fnSeen("formOneErrorResult")
	allowed := map[string]bool{"message": true, "locations": true, "path": true, "extensions": true}
	msgBlocks := map[*ssa.BasicBlock]bool{}
	n := 0
	for _, b := range fn.Blocks {
		for _, in := range b.Instrs {
			mu, ok := in.(*ssa.MapUpdate)
			if !ok {
				continue
			}
			k, isC := constStr(mu.Key)
			if mt, ok := mu.Map.Type().Underlying().(*types.Map); ok {
				if _, isIface := mt.Elem().Underlying().(*types.Interface); !isIface {
					continue
				}
			}
			// nested location map has its own keys
			if isC && (k == "line" || k == "column") {
				continue
			}
			n++
			r.check("C07.ERRKEYS", fmt.Sprintf("formOneErrorResult: key %q is an allowed error key", k), mu.Pos(), isC && allowed[k], "an error entry may only have message, locations, path, extensions")
			if k == "message" {
				msgBlocks[b] = true
			}
		}
	}
	// every path to a return passes a message store
	okAll := true
	for _, rt := range returnsOf(fn) {
		seen := map[*ssa.BasicBlock]bool{}
		var reach func(b *ssa.BasicBlock) bool
		reach = func(b *ssa.BasicBlock) bool {
			if msgBlocks[b] || seen[b] {
				return false
			}
			seen[b] = true
			if b == rt.Block() {
				return true
			}
			for _, s := range b.Succs {
				if reach(s) {
					return true
				}
			}
			return false
		}
		if reach(fn.Blocks[0]) {
			okAll = false
		}
	}
	r.check("C07.ERRKEYS", "formOneErrorResult: message is set on every path", fn.Pos(), okAll && len(msgBlocks) > 0, "an error entry without message")
	r.floor("C07.ERRKEYS", "error entry stores", n, 4)
}

// ---- ESC ---------------------------------------------------------------------------

var mustEscape = iset{{0, 0x1f}, {0x22, 0x22}, {0x5c, 0x5c}}

func escRule(c *Ctx, r *Report, rule string) {
	fn := c.fn("writeString")
	if fn == nil {
		r.undecided(rule, "anchor writeString", token.NoPos, "not found")
		return
	}
	r.fnSeen("writeString")
	// the rune: value of a range over the string parameter
	var rn ssa.Value
	for _, b := range fn.Blocks {
		for _, in := range b.Instrs {
			if ex, ok := in.(*ssa.Extract); ok && ex.Index == 2 {
				if nx, ok := ex.Tuple.(*ssa.Next); ok && nx.IsString {
					rn = ex
				}
			}
		}
	}
	if rn == nil {
		r.undecided(rule, "writeString: rune loop", fn.Pos(), "no range over the string found")
		return
	}
	loops := loopsOf(fn)
	nRaw, nEsc := 0, 0
	writes := runeWrites(c, fn, rn)
	for _, w := range writes {
		call, elems, known, rs := w.call, w.elems, w.known, w.rs
		if !known {
			// bytes produced by a library encoder (utf8.EncodeRune): raw bytes of the code point
			nRaw++
			bad := rs.intersect(mustEscape)
			r.check(rule, fmt.Sprintf("writeString: encoded write #%d never carries a must-escape code point", nRaw), call.Pos(), len(bad) == 0, fmt.Sprintf("code points %s reach an unescaped write (reach set %s)", bad, rs))
			continue
		}
		if len(elems) == 0 {
			continue
		}
		first, isC := elems[0].(*ssa.Const)
		if isC && first.Int64() == '\\' {
			nEsc++
			// escape sequence
			if len(elems) == 2 {
				if k, ok := elems[1].(*ssa.Const); ok {
					// constant letter: must be a JSON escape letter, written for the code point it stands for
					okL := strings.ContainsRune("bfnrt\"\\/", rune(k.Int64()))
					r.check(rule, fmt.Sprintf("writeString: escape \\%c is a JSON escape", rune(k.Int64())), call.Pos(), okL, "not a JSON escape letter")
					if cp, isE := jsonEscapeOf[rune(k.Int64())]; isE {
						only := len(rs) == 0 || (len(rs) == 1 && rs[0].lo == cp && rs[0].hi == cp)
						r.check(rule, fmt.Sprintf("writeString: escape \\%c is written for the code point it stands for", rune(k.Int64())), call.Pos(), only, fmt.Sprintf("the escape stands for %#x and is written for %s: the string reads back as another string", cp, rs))
					}
				} else if g, isT := tableIndexed(elems[1], rn); isT {
					// the letter is looked up in a table: every entry reachable here is the escape letter of its index
					ents, okT := tableOf(g)
					okAll := okT
					bad := ""
					for _, iv := range rs {
						for cp := iv.lo; cp <= iv.hi && cp < 1<<16 && okAll; cp++ {
							letter := ents[cp]
							if want, isE := jsonEscapeOf[rune(letter)]; !isE || want != cp {
								okAll = false
								bad = fmt.Sprintf("code point %#x is written as \\%c", cp, rune(letter))
							}
						}
					}
					r.check(rule, "writeString: table of short escapes maps each code point to the JSON escape that stands for it", call.Pos(), okAll, bad)
				} else {
					// \ + byte(r): only for code points that are their own escape letter
					okS := len(rs.intersect(iset{{0, 0x21}, {0x23, 0x2e}, {0x30, 0x5b}, {0x5d, 0x10FFFF}})) == 0
					r.check(rule, "writeString: backslash + the character itself only for \" \\ /", call.Pos(), okS, fmt.Sprintf("reach set %s contains characters that are not their own escape", rs))
				}
			} else if len(elems) == 6 {
				k, ok := elems[1].(*ssa.Const)
				okU := ok && k.Int64() == 'u' && len(rs.intersect(iset{{0x10000, 0x10FFFF}})) == 0
				// digits written as constants stand for zero: the code points must fit the remaining digits
				for i, lim := range []int64{0xfff, 0xff} {
					if d, isD := elems[2+i].(*ssa.Const); isD {
						if d.Int64() != '0' || len(rs.intersect(iset{{lim + 1, 0x10FFFF}})) > 0 {
							okU = false
						}
					}
				}
				r.check(rule, "writeString: \\u escape has four hex digits and covers the code point", call.Pos(), okU, fmt.Sprintf("reach set %s", rs))
			} else {
				r.flag(rule, fmt.Sprintf("writeString: escape of %d bytes", len(elems)), call.Pos(), "unknown escape form")
			}
			continue
		}
		// raw write of byte(r) or constants
		nRaw++
		nonConst := false
		for _, e := range elems {
			if _, ok := e.(*ssa.Const); !ok {
				nonConst = true
			}
		}
		if !nonConst {
			continue
		}
		bad := rs.intersect(mustEscape)
		r.check(rule, fmt.Sprintf("writeString: raw write #%d never carries a must-escape code point", nRaw), call.Pos(), len(bad) == 0, fmt.Sprintf("code points %s reach an unescaped byte write (reach set %s): invalid JSON / SDL string", bad, rs))
	}
	// writes outside the per-character loop that carry the string itself (a fast path): allowed only
	// under a plainness predicate proven, character class by character class, to reject every
	// must-escape code point
	nWhole := 0
	for _, b := range fn.Blocks {
		if innermostLoop(loops, b) != nil {
			continue
		}
		for _, in := range b.Instrs {
			call, ok := in.(*ssa.Call)
			if !ok || !call.Call.IsInvoke() || call.Call.Method.Name() != "Write" || len(call.Call.Args) != 1 {
				continue
			}
			if elems, known := sliceLitElems(call.Call.Args[0]); known {
				allC := true
				for _, e := range elems {
					if _, isC := e.(*ssa.Const); !isC {
						allC = false
					}
				}
				if allC {
					continue
				}
			}
			if cv, ok := call.Call.Args[0].(*ssa.Convert); ok {
				if _, isC := cv.X.(*ssa.Const); isC {
					continue
				}
			}
			nWhole++
			okG, why := false, "the string (or a part of it) is written as it is, outside the per-character escaping loop, with no plainness test"
			for _, g := range blockGuards(b) {
				g = normGuard(g)
				pc, isCall := g.cond.(*ssa.Call)
				if !isCall || !g.val {
					continue
				}
				pf := pc.Call.StaticCallee()
				if pf == nil || !c.inPkg(pf) {
					continue
				}
				if okP, whyP := plainPredicate(c, pf); okP {
					okG = true
				} else {
					why = fmt.Sprintf("written as it is under %s(), which does not exclude every must-escape code point: %s", pf.Name(), whyP)
				}
			}
			r.check(rule, fmt.Sprintf("writeString: whole-string write #%d only for strings proven free of must-escape code points", nWhole), call.Pos(), okG, why+": a backslash, quote or control character reaches the output unescaped (invalid JSON / SDL string, or a different string when read back)")
		}
	}
	r.floor(rule, "escape writes in the string writer", nEsc, 2) // the short escapes (one arm each, or one table) and the \\u form; that every must-escape code point has one is decided below
	r.floor(rule, "raw writes in the string writer", nRaw, 2)
	// every must-escape code point is handled by some escape: the union of reach sets of escape writes covers mustEscape
	cover := iset{}
	for _, w := range writes {
		if !w.known || len(w.elems) == 0 {
			continue
		}
		if first, isC := w.elems[0].(*ssa.Const); isC && first.Int64() == '\\' {
			cover = append(cover, w.rs...)
		}
	}
	cover = cover.norm()
	missing := false
	for _, m := range mustEscape {
		if len(iset{m}.intersect(cover)) == 0 {
			missing = true
		}
	}
	// cover ⊇ mustEscape: mustEscape \ cover = ∅
	rest := mustEscape
	for _, cv := range cover {
		var nr iset
		for _, m := range rest {
			if m.lo < cv.lo {
				nr = append(nr, ival{m.lo, min64(m.hi, cv.lo-1)})
			}
			if m.hi > cv.hi {
				nr = append(nr, ival{max64(m.lo, cv.hi+1), m.hi})
			}
		}
		rest = nr.norm()
	}
	r.check(rule, "writeString: every must-escape code point has an escape", fn.Pos(), len(rest) == 0 && !missing, fmt.Sprintf("code points %s have no escape arm", rest))
}

// plainPredicate: pf(s string) bool scans every byte / code point of s and can complete an
// iteration (not answer false) only for values outside the must-escape set; it answers true only
// after the scan.
func plainPredicate(c *Ctx, pf *ssa.Function) (bool, string) {
	if len(pf.Params) != 1 || pf.Signature.Results().Len() != 1 {
		return false, "not a predicate over one string"
	}
	loops := loopsOf(pf)
	if len(loops) != 1 {
		return false, "expected exactly one scanning loop"
	}
	l := loops[0]
	var val ssa.Value
	uni := ival{0, 255}
	full := false
	for b := range l.body {
		for _, in := range b.Instrs {
			switch t := in.(type) {
			case *ssa.Lookup, *ssa.Index:
				var x, idx ssa.Value
				if lk, ok := t.(*ssa.Lookup); ok {
					x, idx = lk.X, lk.Index
				} else {
					x, idx = t.(*ssa.Index).X, t.(*ssa.Index).Index
				}
				if x == ssa.Value(pf.Params[0]) {
					if ind := loopInduction(l); ind.ok && idx == ssa.Value(ind.phi) {
						if lx, isLen := isLenOf(ind.length); isLen && lx == ssa.Value(pf.Params[0]) {
							val, full = t.(ssa.Value), true
						}
					}
				}
			case *ssa.Extract:
				if nx, ok := t.Tuple.(*ssa.Next); ok && nx.IsString && t.Index == 2 {
					if rg, ok := nx.Iter.(*ssa.Range); ok && rg.X == ssa.Value(pf.Params[0]) {
						val, full, uni = t, true, ival{0, 0x10FFFF}
					}
				}
			}
		}
	}
	if val == nil || !full {
		return false, "the loop does not visit every byte (or code point) of the string from 0 to its length"
	}
	for _, rt := range returnsOf(pf) {
		k, isC := rt.Results[0].(*ssa.Const)
		isFalse := isC && k.Value != nil && k.Value.String() == "false"
		if !isFalse && l.body[rt.Block()] {
			return false, "an answer other than false is given before the scan is complete"
		}
	}
	for _, lt := range l.latches {
		rs := reachSet(lt, val, uni)
		if bad := rs.intersect(mustEscape); len(bad) > 0 {
			return false, fmt.Sprintf("the scan steps over code points %s without answering false", bad)
		}
	}
	return true, ""
}

func min64(a, b int64) int64 {
	if a < b {
		return a
	}
	return b
}
func max64(a, b int64) int64 {
	if a > b {
		return a
	}
	return b
}

// sliceLitElems: v is slice(alloc [n]byte) with each element stored once: returns the stored values.
func sliceLitElems(v ssa.Value) ([]ssa.Value, bool) {
	sl, ok := v.(*ssa.Slice)
	if !ok {
		return nil, false
	}
	al, ok := sl.X.(*ssa.Alloc)
	if !ok {
		return nil, false
	}
	arr, ok := al.Type().(*types.Pointer).Elem().Underlying().(*types.Array)
	if !ok {
		return nil, false
	}
	out := make([]ssa.Value, arr.Len())
	for _, ref := range *al.Referrers() {
		ia, ok := ref.(*ssa.IndexAddr)
		if !ok {
			continue
		}
		k, ok := ia.Index.(*ssa.Const)
		if !ok {
			return nil, false
		}
		for _, r2 := range *ia.Referrers() {
			if st, ok := r2.(*ssa.Store); ok {
				out[k.Int64()] = st.Val
			}
		}
	}
	for _, e := range out {
		if e == nil {
			return nil, false
		}
	}
	return out, true
}

// ---- RAW --------------------------------------------------------------------------

func rawRule(c *Ctx, r *Report, rule string) {
	n := 0
	for _, name := range []string{"writeValue", "writeMap", "writeMap$1"} {
		fn := c.fn(name)
		if fn == nil {
			continue
		}
		r.fnSeen(name)
		k, kb := 0, 0
		for _, ci := range callsIn(fn) {
			call, ok := ci.(*ssa.Call)
			if !ok || !call.Call.IsInvoke() || call.Call.Method.Name() != "Write" || len(call.Call.Args) != 1 {
				continue
			}
			cv, ok := call.Call.Args[0].(*ssa.Convert)
			if !ok {
				// a slice assembled elsewhere: layout (constant bytes, repeated spaces) needs no obligation; anything
				// else that entered the slice must be formatter output or, in SDL mode, a name
				srcs := byteSources(c, call.Call.Args[0])
				bad, any := "", false
				for _, sc := range srcs {
					switch sc.kind {
					case bsLayout:
					case bsNumFmt:
						any = true
					case bsRawStr:
						any = true
						if sc.at == nil || sc.at.Block() == nil || !sdlGuarded(sc.at.Block()) {
							bad = "the bytes of " + sc.desc + " as they are"
						}
					default:
						any = true
						bad = "the output of " + sc.desc
					}
				}
				if any {
					n++
					kb++
					r.check(rule, fmt.Sprintf("%s: assembled buffer write #%d holds layout, formatter output or an SDL name only", name, kb), call.Pos(), bad == "",
						"the buffer can hold "+bad+": not the JSON escaping of the string (strconv quoting is Go syntax: \\x00, \\a, \\v and \\U escapes are not JSON), so some key or string breaks the document")
				}
				continue
			}
			if _, isC := cv.X.(*ssa.Const); isC {
				continue
			}
			n++
			k++
			src := cv.X
			okSrc := false
			desc := shortPath(vpath(src))
			if sc, ok := src.(*ssa.Call); ok {
				if f := calleeObj(sc); f != nil && f.Pkg() != nil {
					switch f.Pkg().Path() + "." + f.Name() {
					case "strconv.FormatInt", "strconv.FormatUint", "strconv.FormatFloat", "strconv.Itoa", "time.Format", "strconv.FormatBool":
						okSrc = true
					}
					desc = f.Pkg().Path() + "." + f.Name()
				}
			}
			if !okSrc {
				// allowed only in SDL mode (names): guarded by sdl == true
				okSrc = sdlGuarded(call.Block())
			}
			r.check(rule, fmt.Sprintf("%s: string write #%d (%s) is escaped or formatter output", name, k, desc), call.Pos(), okSrc,
				"a non-constant string is written between quotes without passing the escaping writer: a quote, backslash or control character in it breaks the JSON")
		}
	}
	r.floor(rule, "non-constant string writes in the value writer", n, 6)
	// a string of the value handed, together with the writer, to any printing helper other than the escaping
	// writer: the helper's layout (block strings with added indentation, raw text) is not what the value reader
	// reads back
	ws := c.fn("writeString")
	for _, name := range []string{"writeValue", "writeMap", "writeMap$1"} {
		fn := c.fn(name)
		if fn == nil {
			continue
		}
		k := 0
		for _, ci := range callsIn(fn) {
			cal := ci.Common().StaticCallee()
			if cal == nil || !c.inPkg(cal) || cal == ws || cal.Name() == "writeValue" || cal.Name() == "writeMap" {
				continue
			}
			hasW, strArg := false, ssa.Value(nil)
			for _, a := range ci.Common().Args {
				if n, ok := a.Type().(*types.Named); ok && n.Obj().Name() == "Writer" {
					hasW = true
				}
				if bt, ok := a.Type().Underlying().(*types.Basic); ok && bt.Info()&types.IsString != 0 {
					if _, isC := a.(*ssa.Const); isC {
						continue
					}
					// the text of a number, a boolean or a time made by a formatter is not a string of the value
					if fc, isCall := a.(*ssa.Call); isCall {
						if f := calleeObj(fc); f != nil && f.Pkg() != nil && numericFormatters[f.Pkg().Name()+"."+f.Name()] {
							continue
						}
					}
					strArg = a
				}
			}
			if !hasW || strArg == nil {
				continue
			}
			k++
			r.flag(rule, fmt.Sprintf("%s: string handed to printing helper #%d (%s) goes through the escaping writer", name, k, cal.Name()), ci.Pos(),
				"a string of the value is written by "+cal.Name()+" instead of the escaping string writer: whatever layout that helper produces (a block string with indentation added, raw text) is read back verbatim by the value reader, so the round trip changes the string")
		}
	}
}

// sdlGuarded: the block is reached only with the sdl flag (parameter, or the closure's captured copy) set.
func sdlGuarded(b *ssa.BasicBlock) bool {
	return hasGuard(b, func(g guard) bool {
		p := spilledParam(g.cond)
		if p == nil {
			if fv, ok := g.cond.(*ssa.UnOp); ok {
				if f, ok := fv.X.(*ssa.FreeVar); ok && f.Name() == "sdl" {
					return g.val
				}
			}
			return false
		}
		return p.Name() == "sdl" && g.val
	})
}

// ---- FINITE -----------------------------------------------------------------------

func finiteRule(c *Ctx, r *Report, rule string) {
	n := 0
	var fns []*ssa.Function
	for _, name := range []string{"(*floatScalar).CoerceOut", "(*float64Scalar).CoerceOut"} {
		fn := c.fn(name)
		if fn == nil {
			r.undecided(rule, "anchor "+name, token.NoPos, "not found")
			continue
		}
		seen := map[*ssa.Function]bool{fn: true}
		fns = append(fns, fn)
		for _, ci := range callsIn(fn) {
			if cal := ci.Common().StaticCallee(); cal != nil && c.inPkg(cal) && !seen[cal] {
				seen[cal] = true
				fns = append(fns, cal)
			}
		}
	}
	for _, fn := range fns {
		name := fnName(fn)
		r.fnSeen(name)
		// every float-typed value that is boxed into the result must be bounded from both sides
		// (NaN fails both comparisons) or come from an integer
		k := 0
		for _, b := range fn.Blocks {
			for _, in := range b.Instrs {
				mi, ok := in.(*ssa.MakeInterface)
				if !ok {
					continue
				}
				bt, ok := mi.X.Type().Underlying().(*types.Basic)
				if !ok || bt.Info()&types.IsFloat == 0 {
					continue
				}
				if !flowsToResult(fn, mi) {
					continue // e.g. boxed for an error message
				}
				// source float variable
				src := mi.X
				if cv, ok := src.(*ssa.Convert); ok {
					src = cv.X
				}
				sb, ok := src.Type().Underlying().(*types.Basic)
				if !ok || sb.Info()&types.IsFloat == 0 {
					continue // from an integer: finite
				}
				n++
				k++
				lo, up := boundsOn(b, src)
				// or an explicit IsNaN/IsInf test
				mathGuard := func(fname string) bool {
					return hasGuard(b, func(g guard) bool {
						call, ok := g.cond.(*ssa.Call)
						if !ok || g.val {
							return false
						}
						f := calleeObj(call)
						return f != nil && f.Pkg() != nil && f.Pkg().Path() == "math" && f.Name() == fname
					})
				}
				explicit := mathGuard("IsInf") && mathGuard("IsNaN")
				r.check(rule, fmt.Sprintf("%s: float result #%d (%s) is finite", name, k, typeStr(src.Type())), mi.Pos(), (lo && up) || explicit,
					"a float is returned without a range / finiteness test: NaN or ±Inf (or a float64 beyond float32) reaches the JSON writer, which prints NaN / +Inf")
			}
		}
	}
	// pass-through arms: the parameter itself returned while its dynamic type is a float
	for _, fn := range fns {
		if fn.Name() != "CoerceOut" {
			continue
		}
		var vP *ssa.Parameter
		for _, p := range fn.Params {
			if it, ok := p.Type().Underlying().(*types.Interface); ok && it.NumMethods() == 0 {
				vP = p
			}
		}
		for _, rt := range returnsOf(fn) {
			ls, _ := phiLeaves(rt.Results[0])
			for _, l := range ls {
				if l.val != ssa.Value(vP) || l.pred == nil {
					continue
				}
				for _, g := range edgeGuards(l.pred, l.phi.Block()) {
					if f, ok := assertFactOf(g); ok && f.holds && f.x == ssa.Value(vP) {
						if bt, ok := f.t.Underlying().(*types.Basic); ok && bt.Info()&types.IsFloat != 0 {
							n++
							r.flag(rule, fmt.Sprintf("%s: %s value passed through unchanged is finite", fnName(fn), typeStr(f.t)), rt.Pos(),
								"the arm for this float type returns its argument as is: NaN and infinities pass through")
						}
					}
				}
			}
		}
	}
	r.floor(rule, "float-valued results of the Float output coercers", n, 2)
}

// ---- C18 --------------------------------------------------------------------------

func checkC18(c *Ctx, r *Report) {
	r.rule("C18.ESC", "as C07.ESC")
	r.rule("C18.RAW", "as C07.RAW")
	r.rule("C18.TABLE", "escape letters emitted by the writer ⊆ letters accepted by the reader; \\u emitted with four hex digits and read with four")
	r.rule("C18.KINDS", "dynamic types produced by the value reader ⊆ types handled by the writer's type switch")
	escRule(c, r, "C18.ESC")
	rawRule(c, r, "C18.RAW")
	c18Num(c, r)
	c18RawAccept(c, r)
	c18UAccept(c, r)
	c18NumLen(c, r)
	sepRule(c, r, "C18.SEP", true)
	sepRule(c, r, "C18.SEPJ", false)
	r.rule("C18.NEST", "every nest() of the reader is matched by unnest() (call or defer) on every path to a successful return of the calling function")
	nestPairRule(c, r, "C18.NEST")
	c18Literals(c, r)
	ws := c.fn("writeString")
	re := c.fn("(*parser).readEscaped")
	rv := c.fn("(*parser).readValue")
	wv := c.fn("writeValue")
	if ws == nil || re == nil || rv == nil || wv == nil {
		r.undecided("C18.TABLE", "anchors writeString / readEscaped / readValue / writeValue", token.NoPos, "not found")
		return
	}
	r.fnSeen(fnName(ws), fnName(re), fnName(rv), fnName(wv))
	// letters accepted by the reader: constants compared with the byte read in readEscaped
	accepted := map[rune]bool{}
	// the byte following the backslash: result 0 of the first read in the entry block
	var firstByte ssa.Value
	for _, in := range re.Blocks[0].Instrs {
		if call, ok := in.(*ssa.Call); ok && firstByte == nil {
			if ex := extractOf(call, 0); ex != nil {
				firstByte = ex
			}
		}
	}
	for _, b := range re.Blocks {
		for _, in := range b.Instrs {
			bo, ok := in.(*ssa.BinOp)
			if !ok || (bo.Op != token.EQL && bo.Op != token.NEQ) || bo.X != firstByte {
				continue // (a test for inequality singles the letter out just the same: the other branch is its arm)
			}
			if k, ok := bo.Y.(*ssa.Const); ok && k.Value != nil && k.Value.Kind() == constant.Int {
				if bt, ok := bo.X.Type().Underlying().(*types.Basic); ok && bt.Kind() == types.Uint8 {
					// only comparisons of the first byte after the backslash: those that decide a return of a rune
					accepted[rune(k.Int64())] = true
				}
			}
		}
	}
	// letters accepted through a table: a package-level array indexed with the byte after the backslash
	// (declared with a literal, written nowhere else): the indices that hold a non-zero entry
	for _, b := range re.Blocks {
		for _, in := range b.Instrs {
			ia, ok := in.(*ssa.IndexAddr)
			if !ok {
				continue
			}
			g, ok := ia.X.(*ssa.Global)
			if !ok {
				continue
			}
			idx := ia.Index
			if cv, ok := idx.(*ssa.Convert); ok {
				idx = cv.X
			}
			if idx != firstByte {
				continue
			}
			if ents, ok := c.globalArrayLit(g); ok {
				for k, v := range ents {
					if v.Kind() == constant.Int {
						if n, _ := constant.Int64Val(v); n != 0 {
							accepted[rune(k)] = true
						}
					}
				}
			}
		}
	}
	emitted := map[rune]bool{}
	var wrn ssa.Value
	for _, b := range ws.Blocks {
		for _, in := range b.Instrs {
			if ex, ok := in.(*ssa.Extract); ok && ex.Index == 2 {
				if nx, ok := ex.Tuple.(*ssa.Next); ok && nx.IsString {
					wrn = ex
				}
			}
		}
	}
	for _, w := range runeWrites(c, ws, wrn) {
		if !w.known || len(w.elems) < 2 {
			continue
		}
		if first, isC := w.elems[0].(*ssa.Const); !isC || first.Int64() != '\\' {
			continue
		}
		if k, ok := w.elems[1].(*ssa.Const); ok {
			emitted[rune(k.Int64())] = true
		} else if g, isT := tableIndexed(w.elems[1], wrn); isT && wrn != nil {
			if ents, ok := tableOf(g); ok {
				for _, iv := range w.rs {
					for cp := iv.lo; cp <= iv.hi && cp < 1<<16; cp++ {
						if l := ents[cp]; l != 0 {
							emitted[rune(l)] = true
						}
					}
				}
			}
		} else {
			emitted['"'] = true
			emitted['\\'] = true
		}
	}
	var em []string
	for l := range emitted {
		em = append(em, string(l))
	}
	sort.Strings(em)
	for _, l := range em {
		r.check("C18.TABLE", fmt.Sprintf("escape \\%s emitted by the writer is accepted by the reader", l), re.Pos(), accepted[[]rune(l)[0]], "the reader's escape switch has no case for a letter the writer emits: written strings do not parse back")
	}
	r.floor("C18.TABLE", "escape letters emitted by the writer", len(em), 7)
	// \u: reader loops exactly four times
	four := false
	var reLoops []*loopInfo
	for _, f := range escapeReaderFns(c, re) {
		reLoops = append(reLoops, loopsOf(f)...)
	}
	for _, l := range reLoops {
		if ifi, ok := l.head.Instrs[len(l.head.Instrs)-1].(*ssa.If); ok {
			if v, op, k, ok := intCmp(ifi.Cond); ok {
				if op == token.LSS && k == 4 {
					four = true
				}
				// counting down: for i := 4; 0 < i; i--
				if phi, isPhi := v.(*ssa.Phi); isPhi && ((op == token.GTR && k == 0) || (op == token.GEQ && k == 1)) {
					init4, dec := false, false
					for _, e := range phi.Edges {
						if kc, isC := e.(*ssa.Const); isC && kc.Value != nil && kc.Value.Kind() == constant.Int && kc.Int64() == 4 {
							init4 = true
						}
						if bo, isB := e.(*ssa.BinOp); isB && bo.X == ssa.Value(phi) {
							if kc, isC := bo.Y.(*ssa.Const); isC && kc.Value != nil && kc.Value.Kind() == constant.Int {
								if (bo.Op == token.SUB && kc.Int64() == 1) || (bo.Op == token.ADD && kc.Int64() == -1) {
									dec = true
								}
							}
						}
					}
					if init4 && dec {
						four = true
					}
				}
			}
		}
	}
	r.check("C18.TABLE", "the reader takes exactly four hex digits after \\u", re.Pos(), four, "no loop bounded by 4 in readEscaped or a function it calls")
	// KINDS
	produced := map[string]bool{}
	{
		seen := map[ssa.Value]bool{}
		var walk func(v ssa.Value)
		walk = func(v ssa.Value) {
			if v == nil || seen[v] {
				return
			}
			seen[v] = true
			switch t := v.(type) {
			case *ssa.MakeInterface:
				produced[typeStr(t.X.Type())] = true
			case *ssa.Phi:
				for _, e := range t.Edges {
					walk(e)
				}
			case *ssa.Call:
				if isBuiltinCall(t, "append") {
					for _, a := range t.Call.Args {
						walk(a)
					}
				} else if cal := t.Call.StaticCallee(); cal != nil && c.inPkg(cal) && cal != rv && len(cal.Blocks) > 0 && isScannerFn(c, cal) {
					// a kind of value read by a helper of the value reader: what the helper returns first
					for _, rt := range returnsOf(cal) {
						if len(rt.Results) > 0 {
							walk(rt.Results[0])
						}
					}
				}
			case *ssa.Extract:
				if t.Index == 0 {
					if call, ok := t.Tuple.(*ssa.Call); ok {
						walk(call)
					}
				}
			case *ssa.Slice:
				if al, ok := t.X.(*ssa.Alloc); ok {
					for _, ref := range *al.Referrers() {
						if ia, ok := ref.(*ssa.IndexAddr); ok {
							for _, r2 := range *ia.Referrers() {
								if st, ok := r2.(*ssa.Store); ok {
									walk(st.Val)
								}
							}
						}
					}
				}
			case *ssa.MakeMap:
				for _, ref := range *t.Referrers() {
					if mu, ok := ref.(*ssa.MapUpdate); ok {
						walk(mu.Value)
					}
				}
			case *ssa.UnOp:
				// a named result spilled into a cell (functions with defer): every value stored into it
				if al, ok := t.X.(*ssa.Alloc); ok && t.Op == token.MUL {
					for _, ref := range *al.Referrers() {
						if st, ok := ref.(*ssa.Store); ok && st.Addr == ssa.Value(al) {
							walk(st.Val)
						}
					}
				}
			}
		}
		for _, rt := range returnsOf(rv) {
			walk(rt.Results[0])
		}
	}
	handled := map[string]bool{}
	var vP *ssa.Parameter
	for _, p := range wv.Params {
		if it, ok := p.Type().Underlying().(*types.Interface); ok && it.NumMethods() == 0 {
			vP = p
		}
	}
	for _, b := range wv.Blocks {
		for _, in := range b.Instrs {
			if ta, ok := in.(*ssa.TypeAssert); ok && ta.X == ssa.Value(vP) {
				handled[typeStr(ta.AssertedType)] = true
			}
		}
	}
	for _, t := range keys(produced) {
		r.check("C18.KINDS", fmt.Sprintf("value kind %s produced by the reader has a case in the writer", t), wv.Pos(), handled[t], "such a value would be written through the %v fallback")
	}
	r.floor("C18.KINDS", "dynamic types produced by the value reader", len(produced), 7)
}

// flowsToResult: v reaches operand 0 of a return of fn through phis.
func flowsToResult(fn *ssa.Function, v ssa.Value) bool {
	for _, rt := range returnsOf(fn) {
		if len(rt.Results) == 0 {
			continue
		}
		ls, _ := phiLeaves(rt.Results[0])
		for _, l := range ls {
			if l.val == v {
				return true
			}
		}
	}
	return false
}

// c18Num: the writer prints floats with strconv.FormatFloat(v, 'g', -1, ..), whose output can be an
// exponent form without a decimal point (1e-05, 5e-324). The reader therefore must hand every number
// token that is not an integer to ParseFloat: the ParseFloat call may depend on ParseInt having
// failed, and on nothing else about the token's text.
func c18Num(c *Ctx, r *Report) {
	r.rule("C18.NUM", "in the value reader ParseFloat is applied to every number token ParseInt rejects: between the token and the ParseFloat call no branch tests the token's text other than through ParseInt's error; the writer's float formatter is FormatFloat 'g'")
	rv := c.fn("(*parser).readValue")
	if rv == nil {
		r.undecided("C18.NUM", "anchor (*parser).readValue", token.NoPos, "not found")
		return
	}
	var pf, pi *ssa.Call
	for _, ci := range callsIn(rv) {
		call, ok := ci.(*ssa.Call)
		if !ok {
			continue
		}
		if isFuncCall(call, "strconv", "ParseFloat") {
			pf = call
		}
		if isFuncCall(call, "strconv", "ParseInt") {
			pi = call
		}
	}
	if pf == nil {
		r.check("C18.NUM", "(*parser).readValue: number tokens reach ParseFloat", rv.Pos(), false, "no ParseFloat call: floats written by the writer cannot be read back")
		return
	}
	r.check("C18.NUM", "(*parser).readValue: number tokens reach ParseFloat", pf.Pos(), true, "")
	tok := pf.Call.Args[0]
	derivedFromTok := func(v ssa.Value) bool {
		seen := map[ssa.Value]bool{}
		var walk func(v ssa.Value, d int) bool
		walk = func(v ssa.Value, d int) bool {
			if d > 6 || seen[v] {
				return false
			}
			seen[v] = true
			if sameVal(v, tok) {
				return true
			}
			switch t := v.(type) {
			case *ssa.BinOp:
				return walk(t.X, d+1) || walk(t.Y, d+1)
			case *ssa.UnOp:
				return walk(t.X, d+1)
			case *ssa.Call:
				if pi != nil && t == pi {
					return false // ParseInt's verdict is the allowed test
				}
				for _, a := range t.Call.Args {
					if walk(a, d+1) {
						return true
					}
				}
			case *ssa.Extract:
				if call, ok := t.Tuple.(*ssa.Call); ok && pi != nil && call == pi {
					return false
				}
				return walk(t.Tuple, d+1)
			case *ssa.Lookup:
				return walk(t.X, d+1)
			case *ssa.Index:
				return walk(t.X, d+1)
			case *ssa.Slice:
				return walk(t.X, d+1)
			case *ssa.Convert:
				return walk(t.X, d+1)
			case *ssa.Phi:
				for _, e := range t.Edges {
					if walk(e, d+1) {
						return true
					}
				}
			}
			return false
		}
		return walk(v, 0)
	}
	// guards that hold at ParseFloat but not yet where the token was produced
	base := map[*ssa.If]bool{}
	if ti, ok := tok.(ssa.Instruction); ok {
		for _, g := range blockGuards(ti.Block()) {
			base[g.at] = true
		}
		// tests on the token made in the token's own arm before the conversion are about what follows the
		// token (the look-ahead byte), not about its text: they are kept out by the derivedFromTok test below
	}
	bad := ""
	for _, g := range blockGuards(pf.Block()) {
		if base[g.at] {
			continue
		}
		if derivedFromTok(g.cond) {
			bad = c.pos(g.at.Pos())
			if !g.at.Pos().IsValid() {
				bad = c.pos(valPosInstr(g.at.Block()))
			}
		}
	}
	// path form of the same demand: from a branch that tests the token's text, or ParseInt's answer, every way out of
	// the function passes the ParseFloat call, except the way on which ParseInt accepted the token. (The dominating-
	// guard form above does not see a ParseFloat that sits at a join: "no point: ParseInt, else give up unless out of
	// range; then ParseFloat".)
	if bad == "" && pi != nil {
		derivedFromPi := func(v ssa.Value) bool {
			seen := map[ssa.Value]bool{}
			var walk func(v ssa.Value, d int) bool
			walk = func(v ssa.Value, d int) bool {
				if v == nil || d > 6 || seen[v] {
					return false
				}
				seen[v] = true
				switch t := v.(type) {
				case *ssa.Call:
					if t == pi {
						return true
					}
					for _, a := range t.Call.Args {
						if walk(a, d+1) {
							return true
						}
					}
				case *ssa.Extract:
					return walk(t.Tuple, d+1)
				case *ssa.BinOp:
					return walk(t.X, d+1) || walk(t.Y, d+1)
				case *ssa.UnOp:
					return walk(t.X, d+1)
				case *ssa.Phi:
					for _, e := range t.Edges {
						if walk(e, d+1) {
							return true
						}
					}
				case *ssa.ChangeInterface:
					return walk(t.X, d+1)
				case *ssa.MakeInterface:
					return walk(t.X, d+1)
				}
				return false
			}
			return walk(v, 0)
		}
		// the edge on which ParseInt accepted: err == nil (true edge) / err != nil (false edge)
		type edge struct{ from, to *ssa.BasicBlock }
		okEdge := map[edge]bool{}
		for _, b := range rv.Blocks {
			ifi, isIf := b.Instrs[len(b.Instrs)-1].(*ssa.If)
			if !isIf {
				continue
			}
			if bo, isB := ifi.Cond.(*ssa.BinOp); isB && (bo.Op == token.EQL || bo.Op == token.NEQ) {
				var other ssa.Value
				if isNilConst(bo.Y) {
					other = bo.X
				} else if isNilConst(bo.X) {
					other = bo.Y
				}
				if ex, isE := other.(*ssa.Extract); isE && ex.Tuple == ssa.Value(pi) && ex.Index == 1 {
					if bo.Op == token.EQL {
						okEdge[edge{b, b.Succs[0]}] = true
					} else {
						okEdge[edge{b, b.Succs[1]}] = true
					}
				}
			}
		}
		escapes := func(from, start *ssa.BasicBlock) bool {
			if okEdge[edge{from, start}] {
				return false
			}
			seen := map[*ssa.BasicBlock]bool{}
			var dfs func(b *ssa.BasicBlock) bool
			dfs = func(b *ssa.BasicBlock) bool {
				if b == pf.Block() || seen[b] {
					return false
				}
				seen[b] = true
				if _, isRet := b.Instrs[len(b.Instrs)-1].(*ssa.Return); isRet {
					return true
				}
				for _, s := range b.Succs {
					if okEdge[edge{b, s}] {
						continue
					}
					if dfs(s) {
						return true
					}
				}
				return false
			}
			return dfs(start)
		}
		// only branches between the token and the conversions: those from which ParseFloat or ParseInt can still be reached
		reachesConv := func(b *ssa.BasicBlock) bool {
			seen := map[*ssa.BasicBlock]bool{}
			var dfs func(b *ssa.BasicBlock) bool
			dfs = func(b *ssa.BasicBlock) bool {
				if seen[b] {
					return false
				}
				seen[b] = true
				if b == pf.Block() || b == pi.Block() {
					return true
				}
				for _, s := range b.Succs {
					if dfs(s) {
						return true
					}
				}
				return false
			}
			return dfs(b)
		}
		for _, b := range rv.Blocks {
			ifi, isIf := b.Instrs[len(b.Instrs)-1].(*ssa.If)
			if !isIf || b == pf.Block() {
				continue
			}
			tokTest := derivedFromTok(ifi.Cond)
			piTest := derivedFromPi(ifi.Cond)
			if !tokTest && !piTest {
				continue
			}
			if tokTest && !piTest {
				// a test of the token's text counts when it stands between the token and the conversions, or is the
				// verdict that follows a failed ParseInt
				if !reachesConv(b) && !(pi.Block().Dominates(b)) {
					continue
				}
				if base[ifi] {
					continue
				}
			}
			// a test made after ParseFloat was tried is about ParseFloat's answer, not a way round it
			if pf.Block().Dominates(b) {
				continue
			}
			for _, s := range b.Succs {
				if escapes(b, s) {
					bad = c.pos(ifi.Pos())
					if !ifi.Pos().IsValid() {
						bad = c.pos(valPosInstr(b))
					}
				}
			}
		}
	}
	r.check("C18.NUM", "(*parser).readValue: ParseFloat is tried for every number token that is not an integer", pf.Pos(), bad == "" && pi != nil,
		fmt.Sprintf("a test of the token's text or of ParseInt's error (at %s), other than ParseInt's plain failure, decides whether ParseFloat is tried: a float the writer prints without a decimal point (1e-05) is rejected when read back", bad))
	// writer side
	okFmt := false
	if wv := c.fn("writeValue"); wv != nil {
		for _, ci := range callsIn(wv) {
			if isFuncCall(ci, "strconv", "FormatFloat") && len(ci.Common().Args) >= 3 {
				if k, ok := ci.Common().Args[1].(*ssa.Const); ok && k.Value != nil && (k.Int64() == 'g' || k.Int64() == 'e' || k.Int64() == 'f' || k.Int64() == 'G' || k.Int64() == 'E') {
					okFmt = true
				} else {
					okFmt = false
					break
				}
			}
		}
	}
	r.check("C18.NUM", "writeValue: floats are printed by strconv.FormatFloat with a format ParseFloat reads back", token.NoPos, okFmt, "float formatting is not FormatFloat with a constant e/f/g format")
}

// predTrueSet: for a predicate p(x) bool over one byte/rune parameter, the set of x for which it can
// answer true (over-approximated by the comparisons of x with constants that guard each answer).
func predTrueSet(fn *ssa.Function, u ival) (iset, bool) {
	if len(fn.Params) != 1 || fn.Signature.Results().Len() != 1 {
		return nil, false
	}
	x := ssa.Value(fn.Params[0])
	var out iset
	var valSet func(b *ssa.BasicBlock, base iset, v ssa.Value, d int) (iset, bool)
	valSet = func(b *ssa.BasicBlock, base iset, v ssa.Value, d int) (iset, bool) {
		if d > 6 {
			return nil, false
		}
		switch t := v.(type) {
		case *ssa.Const:
			if t.Value != nil && t.Value.String() == "true" {
				return base, true
			}
			return iset{}, true
		case *ssa.BinOp:
			if y, op, k, ok := intCmp(t); ok && sameVal(y, x) {
				return base.intersect(constraintSet(op, k, u)), true
			}
		case *ssa.UnOp:
			if t.Op == token.NOT {
				if in, ok := valSet(b, base, t.X, d+1); ok {
					// complement within base
					rest := base
					for _, cv := range in {
						var nr iset
						for _, m := range rest {
							if m.lo < cv.lo {
								nr = append(nr, ival{m.lo, min64(m.hi, cv.lo-1)})
							}
							if m.hi > cv.hi {
								nr = append(nr, ival{max64(m.lo, cv.hi+1), m.hi})
							}
						}
						rest = nr.norm()
					}
					return rest, true
				}
			}
		case *ssa.Phi:
			var un iset
			for i, e := range t.Edges {
				pred := t.Block().Preds[i]
				es := reachSet(pred, x, u)
				for _, g := range edgeGuards(pred, t.Block()) {
					g = normGuard(g)
					if y, op, k, ok := intCmp(g.cond); ok && sameVal(y, x) {
						if !g.val {
							op = negOp(op)
						}
						es = es.intersect(constraintSet(op, k, u))
					}
				}
				s, ok := valSet(pred, es, e, d+1)
				if !ok {
					return nil, false
				}
				un = append(un, s...)
			}
			return un.norm(), true
		}
		return nil, false
	}
	for _, rt := range returnsOf(fn) {
		s, ok := valSet(rt.Block(), reachSet(rt.Block(), x, u), rt.Results[0], 0)
		if !ok {
			return nil, false
		}
		out = append(out, s...)
	}
	return out.norm(), true
}

// c18RawAccept: every byte the string writer emits as it is (not as an escape) is a byte the string
// reader takes as it is: the set of byte values for which the reader's quoted-string loops answer with
// an error is disjoint from the writer's raw set.
func c18RawAccept(c *Ctx, r *Report) {
	r.rule("C18.RAWACCEPT", "bytes rejected by readString (error returns guarded by comparisons of the byte read, or by a byte predicate) ∩ bytes written raw by writeString = ∅")
	ws, rs := c.fn("writeString"), c.fn("(*parser).readString")
	if ws == nil || rs == nil {
		r.undecided("C18.RAWACCEPT", "anchors writeString / (*parser).readString", token.NoPos, "not found")
		return
	}
	// writer's raw set
	var rn ssa.Value
	for _, b := range ws.Blocks {
		for _, in := range b.Instrs {
			if ex, ok := in.(*ssa.Extract); ok && ex.Index == 2 {
				if nx, ok := ex.Tuple.(*ssa.Next); ok && nx.IsString {
					rn = ex
				}
			}
		}
	}
	if rn == nil {
		r.undecided("C18.RAWACCEPT", "writeString: rune loop", ws.Pos(), "no range over the string found (the escaping rule reports the shape)")
		return
	}
	var raw iset
	for _, w := range runeWrites(c, ws, rn) {
		if w.known && len(w.elems) > 0 {
			if first, isC := w.elems[0].(*ssa.Const); isC && first.Value != nil && first.Int64() == '\\' {
				continue
			}
		}
		raw = append(raw, w.rs...)
	}
	raw = raw.norm()
	rawBytes := raw.intersect(iset{{0, 0x7f}})
	if len(raw.intersect(iset{{0x80, 0x10FFFF}})) > 0 {
		rawBytes = append(rawBytes, ival{0x80, 0xff}).norm()
	}
	// reader's reject set
	u := ival{0, 255}
	var reject iset
	nRet := 0
	for _, rt := range returnsOf(rs) {
		if len(rt.Results) != 2 || isNilConst(rt.Results[1]) {
			continue
		}
		// only errors made here: an error handed on from a read of more input (readByte, readEscaped) is a
		// consequence of that read, not of the byte tests that merely enclose it
		made := false
		ev := rt.Results[1]
		if ex, ok := ev.(*ssa.Extract); ok {
			ev = ex.Tuple
		}
		if call, ok := ev.(*ssa.Call); ok {
			cal := call.Call.StaticCallee()
			made = cal != nil && !isScannerFn(c, cal)
		}
		if !made {
			continue
		}
		vars := map[ssa.Value]bool{}
		type predG struct {
			fn  *ssa.Function
			arg ssa.Value
			val bool
		}
		var preds []predG
		for _, g := range blockGuards(rt.Block()) {
			if len(vars) > 0 {
				break // only the byte whose test selects this error, not the bytes tested further out
			}
			g = normGuard(g)
			if y, _, _, ok := intCmp(g.cond); ok {
				if bt, ok := y.Type().Underlying().(*types.Basic); ok && (bt.Kind() == types.Uint8 || bt.Kind() == types.Int32) {
					vars[y] = true
				}
			}
			if call, ok := g.cond.(*ssa.Call); ok && len(call.Call.Args) == 1 {
				if pf := call.Call.StaticCallee(); pf != nil && c.inPkg(pf) {
					if bt, ok := call.Call.Args[0].Type().Underlying().(*types.Basic); ok && (bt.Kind() == types.Uint8 || bt.Kind() == types.Int32) {
						vars[call.Call.Args[0]] = true
						preds = append(preds, predG{pf, call.Call.Args[0], g.val})
					}
				}
			}
		}
		for v := range vars {
			s := reachSet(rt.Block(), v, u)
			for _, pg := range preds {
				if !sameVal(pg.arg, v) {
					continue
				}
				ts, ok := predTrueSet(pg.fn, u)
				if !ok {
					r.undecided("C18.RAWACCEPT", "readString: byte predicate "+fnName(pg.fn), rt.Pos(), "the predicate guarding an error return could not be evaluated")
					continue
				}
				if pg.val {
					s = s.intersect(ts)
				}
			}
			if len(s) == 1 && s[0] == u {
				continue // unconstrained: the error does not depend on this byte
			}
			nRet++
			reject = append(reject, s...)
		}
	}
	reject = reject.norm()
	bad := reject.intersect(rawBytes)
	r.Tables["C18.RAWACCEPT writer raw bytes"] = rawBytes.String()
	r.Tables["C18.RAWACCEPT reader rejected bytes"] = reject.String()
	r.check("C18.RAWACCEPT", "readString accepts every byte writeString emits raw", rs.Pos(), len(bad) == 0,
		fmt.Sprintf("bytes %s are written as they are by the writer and refused by the reader: a string containing one does not parse back from its own SDL or JSON form", bad))
	r.floor("C18.RAWACCEPT", "byte-dependent error returns of the string reader", nRet, 1)
}

// numFmtWriterRule: in the value writer every number is written as the unmodified output of a strconv
// formatter. Text appended to or cut from that output (a forced ".0") is correct for the plain decimal form
// only; the formatter switches to exponent form on its own (1e+06 -> "1e+06.0" is neither JSON nor SDL).
func numFmtWriterRule(c *Ctx, r *Report, rule string) {
	r.rule(rule, "in the value writer, under every numeric case of the type switch the bytes written are exactly []byte(strconv.Format*(..)) of the value")
	wr, why := writerRolesOf(c)
	if wr == nil {
		r.undecided(rule, "anchors of the value writer", token.NoPos, why)
		return
	}
	fn := wr.fn
	var vP *ssa.Parameter
	for _, p := range fn.Params {
		if isEmptyIface(p.Type()) {
			vP = p
		}
	}
	n := 0
	for _, ci := range callsIn(fn) {
		cc := ci.Common()
		if !cc.IsInvoke() || cc.Method.Name() != "Write" || len(cc.Args) != 1 {
			continue
		}
		numeric := ""
		for _, t := range caseTypes(ci.Block(), vP) {
			if bt, ok := t.Underlying().(*types.Basic); ok && bt.Info()&types.IsNumeric != 0 {
				numeric = typeStr(t)
			}
		}
		for _, f := range assertFacts(ci.Block()) {
			if f.holds && stripIface(f.x) == ssa.Value(vP) {
				if bt, ok := f.t.Underlying().(*types.Basic); ok && bt.Info()&types.IsNumeric != 0 {
					numeric = typeStr(f.t)
				}
			}
		}
		if numeric == "" {
			continue
		}
		n++
		direct := false
		if cv, ok := cc.Args[0].(*ssa.Convert); ok {
			if call, ok := cv.X.(*ssa.Call); ok {
				if f := calleeObj(call); f != nil && f.Pkg() != nil && f.Pkg().Path() == "strconv" && strings.HasPrefix(f.Name(), "Format") {
					direct = true
				}
			}
		}
		if call, ok := cc.Args[0].(*ssa.Call); ok {
			// strconv.Append*(buf, v, ..) handed to Write as it is
			if f := calleeObj(call); f != nil && f.Pkg() != nil && f.Pkg().Path() == "strconv" && strings.HasPrefix(f.Name(), "Append") {
				direct = true
			}
		}
		r.check(rule, fmt.Sprintf("%s: %s values are written as the formatter's output", fnName(fn), numeric), ci.Pos(), direct,
			"the number's text is produced or altered outside strconv.Format*: digits or a suffix added to the formatter's output break its exponent form, and the result is rejected by a JSON parser and by the library's own value reader")
	}
	r.floor(rule, "numeric writes in the value writer", n, 4)
}

// globalArrayLit: the keyed constant entries of a package-level array or slice that is declared with a
// composite literal and written nowhere else (index -> constant value; positional entries count from 0).
func (c *Ctx) globalArrayLit(g *ssa.Global) (map[int64]constant.Value, bool) {
	for _, fn := range c.allFns {
		for _, b := range fn.Blocks {
			for _, in := range b.Instrs {
				if st, ok := in.(*ssa.Store); ok && rootGlobal(st.Addr) == g {
					return nil, false
				}
			}
		}
	}
	info := c.P.TypesInfo
	for _, f := range c.P.Syntax {
		for _, d := range f.Decls {
			gd, ok := d.(*ast.GenDecl)
			if !ok || gd.Tok != token.VAR {
				continue
			}
			for _, sp := range gd.Specs {
				vs := sp.(*ast.ValueSpec)
				for i, nm := range vs.Names {
					if nm.Name != g.Name() || info.Defs[nm] == nil || info.Defs[nm].Parent() != c.P.Types.Scope() || i >= len(vs.Values) {
						continue
					}
					cl, ok := vs.Values[i].(*ast.CompositeLit)
					if !ok {
						return nil, false
					}
					out := map[int64]constant.Value{}
					next := int64(0)
					for _, el := range cl.Elts {
						val := el
						if kv, ok := el.(*ast.KeyValueExpr); ok {
							tv, ok := info.Types[kv.Key]
							if !ok || tv.Value == nil || tv.Value.Kind() != constant.Int {
								return nil, false
							}
							next, _ = constant.Int64Val(tv.Value)
							val = kv.Value
						}
						tv, ok := info.Types[val]
						if !ok || tv.Value == nil {
							return nil, false
						}
						out[next] = tv.Value
						next++
					}
					return out, true
				}
			}
		}
	}
	return nil, false
}

// globalMapLit: a package-level map declared with a literal whose keys and values are constants, and written by
// no function of the package (no store to the variable, no update or delete of an entry).
func (c *Ctx) globalMapLit(g *ssa.Global) (map[string]constant.Value, bool) {
	for _, fn := range c.allFns {
		for _, b := range fn.Blocks {
			for _, in := range b.Instrs {
				switch t := in.(type) {
				case *ssa.Store:
					if rootGlobal(t.Addr) == g {
						return nil, false
					}
				case *ssa.MapUpdate:
					if u, ok := t.Map.(*ssa.UnOp); ok && u.X == ssa.Value(g) {
						return nil, false
					}
				case *ssa.Call:
					if isBuiltinCall(t, "delete") && len(t.Call.Args) > 0 {
						if u, ok := t.Call.Args[0].(*ssa.UnOp); ok && u.X == ssa.Value(g) {
							return nil, false
						}
					}
				}
			}
		}
	}
	info := c.P.TypesInfo
	for _, f := range c.P.Syntax {
		for _, d := range f.Decls {
			gd, ok := d.(*ast.GenDecl)
			if !ok || gd.Tok != token.VAR {
				continue
			}
			for _, sp := range gd.Specs {
				vs := sp.(*ast.ValueSpec)
				for i, nm := range vs.Names {
					if nm.Name != g.Name() || info.Defs[nm] == nil || info.Defs[nm].Parent() != c.P.Types.Scope() || i >= len(vs.Values) {
						continue
					}
					cl, ok := vs.Values[i].(*ast.CompositeLit)
					if !ok {
						return nil, false
					}
					out := map[string]constant.Value{}
					for _, el := range cl.Elts {
						kv, ok := el.(*ast.KeyValueExpr)
						if !ok {
							return nil, false
						}
						k, ok1 := info.Types[kv.Key]
						v, ok2 := info.Types[kv.Value]
						if !ok1 || !ok2 || k.Value == nil || k.Value.Kind() != constant.String {
							return nil, false
						}
						if v.Value == nil {
							// a set: map[K]struct{}{k: {}} - the keys are what matters
							if cl, isCL := kv.Value.(*ast.CompositeLit); !isCL || len(cl.Elts) != 0 {
								return nil, false
							}
							out[constant.StringVal(k.Value)] = constant.MakeBool(true)
							continue
						}
						out[constant.StringVal(k.Value)] = v.Value
					}
					return out, true
				}
			}
		}
	}
	return nil, false
}

// runeWrite: one alternative of a Write inside the per-character loop of the string writer: the bytes
// (elements of a slice literal when known) and the code points for which this alternative is written.
type runeWrite struct {
	call  *ssa.Call
	val   ssa.Value
	elems []ssa.Value
	known bool
	rs    iset
}

// useTables lets the reach sets follow guards of the form table[r] != 0.
func useTables(c *Ctx) {
	if c.SP == nil {
		return
	}
	tableProgs.Store(c.SP.Prog, func(g *ssa.Global) (map[int64]int64, bool) {
		ents, ok := c.globalArrayLit(g)
		if !ok {
			return nil, false
		}
		out := map[int64]int64{}
		for k, v := range ents {
			if v.Kind() != constant.Int {
				return nil, false
			}
			n, _ := constant.Int64Val(v)
			out[k] = n
		}
		return out, true
	})
}

// runeWrites enumerates the Write calls in the loops of fn; an argument that is a phi (the bytes were
// chosen first and are written by one call afterwards) is split into its alternatives, each with the code
// points for which its edge is taken.
func runeWrites(c *Ctx, fn *ssa.Function, rn ssa.Value) []runeWrite {
	useTables(c)
	uni := ival{0, 0x10FFFF}
	loops := loopsOf(fn)
	var out []runeWrite
	for _, b := range fn.Blocks {
		if innermostLoop(loops, b) == nil {
			continue
		}
		for _, in := range b.Instrs {
			call, ok := in.(*ssa.Call)
			if !ok || !call.Call.IsInvoke() || call.Call.Method.Name() != "Write" || len(call.Call.Args) != 1 {
				continue
			}
			base := reachSet(b, rn, uni)
			if os.Getenv("E8_DEBUG") != "" {
				fmt.Fprintf(os.Stderr, "write in block %d (%s) preds %d base %s\n", b.Index, b.Comment, len(b.Preds), base)
			}
			seen := map[ssa.Value]bool{}
			var walk func(v ssa.Value, rs iset)
			walk = func(v ssa.Value, rs iset) {
				if phi, ok := v.(*ssa.Phi); ok {
					if seen[phi] {
						return
					}
					seen[phi] = true
					for i, e := range phi.Edges {
						walk(e, rs.intersect(reachSetEdge(phi.Block().Preds[i], phi.Block(), rn, uni)))
					}
					return
				}
				if k, isC := v.(*ssa.Const); isC && k.Value == nil {
					return // the zero value of the variable that receives the bytes: never written
				}
				elems, known := sliceLitElems(v)
				out = append(out, runeWrite{call, v, elems, known, rs})
			}
			walk(call.Call.Args[0], base)
		}
	}
	return out
}

// jsonEscapeOf: the code point a two-character JSON escape stands for.
var jsonEscapeOf = map[rune]int64{'b': 8, 'f': 12, 'n': 10, 'r': 13, 't': 9, '"': 34, '\\': 92, '/': 47}
