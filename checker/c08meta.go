package main

import (
	"fmt"
	"go/token"
	"go/types"
	"sort"
	"strings"

	"golang.org/x/tools/go/ssa"
)

// C08.METADOM: the binding of a Go type to a GraphQL object type is an identity comparison of reflect.Type
// values (Object.meta == the type of the object at hand). It is consistent only if every value recorded in
// Object.meta and every value compared with it is taken from an object in the same way: the dynamic type as
// it is (reflect.TypeOf(obj), reflect.ValueOf(obj).Type()), or consistently the pointer-stripped base type.
// The rule computes, for each store into X.meta and each ==/!= comparison with X.meta, how the other
// reflect.Type was derived (raw, base = stripped in a loop, elem = one Elem(), ptr = PtrTo / reflect.New),
// following parameters to their call sites in the package, and requires all sites of one field to agree.
//
// C08.SCAN: the lookup from a Go type to the object type bound to it examines every *Object of the type
// table: inside the loop the comparison with Object.meta is control dependent only on the element being an
// *Object (and lock handling), not on any other property of the element that would skip some objects.

type tlabel string

const (
	tlRaw  tlabel = "the dynamic type as it is"
	tlBase tlabel = "the pointer-stripped base type"
	tlElem tlabel = "the element type (one Elem())"
	tlPtr  tlabel = "a pointer type made by reflect (PtrTo / New)"
	tlMeta tlabel = "meta"
	tlUnk  tlabel = "a type of unknown derivation"
)

type tlset map[tlabel]bool

func (s tlset) add(o tlset) {
	for k := range o {
		s[k] = true
	}
}

func (s tlset) String() string {
	var ks []string
	for k := range s {
		if k != tlMeta {
			ks = append(ks, string(k))
		}
	}
	sort.Strings(ks)
	return strings.Join(ks, " / ")
}

func (s tlset) only(l tlabel) bool {
	n := 0
	for k := range s {
		if k == tlMeta {
			continue
		}
		n++
		if k != l {
			return false
		}
	}
	return n == 1
}

type metaDom struct {
	c       *Ctx
	callers map[*ssa.Function][]ssa.CallInstruction
	busy    map[ssa.Value]bool
}

func newMetaDom(c *Ctx) *metaDom {
	m := &metaDom{c: c, callers: map[*ssa.Function][]ssa.CallInstruction{}, busy: map[ssa.Value]bool{}}
	for _, fn := range c.allFns {
		for _, ci := range callsIn(fn) {
			if cal := ci.Common().StaticCallee(); cal != nil {
				m.callers[cal] = append(m.callers[cal], ci)
			}
		}
	}
	return m
}

func isReflectNamed(t types.Type, name string) bool {
	if p, ok := t.(*types.Pointer); ok {
		t = p.Elem()
	}
	n, ok := t.(*types.Named)
	return ok && n.Obj().Pkg() != nil && n.Obj().Pkg().Path() == "reflect" && n.Obj().Name() == name
}

func derive(in tlset, op string) tlset {
	out := tlset{}
	for k := range in {
		switch {
		case k == tlMeta:
			out[tlMeta] = true // a derivation of the recorded type: stays in the recorded domain only when not derived
			if op != "" {
				delete(out, tlMeta)
				out[tlUnk] = true
			}
		case op == "strip" && (k == tlRaw || k == tlBase):
			out[tlBase] = true
		case op == "elem" && k == tlRaw:
			out[tlElem] = true
		case op == "elem" && k == tlPtr:
			out[tlRaw] = true
		case op == "ptr":
			out[tlPtr] = true
		default:
			out[tlUnk] = true
		}
	}
	return out
}

// param: labels of a parameter = union over the arguments at the in-package call sites; an exported entry
// point's parameter (no call sites) is an application value / type.
func (m *metaDom) param(p *ssa.Parameter, depth int, f func(v ssa.Value, depth int) tlset) tlset {
	fn := p.Parent()
	idx := -1
	for i, q := range fn.Params {
		if q == p {
			idx = i
		}
	}
	out := tlset{}
	cs := m.callers[fn]
	if len(cs) == 0 || depth > 4 || idx < 0 {
		out[tlRaw] = true
		return out
	}
	for _, ci := range cs {
		args := ci.Common().Args
		if idx < len(args) {
			out.add(f(args[idx], depth+1))
		}
	}
	if fn.Object() != nil && fn.Object().Exported() {
		out[tlRaw] = true
	}
	return out
}

// typeLabel: derivation of a reflect.Type value.
func (m *metaDom) typeLabel(v ssa.Value, depth int) tlset {
	out := tlset{}
	if m.busy[v] {
		return out
	}
	m.busy[v] = true
	defer delete(m.busy, v)
	switch t := v.(type) {
	case *ssa.Phi:
		// strip loop: one edge is Elem() of the phi itself
		strip := false
		for _, e := range t.Edges {
			if call, ok := e.(*ssa.Call); ok && call.Call.IsInvoke() && call.Call.Method.Name() == "Elem" && call.Call.Value == t {
				strip = true
			}
		}
		for _, e := range t.Edges {
			if call, ok := e.(*ssa.Call); ok && strip && call.Call.IsInvoke() && call.Call.Value == t {
				continue
			}
			out.add(m.typeLabel(e, depth))
		}
		if strip {
			return derive(out, "strip")
		}
	case *ssa.Call:
		cm := t.Common()
		if cm.IsInvoke() && isReflectNamed(cm.Value.Type(), "Type") {
			if cm.Method.Name() == "Elem" {
				return derive(m.typeLabel(cm.Value, depth), "elem")
			}
			out[tlUnk] = true
			return out
		}
		f := calleeObj(t)
		if f != nil && f.Pkg() != nil && f.Pkg().Path() == "reflect" {
			switch f.Name() {
			case "TypeOf":
				return m.valueLabel(cm.Args[0], depth)
			case "Type": // (reflect.Value).Type
				return m.rvLabel(cm.Args[0], depth)
			case "PtrTo", "PointerTo":
				return derive(m.typeLabel(cm.Args[0], depth), "ptr")
			}
			out[tlUnk] = true
			return out
		}
		out[tlUnk] = true
	case *ssa.Extract:
		if call, ok := t.Tuple.(*ssa.Call); ok {
			if cal := call.Call.StaticCallee(); cal != nil && m.c.inPkg(cal) {
				for _, rt := range returnsOf(cal) {
					if t.Index < len(rt.Results) {
						out.add(m.typeLabel(rt.Results[t.Index], depth+1))
					}
				}
				return out
			}
		}
		out[tlUnk] = true
	case *ssa.UnOp:
		if _, _, f, ok := loadOfField(t); ok && f == "meta" {
			out[tlMeta] = true
			return out
		}
		if al, ok := t.X.(*ssa.Alloc); ok && t.Op == token.MUL {
			for _, st := range cellStores(al) {
				out.add(m.typeLabel(st.Val, depth))
			}
			return out
		}
		out[tlUnk] = true
	case *ssa.Parameter:
		return m.param(t, depth, m.typeLabel)
	case *ssa.Const:
		// nil
	case *ssa.MakeInterface:
		return m.typeLabel(t.X, depth)
	case *ssa.ChangeInterface:
		return m.typeLabel(t.X, depth)
	default:
		out[tlUnk] = true
	}
	return out
}

// valueLabel: an interface{} value whose dynamic type is taken.
func (m *metaDom) valueLabel(v ssa.Value, depth int) tlset {
	out := tlset{}
	if m.busy[v] {
		return out
	}
	m.busy[v] = true
	defer delete(m.busy, v)
	switch t := v.(type) {
	case *ssa.Phi:
		for _, e := range t.Edges {
			out.add(m.valueLabel(e, depth))
		}
	case *ssa.Call:
		f := calleeObj(t)
		if f != nil && f.Pkg() != nil && f.Pkg().Path() == "reflect" && f.Name() == "Interface" {
			return m.rvLabel(t.Call.Args[0], depth)
		}
		out[tlRaw] = true
	case *ssa.Parameter:
		return m.param(t, depth, m.valueLabel)
	case *ssa.UnOp:
		if al, ok := t.X.(*ssa.Alloc); ok && t.Op == token.MUL {
			for _, st := range cellStores(al) {
				out.add(m.valueLabel(st.Val, depth))
			}
			if len(out) > 0 {
				return out
			}
		}
		out[tlRaw] = true
	default:
		out[tlRaw] = true
	}
	return out
}

// rvLabel: a reflect.Value.
func (m *metaDom) rvLabel(v ssa.Value, depth int) tlset {
	out := tlset{}
	if m.busy[v] {
		return out
	}
	m.busy[v] = true
	defer delete(m.busy, v)
	switch t := v.(type) {
	case *ssa.Phi:
		for _, e := range t.Edges {
			out.add(m.rvLabel(e, depth))
		}
	case *ssa.Call:
		f := calleeObj(t)
		if f != nil && f.Pkg() != nil && f.Pkg().Path() == "reflect" {
			switch f.Name() {
			case "ValueOf":
				return m.valueLabel(t.Call.Args[0], depth)
			case "New":
				return derive(m.typeLabel(t.Call.Args[0], depth), "ptr")
			case "Zero":
				return m.typeLabel(t.Call.Args[0], depth)
			case "Elem", "Indirect":
				return derive(m.rvLabel(t.Call.Args[0], depth), "elem")
			}
		}
		out[tlRaw] = true // a value the application holds (struct field, method result, element)
	case *ssa.Parameter:
		return m.param(t, depth, m.rvLabel)
	case *ssa.UnOp:
		if al, ok := t.X.(*ssa.Alloc); ok && t.Op == token.MUL {
			for _, st := range cellStores(al) {
				out.add(m.rvLabel(st.Val, depth))
			}
			return out
		}
		out[tlRaw] = true // a value the application holds (struct field, method result, element)
	default:
		out[tlRaw] = true // a value the application holds (struct field, method result, element)
	}
	return out
}

type metaSite struct {
	fn    *ssa.Function
	pos   token.Pos
	desc  string
	label tlset
}

func c08MetaDom(c *Ctx, r *Report, rule string) {
	m := newMetaDom(c)
	sites := map[string][]metaSite{}
	for _, fn := range c.allFns {
		if !c.inPkg(fn) {
			continue
		}
		ns, nc := map[string]int{}, map[string]int{}
		for _, b := range fn.Blocks {
			for _, in := range b.Instrs {
				switch t := in.(type) {
				case *ssa.Store:
					fa, ok := t.Addr.(*ssa.FieldAddr)
					if !ok {
						continue
					}
					o, f := fieldOwner(fa.X.Type(), fa.Field)
					if f != "meta" || !isReflectNamed(t.Val.Type(), "Type") {
						continue
					}
					lbl := m.typeLabel(t.Val, 0)
					if lbl[tlMeta] && len(lbl) == 1 {
						// a recorded type copied from another node's record (a schema derived again takes over what
						// was registered on the previous one): derived like the record it was copied from
						continue
					}
					ns[o]++
					sites[o] = append(sites[o], metaSite{fn, t.Pos(), fmt.Sprintf("%s: value #%d recorded in %s.meta", fnName(fn), ns[o], o), lbl})
				case *ssa.BinOp:
					if (t.Op != token.EQL && t.Op != token.NEQ) || !isReflectNamed(t.X.Type(), "Type") || !isReflectNamed(t.Y.Type(), "Type") {
						continue
					}
					if isNilConst(t.X) || isNilConst(t.Y) {
						continue
					}
					lx, ly := m.typeLabel(t.X, 0), m.typeLabel(t.Y, 0)
					var other tlset
					var owner string
					switch {
					case lx[tlMeta] && !ly[tlMeta]:
						other, owner = ly, metaOwner(t.X)
					case ly[tlMeta] && !lx[tlMeta]:
						other, owner = lx, metaOwner(t.Y)
					default:
						continue
					}
					if owner == "" {
						owner = "Object"
					}
					nc[owner]++
					sites[owner] = append(sites[owner], metaSite{fn, t.Pos(), fmt.Sprintf("%s: value #%d compared with %s.meta", fnName(fn), nc[owner], owner), other})
				}
			}
		}
	}
	n := 0
	var owners []string
	for o := range sites {
		owners = append(owners, o)
	}
	sort.Strings(owners)
	for _, o := range owners {
		ref := tlabel("")
		for _, s := range sites[o] {
			if s.label.only(tlRaw) {
				ref = tlRaw
			}
		}
		if ref == "" {
			for _, s := range sites[o] {
				for _, l := range []tlabel{tlBase, tlElem, tlPtr} {
					if s.label.only(l) && ref == "" {
						ref = l
					}
				}
			}
		}
		for _, s := range sites[o] {
			n++
			r.fnSeen(fnName(s.fn))
			r.check(rule, s.desc+" is derived like every other one", s.pos, ref != "" && s.label.only(ref),
				fmt.Sprintf("this site uses %s while the other sites of %s.meta use %s: the identity comparison that binds a Go type to its object type fails for objects (by value / by pointer) that the other site accepted, silently yielding {} or null fields", s.label, o, ref))
		}
	}
	r.floor(rule, "stores into and comparisons with the recorded Go type", n, 6)
}

func metaOwner(v ssa.Value) string {
	if _, o, f, ok := loadOfField(v); ok && f == "meta" {
		return o
	}
	if ex, ok := v.(*ssa.Extract); ok {
		if call, ok := ex.Tuple.(*ssa.Call); ok {
			if cal := call.Call.StaticCallee(); cal != nil {
				if rn := recvName(cal); rn != "" {
					return rn
				}
			}
		}
	}
	return ""
}

func recvName(fn *ssa.Function) string {
	if fn.Signature.Recv() == nil {
		return ""
	}
	return derefNamed(fn.Signature.Recv().Type())
}

// ---- SCAN ----------------------------------------------------------------------------

func c08Scan(c *Ctx, r *Report, rule string) {
	n := 0
	for _, fn := range c.allFns {
		if !c.inPkg(fn) {
			continue
		}
		loops := loopsOf(fn)
		for _, b := range fn.Blocks {
			for _, in := range b.Instrs {
				bo, ok := in.(*ssa.BinOp)
				if !ok || (bo.Op != token.EQL && bo.Op != token.NEQ) || !isReflectNamed(bo.X.Type(), "Type") {
					continue
				}
				var metaLoad ssa.Value
				var metaBase ssa.Value
				for _, op := range []ssa.Value{bo.X, bo.Y} {
					if b0, o, f, ok := loadOfField(op); ok && f == "meta" && o == "Object" {
						metaLoad, metaBase = op, b0
					} else if b0, o, f, ok := getterLoad(op); ok && f == "meta" && o == "Object" {
						metaLoad, metaBase = op, b0 // read through a (locked) accessor
					}
				}
				if metaLoad == nil {
					continue
				}
				l := innermostLoop(loops, b)
				if l == nil {
					continue
				}
				// the loop must range over the type table
				overTable := false
				for lb := range l.body {
					for _, li := range lb.Instrs {
						if _, o, f, ok := loadOfFieldInstr(li); ok && o == "typeList" && f == "list" {
							overTable = true
						}
					}
				}
				for _, li := range l.head.Instrs {
					if _, o, f, ok := loadOfFieldInstr(li); ok && o == "typeList" && f == "list" {
						overTable = true
					}
				}
				if !overTable {
					// the slice may be loaded before the loop
					overTable = derivedFromTypeTable(metaBase)
				}
				if !overTable {
					continue
				}
				n++
				r.fnSeen(fnName(fn))
				bad := ""
				var gs []guard
				for _, g := range blockGuards(b) {
					if g.at != nil && l.body[g.at.Block()] {
						gs = append(gs, g)
					}
				}
				for _, d := range loopControlDeps(l, b) {
					gs = append(gs, d.guard())
				}
				for _, g := range gs {
					ng := normGuard(g)
					if _, ok := assertFactOf(g); ok {
						continue
					}
					if v, _, ok := nilCmp(ng.cond); ok {
						if _, isPtr := v.Type().Underlying().(*types.Pointer); isPtr {
							continue
						}
					}
					if isRangeCond(ng.cond) {
						continue
					}
					bad = shortPath(vpath(ng.cond))
				}
				r.check(rule, fmt.Sprintf("%s: the scan of the type table compares the recorded Go type of every *Object", fnName(fn)), bo.Pos(), bad == "",
					"the comparison is skipped depending on "+bad+": an object type that fails this test is never found although a Go type is bound to it, every field of such a value behind an interface is null")
			}
		}
	}
	r.floor(rule, "scans of the type table for a recorded Go type", n, 1)
}

func loadOfFieldInstr(in ssa.Instruction) (ssa.Value, string, string, bool) {
	v, ok := in.(ssa.Value)
	if !ok {
		return nil, "", "", false
	}
	return loadOfField(v)
}

func derivedFromTypeTable(v ssa.Value) bool { return derivedFromField(v, "typeList", "list") }

// derivedFromField: v is an element (or a field of an element, an assertion of it, ...) of the collection
// held in owner.field.
func derivedFromField(v ssa.Value, owner, field string) bool {
	seen := map[ssa.Value]bool{}
	var walk func(v ssa.Value, d int) bool
	walk = func(v ssa.Value, d int) bool {
		if v == nil || seen[v] || d > 12 {
			return false
		}
		seen[v] = true
		if _, o, f, ok := loadOfField(v); ok && o == owner && f == field {
			return true
		}
		switch t := v.(type) {
		case *ssa.FieldAddr:
			return walk(t.X, d+1)
		case *ssa.Lookup:
			return walk(t.X, d+1)
		case *ssa.Extract:
			return walk(t.Tuple, d+1)
		case *ssa.TypeAssert:
			return walk(t.X, d+1)
		case *ssa.UnOp:
			return walk(t.X, d+1)
		case *ssa.IndexAddr:
			return walk(t.X, d+1)
		case *ssa.Phi:
			for _, e := range t.Edges {
				if walk(e, d+1) {
					return true
				}
			}
		case *ssa.Next:
			return walk(t.Iter, d+1)
		case *ssa.Range:
			return walk(t.X, d+1)
		}
		return false
	}
	return walk(v, 0)
}

// isRangeCond: the loop's own continuation test (index < len, or the ok of a range-next).
func isRangeCond(v ssa.Value) bool {
	switch t := v.(type) {
	case *ssa.Extract:
		_, isNext := t.Tuple.(*ssa.Next)
		return isNext
	case *ssa.BinOp:
		if t.Op == token.LSS {
			if _, ok := isLenOf(t.Y); ok {
				return true
			}
		}
	}
	return false
}
