package main

// Outlining: the inverse of inlining. A rule that is anchored in a role ("the directive evaluator: the
// function that takes a Selection and answers (bool, []error)") has nothing to read when that function
// was written out inside its only caller. The statement that plays the role is then taken out of the host
// function into a function of its own, source to source, and the property is decided on that text:
//
//	var ea2 []error                            skip, ea2 := nfOutlined1(sel, vars)
//	skip := false                      ==>
//	for _, du := range sel.Directives() {      func nfOutlined1(sel Selection, vars map[string]interface{}) (bool, []error) {
//	    ...                                        var ea2 []error; skip := false
//	}                                              for ... { ... }
//	                                               return skip, ea2
//	                                           }
//
// The statement is a loop with no exit other than its own end (no return, goto, defer, labelled
// branch out of it, no address taken of a variable of the host). Variables of the host that the loop reads
// become parameters; those it writes are returned and assigned back. Declarations of written variables
// that stand immediately before the loop, have a constant (or no) initial value and are not referenced
// anywhere before the loop move into the new function, so that the rule sees the initial value. The two
// texts denote the same program: the values of all variables after the statement are the same.

import (
	"fmt"
	"go/ast"
	"go/token"
	"go/types"
	"sort"
	"strings"
)

// outlineTarget describes which statement plays a role.
// outlinePreferredName: the name the function in the role has in the reference tree (set per target).
var outlinePreferredName string

type outlineTarget struct {
	role  string
	name  string // the name of the function in this role in the reference tree
	match func(nf *nfPass, rs *ast.RangeStmt) bool
	// clause: the body of a case clause plays the role (the arm of a type switch over Selection for one kind)
	clause func(nf *nfPass, sw *ast.TypeSwitchStmt, cc *ast.CaseClause) bool
}

var outlineTargets = []outlineTarget{
	{"directive evaluator", "skipSel", func(nf *nfPass, rs *ast.RangeStmt) bool {
		// for .. := range <Selection>.Directives()
		call, ok := rs.X.(*ast.CallExpr)
		if !ok || len(call.Args) != 0 {
			return false
		}
		sel, ok := call.Fun.(*ast.SelectorExpr)
		if !ok || sel.Sel.Name != "Directives" {
			return false
		}
		tv, ok := nf.info.Types[sel.X]
		if !ok {
			return false
		}
		n, ok := tv.Type.(*types.Named)
		return ok && n.Obj().Name() == "Selection"
	}, nil},
	{"inline fragment resolver", "resolveInline", nil, func(nf *nfPass, sw *ast.TypeSwitchStmt, cc *ast.CaseClause) bool {
		// case *Inline: of a switch over a Selection, with more in it than one call
		if len(cc.List) != 1 || len(cc.Body) == 0 {
			return false
		}
		tv, ok := nf.info.Types[cc.List[0]]
		if !ok {
			return false
		}
		pt, ok := tv.Type.(*types.Pointer)
		if !ok {
			return false
		}
		n, ok := pt.Elem().(*types.Named)
		if !ok || n.Obj().Name() != "Inline" {
			return false
		}
		if len(cc.Body) == 1 {
			// already a call of a function that takes the *Inline: somebody plays the role
			if as, ok := cc.Body[0].(*ast.AssignStmt); ok && len(as.Rhs) == 1 {
				if _, isCall := as.Rhs[0].(*ast.CallExpr); isCall {
					return false
				}
			}
			if es, ok := cc.Body[0].(*ast.ExprStmt); ok {
				if _, isCall := es.X.(*ast.CallExpr); isCall {
					return false
				}
			}
		}
		return true
	}},
}

func outlineForm(repo string, role string) (*nfResult, error) {
	var tgt *outlineTarget
	for i := range outlineTargets {
		if outlineTargets[i].role == role {
			tgt = &outlineTargets[i]
		}
	}
	if tgt == nil {
		return nil, fmt.Errorf("outline: no statement pattern for the role %q", role)
	}
	res := &nfResult{overlay: map[string][]byte{}}
	p, fset, err := loadForNF(repo, res.overlay)
	if err != nil {
		return nil, err
	}
	nf := &nfPass{p: p, fset: fset, info: p.TypesInfo, files: map[string][]byte{}}
	nf.readFiles(res.overlay)
	outlinePreferredName = tgt.name
	defer func() { outlinePreferredName = "" }()
	var edits []textEdit
	n := 0
	for _, f := range p.Syntax {
		for _, d := range f.Decls {
			fd, ok := d.(*ast.FuncDecl)
			if !ok || fd.Body == nil {
				continue
			}
			var found []*ast.RangeStmt
			type span struct {
				list        []ast.Stmt
				first, last int
			}
			var spans []span
			ast.Inspect(fd.Body, func(x ast.Node) bool {
				if rs, ok := x.(*ast.RangeStmt); ok && tgt.match != nil && tgt.match(nf, rs) {
					found = append(found, rs)
				}
				if sw, ok := x.(*ast.TypeSwitchStmt); ok && tgt.clause != nil {
					for _, cl := range sw.Body.List {
						if cc, ok := cl.(*ast.CaseClause); ok && tgt.clause(nf, sw, cc) {
							spans = append(spans, span{cc.Body, 0, len(cc.Body) - 1})
						}
					}
				}
				return true
			})
			for _, sp := range spans {
				n++
				es, desc, why := nf.outlineSpan(f, fd, sp.list, sp.first, sp.last, false, n)
				if why != "" {
					res.kept = append(res.kept, fmt.Sprintf("%s in %s: %s", role, fd.Name.Name, why))
					continue
				}
				edits = append(edits, es...)
				res.inlined = append(res.inlined, desc)
			}
			for _, rs := range found {
				n++
				es, desc, why := nf.outlineStmt(f, fd, rs, n)
				if why != "" {
					res.kept = append(res.kept, fmt.Sprintf("%s in %s: %s", role, fd.Name.Name, why))
					continue
				}
				edits = append(edits, es...)
				res.inlined = append(res.inlined, desc)
			}
		}
	}
	if len(edits) == 0 {
		return res, nil
	}
	if err := nf.apply(edits, res.overlay); err != nil {
		return nil, err
	}
	if _, _, err := loadForNF(repo, res.overlay); err != nil {
		return nil, err
	}
	return res, nil
}

// outlineStmt builds the edits that take the loop rs out of fd.
func (nf *nfPass) outlineStmt(f *ast.File, fd *ast.FuncDecl, rs *ast.RangeStmt, id int) (edits []textEdit, desc, why string) {
	// the statement list the loop stands in
	var list []ast.Stmt
	idx := -1
	ast.Inspect(fd.Body, func(x ast.Node) bool {
		var l []ast.Stmt
		switch t := x.(type) {
		case *ast.BlockStmt:
			l = t.List
		case *ast.CaseClause:
			l = t.Body
		case *ast.CommClause:
			l = t.Body
		}
		for i, s := range l {
			if s == ast.Stmt(rs) {
				list, idx = l, i
			}
		}
		return true
	})
	if idx < 0 {
		return nil, "", "the loop is not a statement of a block (labelled, or the body of another statement)"
	}
	return nf.outlineSpan(f, fd, list, idx, idx, true, id)
}

// spanNode lets the statements list[first..last] be walked as one node.
type spanNode struct{ stmts []ast.Stmt }

// outlineSpan builds the edits that take the statements list[first..last] out of fd. With pull, declarations of
// written variables that stand immediately before the span move along.
func (nf *nfPass) outlineSpan(f *ast.File, fd *ast.FuncDecl, list []ast.Stmt, idxFirst, idxLast int, pull bool, id int) (edits []textEdit, desc, why string) {
	rs := &ast.BlockStmt{Lbrace: list[idxFirst].Pos(), List: list[idxFirst : idxLast+1], Rbrace: list[idxLast].End() - 1}
	idx := idxFirst
	// exits and constructs that tie the statements to their host
	bad := ""
	depthLoop := 0
	var walk func(x ast.Node, inner int)
	walk = func(x ast.Node, inner int) {
		ast.Inspect(x, func(y ast.Node) bool {
			switch t := y.(type) {
			case *ast.ReturnStmt:
				bad = "it returns from the host function"
			case *ast.DeferStmt:
				bad = "it defers a call"
			case *ast.GoStmt:
				bad = "it starts a goroutine"
			case *ast.FuncLit:
				bad = "it contains a function literal"
				return false
			case *ast.LabeledStmt:
				bad = "it contains a label"
			case *ast.BranchStmt:
				if t.Label != nil || t.Tok == token.GOTO || t.Tok == token.FALLTHROUGH && false {
					bad = "it has a labelled branch or goto"
				}
			case *ast.UnaryExpr:
				if t.Op == token.AND {
					if id, ok := t.X.(*ast.Ident); ok {
						if v, ok := nf.info.Uses[id].(*types.Var); ok && !v.IsField() && v.Pos() < rs.Pos() && v.Parent() != nf.p.Types.Scope() {
							bad = "it takes the address of the host's variable " + id.Name
						}
					}
				}
			}
			return bad == ""
		})
	}
	_ = depthLoop
	walk(rs, 0)
	if bad != "" {
		return nil, "", bad
	}
	// free variables of the loop: declared in the host (parameters, receiver, locals) outside the loop
	inHost := func(v *types.Var) bool {
		if v == nil || v.IsField() || v.Pkg() != nf.p.Types {
			return false
		}
		if v.Parent() == nil || v.Parent() == nf.p.Types.Scope() || v.Parent() == types.Universe {
			return false
		}
		return v.Pos() >= fd.Pos() && v.Pos() < fd.End() && !(v.Pos() >= rs.Pos() && v.Pos() < rs.End())
	}
	read := map[*types.Var]bool{}
	written := map[*types.Var]bool{}
	var order []*types.Var
	note := func(v *types.Var) {
		for _, o := range order {
			if o == v {
				return
			}
		}
		order = append(order, v)
	}
	ast.Inspect(rs, func(x ast.Node) bool {
		switch t := x.(type) {
		case *ast.Ident:
			if v, ok := nf.info.Uses[t].(*types.Var); ok && inHost(v) {
				read[v] = true
				note(v)
			}
		case *ast.AssignStmt:
			for _, l := range t.Lhs {
				if id, ok := l.(*ast.Ident); ok {
					if v, ok := nf.info.Uses[id].(*types.Var); ok && inHost(v) {
						written[v] = true
						note(v)
					}
				}
			}
		case *ast.IncDecStmt:
			if id, ok := t.X.(*ast.Ident); ok {
				if v, ok := nf.info.Uses[id].(*types.Var); ok && inHost(v) {
					written[v] = true
					note(v)
				}
			}
		case *ast.RangeStmt:
			if t.Tok == token.ASSIGN {
				for _, l := range []ast.Expr{t.Key, t.Value} {
					if id, ok := l.(*ast.Ident); ok {
						if v, ok := nf.info.Uses[id].(*types.Var); ok && inHost(v) {
							written[v] = true
							note(v)
						}
					}
				}
			}
		}
		return true
	})
	// named results of the host written in the loop stay what they are: returned and assigned back too
	// declarations immediately before the loop that can move along
	moved := map[*types.Var]bool{}
	first := idx
	referencedBefore := func(v *types.Var, upto token.Pos, except ast.Node) bool {
		refd := false
		ast.Inspect(fd.Body, func(x ast.Node) bool {
			if x == except {
				return false
			}
			if id, ok := x.(*ast.Ident); ok && id.Pos() < upto {
				if nf.info.Uses[id] == types.Object(v) {
					refd = true
				}
			}
			return true
		})
		return refd
	}
	constInit := func(e ast.Expr) bool {
		switch t := e.(type) {
		case *ast.BasicLit:
			return true
		case *ast.Ident:
			return t.Name == "true" || t.Name == "false" || t.Name == "nil"
		}
		return false
	}
	for j := idx - 1; j >= 0 && pull; j-- {
		ok := false
		var vars []*types.Var
		switch t := list[j].(type) {
		case *ast.DeclStmt:
			if gd, isG := t.Decl.(*ast.GenDecl); isG && gd.Tok == token.VAR {
				ok = true
				for _, sp := range gd.Specs {
					vs := sp.(*ast.ValueSpec)
					for _, e := range vs.Values {
						if !constInit(e) {
							ok = false
						}
					}
					for _, nm := range vs.Names {
						if v, isV := nf.info.Defs[nm].(*types.Var); isV {
							vars = append(vars, v)
						} else {
							ok = false
						}
					}
				}
			}
		case *ast.AssignStmt:
			if t.Tok == token.DEFINE {
				ok = true
				for _, e := range t.Rhs {
					if !constInit(e) {
						ok = false
					}
				}
				for _, l := range t.Lhs {
					id, isId := l.(*ast.Ident)
					if !isId {
						ok = false
						continue
					}
					if v, isV := nf.info.Defs[id].(*types.Var); isV {
						vars = append(vars, v)
					} else {
						ok = false // re-declares an existing variable
					}
				}
			}
		}
		if !ok || len(vars) == 0 {
			break
		}
		for _, v := range vars {
			if !written[v] && !read[v] {
				ok = false // not a variable of the loop
			}
			if referencedBefore(v, rs.Pos(), list[j]) {
				ok = false
			}
		}
		if !ok {
			break
		}
		for _, v := range vars {
			moved[v] = true
			written[v] = true // it is defined by the new function's result
			note(v)
		}
		first = j
	}
	var ins, outs []*types.Var
	for _, v := range order {
		if !moved[v] {
			ins = append(ins, v)
		}
		if written[v] {
			outs = append(outs, v)
		}
	}
	if len(outs) == 0 {
		return nil, "", "the loop writes no variable of its host"
	}
	// booleans first: the role is recognised by what the function answers
	sort.SliceStable(outs, func(i, j int) bool {
		bi := isBoolType(outs[i].Type())
		bj := isBoolType(outs[j].Type())
		return bi && !bj
	})
	qual, missing := nf.qualifier(f)
	name := fmt.Sprintf("nfOutlined%d", id)
	// a method of the host's receiver when the statements use it, under the name the role has in the reference
	// tree when that name is free
	var recvVar *types.Var
	recvDecl := ""
	if fd.Recv != nil && len(fd.Recv.List) == 1 && len(fd.Recv.List[0].Names) == 1 {
		if rv, ok := nf.info.Defs[fd.Recv.List[0].Names[0]].(*types.Var); ok {
			for _, v := range ins {
				if v == rv && !written[v] {
					recvVar = rv
					recvDecl = "(" + rv.Name() + " " + types.TypeString(rv.Type(), qual) + ") "
				}
			}
		}
	}
	if outlinePreferredName != "" {
		free := nf.p.Types.Scope().Lookup(outlinePreferredName) == nil
		if recvVar != nil {
			o, _, _ := types.LookupFieldOrMethod(recvVar.Type(), true, nf.p.Types, outlinePreferredName)
			free = o == nil
		}
		if free {
			name = outlinePreferredName
		}
	}
	var params, args, results, rets, lhs []string
	for _, v := range ins {
		if v == recvVar {
			continue
		}
		params = append(params, v.Name()+" "+types.TypeString(v.Type(), qual))
		args = append(args, v.Name())
	}
	allMoved := true
	for _, v := range outs {
		results = append(results, types.TypeString(v.Type(), qual))
		rets = append(rets, v.Name())
		lhs = append(lhs, v.Name())
		if !moved[v] {
			allMoved = false
		}
	}
	if len(*missing) > 0 {
		return nil, "", "a type of package " + (*missing)[0] + " that the file does not import is needed"
	}
	file := nf.fileName(f)
	from, to := list[first].Pos(), rs.End()
	body := nf.text(file, from, to)
	// the call statement
	var call strings.Builder
	op := "="
	if allMoved {
		op = ":="
	} else {
		// the moved ones have to be declared for the assignment
		for _, v := range outs {
			if moved[v] {
				fmt.Fprintf(&call, "var %s %s\n", v.Name(), types.TypeString(v.Type(), qual))
			}
		}
	}
	callee := name
	if recvVar != nil {
		callee = recvVar.Name() + "." + name
	}
	fmt.Fprintf(&call, "%s %s %s(%s)", strings.Join(lhs, ", "), op, callee, strings.Join(args, ", "))
	// parameters that are also results: the names are taken by the parameters, results stay unnamed
	decl := fmt.Sprintf("\n\nfunc %s%s(%s) (%s) {\n%s\nreturn %s\n}\n", recvDecl, name, strings.Join(params, ", "), strings.Join(results, ", "), body, strings.Join(rets, ", "))
	edits = append(edits, textEdit{file, nf.off(from), nf.off(to), call.String()})
	edits = append(edits, textEdit{file, nf.off(fd.End()), nf.off(fd.End()), decl})
	what := "the loop"
	if !pull {
		what = "the statements"
	}
	desc = fmt.Sprintf("%s at %s taken out of %s as %s (1 call sites)", what, nf.short(rs.Pos()), fd.Name.Name, name)
	return edits, desc, ""
}

func isBoolType(t types.Type) bool {
	b, ok := t.Underlying().(*types.Basic)
	return ok && b.Kind() == types.Bool
}
