package main

import (
	"fmt"
	"go/token"

	"golang.org/x/tools/go/ssa"
)

// C06.ONCE: "errors contains exactly one entry for that failure".
//
// In the functions that evaluate ONE field (the field resolver and the reflection resolver) and in the type
// dispatcher, an error that is constructed on the spot (resWarn/resWarnp/resError: a package constructor
// whose every return is a fresh *Error) is appended to the error accumulator only where the accumulator is
// provably still empty: its value is the zero slice on every path reaching the append, or the append is
// guarded by len(accumulator) == 0. Otherwise an invocation whose failure was already recorded (the
// errors of the argument builder, of the reflection resolver, the resolver's own error) gets a second entry
// for the same position. The list resolver is not covered: its accumulator legitimately collects the
// entries of independent elements.
func c06Once(c *Ctx, r *Report, a *Anchors) {
	r.rule("C06.ONCE", "field resolver / reflection resolver / type dispatcher: an error constructed on the spot is appended only to an accumulator that is empty on every path reaching the append (zero slice, or guarded by len == 0)")
	n := 0
	for _, fn := range []*ssa.Function{a.field, a.reflectRes, a.dispatch} {
		if fn == nil {
			continue
		}
		r.fnSeen(fnName(fn))
		k := 0
		for _, ci := range callsIn(fn) {
			if !isBuiltinCall(ci, "append") {
				continue
			}
			call, ok := ci.(*ssa.Call)
			if !ok || len(call.Call.Args) != 2 || !isErrSlice(call.Type()) {
				continue
			}
			elems, ok := sliceLitElems(call.Call.Args[1])
			if !ok || len(elems) != 1 {
				continue
			}
			cons, ok := stripIface(elems[0]).(*ssa.Call)
			if !ok {
				if cc, ok2 := elems[0].(*ssa.Call); ok2 {
					cons = cc
				} else {
					continue
				}
			}
			callee := cons.Call.StaticCallee()
			if callee == nil || callee.Signature.Recv() != nil || !c.alwaysStarError(callee) {
				continue
			}
			n++
			k++
			acc := call.Call.Args[0]
			empty, why := provablyEmpty(acc, call.Block())
			r.check("C06.ONCE", fmt.Sprintf("%s: constructed error #%d (%s) is the only entry of this evaluation", fnName(fn), k, callee.Name()), call.Pos(), empty,
				"the accumulator may already hold entries here ("+why+"): a failure that was already reported gets a second entry at the same path")
		}
		// a fresh list made of one constructed error (return []error{resWarnp(..)}): the only entry by construction,
		// unless the list is then appended to an accumulator (the case above, counted there)
		for _, b := range fn.Blocks {
			for _, in := range b.Instrs {
				sl, ok := in.(*ssa.Slice)
				if !ok || !isErrSlice(sl.Type()) || sl.Referrers() == nil {
					continue
				}
				elems, ok := sliceLitElems(sl)
				if !ok || len(elems) != 1 {
					continue
				}
				cons, ok := stripIface(elems[0]).(*ssa.Call)
				if !ok {
					continue
				}
				callee := cons.Call.StaticCallee()
				if callee == nil || callee.Signature.Recv() != nil || !c.alwaysStarError(callee) {
					continue
				}
				appended := false
				for _, ref := range *sl.Referrers() {
					if ci, isCall := ref.(*ssa.Call); isCall && isBuiltinCall(ci, "append") {
						appended = true
					}
				}
				if appended {
					continue
				}
				n++
				k++
				r.check("C06.ONCE", fmt.Sprintf("%s: constructed error #%d (%s) is the only entry of this evaluation", fnName(fn), k, callee.Name()), sl.Pos(), true, "")
			}
		}
	}
	r.floor("C06.ONCE", "appends of constructed errors in the field / reflection resolver and dispatcher", n, 5)
}

// provablyEmpty: every phi leaf of the slice is the nil constant, or the block is guarded by len(v) == 0.
func provablyEmpty(v ssa.Value, b *ssa.BasicBlock) (bool, string) {
	guarded := hasGuard(b, func(g guard) bool {
		g = normGuard(g)
		x, op, k, ok := intCmp(g.cond)
		if !ok {
			return false
		}
		inner, isLen := isLenOf(x)
		if !isLen || !sameVal(inner, v) {
			return false
		}
		if !g.val {
			op = negOp(op)
		}
		switch {
		case op == token.EQL && k == 0, op == token.LEQ && k == 0, op == token.LSS && k == 1:
			return true
		}
		return false
	})
	if guarded {
		return true, ""
	}
	leaves, _ := phiLeavesAt(v, b)
	for _, lf := range leaves {
		if isNilConst(lf.val) {
			continue
		}
		return false, "it may be " + shortPath(vpath(lf.val))
	}
	return true, ""
}

// c06AllSels: "every other selected position carries the same value it would have had without the
// failure": the selection walker visits every selection of the set whatever the earlier ones did. Its loop
// over the selection list is left only when the list is exhausted - no return and no break inside the body.
func c06AllSels(c *Ctx, r *Report, a *Anchors, rule string) {
	w := a.walker
	if w == nil {
		r.undecided(rule, "anchor: selection walker", 0, "not found")
		return
	}
	r.fnSeen(fnName(w))
	n := 0
	for li, l := range loopsOf(w) {
		// the loop that dispatches selections
		dispatches := false
		for b := range l.body {
			for _, in := range b.Instrs {
				if ci, ok := in.(ssa.CallInstruction); ok {
					if cal := ci.Common().StaticCallee(); cal != nil && (cal == a.field || cal == a.inline || cal == a.spread) {
						dispatches = true
					}
				}
			}
		}
		if !dispatches {
			continue
		}
		n++
		bad := ""
		var pos = loopPos(l)
		for b := range l.body {
			if b == l.head {
				continue
			}
			for _, s := range b.Succs {
				if !l.body[s] {
					bad = "the body leaves the loop from block " + b.Comment
					for _, in := range s.Instrs {
						if in.Pos().IsValid() {
							pos = in.Pos()
							break
						}
					}
				}
			}
			if len(b.Instrs) > 0 {
				if rt, ok := b.Instrs[len(b.Instrs)-1].(*ssa.Return); ok {
					bad = "the body returns"
					pos = rt.Pos()
				}
			}
		}
		r.check(rule, fmt.Sprintf("%s: selection loop %d ends only when the selection list is exhausted", fnName(w), li+1), pos, bad == "",
			bad+" before the remaining selections were looked at: after one failing field the fields selected after it are missing from data although their resolvers would have succeeded")
	}
	r.floor(rule, "dispatching loops in the selection walker", n, 1)
}

// c06PerMember: "a resolver returning a group of errors yields one entry per member": where the response's
// error list is formed, the per-error formatter is applied to every member of the group: inside the loop over
// the group the call is control dependent on nothing but the loop's own test (no de-duplication by text).
func c06PerMember(c *Ctx, r *Report) {
	r.rule("C06.PERMEMBER", "FormErrorsResult: the per-error formatter is called for every member of an error group (only the range test guards it inside the loop)")
	fn := c.fn("FormErrorsResult")
	one := c.fn("formOneErrorResult")
	if fn == nil || one == nil {
		r.undecided("C06.PERMEMBER", "anchors FormErrorsResult / formOneErrorResult", 0, "not found")
		return
	}
	r.fnSeen(fnName(fn))
	loops := loopsOf(fn)
	n := 0
	for _, ci := range callsIn(fn) {
		if ci.Common().StaticCallee() != one {
			continue
		}
		l := innermostLoop(loops, ci.Block())
		if l == nil {
			continue
		}
		n++
		filter := ""
		for _, d := range loopControlDeps(l, ci.Block()) {
			if !isRangeCond(d.ifi.Cond) {
				filter = shortPath(vpath(d.ifi.Cond))
			}
		}
		r.check("C06.PERMEMBER", fmt.Sprintf("%s: group loop %d reports every member", fnName(fn), n), ci.Pos(), filter == "",
			"a member of the group is left out depending on "+filter+": members with the same message (and the extensions only they carry) collapse into one entry")
	}
	r.floor("C06.PERMEMBER", "loops over an error group in the response former", n, 1)
}
