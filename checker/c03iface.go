package main

import (
	"fmt"
	"go/constant"
	"go/token"
	"go/types"
	"sort"

	"golang.org/x/tools/go/ssa"
)

// C03.RIFACE: reflect.Value.Interface panics ("cannot return value obtained from unexported field or
// method") on a Value that was reached through an unexported struct field. The resolver reads struct
// fields of the application's objects by a name it bound earlier; the application chooses its field names
// freely, so a lower-case field whose name matches a GraphQL field case-insensitively is ordinary input.
//
// The rule: every Interface() whose receiver derives from FieldByName / FieldByNameFunc / Field /
// FieldByIndex is either under CanInterface() == true, or the field name is loaded from a struct field of
// the package (the cached binding) and every store to that field in the package stores the Name of a
// reflect.StructField under PkgPath == "" (or IsExported() == true) of the same StructField.
func c03RIface(c *Ctx, r *Report) {
	r.rule("C03.RIFACE", "reflect.Value.Interface on a Value reached through a struct-field accessor: under CanInterface(), or the field name comes from a cached binding whose every store is the Name of a reflect.StructField tested PkgPath == \"\" / IsExported()")
	n := 0
	var fns []*ssa.Function
	fns = append(fns, c.allFns...)
	sort.Slice(fns, func(i, j int) bool { return fnName(fns[i]) < fnName(fns[j]) })
	for _, fn := range fns {
		k := 0
		for _, ci := range callsIn(fn) {
			f := calleeObj(ci)
			if f == nil || f.Pkg() == nil || f.Pkg().Path() != "reflect" || recvTypeName(f) != "Value" || f.Name() != "Interface" {
				continue
			}
			recv := callRecv(ci)
			if recv == nil {
				continue
			}
			srcs := rvFieldSources(recv, map[ssa.Value]bool{}, 0)
			for _, src := range srcs {
				k++
				n++
				r.fnSeen(fnName(fn))
				key := fmt.Sprintf("%s: Interface() of a struct field value (%s) #%d", fnName(fn), src.how, k)
				if src.call == nil {
					r.undecided("C03.RIFACE", key, ci.Pos(), "the origin of the reflect.Value is not one the rule knows: "+src.how)
					continue
				}
				if underCanInterface(ci, recv) {
					r.check("C03.RIFACE", key, ci.Pos(), true, "")
					continue
				}
				ok, why := fieldNameExported(c, src.call)
				r.check("C03.RIFACE", key, ci.Pos(), ok, why)
			}
		}
	}
	r.floor("C03.RIFACE", "Interface() calls on struct field values", n, 1)
}

type rvFieldSrc struct {
	call *ssa.Call // the accessor call; nil = unknown origin
	how  string
}

var rvPreserve = map[string]bool{"Elem": true, "Index": true, "MapIndex": true, "Convert": true, "Addr": true, "Slice": true, "Slice3": true, "MapKeys": true, "MapRange": true, "Key": true, "Value": true}
var rvFieldAcc = map[string]bool{"FieldByName": true, "FieldByNameFunc": true, "Field": true, "FieldByIndex": true}

// rvFieldSources: the struct-field accessor calls a reflect.Value may derive from (the read-only flag that
// makes Interface panic is set by them and handed on by Elem, Index, MapIndex, ...). Values made by
// ValueOf, New, Zero, Call results and the like carry no such flag and yield nothing.
func rvFieldSources(v ssa.Value, seen map[ssa.Value]bool, depth int) []rvFieldSrc {
	if v == nil || seen[v] || depth > 8 {
		return nil
	}
	seen[v] = true
	switch t := v.(type) {
	case *ssa.Phi:
		var out []rvFieldSrc
		for _, e := range t.Edges {
			out = append(out, rvFieldSources(e, seen, depth)...)
		}
		return out
	case *ssa.Call:
		f := calleeObj(t)
		if f == nil || f.Pkg() == nil || f.Pkg().Path() != "reflect" {
			return nil
		}
		if recvTypeName(f) == "Value" {
			switch {
			case rvFieldAcc[f.Name()]:
				return []rvFieldSrc{{t, f.Name()}}
			case rvPreserve[f.Name()]:
				return rvFieldSources(callRecv(t), seen, depth)
			}
			return nil
		}
		if f.Name() == "Indirect" && len(t.Call.Args) == 1 {
			return rvFieldSources(t.Call.Args[0], seen, depth)
		}
		return nil
	case *ssa.UnOp:
		if t.Op != token.MUL {
			return nil
		}
		if cell := cellRoot(t.X); cell != nil {
			var out []rvFieldSrc
			for _, st := range cellStores(cell) {
				out = append(out, rvFieldSources(st.Val, seen, depth)...)
			}
			return out
		}
		return nil
	case *ssa.Extract:
		return rvFieldSources(t.Tuple, seen, depth)
	case *ssa.Parameter:
		// what the callers inside the package pass
		fn := t.Parent()
		idx := -1
		for i, p := range fn.Params {
			if p == t {
				idx = i
			}
		}
		var out []rvFieldSrc
		if idx < 0 || fn.Prog == nil {
			return nil
		}
		for _, cfn := range fnsOfPkg(fn) {
			for _, ci := range callsIn(cfn) {
				if ci.Common().StaticCallee() == fn && idx < len(ci.Common().Args) {
					out = append(out, rvFieldSources(ci.Common().Args[idx], seen, depth+1)...)
				}
			}
		}
		return out
	}
	return nil
}

// fnsOfPkg: the source functions (methods and closures included) of fn's package.
func fnsOfPkg(fn *ssa.Function) []*ssa.Function {
	if fn.Pkg == nil {
		return nil
	}
	var out []*ssa.Function
	var add func(f *ssa.Function)
	add = func(f *ssa.Function) {
		out = append(out, f)
		for _, a := range f.AnonFuncs {
			add(a)
		}
	}
	for _, m := range fn.Pkg.Members {
		switch t := m.(type) {
		case *ssa.Function:
			add(t)
		case *ssa.Type:
			for _, ty := range []types.Type{t.Type(), types.NewPointer(t.Type())} {
				ms := fn.Prog.MethodSets.MethodSet(ty)
				for i := 0; i < ms.Len(); i++ {
					if mf := fn.Prog.MethodValue(ms.At(i)); mf != nil && mf.Pkg == fn.Pkg && len(mf.Blocks) > 0 && mf.Synthetic == "" {
						add(mf)
					}
				}
			}
		}
	}
	return out
}

func underCanInterface(ci ssa.CallInstruction, recv ssa.Value) bool {
	return hasGuard(ci.Block(), func(g guard) bool {
		call, ok := g.cond.(*ssa.Call)
		if !ok || !g.val {
			return false
		}
		f := calleeObj(call)
		return f != nil && f.Pkg() != nil && f.Pkg().Path() == "reflect" && f.Name() == "CanInterface" && sameVal(callRecv(call), recv)
	})
}

// fieldNameExported: the name handed to FieldByName comes from a cached binding every store of which is an
// exported field's name.
func fieldNameExported(c *Ctx, acc *ssa.Call) (bool, string) {
	f := calleeObj(acc)
	if f.Name() != "FieldByName" || len(acc.Call.Args) < 2 {
		return false, "the field is chosen by " + f.Name() + " and Interface() is not under CanInterface(): an unexported field that is selected here makes Interface panic"
	}
	name := acc.Call.Args[1]
	// a name handed in as a parameter ("extract method" around the field read) is what the callers hand in
	names := []ssa.Value{name}
	if p, isP := name.(*ssa.Parameter); isP && p.Parent() != nil {
		names = nil
		host := p.Parent()
		idx := -1
		for i, q := range host.Params {
			if q == p {
				idx = i
			}
		}
		for _, fn := range c.allFns {
			for _, ci := range callsIn(fn) {
				if ci.Common().StaticCallee() == host && idx >= 0 && idx < len(ci.Common().Args) {
					names = append(names, ci.Common().Args[idx])
				}
			}
		}
		if len(names) == 0 {
			return false, "the field name is a parameter of " + fnName(host) + " and no call of it was found"
		}
	}
	for _, nm := range names {
		if _, isC := nm.(*ssa.Const); isC {
			continue
		}
		_, owner, field, ok := loadOfField(nm)
		if !ok {
			_, owner, field, ok = getterLoad(nm)
		}
		if !ok {
			return false, "the field name (" + shortPath(vpath(nm)) + ") is not a constant and not a cached binding the rule can follow"
		}
		if ok2, why := bindingStoresExported(c, owner, field); !ok2 {
			return false, why
		}
	}
	return true, ""
}

// bindingStoresExported: every store into owner.field is the name of an exported struct field.
func bindingStoresExported(c *Ctx, owner, field string) (bool, string) {
	nst := 0
	for _, fn := range c.allFns {
		for _, b := range fn.Blocks {
			for _, in := range b.Instrs {
				st, ok := in.(*ssa.Store)
				if !ok {
					continue
				}
				fa, ok := st.Addr.(*ssa.FieldAddr)
				if !ok {
					continue
				}
				if o, fl := fieldOwner(fa.X.Type(), fa.Field); o != owner || fl != field {
					continue
				}
				if k, isC := st.Val.(*ssa.Const); isC && k.Value != nil && k.Value.Kind() == constant.String && constant.StringVal(k.Value) == "" {
					continue // cleared
				}
				nst++
				if why := storeOfExportedName(st); why != "" {
					return false, fmt.Sprintf("%s.%s is the name FieldByName looks up, and the store at %s %s: a lower-case field of the application's struct whose name matches is bound, and reading it through Interface() panics", owner, field, c.pos(st.Pos()), why)
				}
			}
		}
	}
	if nst == 0 {
		return false, "no store to " + owner + "." + field + " found"
	}
	return true, ""
}

// storeOfExportedName: "" when the stored string is sf.Name of a reflect.StructField sf and the store is
// under sf.PkgPath == "" or sf.IsExported(); otherwise the reason.
func storeOfExportedName(st *ssa.Store) string {
	base, fld, ok := structFieldMember(st.Val)
	if !ok || fld != "Name" {
		return "stores a string that is not the Name of a reflect.StructField"
	}
	if hasGuard(st.Block(), func(g guard) bool {
		switch t := g.cond.(type) {
		case *ssa.BinOp:
			if t.Op != token.EQL && t.Op != token.NEQ {
				return false
			}
			x, y := t.X, t.Y
			if _, isC := x.(*ssa.Const); isC {
				x, y = y, x
			}
			k, isC := y.(*ssa.Const)
			if !isC || k.Value == nil || k.Value.Kind() != constant.String || constant.StringVal(k.Value) != "" {
				return false
			}
			b2, f2, ok := structFieldMember(x)
			return ok && f2 == "PkgPath" && b2 == base && (t.Op == token.EQL) == g.val
		case *ssa.Call:
			f := calleeObj(t)
			if f == nil || f.Name() != "IsExported" || !g.val {
				return false
			}
			rv := callRecv(t)
			if u, ok := rv.(*ssa.UnOp); ok && u.Op == token.MUL {
				if a := cellRoot(u.X); a != nil {
					return ssa.Value(a) == base
				}
			}
			return rv == base
		}
		return false
	}) {
		return ""
	}
	return "is not under a test that the field is exported (PkgPath == \"\" or IsExported())"
}

// structFieldMember: v is member fld of a reflect.StructField held in base (a local cell with a single
// store, or an SSA value).
func structFieldMember(v ssa.Value) (base ssa.Value, fld string, ok bool) {
	isSF := func(t types.Type) bool {
		if p, ok := t.Underlying().(*types.Pointer); ok {
			t = p.Elem()
		}
		n, ok := t.(*types.Named)
		return ok && n.Obj().Pkg() != nil && n.Obj().Pkg().Path() == "reflect" && n.Obj().Name() == "StructField"
	}
	switch t := v.(type) {
	case *ssa.UnOp:
		if t.Op != token.MUL {
			return nil, "", false
		}
		fa, ok := t.X.(*ssa.FieldAddr)
		if !ok || !isSF(fa.X.Type()) {
			return nil, "", false
		}
		_, name := fieldOwner(fa.X.Type(), fa.Field)
		if a, ok := fa.X.(*ssa.Alloc); ok {
			if len(cellStores(a)) != 1 {
				return nil, "", false
			}
			return a, name, true
		}
		return fa.X, name, true
	case *ssa.Field:
		if !isSF(t.X.Type()) {
			return nil, "", false
		}
		_, name := fieldOwner(t.X.Type(), t.Field)
		return t.X, name, true
	}
	return nil, "", false
}
