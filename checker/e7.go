package main

// E7: converter discipline. Narrowing conversions must be range-guarded;
// (value, error) returns must not carry a value with a non-nil error.

import (
	"fmt"
	"go/constant"
	"go/token"
	"go/types"
	"math"

	"golang.org/x/tools/go/ssa"
)

type numRange struct {
	lo, hi  float64
	isFloat bool
	signed  bool
}

func rangeOf(t types.Type) (numRange, bool) {
	b, ok := t.Underlying().(*types.Basic)
	if !ok {
		return numRange{}, false
	}
	p2 := func(n int) float64 { return math.Pow(2, float64(n)) }
	switch b.Kind() {
	case types.Int8:
		return numRange{-p2(7), p2(7) - 1, false, true}, true
	case types.Int16:
		return numRange{-p2(15), p2(15) - 1, false, true}, true
	case types.Int32:
		return numRange{-p2(31), p2(31) - 1, false, true}, true
	case types.Int64, types.Int:
		return numRange{-p2(63), p2(63) - 1, false, true}, true
	case types.Uint8:
		return numRange{0, p2(8) - 1, false, false}, true
	case types.Uint16:
		return numRange{0, p2(16) - 1, false, false}, true
	case types.Uint32:
		return numRange{0, p2(32) - 1, false, false}, true
	case types.Uint64, types.Uint, types.Uintptr:
		return numRange{0, p2(64) - 1, false, false}, true
	case types.Float32:
		return numRange{-math.MaxFloat32, math.MaxFloat32, true, true}, true
	case types.Float64:
		return numRange{-math.MaxFloat64, math.MaxFloat64, true, true}, true
	}
	return numRange{}, false
}

// narrowing: can a value of type src fall outside dst's range (wrap, overflow to Inf)?
// Precision loss inside the range (int64 -> float32) is not counted.
func narrowing(src, dst types.Type) bool {
	s, ok1 := rangeOf(src)
	d, ok2 := rangeOf(dst)
	if !ok1 || !ok2 {
		return false
	}
	if s.isFloat && !d.isFloat {
		return true // also NaN
	}
	return s.lo < d.lo || s.hi > d.hi
}

type convSite struct {
	fn      *ssa.Function
	conv    *ssa.Convert
	guarded bool
	how     string
}

// widenOf: v is x or a widening conversion chain of x.
func widenBase(v ssa.Value) ssa.Value {
	for {
		c, ok := v.(*ssa.Convert)
		if !ok {
			return v
		}
		if narrowing(c.X.Type(), c.Type()) {
			return v
		}
		v = c.X
	}
}

func narrowingSites(c *Ctx, fns []*ssa.Function) []convSite {
	var out []convSite
	for _, fn := range fns {
		for _, b := range fn.Blocks {
			for _, in := range b.Instrs {
				cv, ok := in.(*ssa.Convert)
				if !ok || !narrowing(cv.X.Type(), cv.Type()) {
					continue
				}
				// only conversions whose result can reach a return value matter; conversions feeding a
				// comparison only (round trip test) are part of a guard
				site := convSite{fn: fn, conv: cv}
				src := widenBase(cv.X)
				sr, _ := rangeOf(src.Type())
				lower, upper := false, false
				for _, g := range blockGuards(b) {
					g = normGuard(g)
					bo, ok := g.cond.(*ssa.BinOp)
					if !ok {
						continue
					}
					switch bo.Op {
					case token.LSS, token.LEQ, token.GTR, token.GEQ:
					default:
						continue
					}
					x, y := widenBase(bo.X), widenBase(bo.Y)
					op := bo.Op
					if !g.val {
						// NaN falsifies every ordered comparison: the false edge of `f < lo` does not
						// establish `f >= lo` for a float unless NaN is excluded separately
						if sr.isFloat && !nanExcluded(b, src) {
							continue
						}
						op = negOp(op)
					}
					// normalise: src OP bound
					if sameVal(y, src) {
						x, y = y, x
						op = flipOp(op)
					}
					if !sameVal(x, src) {
						continue
					}
					// a constant bound must lie inside the destination range
					dr0, _ := rangeOf(cv.Type())
					if kc, isC := y.(*ssa.Const); isC && kc.Value != nil {
						kf := constFloat(kc)
						switch op {
						case token.GEQ, token.GTR:
							if kf < dr0.lo-1 {
								continue
							}
						case token.LEQ, token.LSS:
							if kf > dr0.hi+1 {
								continue
							}
						}
					}
					switch op {
					case token.GEQ, token.GTR:
						lower = true
					case token.LEQ, token.LSS:
						upper = true
					}
				}
				dr, _ := rangeOf(cv.Type())
				needLower := sr.lo < dr.lo || (sr.isFloat && !dr.isFloat)
				needUpper := sr.hi > dr.hi || (sr.isFloat && !dr.isFloat)
				if (upper || !needUpper) && (lower || !needLower) {
					site.guarded = true
					site.how = "dominated by bounds comparison(s) of the source"
				}
				if !site.guarded {
					// arithmetic over bounded values: every variable feeding the source expression is itself
					// bounded from both sides by dominating comparisons
					if lv := arithLeaves(cv.X, 0); len(lv) > 0 {
						all := true
						for _, l := range lv {
							lo, up := boundsOn(b, l)
							if !(lo && up) {
								all = false
							}
						}
						if all {
							site.guarded = true
							site.how = "arithmetic over values that are each bounded from both sides by dominating comparisons"
						}
					}
				}
				if !site.guarded && roundTripChecked(fn, cv) {
					site.guarded = true
					site.how = "round-trip comparison with the source"
				}
				if !site.guarded && onlyFeedsComparison(cv) {
					continue // the conversion is itself part of a guard
				}
				out = append(out, site)
			}
		}
	}
	return out
}

// roundTripChecked: somewhere in fn, T_src(T_dst(src)) is compared (==, !=) with src.
func roundTripChecked(fn *ssa.Function, cv *ssa.Convert) bool {
	src := cv.X
	for _, b := range fn.Blocks {
		for _, in := range b.Instrs {
			bo, ok := in.(*ssa.BinOp)
			if !ok || (bo.Op != token.EQL && bo.Op != token.NEQ) {
				continue
			}
			for _, pair := range [][2]ssa.Value{{bo.X, bo.Y}, {bo.Y, bo.X}} {
				back, ok := pair[0].(*ssa.Convert)
				if !ok || !sameVal(pair[1], src) {
					continue
				}
				inner, ok := back.X.(*ssa.Convert)
				if ok && sameVal(inner.X, src) && types.Identical(inner.Type(), cv.Type()) {
					// the comparison must decide an error exit: accept when it is used by an If
					for _, ref := range *bo.Referrers() {
						if _, isIf := ref.(*ssa.If); isIf {
							return true
						}
					}
				}
			}
		}
	}
	return false
}

func onlyFeedsComparison(cv *ssa.Convert) bool {
	refs := cv.Referrers()
	if refs == nil || len(*refs) == 0 {
		return false
	}
	for _, ref := range *refs {
		switch t := ref.(type) {
		case *ssa.Convert:
			if !onlyFeedsComparison(t) {
				return false
			}
		case *ssa.BinOp:
			switch t.Op {
			case token.EQL, token.NEQ, token.LSS, token.LEQ, token.GTR, token.GEQ:
			default:
				return false
			}
		case *ssa.DebugRef:
		default:
			return false
		}
	}
	return true
}

// coercerFuncs returns the in-package methods named `name` plus their in-package static callees (depth 2).
func coercerFuncs(c *Ctx, name string) []*ssa.Function {
	seen := map[*ssa.Function]bool{}
	var out []*ssa.Function
	var add func(f *ssa.Function, d int)
	add = func(f *ssa.Function, d int) {
		if seen[f] || !c.inPkg(f) {
			return
		}
		seen[f] = true
		out = append(out, f)
		if d == 0 {
			return
		}
		for _, ci := range callsIn(f) {
			if cal := ci.Common().StaticCallee(); cal != nil && cal.Name() != "CoerceIn" && cal.Name() != "CoerceOut" {
				add(cal, d-1)
			}
		}
	}
	for _, f := range c.allFns {
		if f.Name() == name && f.Signature.Recv() != nil {
			add(f, 2)
		}
	}
	return out
}

func convKey(s convSite, ord int) string {
	return fmt.Sprintf("%s: conversion %s -> %s #%d", fnName(s.fn), typeStr(s.conv.X.Type()), typeStr(s.conv.Type()), ord)
}

// ---- nil-on-error ---------------------------------------------------------

// nilOnError checks one (value, error) return of fn: on every incoming path either the error is nil,
// the value is nil, or both come from the same delegated call.
func nilOnError(v, e ssa.Value, gs []guard, depth int) (bool, string) {
	if depth > 8 {
		return false, "too deep"
	}
	if isNilConst(e) {
		return true, ""
	}
	if isNilConst(stripIface(v)) || isNilConst(v) {
		return true, ""
	}
	for _, g := range gs {
		if guardSaysNil(g, e) {
			return true, ""
		}
	}
	// delegation: both extracted from the same call
	if ev, ok := e.(*ssa.Extract); ok {
		if vv, ok := v.(*ssa.Extract); ok && vv.Tuple == ev.Tuple {
			return true, ""
		}
	}
	// paired phis in the same block
	if pe, ok := e.(*ssa.Phi); ok {
		if pv, ok := v.(*ssa.Phi); ok && pv.Block() == pe.Block() {
			for i := range pe.Edges {
				pred := pe.Block().Preds[i]
				ok2, why := nilOnError(pv.Edges[i], pe.Edges[i], edgeGuards(pred, pe.Block()), depth+1)
				if !ok2 {
					return false, why
				}
			}
			return true, ""
		}
		// value not a phi: same value on all edges
		for i := range pe.Edges {
			pred := pe.Block().Preds[i]
			ok2, why := nilOnError(v, pe.Edges[i], edgeGuards(pred, pe.Block()), depth+1)
			if !ok2 {
				return false, why
			}
		}
		return true, ""
	}
	if pv, ok := v.(*ssa.Phi); ok {
		for i := range pv.Edges {
			pred := pv.Block().Preds[i]
			ok2, why := nilOnError(pv.Edges[i], e, append(append([]guard{}, gs...), edgeGuards(pred, pv.Block())...), depth+1)
			if !ok2 {
				return false, why
			}
		}
		return true, ""
	}
	return false, fmt.Sprintf("value %s is returned together with a possibly non-nil error %s", shortPath(vpath(v)), shortPath(vpath(e)))
}

// arithLeaves returns the non-constant leaves of an arithmetic expression (nil when v is not arithmetic).
func arithLeaves(v ssa.Value, d int) []ssa.Value {
	if d > 6 {
		return nil
	}
	switch t := v.(type) {
	case *ssa.BinOp:
		switch t.Op {
		case token.ADD, token.SUB, token.MUL, token.QUO:
			var out []ssa.Value
			for _, x := range []ssa.Value{t.X, t.Y} {
				if _, isC := x.(*ssa.Const); isC {
					continue
				}
				sub := arithLeaves(x, d+1)
				if sub == nil {
					out = append(out, x)
				} else {
					out = append(out, sub...)
				}
			}
			return out
		}
	case *ssa.Convert:
		if sub := arithLeaves(t.X, d+1); sub != nil {
			return sub
		}
		return []ssa.Value{t.X}
	}
	return nil
}

// boundsOn: is v bounded from below / above by comparisons dominating block b?
func boundsOn(b *ssa.BasicBlock, v ssa.Value) (lower, upper bool) {
	src := widenBase(v)
	for _, g := range blockGuards(b) {
		g = normGuard(g)
		bo, ok := g.cond.(*ssa.BinOp)
		if !ok {
			continue
		}
		switch bo.Op {
		case token.LSS, token.LEQ, token.GTR, token.GEQ:
		default:
			continue
		}
		x, y := widenBase(bo.X), widenBase(bo.Y)
		op := bo.Op
		if !g.val {
			if isFloatType(src.Type()) && !nanExcluded(b, src) {
				continue // see narrowingSites: the negated ordered comparison says nothing about NaN
			}
			op = negOp(op)
		}
		if sameVal(y, src) {
			x, y = y, x
			op = flipOp(op)
		}
		if !sameVal(x, src) {
			continue
		}
		switch op {
		case token.GEQ, token.GTR:
			lower = true
		case token.LEQ, token.LSS:
			upper = true
		}
	}
	return
}

func constFloat(k *ssa.Const) float64 {
	f, _ := constant.Float64Val(constant.ToFloat(k.Value))
	return f
}

func isFloatType(t types.Type) bool {
	bt, ok := t.Underlying().(*types.Basic)
	return ok && bt.Info()&types.IsFloat != 0
}

// nanExcluded: on every path to b the float v is known not to be NaN: a dominating v == v (true edge),
// v != v (false edge) or math.IsNaN(v) (false edge).
func nanExcluded(b *ssa.BasicBlock, v ssa.Value) bool {
	for _, g := range blockGuards(b) {
		g = normGuard(g)
		switch t := g.cond.(type) {
		case *ssa.BinOp:
			if sameVal(widenBase(t.X), v) && sameVal(widenBase(t.Y), v) {
				if (t.Op == token.EQL && g.val) || (t.Op == token.NEQ && !g.val) {
					return true
				}
			}
		case *ssa.Call:
			if f := t.Call.StaticCallee(); f != nil && f.Pkg != nil && f.Pkg.Pkg.Path() == "math" && f.Name() == "IsNaN" && !g.val {
				if len(t.Call.Args) == 1 && sameVal(widenBase(t.Call.Args[0]), v) {
					return true
				}
			}
		}
	}
	return false
}
