package main

// SSA helpers: guards by dominance, structural value identity, value sources.

import (
	"fmt"
	"go/constant"
	"go/token"
	"go/types"
	"strings"
	"sync"

	"golang.org/x/tools/go/ssa"
)

// guard is a branch fact: cond evaluated to val.
type guard struct {
	cond ssa.Value
	val  bool
	at   *ssa.If
}

// blockGuards returns the branch facts that hold whenever control is in b:
// for every dominator d ending in an If, if the true (false) successor has d
// as its only predecessor and dominates b, then cond is true (false) in b.
func blockGuards(b *ssa.BasicBlock) []guard {
	var out []guard
	for d := b.Idom(); d != nil; d = d.Idom() {
		out = append(out, ifGuards(d, b)...)
	}
	return out
}

func ifGuards(d, b *ssa.BasicBlock) []guard {
	if len(d.Instrs) == 0 {
		return nil
	}
	ifi, ok := d.Instrs[len(d.Instrs)-1].(*ssa.If)
	if !ok || d.Succs[0] == d.Succs[1] {
		return nil
	}
	var out []guard
	for i, s := range d.Succs {
		if len(s.Preds) == 1 && s.Dominates(b) {
			out = append(out, guard{ifi.Cond, i == 0, ifi})
			continue
		}
		// the successor is a join (a loop header that follows an early exit): the outcome still holds in b when the
		// other outcome cannot lead to b at all except by coming back through d, where the test is made again
		if b != d && d.Dominates(b) && !reachesAvoiding(d.Succs[1-i], b, d) && reachesAvoiding(s, b, d) {
			out = append(out, guard{ifi.Cond, i == 0, ifi})
		}
	}
	return out
}

var reachAvoidMemo = map[[2]*ssa.BasicBlock]map[*ssa.BasicBlock]bool{}
var reachAvoidMu sync.Mutex

// reachesAvoiding: is there a path from `from` to `to` that does not pass through `avoid`?
func reachesAvoiding(from, to, avoid *ssa.BasicBlock) bool {
	if from == avoid {
		return false
	}
	key := [2]*ssa.BasicBlock{from, avoid}
	reachAvoidMu.Lock()
	defer reachAvoidMu.Unlock()
	set, ok := reachAvoidMemo[key]
	if !ok {
		set = map[*ssa.BasicBlock]bool{from: true}
		work := []*ssa.BasicBlock{from}
		for len(work) > 0 {
			x := work[len(work)-1]
			work = work[:len(work)-1]
			for _, s := range x.Succs {
				if s != avoid && !set[s] {
					set[s] = true
					work = append(work, s)
				}
			}
		}
		if len(reachAvoidMemo) > 200000 {
			reachAvoidMemo = map[[2]*ssa.BasicBlock]map[*ssa.BasicBlock]bool{}
		}
		reachAvoidMemo[key] = set
	}
	return set[to]
}

// edgeGuards returns the facts that hold when the edge pred->succ is taken.
func edgeGuards(pred, succ *ssa.BasicBlock) []guard {
	out := blockGuards(pred)
	if len(pred.Instrs) > 0 {
		if ifi, ok := pred.Instrs[len(pred.Instrs)-1].(*ssa.If); ok && pred.Succs[0] != pred.Succs[1] {
			if pred.Succs[0] == succ {
				out = append(out, guard{ifi.Cond, true, ifi})
			} else if pred.Succs[1] == succ {
				out = append(out, guard{ifi.Cond, false, ifi})
			}
		}
	}
	return out
}

// normGuard strips negations: returns the underlying condition and its truth.
func normGuard(g guard) guard {
	for {
		u, ok := g.cond.(*ssa.UnOp)
		if !ok || u.Op != token.NOT {
			return g
		}
		g = guard{u.X, !g.val, g.at}
	}
}

func isNilConst(v ssa.Value) bool {
	c, ok := v.(*ssa.Const)
	return ok && c.Value == nil && !isBasicNonNil(c.Type())
}

func isBasicNonNil(t types.Type) bool {
	switch u := t.Underlying().(type) {
	case *types.Basic:
		return u.Kind() != types.UntypedNil && u.Kind() != types.UnsafePointer
	case *types.Struct, *types.Array:
		return true
	}
	return false
}

// nilCmp decodes `v == nil` / `v != nil`.
func nilCmp(cond ssa.Value) (v ssa.Value, eq bool, ok bool) {
	b, isB := cond.(*ssa.BinOp)
	if !isB || (b.Op != token.EQL && b.Op != token.NEQ) {
		return nil, false, false
	}
	switch {
	case isNilConst(b.Y):
		return b.X, b.Op == token.EQL, true
	case isNilConst(b.X):
		return b.Y, b.Op == token.EQL, true
	}
	return nil, false, false
}

// guardSaysNonNil: does the fact g establish v != nil (structurally same value)?
func guardSaysNonNil(g guard, v ssa.Value) bool {
	g = normGuard(g)
	x, eq, ok := nilCmp(g.cond)
	if !ok {
		return false
	}
	if !sameVal(stripIface(x), stripIface(v)) {
		return false
	}
	return eq != g.val // (x==nil) false, or (x!=nil) true
}

func guardSaysNil(g guard, v ssa.Value) bool {
	g = normGuard(g)
	x, eq, ok := nilCmp(g.cond)
	if !ok {
		return false
	}
	if !sameVal(stripIface(x), stripIface(v)) {
		return false
	}
	return eq == g.val
}

// stripIface removes value-preserving wrappers.
func stripIface(v ssa.Value) ssa.Value {
	for {
		switch t := v.(type) {
		case *ssa.MakeInterface:
			v = t.X
		case *ssa.ChangeInterface:
			v = t.X
		case *ssa.ChangeType:
			v = t.X
		default:
			return v
		}
	}
}

// intCmp decodes comparisons of a value with an integer constant, normalised
// so that the value is on the left: v OP c.
func intCmp(cond ssa.Value) (v ssa.Value, op token.Token, c int64, ok bool) {
	b, isB := cond.(*ssa.BinOp)
	if !isB {
		return nil, 0, 0, false
	}
	switch b.Op {
	case token.EQL, token.NEQ, token.LSS, token.LEQ, token.GTR, token.GEQ:
	default:
		return nil, 0, 0, false
	}
	if k, isC := b.Y.(*ssa.Const); isC && k.Value != nil && k.Value.Kind() == constant.Int {
		n, _ := constant.Int64Val(k.Value)
		return b.X, b.Op, n, true
	}
	if k, isC := b.X.(*ssa.Const); isC && k.Value != nil && k.Value.Kind() == constant.Int {
		n, _ := constant.Int64Val(k.Value)
		return b.Y, flipOp(b.Op), n, true
	}
	return nil, 0, 0, false
}

func flipOp(op token.Token) token.Token {
	switch op {
	case token.LSS:
		return token.GTR
	case token.LEQ:
		return token.GEQ
	case token.GTR:
		return token.LSS
	case token.GEQ:
		return token.LEQ
	}
	return op
}

func negOp(op token.Token) token.Token {
	switch op {
	case token.EQL:
		return token.NEQ
	case token.NEQ:
		return token.EQL
	case token.LSS:
		return token.GEQ
	case token.LEQ:
		return token.GTR
	case token.GTR:
		return token.LEQ
	case token.GEQ:
		return token.LSS
	}
	return op
}

// isLenOf reports whether v is len(x) and returns x.
func isLenOf(v ssa.Value) (ssa.Value, bool) {
	c, ok := v.(*ssa.Call)
	if !ok {
		return nil, false
	}
	b, ok := c.Call.Value.(*ssa.Builtin)
	if !ok || b.Name() != "len" || len(c.Call.Args) != 1 {
		return nil, false
	}
	return c.Call.Args[0], true
}

// strConstCmp decodes `v == "lit"`.
func strConstCmp(cond ssa.Value) (v ssa.Value, lit string, eq bool, ok bool) {
	b, isB := cond.(*ssa.BinOp)
	if !isB || (b.Op != token.EQL && b.Op != token.NEQ) {
		return nil, "", false, false
	}
	if k, isC := b.Y.(*ssa.Const); isC && k.Value != nil && k.Value.Kind() == constant.String {
		return b.X, constant.StringVal(k.Value), b.Op == token.EQL, true
	}
	if k, isC := b.X.(*ssa.Const); isC && k.Value != nil && k.Value.Kind() == constant.String {
		return b.Y, constant.StringVal(k.Value), b.Op == token.EQL, true
	}
	return nil, "", false, false
}

// vpath renders a canonical structural path of a value. Two values with the
// same vpath denote the same location/value modulo intervening stores.
func vpath(v ssa.Value) string {
	return vpathD(v, 0)
}

func vpathD(v ssa.Value, d int) string {
	if v == nil {
		return "<nil>"
	}
	if d > 12 {
		return fmt.Sprintf("deep@%p", v)
	}
	switch t := v.(type) {
	case *ssa.Parameter:
		return t.Name()
	case *ssa.FreeVar:
		return "free:" + t.Name()
	case *ssa.Global:
		return "global:" + t.Name()
	case *ssa.Const:
		if t.Value == nil {
			return "nil"
		}
		return "const:" + t.Value.ExactString()
	case *ssa.Alloc:
		if !t.Heap {
			return "var:" + t.Comment + fmt.Sprintf("@%p", t)
		}
		return fmt.Sprintf("alloc:%s@%p", t.Comment, t)
	case *ssa.FieldAddr:
		return vpathD(t.X, d+1) + "." + fieldName(t.X.Type(), t.Field)
	case *ssa.Field:
		return vpathD(t.X, d+1) + "." + fieldName(t.X.Type(), t.Field)
	case *ssa.IndexAddr:
		return vpathD(t.X, d+1) + "[" + vpathD(t.Index, d+1) + "]"
	case *ssa.Index:
		return vpathD(t.X, d+1) + "[" + vpathD(t.Index, d+1) + "]"
	case *ssa.Lookup:
		return vpathD(t.X, d+1) + "[" + vpathD(t.Index, d+1) + "]"
	case *ssa.UnOp:
		if t.Op == token.MUL {
			if a, ok := t.X.(*ssa.Alloc); ok && !a.Heap {
				return vpathD(a, d+1)
			}
			return vpathD(t.X, d+1)
		}
		return t.Op.String() + vpathD(t.X, d+1)
	case *ssa.MakeInterface:
		return vpathD(t.X, d+1)
	case *ssa.ChangeInterface:
		return vpathD(t.X, d+1)
	case *ssa.ChangeType:
		return vpathD(t.X, d+1)
	case *ssa.TypeAssert:
		return vpathD(t.X, d+1) + ".(" + typeStr(t.AssertedType) + ")"
	case *ssa.Extract:
		if ta, ok := t.Tuple.(*ssa.TypeAssert); ok && t.Index == 0 {
			return vpathD(ta, d+1)
		}
		if nx, ok := t.Tuple.(*ssa.Next); ok {
			if rg, ok := nx.Iter.(*ssa.Range); ok {
				return fmt.Sprintf("%s[range@%p]#%d", vpathD(rg.X, d+1), nx, t.Index)
			}
		}
		return fmt.Sprintf("%s#%d", vpathD(t.Tuple, d+1), t.Index)
	case *ssa.Slice:
		return vpathD(t.X, d+1) + "[:]"
	case *ssa.Convert:
		return "conv(" + vpathD(t.X, d+1) + ")"
	case *ssa.Call:
		name := "call"
		if f := calleeObj(t); f != nil {
			name = f.Name()
		} else if b, ok := t.Call.Value.(*ssa.Builtin); ok {
			name = b.Name()
		}
		return fmt.Sprintf("%s()@%p", name, t)
	case *ssa.Phi:
		return fmt.Sprintf("phi:%s@%p", t.Comment, t)
	case *ssa.BinOp:
		return fmt.Sprintf("(%s%s%s)@%p", vpathD(t.X, d+1), t.Op, vpathD(t.Y, d+1), t)
	}
	return fmt.Sprintf("%T@%p", v, v)
}

func fieldName(t types.Type, i int) string {
	if p, ok := t.Underlying().(*types.Pointer); ok {
		t = p.Elem()
	}
	if s, ok := t.Underlying().(*types.Struct); ok && i < s.NumFields() {
		return s.Field(i).Name()
	}
	return fmt.Sprintf("f%d", i)
}

// fieldOwner returns the named struct type that declares field i.
func fieldOwner(t types.Type, i int) (owner string, field string) {
	if p, ok := t.Underlying().(*types.Pointer); ok {
		t = p.Elem()
	}
	name := typeStr(t)
	if s, ok := t.Underlying().(*types.Struct); ok && i < s.NumFields() {
		return name, canonicalField(name, s.Field(i))
	}
	return name, fmt.Sprintf("f%d", i)
}

// canonicalField: unexported members that the rules identify by what they hold keep one name whatever the
// source calls them: the Go type a schema node is bound to (the reflect.Type member of Object and Input)
// is "meta".
func canonicalField(owner string, f *types.Var) string {
	if owner == "Object" || owner == "Input" {
		if n, ok := f.Type().(*types.Named); ok && n.Obj().Pkg() != nil && n.Obj().Pkg().Path() == "reflect" && n.Obj().Name() == "Type" {
			return "meta"
		}
	}
	return f.Name()
}

func sameVal(a, b ssa.Value) bool {
	if a == b {
		return true
	}
	if a == nil || b == nil {
		return false
	}
	pa, pb := vpath(a), vpath(b)
	if strings.Contains(pa, "@0x") || strings.Contains(pb, "@0x") {
		// identity-bearing anchors must be the same object; compare strings still
		return pa == pb
	}
	return pa == pb
}

// phiSources returns the non-phi values reaching v through phi nodes, together
// with the edge (pred block -> phi block) through which each enters.
type phiLeaf struct {
	val  ssa.Value
	pred *ssa.BasicBlock // nil when v itself is not a phi
	phi  *ssa.Phi
}

func phiLeaves(v ssa.Value) (leaves []phiLeaf, phis map[*ssa.Phi]bool) {
	phis = map[*ssa.Phi]bool{}
	var walk func(v ssa.Value, pred *ssa.BasicBlock, from *ssa.Phi)
	walk = func(v ssa.Value, pred *ssa.BasicBlock, from *ssa.Phi) {
		if p, ok := v.(*ssa.Phi); ok {
			if phis[p] {
				return
			}
			phis[p] = true
			for i, e := range p.Edges {
				walk(e, p.Block().Preds[i], p)
			}
			return
		}
		leaves = append(leaves, phiLeaf{v, pred, from})
	}
	walk(v, nil, nil)
	return
}

// siblingInfeasible: the value enters phi q through its edge i, and control is in block b. When a boolean phi of the
// same block has a constant on that edge and b is only reached after a test of that phi came out the other way, the
// path through edge i does not reach b (a result pair `return nil, false` / `return errs, true` taken apart again by
// `if handled`).
func siblingInfeasible(q *ssa.Phi, i int, b *ssa.BasicBlock) bool {
	if b == nil {
		return false
	}
	for _, g := range blockGuards(b) {
		g = normGuard(g)
		p, ok := g.cond.(*ssa.Phi)
		if !ok || p.Block() != q.Block() || i >= len(p.Edges) {
			continue
		}
		k, ok := p.Edges[i].(*ssa.Const)
		if !ok || k.Value == nil {
			continue
		}
		if bb, ok := p.Type().Underlying().(*types.Basic); !ok || bb.Kind() != types.Bool {
			continue
		}
		if (k.Value.String() == "true") != g.val {
			return true
		}
	}
	return false
}

// phiLeavesAt is phiLeaves for a use in block b: edges that cannot lead to b (siblingInfeasible) are left out.
func phiLeavesAt(v ssa.Value, b *ssa.BasicBlock) (leaves []phiLeaf, phis map[*ssa.Phi]bool) {
	phis = map[*ssa.Phi]bool{}
	var walk func(v ssa.Value, pred *ssa.BasicBlock, from *ssa.Phi)
	walk = func(v ssa.Value, pred *ssa.BasicBlock, from *ssa.Phi) {
		if p, ok := v.(*ssa.Phi); ok {
			if phis[p] {
				return
			}
			phis[p] = true
			for i, e := range p.Edges {
				if siblingInfeasible(p, i, b) {
					continue
				}
				walk(e, p.Block().Preds[i], p)
			}
			return
		}
		leaves = append(leaves, phiLeaf{v, pred, from})
	}
	walk(v, nil, nil)
	return
}

// eqGuard: the two operands of an equality the guard asserts. A call of a local function literal whose body is
// `return a == b` is looked through: its parameters are the arguments of the call, the variables it captures are
// the values their cells hold (when stored once).
func eqGuard(g guard) (x, y ssa.Value, ok bool) {
	g = normGuard(g)
	if bo, isB := g.cond.(*ssa.BinOp); isB {
		if (bo.Op == token.EQL && g.val) || (bo.Op == token.NEQ && !g.val) {
			return bo.X, bo.Y, true
		}
		return nil, nil, false
	}
	call, isC := g.cond.(*ssa.Call)
	if !isC || !g.val {
		return nil, nil, false
	}
	fn := call.Call.StaticCallee()
	if fn == nil || fn.Parent() == nil || len(fn.Blocks) == 0 {
		return nil, nil, false
	}
	var ret *ssa.Return
	for _, b := range fn.Blocks {
		for _, in := range b.Instrs {
			if rt, isR := in.(*ssa.Return); isR {
				if ret != nil {
					return nil, nil, false
				}
				ret = rt
			}
		}
	}
	if ret == nil || len(ret.Results) != 1 {
		return nil, nil, false
	}
	bo, isB := ret.Results[0].(*ssa.BinOp)
	if !isB || bo.Op != token.EQL {
		return nil, nil, false
	}
	mc, _ := call.Call.Value.(*ssa.MakeClosure)
	back := func(v ssa.Value) ssa.Value {
		switch t := v.(type) {
		case *ssa.Parameter:
			for i, p := range fn.Params {
				if p == t && i < len(call.Call.Args) {
					return call.Call.Args[i]
				}
			}
		case *ssa.UnOp:
			if fv, isF := t.X.(*ssa.FreeVar); isF && t.Op == token.MUL && mc != nil {
				for j, f := range fn.FreeVars {
					if f == fv && j < len(mc.Bindings) {
						if al, isA := mc.Bindings[j].(*ssa.Alloc); isA && al.Referrers() != nil {
							var stored ssa.Value
							n := 0
							for _, ref := range *al.Referrers() {
								if st, isS := ref.(*ssa.Store); isS && st.Addr == ssa.Value(al) {
									stored = st.Val
									n++
								}
							}
							if n == 1 {
								return stored
							}
						}
					}
				}
			}
		}
		return nil
	}
	x, y = back(bo.X), back(bo.Y)
	return x, y, x != nil && y != nil
}

// phiLeavesUntil is phiLeaves that does not look into the values for which stop holds (they are leaves).
func phiLeavesUntil(v ssa.Value, stop func(ssa.Value) bool) (leaves []phiLeaf) {
	phis := map[*ssa.Phi]bool{}
	var walk func(v ssa.Value, pred *ssa.BasicBlock, from *ssa.Phi)
	walk = func(v ssa.Value, pred *ssa.BasicBlock, from *ssa.Phi) {
		if p, ok := v.(*ssa.Phi); ok && !stop(v) {
			if phis[p] {
				return
			}
			phis[p] = true
			for i, e := range p.Edges {
				walk(e, p.Block().Preds[i], p)
			}
			return
		}
		leaves = append(leaves, phiLeaf{v, pred, from})
	}
	walk(v, nil, nil)
	return
}

// callee returns the called *types.Func (static function, method, or interface method).
func calleeObj(call ssa.CallInstruction) *types.Func {
	cc := call.Common()
	if cc.IsInvoke() {
		return cc.Method
	}
	if f := cc.StaticCallee(); f != nil {
		if o, ok := f.Object().(*types.Func); ok {
			return o
		}
	}
	return nil
}

// recvTypeName returns the receiver's named type ("Root" for (*Root).m), "" for functions.
func recvTypeName(f *types.Func) string {
	if f == nil {
		return ""
	}
	sig, ok := f.Type().(*types.Signature)
	if !ok || sig.Recv() == nil {
		return ""
	}
	t := sig.Recv().Type()
	if p, ok := t.(*types.Pointer); ok {
		t = p.Elem()
	}
	if n, ok := t.(*types.Named); ok {
		return n.Obj().Name()
	}
	return ""
}

// isMethodCall reports whether call invokes method `name` on (a pointer to) the
// named type or interface `recv` of package pkgPath ("" = any).
func isMethodCall(call ssa.CallInstruction, pkgPath, recv, name string) bool {
	f := calleeObj(call)
	if f == nil || f.Name() != name {
		return false
	}
	if pkgPath != "" && (f.Pkg() == nil || f.Pkg().Path() != pkgPath) {
		return false
	}
	return recvTypeName(f) == recv
}

func isFuncCall(call ssa.CallInstruction, pkgPath, name string) bool {
	f := calleeObj(call)
	if f == nil || f.Name() != name || recvTypeName(f) != "" {
		return false
	}
	return f.Pkg() != nil && f.Pkg().Path() == pkgPath
}

func isBuiltinCall(call ssa.CallInstruction, name string) bool {
	b, ok := call.Common().Value.(*ssa.Builtin)
	return ok && b.Name() == name
}

// callArgs returns receiver+args for static method calls, args for invokes (receiver separately).
func callRecv(call ssa.CallInstruction) ssa.Value {
	cc := call.Common()
	if cc.IsInvoke() {
		return cc.Value
	}
	if f := cc.StaticCallee(); f != nil && f.Signature.Recv() != nil && len(cc.Args) > 0 {
		return cc.Args[0]
	}
	return nil
}

// explicitArgs returns the arguments without the receiver.
func explicitArgs(call ssa.CallInstruction) []ssa.Value {
	cc := call.Common()
	if cc.IsInvoke() {
		return cc.Args
	}
	if f := cc.StaticCallee(); f != nil && f.Signature.Recv() != nil && len(cc.Args) > 0 {
		return cc.Args[1:]
	}
	return cc.Args
}

// callsIn lists call instructions of fn (including go/defer).
func callsIn(fn *ssa.Function) []ssa.CallInstruction {
	var out []ssa.CallInstruction
	for _, b := range fn.Blocks {
		for _, in := range b.Instrs {
			if ci, ok := in.(ssa.CallInstruction); ok {
				out = append(out, ci)
			}
		}
	}
	return out
}

// fnName is the RelString of fn relative to its package.
func fnName(fn *ssa.Function) string {
	if fn == nil {
		return "<nil>"
	}
	if fn.Pkg != nil {
		return fn.RelString(fn.Pkg.Pkg)
	}
	return fn.String()
}

// loopBlocks returns the natural loop body of header h for back edge from latch.
func reachesWithout(from, to, without *ssa.BasicBlock) bool {
	seen := map[*ssa.BasicBlock]bool{}
	var st []*ssa.BasicBlock
	st = append(st, from)
	for len(st) > 0 {
		b := st[len(st)-1]
		st = st[:len(st)-1]
		if b == to {
			return true
		}
		if seen[b] || b == without {
			continue
		}
		seen[b] = true
		st = append(st, b.Succs...)
	}
	return false
}

// reachableBlocks from b (inclusive).
func reachableBlocks(b *ssa.BasicBlock) map[*ssa.BasicBlock]bool {
	seen := map[*ssa.BasicBlock]bool{}
	st := []*ssa.BasicBlock{b}
	for len(st) > 0 {
		x := st[len(st)-1]
		st = st[:len(st)-1]
		if seen[x] {
			continue
		}
		seen[x] = true
		st = append(st, x.Succs...)
	}
	return seen
}

// inLoop reports whether block b lies on a cycle of the CFG.
func inLoop(b *ssa.BasicBlock) bool {
	for _, s := range b.Succs {
		if reachableBlocks(s)[b] {
			return true
		}
	}
	return false
}

// loadOfField: v is a load (or direct Field) of field `name`; returns base value.
func loadOfField(v ssa.Value) (base ssa.Value, owner, field string, ok bool) {
	switch t := v.(type) {
	case *ssa.UnOp:
		if t.Op == token.MUL {
			if fa, ok := t.X.(*ssa.FieldAddr); ok {
				o, f := fieldOwner(fa.X.Type(), fa.Field)
				return fa.X, o, f, true
			}
		}
	case *ssa.Field:
		o, f := fieldOwner(t.X.Type(), t.Field)
		return t.X, o, f, true
	}
	return nil, "", "", false
}

// getterLoad: v is the result of a call of a method of the package that does nothing but hand out a field of its
// receiver (possibly under the receiver's lock): `o.goType()` for `o.meta`. Returns the receiver and the field.
func getterLoad(v ssa.Value) (base ssa.Value, owner, field string, ok bool) {
	idx := 0
	if ex, isEx := v.(*ssa.Extract); isEx {
		idx = ex.Index
		v = ex.Tuple
	}
	call, isCall := v.(*ssa.Call)
	if !isCall {
		return nil, "", "", false
	}
	fn := call.Call.StaticCallee()
	if fn == nil || fn.Signature.Recv() == nil || len(fn.Params) == 0 || len(fn.Blocks) == 0 || len(call.Call.Args) == 0 {
		return nil, "", "", false
	}
	n := 0
	for _, b := range fn.Blocks {
		for _, in := range b.Instrs {
			rt, isR := in.(*ssa.Return)
			if !isR {
				continue
			}
			if idx >= len(rt.Results) {
				return nil, "", "", false
			}
			res := rt.Results[idx]
			// a result spilled because of a deferred unlock: the one value stored into the result cell
			if u, isU := res.(*ssa.UnOp); isU && u.Op == token.MUL {
				if al, isA := u.X.(*ssa.Alloc); isA && al.Referrers() != nil {
					var stored ssa.Value
					k := 0
					for _, ref := range *al.Referrers() {
						if st, isS := ref.(*ssa.Store); isS && st.Addr == ssa.Value(al) {
							stored = st.Val
							k++
						}
					}
					if k != 1 {
						return nil, "", "", false
					}
					res = stored
				}
			}
			b0, o, f, isL := loadOfField(res)
			if !isL || b0 != ssa.Value(fn.Params[0]) {
				return nil, "", "", false
			}
			if n > 0 && (o != owner || f != field) {
				return nil, "", "", false
			}
			owner, field = o, f
			n++
		}
	}
	if n == 0 {
		return nil, "", "", false
	}
	return call.Call.Args[0], owner, field, true
}

// provenNonNil: v is shown non-nil at block b (by dominating guards, through phis, or by construction).
func provenNonNil(v ssa.Value, b *ssa.BasicBlock, depth int) bool {
	if depth > 6 {
		return false
	}
	v0 := v
	switch t := stripIface(v).(type) {
	case *ssa.Alloc, *ssa.MakeMap, *ssa.MakeSlice, *ssa.MakeClosure, *ssa.FieldAddr, *ssa.IndexAddr, *ssa.Function, *ssa.Global:
		return true
	case *ssa.Const:
		return t.Value != nil
	}
	for _, g := range blockGuards(b) {
		if guardSaysNonNil(g, v0) {
			return true
		}
	}
	if p, ok := v.(*ssa.Phi); ok {
		for i, e := range p.Edges {
			pred := p.Block().Preds[i]
			okEdge := false
			for _, g := range edgeGuards(pred, p.Block()) {
				if guardSaysNonNil(g, e) {
					okEdge = true
					break
				}
			}
			if !okEdge && !provenNonNil(e, pred, depth+1) {
				return false
			}
		}
		return true
	}
	return false
}

// valPos gives the best available source position for a value.
func valPos(v ssa.Value) token.Pos {
	if v == nil {
		return token.NoPos
	}
	if p := v.Pos(); p.IsValid() {
		return p
	}
	switch t := v.(type) {
	case *ssa.Extract:
		return valPos(t.Tuple)
	case *ssa.UnOp:
		return valPos(t.X)
	case *ssa.TypeAssert:
		return valPos(t.X)
	case *ssa.FieldAddr:
		return valPos(t.X)
	case *ssa.MakeInterface:
		return valPos(t.X)
	case *ssa.ChangeType:
		return valPos(t.X)
	case *ssa.Phi:
		for _, e := range t.Edges {
			if p := valPos(e); p.IsValid() {
				return p
			}
		}
	}
	if in, ok := v.(ssa.Instruction); ok && in.Block() != nil {
		for _, x := range in.Block().Instrs {
			if x.Pos().IsValid() {
				return x.Pos()
			}
		}
	}
	return token.NoPos
}

// ---- type assertion facts ---------------------------------------------------

type assertFact struct {
	x     ssa.Value
	t     types.Type
	holds bool
}

// assertFactOf decodes a guard into a type-assertion fact: `_, ok := x.(T)` tested
// through ok, or `v, _ := x.(T); v != nil`.
func assertFactOf(g guard) (assertFact, bool) {
	g = normGuard(g)
	if ex, ok := g.cond.(*ssa.Extract); ok && ex.Index == 1 {
		if ta, ok := ex.Tuple.(*ssa.TypeAssert); ok && ta.CommaOk {
			return assertFact{ta.X, ta.AssertedType, g.val}, true
		}
	}
	if v, eq, ok := nilCmp(g.cond); ok {
		if ex, ok := v.(*ssa.Extract); ok && ex.Index == 0 {
			if ta, ok := ex.Tuple.(*ssa.TypeAssert); ok && ta.CommaOk {
				nonNil := eq != g.val
				if nonNil {
					return assertFact{ta.X, ta.AssertedType, true}, true
				}
				return assertFact{ta.X, ta.AssertedType, false}, true
			}
		}
	}
	return assertFact{}, false
}

// assertAlwaysHolds: x is an interface value made from a value of a concrete type that has the asserted
// type (implements the asserted interface, or is the asserted concrete type): `_, ok := x.(T)` cannot fail,
// and the value it yields is never the nil interface.
func assertAlwaysHolds(x ssa.Value, t types.Type) bool {
	for {
		switch v := x.(type) {
		case *ssa.ChangeInterface:
			x = v.X
			continue
		case *ssa.MakeInterface:
			ct := v.X.Type()
			if it, ok := t.Underlying().(*types.Interface); ok {
				return types.Implements(ct, it)
			}
			return types.Identical(ct, t)
		}
		return false
	}
}

// infeasibleGuards: some guard in gs says that a type assertion failed which cannot fail.
func infeasibleGuards(gs []guard) bool {
	for _, g := range gs {
		if f, ok := assertFactOf(g); ok && !f.holds && assertAlwaysHolds(f.x, f.t) {
			return true
		}
	}
	return false
}

func assertFacts(b *ssa.BasicBlock) []assertFact {
	var out []assertFact
	for _, g := range blockGuards(b) {
		if f, ok := assertFactOf(g); ok {
			out = append(out, f)
		}
	}
	return out
}

// caseTypes returns the asserted types (on value x, or any value when x is nil)
// whose success edge can reach block b directly: b or the nearest dominators that
// are type-switch bodies. For a multi-type case clause several types are returned.
func caseTypes(b *ssa.BasicBlock, x ssa.Value) []types.Type {
	for d := b; d != nil; d = d.Idom() {
		var ts []types.Type
		for _, p := range d.Preds {
			if len(p.Instrs) == 0 {
				continue
			}
			ifi, ok := p.Instrs[len(p.Instrs)-1].(*ssa.If)
			if !ok || p.Succs[0] != d {
				continue
			}
			if f, ok := assertFactOf(guard{ifi.Cond, true, ifi}); ok && f.holds && (x == nil || sameVal(f.x, x)) {
				ts = append(ts, f.t)
			}
		}
		if len(ts) > 0 {
			return ts
		}
	}
	return nil
}

// wrapperAliases: the values of fn that are the parameter p itself after any number of wrappers were taken off:
// p, a phi all of whose sources are aliases, and x.Base for an alias x asserted to a wrapper type (*NonNull).
// A dispatcher that strips non-null wrappers in a loop before its type switch switches on such a value.
func wrapperAliases(fn *ssa.Function, p *ssa.Parameter) map[ssa.Value]bool {
	alias := map[ssa.Value]bool{p: true}
	if p == nil {
		return alias
	}
	// greatest fixed point: start from every phi and every load of a Base field, take away what does not hold
	baseOf := func(v ssa.Value) (ssa.Value, bool) {
		base, _, f, ok := loadOfField(v)
		if !ok || f != "Base" {
			return nil, false
		}
		x := base
		if ex, ok := x.(*ssa.Extract); ok {
			x = ex.Tuple
		}
		ta, ok := x.(*ssa.TypeAssert)
		if !ok || derefNamed(ta.AssertedType) != "NonNull" {
			return nil, false
		}
		return stripIface(ta.X), true
	}
	for _, b := range fn.Blocks {
		for _, in := range b.Instrs {
			switch t := in.(type) {
			case *ssa.Phi:
				if types.Identical(t.Type(), p.Type()) {
					alias[t] = true
				}
			case *ssa.UnOp:
				if _, ok := baseOf(t); ok {
					alias[t] = true
				}
			}
		}
	}
	for changed := true; changed; {
		changed = false
		for v := range alias {
			switch t := v.(type) {
			case *ssa.Phi:
				for _, e := range t.Edges {
					if !alias[stripIface(e)] {
						delete(alias, v)
						changed = true
						break
					}
				}
			case *ssa.UnOp:
				if x, ok := baseOf(t); !ok || !alias[x] {
					delete(alias, v)
					changed = true
				}
			}
		}
	}
	return alias
}

// caseTypesOf is caseTypes for a switch on any value that satisfies is.
func caseTypesOf(b *ssa.BasicBlock, is func(ssa.Value) bool) []types.Type {
	for d := b; d != nil; d = d.Idom() {
		var ts []types.Type
		for _, p := range d.Preds {
			if len(p.Instrs) == 0 {
				continue
			}
			ifi, ok := p.Instrs[len(p.Instrs)-1].(*ssa.If)
			if !ok || p.Succs[0] != d {
				continue
			}
			if f, ok := assertFactOf(guard{ifi.Cond, true, ifi}); ok && f.holds && is(stripIface(f.x)) {
				ts = append(ts, f.t)
			}
		}
		if len(ts) > 0 {
			return ts
		}
	}
	return nil
}

// hasGuard reports whether some dominating branch fact satisfies pred.
func hasGuard(b *ssa.BasicBlock, pred func(g guard) bool) bool {
	for _, g := range blockGuards(b) {
		if pred(normGuard(g)) {
			return true
		}
	}
	return false
}

// derefType strips pointers.
func derefNamed(t types.Type) string {
	if p, ok := t.(*types.Pointer); ok {
		t = p.Elem()
	}
	if n, ok := t.(*types.Named); ok {
		return n.Obj().Name()
	}
	return typeStr(t)
}

// returnsOf lists the Return instructions of fn.
func returnsOf(fn *ssa.Function) []*ssa.Return {
	var out []*ssa.Return
	for _, b := range fn.Blocks {
		for _, in := range b.Instrs {
			if r, ok := in.(*ssa.Return); ok {
				out = append(out, r)
			}
		}
	}
	return out
}

// extractOf finds Extract #i of a tuple-valued instruction.
func extractOf(v ssa.Value, i int) ssa.Value {
	refs := v.Referrers()
	if refs == nil {
		return nil
	}
	for _, r := range *refs {
		if ex, ok := r.(*ssa.Extract); ok && ex.Index == i {
			return ex
		}
	}
	return nil
}

// loopControlDeps: the branches inside loop l on which block eb is control dependent within one iteration:
// from the branch eb can be reached, and it can be avoided (the header is reached again, or the loop left,
// without passing eb). Unlike blockGuards this sees short-circuit conditions, whose body block has several
// predecessors. val is the outcome of the condition on the way to eb when only one successor leads there
// (known), otherwise both outcomes can lead to eb.
type cdep struct {
	ifi   *ssa.If
	val   bool
	known bool
}

func (d cdep) guard() guard { return guard{d.ifi.Cond, d.val, d.ifi} }

func loopControlDeps(l *loopInfo, eb *ssa.BasicBlock) []cdep {
	var out []cdep
	for _, b := range eb.Parent().Blocks {
		if !l.body[b] || b == eb || len(b.Instrs) == 0 {
			continue
		}
		ifi, ok := b.Instrs[len(b.Instrs)-1].(*ssa.If)
		if !ok {
			continue
		}
		avoidE := false
		var reach [2]bool
		for i, s := range b.Succs {
			if s == eb || (l.body[s] && s != l.head && reachesWithout(s, eb, l.head)) {
				reach[i] = true
			}
			if s != eb && (s == l.head || !l.body[s] || reachesWithout(s, l.head, eb)) {
				avoidE = true
			}
		}
		if (reach[0] || reach[1]) && avoidE {
			out = append(out, cdep{ifi, reach[0], reach[0] != reach[1]})
		}
	}
	return out
}

// resolveCell maps a load from a local cell (a named result or variable spilled because of defer/closures)
// to the SSA value that the most recent store put there, when that store is found by walking back through
// the block and its chain of single predecessors; other values are returned unchanged. Two loads of one
// cell are the same value only if they resolve to the same store - comparing loads structurally mixes up
// facts about different moments.
func resolveCell(v ssa.Value) ssa.Value {
	for i := 0; i < 8; i++ {
		u, ok := v.(*ssa.UnOp)
		if !ok || u.Op != token.MUL {
			return v
		}
		al, ok := u.X.(*ssa.Alloc)
		if !ok {
			return v
		}
		b := u.Block()
		idx := -1
		for k, in := range b.Instrs {
			if in == ssa.Instruction(u) {
				idx = k
			}
		}
		var found ssa.Value
		for hops := 0; hops < 12 && found == nil; hops++ {
			for k := idx - 1; k >= 0; k-- {
				if st, ok := b.Instrs[k].(*ssa.Store); ok && st.Addr == ssa.Value(al) {
					found = st.Val
					break
				}
				// a call may write the cell only if its address escaped: cells here are captured by defers at most
			}
			if found != nil || len(b.Preds) != 1 {
				break
			}
			b = b.Preds[0]
			idx = len(b.Instrs)
		}
		if found == nil {
			return v
		}
		v = found
	}
	return v
}

// structMember resolves a read of member i of a local struct to the value that was put there: the struct
// lives in a local cell that is written once (a composite literal stores its members one by one; a copy
// stores the whole value), or is an SSA value loaded from such a cell. nil when the member cannot be traced
// to a single definition.
func structMember(x ssa.Value, i int, depth int) ssa.Value {
	if depth > 8 {
		return nil
	}
	switch t := x.(type) {
	case *ssa.UnOp:
		if t.Op != token.MUL {
			return nil
		}
		al, ok := t.X.(*ssa.Alloc)
		if !ok {
			return nil
		}
		return structCellMember(al, i, depth+1)
	case *ssa.Alloc:
		return structCellMember(t, i, depth+1)
	}
	return nil
}

func structCellMember(al *ssa.Alloc, i int, depth int) ssa.Value {
	if al.Referrers() == nil {
		return nil
	}
	var whole []ssa.Value
	var member []ssa.Value
	for _, ref := range *al.Referrers() {
		switch t := ref.(type) {
		case *ssa.Store:
			if t.Addr == ssa.Value(al) {
				whole = append(whole, t.Val)
			}
		case *ssa.FieldAddr:
			if t.Field != i || t.Referrers() == nil {
				continue
			}
			for _, r2 := range *t.Referrers() {
				if st, ok := r2.(*ssa.Store); ok && st.Addr == ssa.Value(t) {
					member = append(member, st.Val)
				}
			}
		}
	}
	switch {
	case len(whole) == 0 && len(member) == 1:
		return member[0]
	case len(whole) == 1 && len(member) == 0:
		return structMember(whole[0], i, depth+1)
	}
	return nil
}

// resolveLocal follows a value through local cells and local structs to the value that was stored: loads of
// a spilled variable (resolveCell), reads of a member of a local struct (structMember).
func resolveLocal(v ssa.Value) ssa.Value {
	for k := 0; k < 10; k++ {
		w := resolveCell(v)
		switch t := w.(type) {
		case *ssa.UnOp:
			if t.Op == token.MUL {
				if fa, ok := t.X.(*ssa.FieldAddr); ok {
					if m := structMember(fa.X, fa.Field, 0); m != nil {
						w = m
					}
				}
			}
		case *ssa.Field:
			if m := structMember(t.X, t.Field, 0); m != nil {
				w = m
			}
		}
		if w == v {
			return v
		}
		v = w
	}
	return v
}

// pathGuards: the branch facts that hold in b, including what follows from a disjunction. Where a dominator
// of b has several predecessors (the body of `if p || q { .. }`), each incoming edge carries its own facts;
// the edges whose facts contradict what is known in b (the same condition with the opposite outcome) cannot
// be the one taken, and what the remaining edges agree on holds in b as well:
// `if p || q { if !p { X } }` gives q in X.
func pathGuards(b *ssa.BasicBlock) []guard {
	gs := blockGuards(b)
	norm := make([]guard, len(gs))
	for i, g := range gs {
		norm[i] = normGuard(g)
	}
	contradicts := func(alt []guard) bool {
		for _, a := range alt {
			a = normGuard(a)
			for _, g := range norm {
				if sameCond(a.cond, g.cond) && a.val != g.val {
					return true
				}
			}
		}
		return false
	}
	for d := b; d != nil; d = d.Idom() {
		if len(d.Preds) < 2 {
			continue
		}
		var feasible [][]guard
		for _, p := range d.Preds {
			alt := edgeGuards(p, d)
			if !contradicts(alt) {
				feasible = append(feasible, alt)
			}
		}
		if len(feasible) == 0 {
			break
		}
		for _, g0 := range feasible[0] {
			n0 := normGuard(g0)
			all := true
			for _, alt := range feasible[1:] {
				found := false
				for _, g := range alt {
					if n := normGuard(g); sameCond(n.cond, n0.cond) && n.val == n0.val {
						found = true
					}
				}
				if !found {
					all = false
				}
			}
			if all {
				gs = append(gs, g0)
			}
		}
		break
	}
	return gs
}

// sameCond: two branch conditions test the same thing: the same SSA value, or the same comparison of the
// same operands written twice (go/ssa does not merge common subexpressions); loads are compared by path.
func sameCond(a, b ssa.Value) bool {
	if a == b {
		return true
	}
	x, ok1 := a.(*ssa.BinOp)
	y, ok2 := b.(*ssa.BinOp)
	if !ok1 || !ok2 || x.Op != y.Op {
		return false
	}
	same := func(p, q ssa.Value) bool {
		if p == q {
			return true
		}
		if kp, ok := p.(*ssa.Const); ok {
			kq, ok := q.(*ssa.Const)
			return ok && kp.Value == kq.Value && types.Identical(kp.Type(), kq.Type()) || ok && kp.Value != nil && kq.Value != nil && kp.Value.ExactString() == kq.Value.ExactString()
		}
		_, isLoadP := p.(*ssa.UnOp)
		_, isLoadQ := q.(*ssa.UnOp)
		return isLoadP && isLoadQ && sameVal(p, q)
	}
	return same(x.X, y.X) && same(x.Y, y.Y)
}
