package main

// Names as a normal form. The rules name unexported functions, methods and struct fields of the package
// ("(*Root).validateDirUse", the field Root.subscriptions). Renaming one of them changes no behaviour. The
// names the rules were written against are kept, with what identifies the thing apart from its name, in
// /verif/reference_names.json (written by `ggqlcheck -ref-table` from the tree the rules were confirmed on):
// for a function its receiver, its signature and the functions of the package it calls and is called by; for a
// field its struct and its type. When a reference name is gone from the tree and exactly one thing that the
// reference does not know has the same identity (for functions: the best overlap of callers and callees when
// several have the signature), the tree is read with that thing under its reference name: every identifier
// that denotes it is replaced, the result must type-check, and all rules then run on that text. Exported names
// are never touched (renaming them is an API change, not a refactoring).

import (
	"encoding/json"
	"fmt"
	"go/ast"
	"go/token"
	"go/types"
	"os"
	"path/filepath"
	"sort"
	"strings"
)

type refFunc struct {
	Name    string   `json:"name"` // as fnName renders it: (*Root).validateDirUse, findArg
	Recv    string   `json:"recv,omitempty"`
	Bare    string   `json:"bare"`
	Sig     string   `json:"sig"`
	Calls   []string `json:"calls,omitempty"`
	Callers []string `json:"callers,omitempty"`
}

type refField struct {
	Name string `json:"name"`
	Type string `json:"type"`
}

type refTable struct {
	Funcs  []refFunc             `json:"functions"`
	Fields map[string][]refField `json:"fields"`
}

// baseOverlay is the tree read under reference names; nil when nothing was renamed.
var baseOverlay map[string][]byte
var baseNotes []string

func withBase(overlay map[string][]byte) map[string][]byte {
	if len(baseOverlay) == 0 {
		return overlay
	}
	out := map[string][]byte{}
	for k, v := range baseOverlay {
		out[k] = v
	}
	for k, v := range overlay {
		out[k] = v
	}
	return out
}

func sigString(sig *types.Signature, own *types.Package) string {
	q := func(p *types.Package) string {
		if p == own {
			return ""
		}
		return p.Name()
	}
	var b strings.Builder
	b.WriteString("(")
	for i := 0; i < sig.Params().Len(); i++ {
		if i > 0 {
			b.WriteString(", ")
		}
		if sig.Variadic() && i == sig.Params().Len()-1 {
			b.WriteString("...")
		}
		b.WriteString(types.TypeString(sig.Params().At(i).Type(), q))
	}
	b.WriteString(") (")
	for i := 0; i < sig.Results().Len(); i++ {
		if i > 0 {
			b.WriteString(", ")
		}
		b.WriteString(types.TypeString(sig.Results().At(i).Type(), q))
	}
	b.WriteString(")")
	return b.String()
}

type curFunc struct {
	refFunc
	obj *types.Func
}

// currentNames lists the functions and struct fields of pkg/ggql as the tree (with overlay) has them.
func currentNames(repo string, overlay map[string][]byte) (*nfPass, []curFunc, map[string][]*types.Var, error) {
	p, fset, err := loadForNF(repo, overlay)
	if err != nil {
		return nil, nil, nil, err
	}
	nf := &nfPass{p: p, fset: fset, info: p.TypesInfo, files: map[string][]byte{}}
	nf.readFiles(withBase(overlay))
	var funcs []curFunc
	byObj := map[*types.Func]int{}
	for _, f := range p.Syntax {
		for _, d := range f.Decls {
			fd, ok := d.(*ast.FuncDecl)
			if !ok {
				continue
			}
			obj, ok := p.TypesInfo.Defs[fd.Name].(*types.Func)
			if !ok {
				continue
			}
			sig := obj.Type().(*types.Signature)
			cf := curFunc{obj: obj}
			cf.Name = funcRendering(obj)
			cf.Bare = obj.Name()
			if sig.Recv() != nil {
				cf.Recv = types.TypeString(sig.Recv().Type(), func(*types.Package) string { return "" })
			}
			cf.Sig = sigString(sig, p.Types)
			seen := map[string]bool{}
			if fd.Body != nil {
				ast.Inspect(fd.Body, func(x ast.Node) bool {
					id, ok := x.(*ast.Ident)
					if !ok {
						return true
					}
					if fo, ok := p.TypesInfo.Uses[id].(*types.Func); ok && fo.Pkg() == p.Types && !seen[funcRendering(fo)] {
						seen[funcRendering(fo)] = true
						cf.Calls = append(cf.Calls, funcRendering(fo))
					}
					return true
				})
			}
			sort.Strings(cf.Calls)
			byObj[obj] = len(funcs)
			funcs = append(funcs, cf)
		}
	}
	callers := map[string][]string{}
	for _, f := range funcs {
		for _, c := range f.Calls {
			callers[c] = append(callers[c], f.Name)
		}
	}
	for i := range funcs {
		funcs[i].Callers = callers[funcs[i].Name]
		sort.Strings(funcs[i].Callers)
	}
	sort.Slice(funcs, func(i, j int) bool { return funcs[i].Name < funcs[j].Name })
	fields := map[string][]*types.Var{}
	sc := p.Types.Scope()
	for _, n := range sc.Names() {
		tn, ok := sc.Lookup(n).(*types.TypeName)
		if !ok {
			continue
		}
		st, ok := tn.Type().Underlying().(*types.Struct)
		if !ok {
			continue
		}
		for i := 0; i < st.NumFields(); i++ {
			fields[n] = append(fields[n], st.Field(i))
		}
	}
	return nf, funcs, fields, nil
}

func doRefTable(repo string) int {
	_, funcs, fields, err := currentNames(repo, nil)
	if err != nil {
		fmt.Fprintln(os.Stderr, err)
		return 2
	}
	t := refTable{Fields: map[string][]refField{}}
	for _, f := range funcs {
		t.Funcs = append(t.Funcs, f.refFunc)
	}
	q := func(*types.Package) string { return "" }
	for n, fs := range fields {
		for _, v := range fs {
			t.Fields[n] = append(t.Fields[n], refField{v.Name(), types.TypeString(v.Type(), q)})
		}
	}
	b, _ := json.MarshalIndent(t, "", " ")
	fmt.Println(string(b))
	return 0
}

func overlap(a, b []string) int {
	m := map[string]bool{}
	for _, x := range a {
		m[x] = true
	}
	n := 0
	for _, x := range b {
		if m[x] {
			n++
		}
	}
	return n
}

// referenceNames computes baseOverlay for the tree at repo.
func referenceNames(repo, verif string) {
	baseOverlay, baseNotes = nil, nil
	b, err := os.ReadFile(filepath.Join(verif, "reference_names.json"))
	if err != nil {
		return
	}
	var ref refTable
	if json.Unmarshal(b, &ref) != nil {
		return
	}
	nf, funcs, fields, err := currentNames(repo, nil)
	if err != nil {
		return // the tree does not load: reported by the analysis itself
	}
	refByName := map[string]refFunc{}
	for _, f := range ref.Funcs {
		refByName[f.Name] = f
	}
	curByName := map[string]curFunc{}
	for _, f := range funcs {
		curByName[f.Name] = f
	}
	var edits []textEdit
	var notes []string
	taken := map[string]bool{}
	renameObj := func(obj types.Object, to string) {
		for _, f := range nf.p.Syntax {
			file := nf.fileName(f)
			ast.Inspect(f, func(x ast.Node) bool {
				id, ok := x.(*ast.Ident)
				if !ok {
					return true
				}
				if nf.info.Defs[id] == obj || nf.info.Uses[id] == obj {
					edits = append(edits, textEdit{file, nf.off(id.Pos()), nf.off(id.End()), to})
				}
				return true
			})
		}
	}
	for _, rf := range ref.Funcs {
		if token.IsExported(rf.Bare) || rf.Bare == "init" || rf.Bare == "_" {
			continue
		}
		if _, ok := curByName[rf.Name]; ok {
			continue
		}
		best, bestScore, second := -1, -1, -1
		n := 0
		for i, cf := range funcs {
			if _, known := refByName[cf.Name]; known || taken[cf.Name] || token.IsExported(cf.Bare) {
				continue
			}
			if cf.Recv != rf.Recv || cf.Sig != rf.Sig {
				continue
			}
			n++
			sc := overlap(cf.Calls, rf.Calls) + overlap(cf.Callers, rf.Callers)
			if sc > bestScore {
				best, second, bestScore = i, bestScore, sc
			} else if sc > second {
				second = sc
			}
		}
		if best < 0 || (n > 1 && (bestScore == second || bestScore == 0)) {
			continue
		}
		// the reference name must be free where the function lives
		cf := funcs[best]
		if cf.Recv == "" {
			if nf.p.Types.Scope().Lookup(rf.Bare) != nil {
				continue
			}
		} else {
			recv := cf.obj.Type().(*types.Signature).Recv().Type()
			if o, _, _ := types.LookupFieldOrMethod(recv, true, nf.p.Types, rf.Bare); o != nil {
				continue
			}
		}
		taken[cf.Name] = true
		renameObj(cf.obj, rf.Bare)
		notes = append(notes, fmt.Sprintf("%s read as %s", cf.Name, rf.Name))
	}
	q := func(*types.Package) string { return "" }
	var tnames []string
	for n := range ref.Fields {
		tnames = append(tnames, n)
	}
	sort.Strings(tnames)
	for _, tn := range tnames {
		cur := fields[tn]
		if cur == nil {
			continue
		}
		have := map[string]bool{}
		for _, v := range cur {
			have[v.Name()] = true
		}
		refHas := map[string]bool{}
		for _, rf := range ref.Fields[tn] {
			refHas[rf.Name] = true
		}
		used := map[*types.Var]bool{}
		for _, rf := range ref.Fields[tn] {
			if have[rf.Name] || token.IsExported(rf.Name) || rf.Name == "_" {
				continue
			}
			var cands []*types.Var
			for _, v := range cur {
				if !refHas[v.Name()] && !used[v] && !v.Exported() && !v.Embedded() && types.TypeString(v.Type(), q) == rf.Type {
					cands = append(cands, v)
				}
			}
			// several missing fields of one type in one struct cannot be told apart
			same := 0
			for _, rf2 := range ref.Fields[tn] {
				if !have[rf2.Name] && rf2.Type == rf.Type {
					same++
				}
			}
			if len(cands) != 1 || same != 1 {
				continue
			}
			used[cands[0]] = true
			renameObj(cands[0], rf.Name)
			notes = append(notes, fmt.Sprintf("field %s.%s read as %s.%s", tn, cands[0].Name(), tn, rf.Name))
		}
	}
	if len(edits) == 0 {
		return
	}
	ov := map[string][]byte{}
	if err := nf.apply(edits, ov); err != nil {
		return
	}
	if _, _, err := loadForNF(repo, ov); err != nil {
		return
	}
	baseOverlay, baseNotes = ov, notes
}
