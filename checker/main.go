package main

// ggqlcheck: repository-specific static checker for the properties C01..C20 of
// UHN/ggql. Nothing in /repo is executed: the deciding step is a set of rules
// over the type-checked AST, SSA, CFG and call graph of /repo's working tree.

import (
	"encoding/json"
	"flag"
	"fmt"
	"go/token"
	"golang.org/x/tools/go/ssa"
	"os"
	"path/filepath"
	"reflect"
	"runtime/debug"
	"runtime/pprof"
	"sort"
	"strconv"
	"strings"
	"time"
)

type propDef struct {
	id          string
	run         func(c *Ctx, r *Report)
	explanation string
	notDecided  string
}

var registry = map[string]*propDef{}

func register(id string, run func(c *Ctx, r *Report), explanation, notDecided string) {
	registry[id] = &propDef{id, run, explanation, notDecided}
}

func main() {
	prop := flag.String("property", "", "property id (C01..C20) or 'all'")
	tier := flag.String("tier", "quick", "quick|thorough")
	repo := flag.String("repo", "/repo", "repository root")
	verif := flag.String("verif", "", "verif dir (default: parent of the binary's dir)")
	explain := flag.String("explain", "", "replay: print one violation file and re-run its rule")
	mutant := flag.String("mutant", "", "internal: analyse the tree with this mutant applied (overlay) and print fired obligations")
	list := flag.Bool("list", false, "list obligations")
	noControls := flag.Bool("no-controls", false, "skip positive controls")
	cpuprof := flag.String("cpuprofile", "", "write a CPU profile")
	nfDump := flag.String("nf-dump", "", "internal: write the normal form with these helpers (comma separated bare names, or 'all') inlined to the directory given by -nf-out")
	nfOut := flag.String("nf-out", "", "internal: directory for -nf-dump")
	noNF := flag.Bool("no-normal-form", false, "decide on the text as written only")
	refTab := flag.Bool("ref-table", false, "internal: print the reference names (functions, methods, struct fields of pkg/ggql with what identifies them) of the tree at -repo")
	flag.Parse()
	debug.SetGCPercent(800)
	if *cpuprof != "" {
		f, _ := os.Create(*cpuprof)
		_ = pprof.StartCPUProfile(f)
		defer pprof.StopCPUProfile()
	}

	if *verif == "" {
		exe, _ := os.Executable()
		*verif = filepath.Dir(filepath.Dir(exe))
	}
	if t := os.Getenv("VERIF_TIER"); t != "" && (t == "quick" || t == "thorough") && !flagSet("tier") {
		*tier = t
	}
	seed := 0
	if s := os.Getenv("VERIF_SEED"); s != "" {
		seed, _ = strconv.Atoi(s)
	}
	if *explain != "" {
		os.Exit(doExplain(*explain, *repo, *verif))
	}
	if *nfDump != "" {
		os.Exit(doNFDump(*repo, *nfDump, *nfOut))
	}
	noNormalForm = *noNF
	if *refTab {
		os.Exit(doRefTable(*repo))
	}
	if *prop == "" {
		fmt.Fprintln(os.Stderr, "usage: ggqlcheck -property Cnn [-tier quick|thorough]")
		os.Exit(2)
	}
	ids := []string{*prop}
	if *prop == "all" {
		ids = nil
		for id := range registry {
			ids = append(ids, id)
		}
		sort.Strings(ids)
	}
	exit := 0
	if !noNormalForm {
		referenceNames(*repo, *verif)
		if len(baseNotes) > 0 {
			fmt.Printf("NORMAL-FORM: names: %s\n", strings.Join(baseNotes, "; "))
		}
	}
	for _, id := range ids {
		e := runProperty(id, *tier, *repo, *verif, seed, *mutant, *list, *noControls)
		if e > exit {
			exit = e
		}
	}
	if *cpuprof != "" {
		pprof.StopCPUProfile()
	}
	os.Exit(exit)
}

func flagSet(name string) bool {
	set := false
	flag.Visit(func(f *flag.Flag) {
		if f.Name == name {
			set = true
		}
	})
	return set
}

// analyse loads the tree (optionally with an overlay) and runs one property's rules.
func analyse(id, tier, repo string, overlay map[string][]byte, env []string, vta bool) (rep *Report, err error) {
	pd := registry[id]
	if pd == nil {
		return nil, fmt.Errorf("unknown property %s", id)
	}
	c, err := load(loadOpts{repo: repo, overlay: overlay, env: env, vta: vta})
	if err != nil {
		return nil, err
	}
	r := newReport(id, tier, c)
	c.rep = r
	r.Explanation = pd.explanation
	r.NotDecided = pd.notDecided
	defer func() {
		if p := recover(); p != nil {
			err = fmt.Errorf("checker panic in %s: %v\n%s", id, p, debug.Stack())
		}
	}()
	pd.run(c, r)
	return r, nil
}

func runProperty(id, tier, repo, verif string, seed int, mutant string, list, noControls bool) int {
	t0 := time.Now()
	known, err := loadKnown(filepath.Join(verif, "known_findings.json"))
	if err != nil {
		fmt.Fprintln(os.Stderr, "known_findings.json:", err)
		return 2
	}
	if mutant != "" {
		return runOneMutant(id, repo, verif, mutant, known)
	}
	rep, err := analyse(id, tier, repo, nil, nil, tier == "thorough")
	if err != nil {
		// no verdict can be given: type errors, missing packages, checker panic.
		// This is reported as a violation of the obligation "the tree can be analysed".
		fmt.Fprintf(os.Stderr, "%s: cannot analyse: %v\n", id, err)
		fn := filepath.Join(verif, "evidence", "violations", id+"-cannot-analyse.json")
		_ = os.MkdirAll(filepath.Dir(fn), 0o755)
		b, _ := json.MarshalIndent(map[string]string{"property": id, "error": err.Error()}, "", " ")
		_ = os.WriteFile(fn, b, 0o644)
		fmt.Printf("VIOLATION property=%s replay=%s\n", id, fn)
		return 1
	}
	extra := map[string]interface{}{}
	if len(baseNotes) > 0 {
		extra["reference_names"] = baseNotes
	}
	if !noNormalForm {
		if rep2, note := tryNormalForms(id, tier, repo, rep, known); rep2 != nil {
			rep = rep2
			extra["normal_form"] = note
		} else if note != nil {
			extra["normal_form_attempts"] = note
		}
	}
	if !noControls {
		runControls(id, tier, repo, verif, rep, known)
	}
	if tier == "thorough" {
		thoroughExtras(id, repo, verif, rep, known, extra)
	}
	if list {
		for _, o := range rep.Obls {
			fmt.Printf("  %-10s %-11s %s | %s | %s\n", o.Status, o.Rule, o.Key, o.Pos, o.Detail)
		}
	}
	return rep.finish(verif, known, time.Since(t0), seed, extra)
}

var noNormalForm bool

func doNFDump(repo, names, out string) int {
	want := map[string]bool{}
	for _, n := range strings.Split(names, ",") {
		want[n] = true
	}
	anch := anchorWords()
	res, err := normalForm(repo, func(name string) bool {
		bare := name[strings.LastIndex(name, ".")+1:]
		if want["all"] {
			return !anch[bare]
		}
		return want[bare]
	})
	if err != nil {
		fmt.Fprintln(os.Stderr, err)
		return 1
	}
	fmt.Println("inlined:", res.inlined)
	fmt.Println("kept:", res.kept)
	if out != "" {
		_ = os.MkdirAll(out, 0o755)
		for f, b := range res.overlay {
			_ = os.WriteFile(filepath.Join(out, filepath.Base(f)), b, 0o644)
		}
	}
	return 0
}

// failing lists the obligations that are neither discharged nor a listed known finding.
func failing(rep *Report, known *KnownFile) []Obligation {
	var out []Obligation
	for _, o := range rep.Obls {
		switch o.Status {
		case Undecided:
			out = append(out, o)
		case Violated:
			isKnown := false
			for _, k := range known.Findings {
				if k.Property == rep.Property && k.Rule == o.Rule && k.Key == o.Key {
					isKnown = true
				}
			}
			if !isKnown {
				out = append(out, o)
			}
		}
	}
	return out
}

// tryNormalForms: when the rules leave obligations open on the text as written, the property is decided
// again on normal forms of the source in which unexported helpers connected to those obligations are
// inlined at their call sites (normalform.go). The first normal form on which everything is discharged
// gives the verdict; otherwise the report on the text as written stands.
func tryNormalForms(id, tier, repo string, rep *Report, known *KnownFile) (*Report, map[string]interface{}) {
	open := failing(rep, known)
	if len(open) == 0 {
		return nil, nil
	}
	anch := anchorWords()
	// functions the role-based anchors resolve to are what the rules read: never inlined
	if a := rep.c.anchors(); a != nil {
		av := reflect.ValueOf(a).Elem()
		for i := 0; i < av.NumField(); i++ {
			if av.Field(i).Type() == reflect.TypeOf((*ssa.Function)(nil)) && !av.Field(i).IsNil() {
				fn := (*ssa.Function)(av.Field(i).UnsafePointer())
				anch[fn.Name()] = true
			}
		}
	}
	for n := range rep.c.roleFns {
		anch[n] = true
	}
	// the constructors of errors are what the rules recognise a reported failure by
	for _, fn := range rep.c.allFns {
		if fn.Parent() == nil && fn.Signature.Recv() == nil && rep.c.alwaysStarError(fn) {
			anch[fn.Name()] = true
		}
	}
	// A violated obligation whose construct is a function's own body ("defaultValueText (..): nil only for a nil
	// argument") is a complaint about that body: inlining the function would take the body out of the rule's
	// sight, not decide it. Rules whose verdict depends on where the code sits (who may add a path segment,
	// who writes into what it was handed, who writes the registry, what a transaction writes) are the exception:
	// for them the same code inlined into its caller is judged in the caller's role.
	contextual := func(rule string) bool {
		for _, p := range []string{"C05.OWNDATA", "C12.APPDATA", "C06.G", "C06.ONCE", "C19.", "C20.", "C14.W", "C17.TABLES", "C02.BINDARM", "C02.CACHE", "C12.CACHE", "C08.META", "C12.SHARED", "C16.REFPURE", "C13.REFS", "C11.PURE", "C09.FROZEN", "C01.SKIP"} {
			if strings.HasPrefix(rule, p) {
				return true
			}
		}
		return false
	}
	for _, o := range open {
		if o.Status != Violated || contextual(o.Rule) {
			continue
		}
		key := o.Key
		if i := strings.Index(key, " "); i > 0 {
			if j := strings.Index(key, ":"); j > 0 && j < i {
				i = j
			}
			key = key[:i]
		}
		key = strings.TrimSuffix(key, ":")
		if k := strings.LastIndex(key, "."); k >= 0 {
			key = key[k+1:]
		}
		if key != "" {
			anch[key] = true
		}
		// ... and so is a complaint about what a helper named further on in the construct does ("string handed to
		// printing helper #1 (writeDescText)"): with the helper inlined the complaint has nothing to attach to
		// (a value the helper returns - "coerceArgIn()#0", "findOp()" - is another matter: inlined, the value is
		// judged where it is computed)
		for _, fn := range rep.c.allFns {
			if fn.Parent() == nil && strings.Contains(o.Key, "("+fn.Name()+")") {
				anch[fn.Name()] = true
			}
		}
	}
	var text strings.Builder
	for _, o := range open {
		text.WriteString(o.Key + "\n" + o.Detail + "\n" + strings.Join(o.Path, "\n") + "\n")
	}
	openText := text.String()
	word := func(hay, w string) bool {
		for i := 0; ; {
			j := strings.Index(hay[i:], w)
			if j < 0 {
				return false
			}
			j += i
			before := j == 0 || !isIdentByte(hay[j-1])
			after := j+len(w) == len(hay) || !isIdentByte(hay[j+len(w)])
			if before && after {
				return true
			}
			i = j + 1
		}
	}
	c := rep.c
	// unexported functions of the package by bare name, and who calls whom
	callees := map[string]map[string]bool{} // bare caller -> bare callees
	bareOf := func(name string) string { return name[strings.LastIndex(name, ".")+1:] }
	for _, fn := range c.allFns {
		root := fn
		for root.Parent() != nil {
			root = root.Parent()
		}
		from := root.Name()
		for _, ci := range callsIn(fn) {
			if cal := ci.Common().StaticCallee(); cal != nil && c.inPkg(cal) && cal.Parent() == nil {
				if callees[from] == nil {
					callees[from] = map[string]bool{}
				}
				callees[from][cal.Name()] = true
			}
		}
	}
	mentioned := map[string]bool{}
	for _, fn := range c.allFns {
		if fn.Parent() == nil && word(openText, fn.Name()) {
			mentioned[fn.Name()] = true
		}
	}
	// an obligation that names a role ("descents in the type dispatcher") names the function in that role
	if a := rep.c.anchors(); a != nil {
		for role, fname := range a.names() {
			if strings.Contains(openText, role) {
				mentioned[bareOf(fname)] = true
			}
		}
	}
	for role, fnames := range map[string][]string{
		"value writer": {"writeValue", "writeMap"}, "string writer": {"writeString"}, "value reader": {"readValue"}, "string reader": {"readString"},
		"response former": {"FormErrorsResult"}, "registry": {"AddEvent", "Unsubscribe", "subscribe"}, "evaluator": {"skipSel"},
		"loader": {"ParseReader", "AddTypes", "addTypes", "addExtends"}, "printer": {"SDL"},
		"interface conformance check": {"validateField", "validateInterface", "isSubType"},
	} {
		if strings.Contains(openText, role) {
			for _, f := range fnames {
				mentioned[f] = true
			}
		}
	}
	seen := map[string]bool{}
	for f := range rep.FuncsSeen {
		seen[bareOf(f)] = true
	}
	// when an anchor is missing the rules examined nothing: what the anchors that were found call
	if a := rep.c.anchors(); a != nil && len(a.missing) > 0 {
		av := reflect.ValueOf(a).Elem()
		for i := 0; i < av.NumField(); i++ {
			if av.Field(i).Type() == reflect.TypeOf((*ssa.Function)(nil)) && !av.Field(i).IsNil() {
				seen[(*ssa.Function)(av.Field(i).UnsafePointer()).Name()] = true
			}
		}
	}
	v1 := func(name string) bool { b := bareOf(name); return !anch[b] && mentioned[b] }
	v2 := func(name string) bool {
		b := bareOf(name)
		if anch[b] {
			return false
		}
		if mentioned[b] {
			return true
		}
		for m := range mentioned {
			if callees[m][b] {
				return true
			}
		}
		return false
	}
	v3 := func(name string) bool {
		if v2(name) {
			return true
		}
		b := bareOf(name)
		if anch[b] {
			return false
		}
		for m := range seen {
			if callees[m][b] {
				return true
			}
		}
		return false
	}
	var attempts []map[string]interface{}
	tried := map[string]bool{}
	// the rules lost their grip: nothing but floors and unresolved anchors is open
	onlyLostGrip := true
	for _, o := range open {
		if !(o.Status == Undecided && (strings.HasPrefix(o.Key, "floor:") || strings.Contains(o.Key, "floor:") || strings.HasPrefix(o.Key, "anchor"))) {
			onlyLostGrip = false
		}
	}
	type variant struct {
		name string
		pick func(string) bool
		wide bool
		form func() (*nfResult, error) // a normal form other than inlining
	}
	callers := map[string]map[string]bool{}
	for from, cs := range callees {
		for b := range cs {
			if callers[b] == nil {
				callers[b] = map[string]bool{}
			}
			callers[b][from] = true
		}
	}
	// the helpers with a single calling function are what "extract method" leaves behind
	v2narrow := func(name string) bool {
		b := bareOf(name)
		return v1(name) || (v2(name) && len(callers[b]) <= 3)
	}
	var variants []variant
	// a role nobody plays: the statement that plays it inside another function is taken out into a function of its own
	missingRole := map[string]bool{}
	if a := rep.c.anchors(); a != nil {
		for _, m := range a.missing {
			missingRole[m] = true
		}
		if a.inline == nil {
			missingRole["inline fragment resolver"] = true
		}
	}
	for _, t := range outlineTargets {
		role := t.role
		if strings.Contains(openText, "anchor: "+role) || missingRole[role] {
			variants = append(variants, variant{name: "the statement in the role of the " + role + " taken out into a function of its own", form: func() (*nfResult, error) { return outlineForm(repo, role) }})
		}
	}
	// what "extract method" leaves behind in a function the rules are anchored in: helpers all of whose callers are
	// anchored functions that the open obligations name
	v0 := func(name string) bool {
		b := bareOf(name)
		if anch[b] || len(callers[b]) == 0 {
			return false
		}
		for cl := range callers[b] {
			if !(anch[cl] && mentioned[cl]) {
				return false
			}
		}
		return true
	}
	variants = append(variants, variant{name: "helpers called only by anchored functions that the open obligations name", pick: v0})
	variants = append(variants, variant{name: "helpers the open obligations name", pick: v1},
		variant{name: "helpers with at most three calling functions among those called by the functions the open obligations name", pick: v2narrow})
	// one helper at a time, among those the examined functions call
	var singles []string
	for _, fn := range c.allFns {
		if fn.Parent() != nil {
			continue
		}
		b := fn.Name()
		if len(callers[b]) == 1 && v3(fnName(fn)) && !token.IsExported(b) {
			singles = append(singles, b)
		}
	}
	sort.Strings(singles)
	if len(singles) > 10 {
		singles = singles[:10]
	}
	for _, b := range singles {
		b := b
		variants = append(variants, variant{name: "the helper " + b + " alone", pick: func(name string) bool { return bareOf(name) == b && !anch[b] }, wide: true})
	}
	variants = append(variants, variant{name: "helpers called by any function the rules examined", pick: v3, wide: true})
	for _, v := range variants {
		if v.wide && !onlyLostGrip {
			continue // the wider selections are for rules that found nothing to examine
		}
		var nf *nfResult
		var err error
		if v.form != nil {
			nf, err = v.form()
		} else {
			nf, err = normalForm(repo, v.pick)
		}
		att := map[string]interface{}{"selection": v.name}
		if err != nil {
			att["error"] = err.Error()
			attempts = append(attempts, att)
			if os.Getenv("NF_DEBUG") != "" {
				fmt.Fprintf(os.Stderr, "normal form [%s]: %v\n", v.name, err)
			}
			continue
		}
		sig := strings.Join(nf.inlined, ";")
		if os.Getenv("NF_DEBUG") != "" {
			fmt.Fprintf(os.Stderr, "normal form [%s]: inlined %v kept %v (mentioned %v)\n", v.name, nf.inlined, nf.kept, mentioned)
		}
		if len(nf.inlined) == 0 || tried[sig] {
			continue
		}
		tried[sig] = true
		att["inlined"] = nf.inlined
		att["left_alone"] = nf.kept
		rep2, err := analyse(id, tier, repo, nf.overlay, nil, tier == "thorough")
		if err != nil {
			if os.Getenv("NF_DEBUG") != "" {
				fmt.Fprintf(os.Stderr, "normal form [%s]: %.1500v\n", v.name, err)
			}
			att["error"] = err.Error()
			attempts = append(attempts, att)
			continue
		}
		open2 := failing(rep2, known)
		att["open_obligations"] = len(open2)
		if os.Getenv("NF_DEBUG") != "" {
			fmt.Fprintf(os.Stderr, "normal form [%s] inlined %v: %d open\n", v.name, nf.inlined, len(open2))
			for _, o := range open2 {
				fmt.Fprintf(os.Stderr, "   %s %s | %s | %s | %.300s\n", o.Status, o.Rule, o.Key, o.Pos, o.Detail)
			}
		}
		attempts = append(attempts, att)
		if len(open2) == 0 {
			// the normal form must decide what was open, not lose it: an obligation that was violated on the text
			// as written is there again, discharged, unless its construct is one of the inlined helpers
			lost := ""
			have := map[string]Status{}
			for _, o := range rep2.Obls {
				have[o.Rule+"|"+o.Key] = o.Status
			}
			for _, o := range open {
				if o.Status != Violated {
					continue
				}
				if _, ok := have[o.Rule+"|"+o.Key]; ok {
					continue
				}
				if o.NegOnly {
					continue // an occurrence of something forbidden: on this text it does not occur
				}
				namesInlined := false
				// only where the construct is described through the helper (a value "coerceArgIn()#0", an error
				// source "Root.resolveElem#1") or the rule judges code by where it sits
				// a construct that is a call or a value of an inlined helper ("call #1 of (*Object).setGoType", a value
				// "coerceArgIn()#0", an error source "Root.resolveElem#1") does not exist on this text, whatever the rule;
				// the function at the head of the construct is never inlined (see above)
				for _, in := range nf.inlined {
					name := in[:strings.Index(in, " (")]
					if strings.HasPrefix(name, "(") && strings.Contains(o.Key, name) {
						namesInlined = true
					}
				}
				if !namesInlined && !(contextual(o.Rule) || strings.HasPrefix(o.Rule, "C04.ARMS") || strings.HasPrefix(o.Rule, "C10.REQVAR") || strings.HasPrefix(o.Rule, "C01.OP")) {
					lost = o.Rule + " | " + o.Key
					continue
				}
				for _, in := range nf.inlined {
					name := in[:strings.Index(in, " (")]
					if strings.Contains(o.Key, name) || strings.Contains(o.Key, bareOf(name)+"#") || strings.Contains(o.Key, bareOf(name)+"()") {
						namesInlined = true
					}
				}
				if !namesInlined {
					lost = o.Rule + " | " + o.Key
				}
			}
			if lost != "" {
				att["rejected"] = "the obligation " + lost + " is not decided on this normal form (it is gone, not discharged)"
				if os.Getenv("NF_DEBUG") != "" {
					fmt.Fprintf(os.Stderr, "   rejected: %s lost\n", lost)
				}
				continue
			}
			var was []string
			for _, o := range open {
				was = append(was, o.Rule+" | "+o.Key)
			}
			rep2.overlay = nf.overlay
			how := "inlined at their call sites"
			if v.form != nil {
				how = "- no other change"
			}
			rep2.Notes = append(rep2.Notes, fmt.Sprintf("decided on a normal form of the source (%s): %s %s; on the text as written %d obligations were not discharged: %s", v.name, strings.Join(nf.inlined, ", "), how, len(open), strings.Join(was, "; ")))
			if v.form != nil {
				fmt.Printf("NORMAL-FORM: property=%s decided with %s (%d obligations open on the text as written)\n", id, strings.Join(nf.inlined, ", "), len(open))
			} else {
				fmt.Printf("NORMAL-FORM: property=%s decided with %s inlined (%d obligations open on the text as written)\n", id, strings.Join(nf.inlined, ", "), len(open))
			}
			return rep2, map[string]interface{}{"selection": v.name, "inlined": nf.inlined, "left_alone": nf.kept, "open_on_the_text_as_written": was}
		}
	}
	if len(attempts) == 0 {
		return nil, nil
	}
	return nil, map[string]interface{}{"attempts": attempts}
}

// wordIn: w occurs in hay as a whole identifier.
func wordIn(hay, w string) bool {
	for i := 0; ; {
		j := strings.Index(hay[i:], w)
		if j < 0 {
			return false
		}
		j += i
		before := j == 0 || !isIdentByte(hay[j-1])
		after := j+len(w) == len(hay) || !isIdentByte(hay[j+len(w)])
		if before && after {
			return true
		}
		i = j + 1
	}
}

func isIdentByte(b byte) bool {
	return b == '_' || b >= '0' && b <= '9' || b >= 'a' && b <= 'z' || b >= 'A' && b <= 'Z'
}

func doExplain(path, repo, verif string) int {
	b, err := os.ReadFile(path)
	if err != nil {
		fmt.Fprintln(os.Stderr, err)
		return 2
	}
	var v map[string]interface{}
	if err := json.Unmarshal(b, &v); err != nil {
		fmt.Fprintln(os.Stderr, err)
		return 2
	}
	fmt.Printf("replay of %s\n", path)
	for _, k := range []string{"property", "rule", "rule_text", "construct", "pos", "status", "detail", "error"} {
		if s, ok := v[k]; ok {
			fmt.Printf("  %-10s %v\n", k+":", s)
		}
	}
	if p, ok := v["path"].([]interface{}); ok {
		for _, s := range p {
			fmt.Printf("    path: %v\n", s)
		}
	}
	id, _ := v["property"].(string)
	rule, _ := v["rule"].(string)
	key, _ := v["construct"].(string)
	if registry[id] == nil {
		return 2
	}
	rep, err := analyse(id, "quick", repo, nil, nil, false)
	if err != nil {
		fmt.Println("  current tree: cannot analyse:", err)
		return 1
	}
	known, _ := loadKnown(filepath.Join(verif, "known_findings.json"))
	for _, o := range rep.Obls {
		if o.Rule == rule && o.Key == key {
			st := o.Status
			for _, k := range known.Findings {
				if k.Property == id && k.Rule == rule && k.Key == key && st == Violated {
					st = Known
				}
			}
			fmt.Printf("  on the current tree: %s at %s: %s\n", st, o.Pos, o.Detail)
			for _, p := range o.Path {
				fmt.Printf("    path: %s\n", p)
			}
			if st == Violated || st == Undecided {
				return 1
			}
			return 0
		}
	}
	fmt.Println("  on the current tree: obligation no longer enumerated (construct removed or renamed)")
	if strings.HasPrefix(key, "floor:") {
		return 0
	}
	return 0
}
