package main

// ggqlcheck: repository-specific static checker for the properties C01..C20 of
// UHN/ggql. Nothing in /repo is executed: the deciding step is a set of rules
// over the type-checked AST, SSA, CFG and call graph of /repo's working tree.

import (
	"encoding/json"
	"flag"
	"fmt"
	"os"
	"path/filepath"
	"runtime/debug"
	"runtime/pprof"
	"sort"
	"strconv"
	"strings"
	"time"
)

type propDef struct {
	id          string
	run         func(c *Ctx, r *Report)
	explanation string
	notDecided  string
}

var registry = map[string]*propDef{}

func register(id string, run func(c *Ctx, r *Report), explanation, notDecided string) {
	registry[id] = &propDef{id, run, explanation, notDecided}
}

func main() {
	prop := flag.String("property", "", "property id (C01..C20) or 'all'")
	tier := flag.String("tier", "quick", "quick|thorough")
	repo := flag.String("repo", "/repo", "repository root")
	verif := flag.String("verif", "", "verif dir (default: parent of the binary's dir)")
	explain := flag.String("explain", "", "replay: print one violation file and re-run its rule")
	mutant := flag.String("mutant", "", "internal: analyse the tree with this mutant applied (overlay) and print fired obligations")
	list := flag.Bool("list", false, "list obligations")
	noControls := flag.Bool("no-controls", false, "skip positive controls")
	cpuprof := flag.String("cpuprofile", "", "write a CPU profile")
	flag.Parse()
	debug.SetGCPercent(800)
	if *cpuprof != "" {
		f, _ := os.Create(*cpuprof)
		_ = pprof.StartCPUProfile(f)
		defer pprof.StopCPUProfile()
	}

	if *verif == "" {
		exe, _ := os.Executable()
		*verif = filepath.Dir(filepath.Dir(exe))
	}
	if t := os.Getenv("VERIF_TIER"); t != "" && (t == "quick" || t == "thorough") && !flagSet("tier") {
		*tier = t
	}
	seed := 0
	if s := os.Getenv("VERIF_SEED"); s != "" {
		seed, _ = strconv.Atoi(s)
	}
	if *explain != "" {
		os.Exit(doExplain(*explain, *repo, *verif))
	}
	if *prop == "" {
		fmt.Fprintln(os.Stderr, "usage: ggqlcheck -property Cnn [-tier quick|thorough]")
		os.Exit(2)
	}
	ids := []string{*prop}
	if *prop == "all" {
		ids = nil
		for id := range registry {
			ids = append(ids, id)
		}
		sort.Strings(ids)
	}
	exit := 0
	for _, id := range ids {
		e := runProperty(id, *tier, *repo, *verif, seed, *mutant, *list, *noControls)
		if e > exit {
			exit = e
		}
	}
	if *cpuprof != "" {
		pprof.StopCPUProfile()
	}
	os.Exit(exit)
}

func flagSet(name string) bool {
	set := false
	flag.Visit(func(f *flag.Flag) {
		if f.Name == name {
			set = true
		}
	})
	return set
}

// analyse loads the tree (optionally with an overlay) and runs one property's rules.
func analyse(id, tier, repo string, overlay map[string][]byte, env []string, vta bool) (rep *Report, err error) {
	pd := registry[id]
	if pd == nil {
		return nil, fmt.Errorf("unknown property %s", id)
	}
	c, err := load(loadOpts{repo: repo, overlay: overlay, env: env, vta: vta})
	if err != nil {
		return nil, err
	}
	r := newReport(id, tier, c)
	c.rep = r
	r.Explanation = pd.explanation
	r.NotDecided = pd.notDecided
	defer func() {
		if p := recover(); p != nil {
			err = fmt.Errorf("checker panic in %s: %v\n%s", id, p, debug.Stack())
		}
	}()
	pd.run(c, r)
	return r, nil
}

func runProperty(id, tier, repo, verif string, seed int, mutant string, list, noControls bool) int {
	t0 := time.Now()
	known, err := loadKnown(filepath.Join(verif, "known_findings.json"))
	if err != nil {
		fmt.Fprintln(os.Stderr, "known_findings.json:", err)
		return 2
	}
	if mutant != "" {
		return runOneMutant(id, repo, verif, mutant, known)
	}
	rep, err := analyse(id, tier, repo, nil, nil, tier == "thorough")
	if err != nil {
		// no verdict can be given: type errors, missing packages, checker panic.
		// This is reported as a violation of the obligation "the tree can be analysed".
		fmt.Fprintf(os.Stderr, "%s: cannot analyse: %v\n", id, err)
		fn := filepath.Join(verif, "evidence", "violations", id+"-cannot-analyse.json")
		_ = os.MkdirAll(filepath.Dir(fn), 0o755)
		b, _ := json.MarshalIndent(map[string]string{"property": id, "error": err.Error()}, "", " ")
		_ = os.WriteFile(fn, b, 0o644)
		fmt.Printf("VIOLATION property=%s replay=%s\n", id, fn)
		return 1
	}
	extra := map[string]interface{}{}
	if !noControls {
		runControls(id, tier, repo, verif, rep, known)
	}
	if tier == "thorough" {
		thoroughExtras(id, repo, verif, rep, known, extra)
	}
	if list {
		for _, o := range rep.Obls {
			fmt.Printf("  %-10s %-11s %s | %s | %s\n", o.Status, o.Rule, o.Key, o.Pos, o.Detail)
		}
	}
	return rep.finish(verif, known, time.Since(t0), seed, extra)
}

func doExplain(path, repo, verif string) int {
	b, err := os.ReadFile(path)
	if err != nil {
		fmt.Fprintln(os.Stderr, err)
		return 2
	}
	var v map[string]interface{}
	if err := json.Unmarshal(b, &v); err != nil {
		fmt.Fprintln(os.Stderr, err)
		return 2
	}
	fmt.Printf("replay of %s\n", path)
	for _, k := range []string{"property", "rule", "rule_text", "construct", "pos", "status", "detail", "error"} {
		if s, ok := v[k]; ok {
			fmt.Printf("  %-10s %v\n", k+":", s)
		}
	}
	if p, ok := v["path"].([]interface{}); ok {
		for _, s := range p {
			fmt.Printf("    path: %v\n", s)
		}
	}
	id, _ := v["property"].(string)
	rule, _ := v["rule"].(string)
	key, _ := v["construct"].(string)
	if registry[id] == nil {
		return 2
	}
	rep, err := analyse(id, "quick", repo, nil, nil, false)
	if err != nil {
		fmt.Println("  current tree: cannot analyse:", err)
		return 1
	}
	known, _ := loadKnown(filepath.Join(verif, "known_findings.json"))
	for _, o := range rep.Obls {
		if o.Rule == rule && o.Key == key {
			st := o.Status
			for _, k := range known.Findings {
				if k.Property == id && k.Rule == rule && k.Key == key && st == Violated {
					st = Known
				}
			}
			fmt.Printf("  on the current tree: %s at %s: %s\n", st, o.Pos, o.Detail)
			for _, p := range o.Path {
				fmt.Printf("    path: %s\n", p)
			}
			if st == Violated || st == Undecided {
				return 1
			}
			return 0
		}
	}
	fmt.Println("  on the current tree: obligation no longer enumerated (construct removed or renamed)")
	if strings.HasPrefix(key, "floor:") {
		return 0
	}
	return 0
}
