package main

import (
	"fmt"
	"go/constant"
	"go/token"
	"go/types"
	"sort"
	"strings"

	"golang.org/x/tools/go/ssa"
)

func init() {
	register("C09", checkC09,
		"Structural necessary conditions of @skip/@include: (STICKY) the exclusion accumulator of the directive loop is monotone - once a directive excludes the selection no later directive can re-include it, so the outcome is order independent; (POL) the value contributed in the arm selected by the name \"skip\" is the condition itself and in the \"include\" arm its negation, for literal and variable conditions alike, and a non-boolean variable excludes; (GATE) in the selection walker every dispatch to field/inline/spread resolution is control dependent on skip==false computed by the directive evaluator for that same selection, before the kind switch; (VARS) the variable map consulted is the operation's map which already holds the defaults.",
		"Nothing of substance beyond the trusted base: the rule does not execute the evaluator, so a wrong map key (\"if\") or a directive-name typo in the schema definitions is covered only by the constant comparison of the arm names.")
}

// selWalker finds the selection walker: the in-package function reachable
// from ResolveExecutable that ranges over []Selection and type-switches on the element.
func (c *Ctx) selWalker() *ssa.Function {
	entry := c.fn("(*Root).ResolveExecutable")
	if entry == nil {
		return nil
	}
	selT := c.named("Selection")
	var best, fallback *ssa.Function
	for f := range c.reachable(entry) {
		if !c.inPkg(f) {
			continue
		}
		n := 0
		for _, b := range f.Blocks {
			for _, in := range b.Instrs {
				if ta, ok := in.(*ssa.TypeAssert); ok && selT != nil && types.Identical(ta.X.Type(), selT) {
					n++
				}
			}
		}
		if n >= 2 && (best == nil || fnName(f) < fnName(best)) {
			// must also call the directive evaluator
			if c.callTo(f, c.skipEval()) != nil {
				best = f
			}
		}
		// the evaluator may be written out inside the walker: then the walker is the function that asserts the
		// kinds of Selection, fills a response map it is given and reads the directive uses itself
		if n >= 2 && c.skipEval() == nil {
			hasMap := false
			for _, p := range f.Params {
				if isStrIfaceMap(p.Type()) {
					hasMap = true
				}
			}
			readsDirs := false
			for _, ci := range callsIn(f) {
				if ci.Common().IsInvoke() && ci.Common().Method.Name() == "Directives" {
					readsDirs = true
				}
			}
			if hasMap && readsDirs && (fallback == nil || fnName(f) < fnName(fallback)) {
				fallback = f
			}
		}
	}
	if best == nil {
		return fallback
	}
	return best
}

// skipEval finds the directive evaluator: in-package function with a Selection
// parameter and results (bool, []error).
func (c *Ctx) skipEval() *ssa.Function {
	selT := c.named("Selection")
	for _, f := range c.allFns {
		sig := f.Signature
		if sig.Results().Len() != 2 {
			continue
		}
		if b, ok := sig.Results().At(0).Type().(*types.Basic); !ok || b.Kind() != types.Bool {
			continue
		}
		for i := 0; i < sig.Params().Len(); i++ {
			if selT != nil && types.Identical(sig.Params().At(i).Type(), selT) {
				return f
			}
		}
	}
	return nil
}

func (c *Ctx) callTo(f, callee *ssa.Function) ssa.CallInstruction {
	if callee == nil {
		return nil
	}
	for _, ci := range callsIn(f) {
		if ci.Common().StaticCallee() == callee {
			return ci
		}
	}
	return nil
}

// resolverReaching returns in-package functions from which an application
// resolver (Resolver.Resolve / AnyResolver.Resolve / reflect Call) is reachable.
func (c *Ctx) resolverReaching() map[*ssa.Function]bool {
	out := map[*ssa.Function]bool{}
	direct := map[*ssa.Function]bool{}
	for _, f := range c.allFns {
		for _, ci := range callsIn(f) {
			if c.isResolverInvoke(ci) {
				direct[f] = true
			}
		}
	}
	// reverse reachability over static in-package calls
	changed := true
	for f := range direct {
		out[f] = true
	}
	for changed {
		changed = false
		for _, f := range c.allFns {
			if out[f] {
				continue
			}
			for _, ci := range callsIn(f) {
				if cal := ci.Common().StaticCallee(); cal != nil && out[cal] {
					out[f] = true
					changed = true
					break
				}
			}
		}
	}
	return out
}

// isResolverInvoke: interface invoke of Resolver.Resolve / AnyResolver.Resolve, or reflect.Value.Call.
func (c *Ctx) isResolverInvoke(ci ssa.CallInstruction) bool {
	cc := ci.Common()
	if cc.IsInvoke() && cc.Method.Name() == "Resolve" {
		rt := cc.Value.Type()
		if n, ok := rt.(*types.Named); ok && (n.Obj().Name() == "Resolver" || n.Obj().Name() == "AnyResolver") && n.Obj().Pkg() == c.P.Types {
			return true
		}
	}
	if f := calleeObj(ci); f != nil && f.Pkg() != nil && f.Pkg().Path() == "reflect" && recvTypeName(f) == "Value" && (f.Name() == "Call" || f.Name() == "CallSlice") {
		return true
	}
	return false
}

func checkC09(c *Ctx, r *Report) {
	r.rule("C09.STICKY", "constant propagation through one iteration of the evaluator's directive loop, per directive name and source of the condition, with the accumulator as a symbol: a use that does not exclude leaves the accumulator as it was (never false, never the bare condition), so a later directive cannot undo an earlier exclusion")
	r.rule("C09.POL", "the same propagation: @skip excludes exactly when its condition is true, @include exactly when it is false, literal and variable alike; a variable that is not a boolean excludes and appends an error")
	r.rule("C09.GATE", "every call in the selection walker that can reach an application resolver is dominated by skip==false where skip is result 0 of the directive evaluator applied to that same selection")
	r.rule("C09.VARS", "the directive evaluator reads variables from the map it is given, the walker passes its own vars parameter through, and the entry point passes the operation's variable map (defaults included), not the caller's raw map")

	ev := c.skipEval()
	if ev == nil {
		r.undecided("C09.STICKY", "anchor: directive evaluator (func(.., Selection, ..) (bool, []error))", token.NoPos, "not found")
		return
	}
	r.fnSeen(fnName(ev))
	if !c09Table(c, r, ev) {
		// no directive loop with a boolean accumulator to propagate through: the rules that read the
		// statement form (an arm per directive name, skip = skip || v)
		c09Sticky(c, r, ev)
	}

	w := c.selWalker()
	if w == nil {
		r.undecided("C09.GATE", "anchor: selection walker", token.NoPos, "no function reachable from ResolveExecutable type-switches over Selection and calls the directive evaluator")
		return
	}
	r.fnSeen(fnName(w))
	c09Gate(c, r, w, ev)
	c09Vars(c, r, w, ev)
}

func c09Sticky(c *Ctx, r *Report, ev *ssa.Function) {
	// accumulator = result 0 at every return
	var rets []*ssa.Return
	for _, b := range ev.Blocks {
		for _, in := range b.Instrs {
			if rt, ok := in.(*ssa.Return); ok {
				rets = append(rets, rt)
			}
		}
	}
	nLeaves, nCond := 0, 0
	polSeen := map[string]int{}
	for _, rt := range rets {
		leaves, phis := phiLeaves(rt.Results[0])
		phiBlocks := map[*ssa.BasicBlock]bool{}
		for p := range phis {
			phiBlocks[p.Block()] = true
		}
		for _, lf := range leaves {
			nLeaves++
			key := fmt.Sprintf("%s: accumulator leaf %s", fnName(ev), c.leafDesc(lf.val))
			if k, ok := lf.val.(*ssa.Const); ok {
				if k.Value != nil && k.Value.String() == "true" {
					r.check("C09.STICKY", key+" (const true)", rt.Pos(), true, "assigning true is monotone")
					continue
				}
				// const false: only as the initial value, i.e. entering from a block that no accumulator version reaches
				initial := true
				if lf.pred != nil {
					for pb := range phiBlocks {
						if reachableBlocks(pb)[lf.pred] {
							initial = false
						}
					}
				}
				r.check("C09.STICKY", key+" (const false)", lf.val.Pos(), initial, "false is allowed only as the initial value before the directive loop")
				continue
			}
			nCond++
			// non-constant leaf: must enter on an edge where the accumulator is known false
			okEdge := false
			if lf.pred != nil && lf.phi != nil {
				for _, g := range edgeGuards(lf.pred, lf.phi.Block()) {
					g = normGuard(g)
					if p, isPhi := g.cond.(*ssa.Phi); isPhi && phis[p] && !g.val {
						okEdge = true
					}
				}
			}
			pos := valPos(lf.val)
			r.check("C09.STICKY", key, pos, okEdge, "a directive's condition is assigned to the accumulator on a path where the accumulator may already be true: a later @include(if:true) re-includes a selection excluded by an earlier @skip(if:true) (order dependence)")
			// polarity
			arm, neg, condOK := c09Arm(lf)
			pkey := fmt.Sprintf("%s: arm %q leaf %s", fnName(ev), arm, c.leafDesc(lf.val))
			switch {
			case arm == "":
				r.undecided("C09.POL", pkey, pos, "contribution is not inside an arm selected by a comparison of the directive name with \"skip\" or \"include\"")
			case !condOK:
				r.undecided("C09.POL", pkey, pos, "contributed value is not (the negation of) a boolean obtained by type assertion from the argument value or the variable map")
			default:
				want := arm == "include"
				r.check("C09.POL", pkey, pos, neg == want, fmt.Sprintf("arm %q must contribute %s", arm, map[bool]string{false: "the condition itself", true: "the negated condition"}[want]))
				polSeen[arm]++
			}
		}
	}
	r.floor("C09.STICKY", "non-constant contributions to the exclusion accumulator", nCond, 4)
	r.floor("C09.POL", "contributions in the skip arm", polSeen["skip"], 2)
	r.floor("C09.POL", "contributions in the include arm", polSeen["include"], 2)
}

func (c *Ctx) leafDesc(v ssa.Value) string {
	switch t := v.(type) {
	case *ssa.Const:
		return t.Name()
	case *ssa.UnOp:
		if t.Op == token.NOT {
			return "!" + c.leafDesc(t.X)
		}
	case *ssa.Extract:
		if ta, ok := t.Tuple.(*ssa.TypeAssert); ok {
			return shortPath(vpath(ta.X)) + ".(" + typeStr(ta.AssertedType) + ")"
		}
	}
	return shortPath(vpath(v))
}

func shortPath(s string) string {
	// drop pointer identities for stable keys
	out := []byte{}
	for i := 0; i < len(s); i++ {
		if s[i] == '@' && i+2 < len(s) && s[i+1] == '0' && s[i+2] == 'x' {
			j := i + 3
			for j < len(s) && ((s[j] >= '0' && s[j] <= '9') || (s[j] >= 'a' && s[j] <= 'f')) {
				j++
			}
			i = j - 1
			continue
		}
		out = append(out, s[i])
	}
	return string(out)
}

// c09Arm determines the arm ("skip"/"include") in which a leaf is contributed,
// whether it is negated, and whether it is a type-asserted boolean.
func c09Arm(lf phiLeaf) (arm string, neg bool, ok bool) {
	v := lf.val
	for {
		u, isU := v.(*ssa.UnOp)
		if !isU || u.Op != token.NOT {
			break
		}
		neg = !neg
		v = u.X
	}
	if ex, isE := v.(*ssa.Extract); isE {
		if ta, isT := ex.Tuple.(*ssa.TypeAssert); isT && ex.Index == 0 {
			if b, isB := ta.AssertedType.(*types.Basic); isB && b.Kind() == types.Bool {
				ok = true
			}
		}
	}
	var blk *ssa.BasicBlock
	if lf.pred != nil {
		blk = lf.pred
	} else if in, isI := lf.val.(ssa.Instruction); isI {
		blk = in.Block()
	}
	if blk == nil {
		return "", neg, ok
	}
	gs := blockGuards(blk)
	gs = append(gs, ifGuardsSelf(blk)...)
	for _, g := range gs {
		g = normGuard(g)
		if _, lit, eq, isS := strConstCmp(g.cond); isS && eq == g.val && (lit == "skip" || lit == "include") {
			return lit, neg, ok
		}
	}
	return "", neg, ok
}

func ifGuardsSelf(b *ssa.BasicBlock) []guard { return nil }

func c09Gate(c *Ctx, r *Report, w, ev *ssa.Function) {
	reach := c.resolverReaching()
	n := 0
	for _, ci := range callsIn(w) {
		cal := ci.Common().StaticCallee()
		if cal == nil || !reach[cal] || cal == ev {
			continue
		}
		// which selection does this dispatch resolve? an argument that is (a type assertion of) a Selection value
		var selArg ssa.Value
		for _, a := range ci.Common().Args {
			base := a
			if ex, ok := base.(*ssa.Extract); ok {
				if ta, ok := ex.Tuple.(*ssa.TypeAssert); ok {
					base = ta.X
				}
			} else if ta, ok := base.(*ssa.TypeAssert); ok {
				base = ta.X
			}
			if n, ok := base.Type().(*types.Named); ok && n.Obj().Name() == "Selection" {
				selArg = base
			}
		}
		key := fmt.Sprintf("%s: call %s", fnName(w), fnName(cal))
		if selArg == nil {
			// a resolver-reaching call that does not take a selection of this walker (e.g. recursion on a sub-slice) - not a dispatch
			continue
		}
		n++
		gated := false
		for _, g := range blockGuards(ci.Block()) {
			g = normGuard(g)
			ex, ok := g.cond.(*ssa.Extract)
			if !ok || ex.Index != 0 || g.val {
				continue
			}
			call, ok := ex.Tuple.(*ssa.Call)
			if !ok || call.Call.StaticCallee() != ev {
				continue
			}
			for _, a := range call.Call.Args {
				if sameVal(a, selArg) {
					gated = true
				}
			}
		}
		r.check("C09.GATE", key, ci.Pos(), gated, "dispatch is not dominated by the false branch of the directive evaluator's result for the same selection: an excluded selection would still be resolved")
	}
	r.floor("C09.GATE", "dispatch calls (field, inline fragment, fragment spread)", n, 3)
	c09Only(c, r, w, ev, reach)
	c09Attach(c, r)
	importRules(c, r, "C11", "C09.FROZEN", "resolution does not write into the selection sets, directive lists or fragments of the parsed request (the C11 effect summary restricted to those locations): a selection filtered out in place under one set of variable values is missing when the same parsed request is evaluated with other values",
		"C11.PURE~Sels", "C11.PURE~Dirs", "C11.PURE~DirectiveUse", "C11.PURE~FragRef", "C11.PURE~Fragment", "C11.PURE~all other summarised writes")
	c09Ctx(c, r)
	r.rule("C09.KEYORERR", "every path through the field resolver stores the field's response key or appends a constructed error before it returns")
	c09KeyOrError(c, r, c.anchors(), "C09.KEYORERR")
	c09DirKinds(c, r)
	c09FreshResult(c, r, c.anchors())
}

// c09Ctx: SetContextRecursive is the one documented way to touch a parsed request between parse and resolve.
// Its write summary (all functions it reaches) may contain Field.Context and nothing else of the request:
// a walk that rebuilds selection lists can drop the directives written on a selection.
func c09Ctx(c *Ctx, r *Report) {
	r.rule("C09.CTX", "the write summary of SetContextRecursive (Executable and SelBase) contains, of the request's locations, only Field.Context")
	var roots []*ssa.Function
	for _, n := range []string{"(*Executable).SetContextRecursive", "(*SelBase).SetContextRecursive"} {
		if fn := c.fn(n); fn != nil {
			roots = append(roots, fn)
		}
	}
	if len(roots) == 0 {
		r.undecided("C09.CTX", "anchors SetContextRecursive", token.NoPos, "not found")
		return
	}
	eng := newEffEngine(c)
	eng.run(roots...)
	n := 0
	seen := map[string]bool{}
	for _, root := range roots {
		s := eng.sums[root]
		if s == nil {
			continue
		}
		r.fnSeen(fnName(root))
		var keys []string
		for k := range s.effects {
			keys = append(keys, k)
		}
		sort.Strings(keys)
		bad := 0
		for _, k := range keys {
			ef := s.effects[k]
			if !writeKinds[ef.kind] {
				continue
			}
			n++
			inReq := ef.target.kind == rParam || (requestTypes[ef.owner] && !isFreshTarget(ef.target))
			if !inReq || (ef.owner == "Field" && ef.field == "Context") {
				continue
			}
			bad++
			key := fmt.Sprintf("%s: %s", fnName(ef.fn), ef.descr())
			if seen[key] {
				continue
			}
			seen[key] = true
			r.add("C09.CTX", key, ef.pos, Violated, "setting the context rewrites the request ("+ef.target.String()+"): a selection rebuilt here loses the @skip/@include written on the original, so an excluded fragment spread is resolved")
		}
		r.check("C09.CTX", fnName(root)+": writes only Field.Context into the request", root.Pos(), bad == 0, fmt.Sprintf("%d write(s) into other request locations", bad))
	}
	r.floor("C09.CTX", "write effects of SetContextRecursive examined", n, 1)
}

// c09Attach: the directives the evaluator sees for a selection are the ones written on that selection. A
// request node's directive list is assigned only from the directive reader's result; it is never
// extended with the directives of another node (e.g. when equal fields are merged at parse time).
func c09Attach(c *Ctx, r *Report) {
	r.rule("C09.ATTACH", "no store into the Dirs of a request node has a value derived from a load of another Dirs field: directive uses stay attached to the selection they were written on")
	n := 0
	for _, fn := range c.allFns {
		k := 0
		for _, b := range fn.Blocks {
			for _, in := range b.Instrs {
				st, ok := in.(*ssa.Store)
				if !ok {
					continue
				}
				fa, ok := st.Addr.(*ssa.FieldAddr)
				if !ok {
					continue
				}
				o, f := fieldOwner(fa.X.Type(), fa.Field)
				if f != "Dirs" || !requestTypes[o] {
					continue
				}
				n++
				k++
				from := ""
				seen := map[ssa.Value]bool{}
				var walk func(v ssa.Value, d int)
				walk = func(v ssa.Value, d int) {
					if d > 8 || seen[v] || from != "" {
						return
					}
					seen[v] = true
					switch t := v.(type) {
					case *ssa.Call:
						if isBuiltinCall(t, "append") {
							for _, a := range t.Call.Args {
								walk(a, d+1)
							}
						}
					case *ssa.Slice:
						walk(t.X, d+1)
					case *ssa.Phi:
						for _, e := range t.Edges {
							walk(e, d+1)
						}
					case *ssa.UnOp:
						if fa2, ok := t.X.(*ssa.FieldAddr); ok {
							if o2, f2 := fieldOwner(fa2.X.Type(), fa2.Field); f2 == "Dirs" && !sameVal(fa2.X, fa.X) {
								from = o2 + ".Dirs of another node"
							}
						}
					}
				}
				walk(st.Val, 0)
				r.check("C09.ATTACH", fmt.Sprintf("%s: directive list store #%d of a %s takes only that node's own directives", fnName(fn), k, o), st.Pos(), from == "",
					"the list is extended with "+from+": a @skip or @include written on one occurrence of a field then also decides for another occurrence that carries no directive")
			}
		}
	}
	r.floor("C09.ATTACH", "stores into directive lists of request nodes", n, 3)
}

// c09Only: the directive evaluator is the only reason for which the walker passes over a selection.
// In the walker's loop every path of an iteration on which the evaluator answered "not excluded" reaches
// one of the dispatch calls; the path on which every kind test of the selection fails is infeasible when
// the case types cover all implementers of Selection.
func c09Only(c *Ctx, r *Report, w, ev *ssa.Function, reach map[*ssa.Function]bool) {
	r.rule("C09.ONLY", "in the selection walker no iteration on which the directive evaluator answered false completes without a dispatch call: @skip/@include are the only way a selection is left out")
	loops := loopsOf(w)
	var evCall *ssa.Call
	for _, ci := range callsIn(w) {
		if call, ok := ci.(*ssa.Call); ok && call.Call.StaticCallee() == ev {
			evCall = call
		}
	}
	if evCall == nil {
		r.undecided("C09.ONLY", fnName(w)+": evaluator call", w.Pos(), "not found")
		return
	}
	l := innermostLoop(loops, evCall.Block())
	if l == nil {
		r.undecided("C09.ONLY", fnName(w)+": walker loop", evCall.Pos(), "the evaluator call is not inside a loop over the selections")
		return
	}
	dispatch := map[*ssa.BasicBlock]bool{}
	for _, ci := range callsIn(w) {
		cal := ci.Common().StaticCallee()
		if cal != nil && reach[cal] && cal != ev && l.body[ci.Block()] {
			dispatch[ci.Block()] = true
		}
	}
	impl := map[string]bool{}
	for _, t := range c.implementers("Selection") {
		impl[typeStr(t)] = true
	}
	skipV := extractOf(evCall, 0)
	var bad *ssa.BasicBlock
	var dfs func(b *ssa.BasicBlock, failed map[string]bool, seen map[*ssa.BasicBlock]bool) bool
	dfs = func(b *ssa.BasicBlock, failed map[string]bool, seen map[*ssa.BasicBlock]bool) bool {
		if !l.body[b] || dispatch[b] || seen[b] {
			return false
		}
		seen[b] = true
		defer delete(seen, b)
		for i, sc := range b.Succs {
			nf := failed
			if len(b.Instrs) > 0 {
				if ifi, ok := b.Instrs[len(b.Instrs)-1].(*ssa.If); ok && b.Succs[0] != b.Succs[1] {
					g := normGuard(guard{ifi.Cond, i == 0, ifi})
					// the excluded path
					if skipV != nil && g.cond == skipV && g.val {
						continue
					}
					if f, ok := assertFactOf(guard{ifi.Cond, i == 0, ifi}); ok && !f.holds {
						nf = map[string]bool{}
						for k := range failed {
							nf[k] = true
						}
						nf[typeStr(f.t)] = true
						all := len(impl) > 0
						for k := range impl {
							if !nf[k] {
								all = false
							}
						}
						if all {
							continue // no implementer left: infeasible
						}
					}
				}
			}
			if sc == l.head {
				bad = b
				return true
			}
			if dfs(sc, nf, seen) {
				return true
			}
		}
		return false
	}
	found := false
	for _, sc := range l.head.Succs {
		if l.body[sc] && sc != l.head && dfs(sc, map[string]bool{}, map[*ssa.BasicBlock]bool{}) {
			found = true
		}
	}
	detail := "a selection that the directives do not exclude can be passed over"
	pos := evCall.Pos()
	if bad != nil {
		detail += ": the iteration completes from " + c.pos(valPosInstr(bad)) + " without reaching a dispatch call, so its response keys are missing and its resolvers do not run although no @skip / @include says so"
		pos = valPosInstr(bad)
	}
	r.check("C09.ONLY", fnName(w)+": every selection that is not excluded is dispatched", pos, !found, detail)
}

func c09Vars(c *Ctx, r *Report, w, ev *ssa.Function) {
	// (a) walker passes its own vars parameter to the evaluator
	call := c.callTo(w, ev)
	var wVars *ssa.Parameter
	if call != nil {
		for _, a := range call.Common().Args {
			if p, ok := a.(*ssa.Parameter); ok {
				if m, ok := p.Type().Underlying().(*types.Map); ok && types.Identical(m.Key(), types.Typ[types.String]) {
					wVars = p
				}
			}
		}
	}
	okPass := wVars != nil
	if okPass {
		// the same parameter must be what every dispatch call receives as its variable map
		reach := c.resolverReaching()
		for _, ci := range callsIn(w) {
			cal := ci.Common().StaticCallee()
			if cal == nil || !reach[cal] || cal == ev {
				continue
			}
			has := false
			for _, a := range ci.Common().Args {
				if a == wVars {
					has = true
				}
			}
			if !has {
				okPass = false
			}
		}
	}
	r.check("C09.VARS", fnName(w)+": vars passed to directive evaluator", posOf(call), okPass, "the evaluator must receive the walker's variable-map parameter, the same one every dispatch call receives")
	// (b) evaluator reads variables only from its map parameter
	var evVars *ssa.Parameter
	for _, p := range ev.Params {
		if m, ok := p.Type().Underlying().(*types.Map); ok && types.Identical(m.Key(), types.Typ[types.String]) {
			evVars = p
		}
	}
	nLook := 0
	for _, b := range ev.Blocks {
		for _, in := range b.Instrs {
			if lk, ok := in.(*ssa.Lookup); ok {
				if m, ok := lk.X.Type().Underlying().(*types.Map); ok {
					if _, isIface := m.Elem().Underlying().(*types.Interface); isIface {
						nLook++
						r.check("C09.VARS", fmt.Sprintf("%s: variable lookup #%d", fnName(ev), nLook), lk.Pos(), lk.X == evVars, "variable conditions must be read from the evaluator's map parameter")
					}
				}
			}
		}
	}
	r.floor("C09.VARS", "variable lookups in the evaluator", nLook, 1)
	// (c) entry point passes the operation's map (a map made there, holding defaults), never its raw vars parameter
	entry := c.fn("(*Root).ResolveExecutable")
	if entry == nil {
		r.undecided("C09.VARS", "anchor ResolveExecutable", token.NoPos, "not found")
		return
	}
	r.fnSeen(fnName(entry))
	var rawVars *ssa.Parameter
	for _, p := range entry.Params {
		if m, ok := p.Type().Underlying().(*types.Map); ok && types.Identical(m.Key(), types.Typ[types.String]) {
			rawVars = p
		}
	}
	reach := c.resolverReaching()
	n := 0
	for _, ci := range callsIn(entry) {
		cal := ci.Common().StaticCallee()
		if cal == nil || !reach[cal] || !c.inPkg(cal) {
			continue
		}
		for _, a := range ci.Common().Args {
			m, ok := a.Type().Underlying().(*types.Map)
			if !ok || !types.Identical(m.Key(), types.Typ[types.String]) {
				continue
			}
			if _, isIface := m.Elem().Underlying().(*types.Interface); !isIface {
				continue
			}
			if _, isMake := a.(*ssa.MakeMap); isMake && a.Type() != nil {
				// result map, skip: distinguished below by the defaults store
			}
			leaves, _ := phiLeaves(a)
			isVarsArg := false
			raw := false
			hasDefaults := false
			// a map returned by the variable binder helper: look at what the helper returns
			var more []phiLeaf
			for _, lf := range leaves {
				if ex, ok := lf.val.(*ssa.Extract); ok {
					if call, ok := ex.Tuple.(*ssa.Call); ok {
						if bf, via := varBinder(c, entry); via == call {
							for _, rt := range returnsOf(bf) {
								if ex.Index < len(rt.Results) {
									ls, _ := phiLeaves(rt.Results[ex.Index])
									more = append(more, ls...)
								}
							}
						}
					}
				}
			}
			leaves = append(leaves, more...)
			for _, lf := range leaves {
				if lf.val == rawVars {
					raw = true
				}
				if mm, ok := lf.val.(*ssa.MakeMap); ok {
					for _, mu := range mapUpdatesOf(mm) {
						if _, _, f, ok := loadOfField(mu.Value); ok && f == "Default" {
							hasDefaults = true
							isVarsArg = true
						}
					}
				}
			}
			if raw {
				isVarsArg = true
			}
			if !isVarsArg {
				continue
			}
			n++
			r.check("C09.VARS", fmt.Sprintf("%s: variable map passed to %s #%d", fnName(entry), fnName(cal), n), ci.Pos(), hasDefaults && !raw, "the map handed to resolution must be the operation's map into which every declared variable's default was stored, not the caller's raw map")
		}
	}
	r.floor("C09.VARS", "resolution calls from the entry point receiving the operation's variable map", n, 1)
}

func posOf(ci ssa.CallInstruction) token.Pos {
	if ci == nil {
		return token.NoPos
	}
	return ci.Pos()
}

// c09KeyOrError: the "if" direction: a selection the directives do not exclude appears in the response. Once
// the walker has dispatched a field, the field resolver leaves a trace on every path: it stores the field's
// key into the response map, or it reports an error (an append to its error list). A return reached with
// neither drops a selected field silently - e.g. "nothing below it is selected, do not bother the resolver".
func c09KeyOrError(c *Ctx, r *Report, a *Anchors, rule string) {
	fn := a.field
	if fn == nil {
		r.undecided(rule, "anchor: field resolver", token.NoPos, "not found")
		return
	}
	r.fnSeen(fnName(fn))
	isEvent := func(in ssa.Instruction) bool {
		switch t := in.(type) {
		case *ssa.MapUpdate:
			_, isP := t.Map.(*ssa.Parameter)
			return isP && isStrIfaceMap(t.Map.Type())
		case *ssa.Call:
			if isBuiltinCall(t, "append") && isErrSlice(t.Type()) {
				// appending a (possibly empty) callee result does not count: only a single constructed error does
				if len(t.Call.Args) == 2 {
					if _, ok := sliceLitElems(t.Call.Args[1]); ok {
						return true
					}
				}
				return false
			}
			// the error adder appends the resolver's error
			if cal := t.Call.StaticCallee(); cal != nil && cal == a.addError {
				return true
			}
		case *ssa.Slice:
			// a list of constructed errors made to be returned: return []error{resWarnp(..)}, directly or through
			// the variable an inlined helper's result is kept in
			if isErrSlice(t.Type()) {
				if el, ok := sliceLitElems(t); ok && len(el) > 0 && t.Referrers() != nil {
					for _, ref := range *t.Referrers() {
						switch u := ref.(type) {
						case *ssa.Return:
							return true
						case *ssa.Phi:
							if u.Referrers() != nil {
								for _, r2 := range *u.Referrers() {
									if _, isRet := r2.(*ssa.Return); isRet {
										return true
									}
								}
							}
						}
					}
				}
			}
		}
		return false
	}
	n := 0
	var witness *ssa.Return
	// The search follows the control flow from the entry and stops at events. A boolean that is a phi of
	// constants (a "handled" flag set on some paths) is known on the path that set it: the branch that
	// tests it is followed on the matching side only.
	seen := map[string]bool{}
	var walk func(b, prev *ssa.BasicBlock, facts map[ssa.Value]bool)
	walk = func(b, prev *ssa.BasicBlock, facts map[ssa.Value]bool) {
		if witness != nil {
			return
		}
		if prev != nil {
			for _, in := range b.Instrs {
				phi, ok := in.(*ssa.Phi)
				if !ok {
					break
				}
				for i, pr := range b.Preds {
					if pr != prev {
						continue
					}
					v := phi.Edges[i]
					if k, ok := v.(*ssa.Const); ok && k.Value != nil && k.Value.Kind() == constant.Bool {
						nf := map[ssa.Value]bool{}
						for kk, vv := range facts {
							nf[kk] = vv
						}
						nf[phi] = constant.BoolVal(k.Value)
						facts = nf
					} else if bv, known := facts[v]; known {
						nf := map[ssa.Value]bool{}
						for kk, vv := range facts {
							nf[kk] = vv
						}
						nf[phi] = bv
						facts = nf
					} else if _, had := facts[phi]; had {
						nf := map[ssa.Value]bool{}
						for kk, vv := range facts {
							if kk != ssa.Value(phi) {
								nf[kk] = vv
							}
						}
						facts = nf
					}
				}
			}
		}
		var fk []string
		for k, v := range facts {
			fk = append(fk, fmt.Sprintf("%s=%v", k.Name(), v))
		}
		sort.Strings(fk)
		key := fmt.Sprintf("%d|%s", b.Index, strings.Join(fk, ","))
		if seen[key] {
			return
		}
		seen[key] = true
		for _, in := range b.Instrs {
			if isEvent(in) {
				return
			}
			if rt, ok := in.(*ssa.Return); ok {
				// returning a list of errors that was just tested to be non-empty is a report
				nonEmpty := hasGuard(b, func(g guard) bool {
					x, op, k, ok := intCmp(g.cond)
					if !ok {
						return false
					}
					inner, isLen := isLenOf(x)
					if !isLen || !isErrSlice(inner.Type()) {
						return false
					}
					if !g.val {
						op = negOp(op)
					}
					return (op == token.GTR && k == 0) || (op == token.GEQ && k == 1) || (op == token.NEQ && k == 0)
				})
				if !nonEmpty {
					witness = rt
				}
				return
			}
			if ifi, ok := in.(*ssa.If); ok {
				g := normGuard(guard{ifi.Cond, true, ifi})
				if bv, known := facts[g.cond]; known {
					// g.cond == bv; the true successor is taken when cond (as written) is true
					taken := 0
					if bv != g.val {
						taken = 1
					}
					walk(b.Succs[taken], b, facts)
					return
				}
			}
		}
		for _, s := range b.Succs {
			walk(s, b, facts)
		}
	}
	walk(fn.Blocks[0], nil, map[ssa.Value]bool{})
	for range returnsOf(fn) {
		n++
	}
	d, pos := "", fn.Pos()
	if witness != nil {
		pos = witness.Pos()
		d = "the return at " + c.pos(witness.Pos()) + " is reached without a key having been stored in the response map and without an error: a field that no directive excludes vanishes from the response"
	}
	r.check(rule, fnName(fn)+": every return follows a store of the field's key or a reported error", pos, witness == nil, d)
	r.floor(rule, "returns of the field resolver", n, 3)
}

// c09DirKinds: "on each of the three selection kinds": sibling agreement between the arms of every function
// that distinguishes the kinds of Selection by a type switch. If the arm of one kind looks at the directive
// uses of the selection (a load of SelBase.Dirs, a call of Directives()), the arms of the other kinds that
// function handles do so too. A walker that collects what the directives of fields refer to, and forgets the
// directives of inline fragments and spreads, treats a variable used only in `... @include(if: $v)` as unused.
func c09DirKinds(c *Ctx, r *Report) {
	r.rule("C09.DIRKINDS", "in every function that switches over the kinds of Selection, either every handled kind's arm reads the selection's directive uses or none does")
	kinds := map[string]bool{"Field": true, "Inline": true, "FragRef": true}
	n := 0
	for _, fn := range c.allFns {
		if !c.inPkg(fn) {
			continue
		}
		// arms: body blocks entered on the success edge of an assertion of a Selection-typed value to a kind
		type arm struct {
			kind  string
			body  *ssa.BasicBlock
			reads bool
		}
		var arms []*arm
		for _, b := range fn.Blocks {
			if len(b.Instrs) == 0 {
				continue
			}
			ifi, ok := b.Instrs[len(b.Instrs)-1].(*ssa.If)
			if !ok {
				continue
			}
			f, ok := assertFactOf(guard{ifi.Cond, true, ifi})
			if !ok || !f.holds || !c.isNamed(f.x.Type(), "Selection") {
				continue
			}
			k := derefNamed(f.t)
			if !kinds[k] {
				continue
			}
			arms = append(arms, &arm{kind: k, body: b.Succs[0]})
		}
		if len(arms) < 2 {
			continue
		}
		for _, a := range arms {
			for _, b := range fn.Blocks {
				if !(b == a.body || a.body.Dominates(b)) {
					continue
				}
				for _, in := range b.Instrs {
					switch t := in.(type) {
					case *ssa.FieldAddr:
						if _, f := fieldOwner(t.X.Type(), t.Field); f == "Dirs" {
							a.reads = true
						}
					case ssa.CallInstruction:
						if t.Common().IsInvoke() && t.Common().Method.Name() == "Directives" {
							a.reads = true
						}
					}
				}
			}
		}
		any, all := false, true
		for _, a := range arms {
			if a.reads {
				any = true
			} else {
				all = false
			}
		}
		n++
		r.fnSeen(fnName(fn))
		var lacking []string
		for _, a := range arms {
			if !a.reads {
				lacking = append(lacking, a.kind)
			}
		}
		sort.Strings(lacking)
		r.check("C09.DIRKINDS", fmt.Sprintf("%s: the arms for the kinds of selection agree on looking at directive uses", fnName(fn)), fn.Pos(), !any || all,
			"the arm(s) for "+strings.Join(lacking, ", ")+" do not look at the directive uses of the selection while another arm does: what the function derives from directives (variables used, conditions) is incomplete for those kinds, although @skip/@include apply to them alike")
	}
	r.floor("C09.DIRKINDS", "functions switching over the kinds of Selection", n, 2)
}

// c09FreshResult: which selections are in the response is decided by evaluating the directives with the
// variables of THIS call. The functions the type dispatcher hands a value to (and the dispatcher itself)
// return results they built during the call: no returned result is read out of state kept on the Root (a
// table of earlier results keyed by request text knows the text of `@include(if: $v)`, not the value of $v).
func c09FreshResult(c *Ctx, r *Report, a *Anchors) {
	r.rule("C09.FRESHRES", "no result returned by the type dispatcher or a function it calls is loaded from state of the Root")
	if a.dispatch == nil {
		r.undecided("C09.FRESHRES", "anchor: type dispatcher", token.NoPos, "not found")
		return
	}
	fns := []*ssa.Function{a.dispatch}
	seen := map[*ssa.Function]bool{a.dispatch: true}
	for _, ci := range callsIn(a.dispatch) {
		cal := ci.Common().StaticCallee()
		if cal == nil || !c.inPkg(cal) || seen[cal] || len(cal.Blocks) == 0 {
			continue
		}
		if res := cal.Signature.Results(); res.Len() == 0 || !isEmptyIface(res.At(0).Type()) {
			continue
		}
		seen[cal] = true
		fns = append(fns, cal)
	}
	n := 0
	for _, fn := range fns {
		if len(fn.Params) == 0 || !c.isNamed(fn.Params[0].Type(), "Root") {
			continue
		}
		recv := fn.Params[0]
		k := 0
		for _, rt := range returnsOf(fn) {
			if len(rt.Results) == 0 {
				continue
			}
			n++
			k++
			bad := ""
			leaves, _ := phiLeaves(resolveCell(rt.Results[0]))
			for _, lf := range leaves {
				v := lf.val
				for i := 0; i < 6; i++ {
					switch t := v.(type) {
					case *ssa.Extract:
						v = t.Tuple
						continue
					case *ssa.Lookup:
						v = t.X
						continue
					case *ssa.MakeInterface:
						v = t.X
						continue
					case *ssa.UnOp:
						if rootValueOfLoad(t.X) == ssa.Value(recv) {
							if _, o, f, ok := loadOfField(t); ok && o == "Root" {
								bad = "Root." + f
							}
						}
					}
					break
				}
			}
			r.check("C09.FRESHRES", fmt.Sprintf("%s: result #%d is built by this call", fnName(fn), k), rt.Pos(), bad == "",
				"the result is read from "+bad+", kept from an earlier call: what was excluded or included then (for other variable values) is answered again")
		}
	}
	r.floor("C09.FRESHRES", "returns of the dispatcher and the functions it hands values to", n, 5)
}
