package main

import (
	"go/token"
	"go/types"

	"golang.org/x/tools/go/ssa"
)

// Byte provenance of a []byte handed to Write in the value writer: which kinds of content can the slice
// hold. The value writer may emit layout (constant bytes, repeated spaces), the output of a numeric or time
// formatter, and - in SDL mode only - a name as it is. Everything else that is not the escaping writer
// (strconv.Quote / AppendQuote and fmt %q produce Go syntax, not JSON) breaks the "always valid JSON"
// clause for some string.

type byteSrcKind int

const (
	bsLayout byteSrcKind = iota
	bsNumFmt
	bsRawStr  // bytes of a non-constant string, unescaped
	bsUnknown // a producer the rule does not know
)

type byteSrc struct {
	kind byteSrcKind
	desc string
	at   ssa.Instruction // where the content enters the slice
}

var numericFormatters = map[string]bool{
	"strconv.FormatInt": true, "strconv.FormatUint": true, "strconv.FormatFloat": true, "strconv.Itoa": true, "strconv.FormatBool": true,
	"strconv.AppendInt": true, "strconv.AppendUint": true, "strconv.AppendFloat": true, "strconv.AppendBool": true,
	"time.Format": true, "time.AppendFormat": true,
}

type byteProv struct {
	c    *Ctx
	seen map[ssa.Value]bool
	out  []byteSrc
}

func byteSources(c *Ctx, v ssa.Value) []byteSrc {
	p := &byteProv{c: c, seen: map[ssa.Value]bool{}}
	p.walk(v, nil, 0)
	return p.out
}

func (p *byteProv) add(k byteSrcKind, desc string, at ssa.Instruction) {
	p.out = append(p.out, byteSrc{k, desc, at})
}

func instrOf(v ssa.Value) ssa.Instruction {
	in, _ := v.(ssa.Instruction)
	return in
}

func (p *byteProv) walk(v ssa.Value, at ssa.Instruction, depth int) {
	if v == nil || p.seen[v] {
		return
	}
	p.seen[v] = true
	if depth > 6 {
		p.add(bsUnknown, "call depth", at)
		return
	}
	if in := instrOf(v); in != nil && at == nil {
		at = in
	}
	switch t := v.(type) {
	case *ssa.Const:
		return // nil slice or constant string
	case *ssa.Phi:
		for _, e := range t.Edges {
			p.walk(e, nil, depth)
		}
	case *ssa.Slice:
		if elems, ok := sliceLitElems(t); ok {
			for _, e := range elems {
				if _, isC := e.(*ssa.Const); !isC {
					p.byteVal(e, t)
				}
			}
			return
		}
		p.walk(t.X, nil, depth)
	case *ssa.Convert:
		// []byte(string)
		if bt, ok := t.X.Type().Underlying().(*types.Basic); ok && bt.Info()&types.IsString != 0 {
			p.str(t.X, t)
			return
		}
		p.walk(t.X, nil, depth)
	case *ssa.ChangeType:
		p.walk(t.X, nil, depth)
	case *ssa.MakeSlice:
		return // zero bytes; stores into it are not followed (none in the writer)
	case *ssa.UnOp:
		if t.Op != token.MUL {
			p.add(bsUnknown, shortPath(vpath(v)), t)
			return
		}
		// a package-level table: what its initialiser (and any other store in the package) puts there
		if g, ok := t.X.(*ssa.Global); ok {
			n := 0
			var fns []*ssa.Function
			fns = append(fns, p.c.allFns...)
			if g.Pkg != nil {
				if fi := g.Pkg.Func("init"); fi != nil {
					fns = append(fns, fi)
				}
			}
			seenSt := map[*ssa.Store]bool{}
			for _, fn := range fns {
				for _, b := range fn.Blocks {
					for _, in := range b.Instrs {
						if st, ok := in.(*ssa.Store); ok && st.Addr == ssa.Value(g) && !seenSt[st] {
							seenSt[st] = true
							n++
							p.walk(st.Val, nil, depth+1)
						}
					}
				}
			}
			if n == 0 {
				p.add(bsUnknown, "global:"+g.Name(), t)
			}
			return
		}
		// load of a local cell (possibly captured by a closure): every store to the cell
		cell := cellRoot(t.X)
		if cell == nil {
			p.add(bsUnknown, shortPath(vpath(v)), t)
			return
		}
		for _, st := range cellStores(cell) {
			p.walk(st.Val, nil, depth)
		}
	case *ssa.Call:
		cm := t.Common()
		if b, ok := cm.Value.(*ssa.Builtin); ok {
			if b.Name() == "append" && len(cm.Args) == 2 {
				p.walk(cm.Args[0], nil, depth)
				if bt, ok := cm.Args[1].Type().Underlying().(*types.Basic); ok && bt.Info()&types.IsString != 0 {
					p.str(cm.Args[1], t)
				} else {
					p.walk(cm.Args[1], nil, depth)
				}
				return
			}
			p.add(bsUnknown, b.Name(), t)
			return
		}
		f := calleeObj(t)
		if f == nil || f.Pkg() == nil {
			p.add(bsUnknown, "dynamic call", t)
			return
		}
		name := f.Pkg().Path() + "." + f.Name()
		switch {
		case numericFormatters[name]:
			p.add(bsNumFmt, name, t)
			// Append* formatters extend their first argument
			if len(cm.Args) > 0 {
				if _, isSl := cm.Args[0].Type().Underlying().(*types.Slice); isSl {
					p.walk(cm.Args[0], nil, depth)
				}
			}
		case name == "bytes.Repeat" && len(cm.Args) == 2:
			p.walk(cm.Args[0], nil, depth)
		default:
			cal := cm.StaticCallee()
			if cal != nil && p.c.inPkg(cal) && len(cal.Blocks) > 0 {
				for _, rt := range returnsOf(cal) {
					for _, res := range rt.Results {
						if _, isSl := res.Type().Underlying().(*types.Slice); isSl {
							p.walk(res, nil, depth+1)
						}
					}
				}
				return
			}
			p.add(bsUnknown, name, t)
		}
	case *ssa.Parameter:
		p.add(bsUnknown, "parameter "+t.Name(), nil)
	default:
		p.add(bsUnknown, shortPath(vpath(v)), instrOf(v))
	}
}

// str: content of a string that becomes bytes.
func (p *byteProv) str(s ssa.Value, at ssa.Instruction) {
	switch t := s.(type) {
	case *ssa.Const:
		return
	case *ssa.Call:
		if f := calleeObj(t); f != nil && f.Pkg() != nil {
			name := f.Pkg().Path() + "." + f.Name()
			if numericFormatters[name] {
				p.add(bsNumFmt, name, at)
				return
			}
			p.add(bsUnknown, name, at)
			return
		}
	case *ssa.Phi:
		for _, e := range t.Edges {
			p.str(e, at)
		}
		return
	case *ssa.BinOp:
		if t.Op == token.ADD {
			p.str(t.X, at)
			p.str(t.Y, at)
			return
		}
	}
	p.add(bsRawStr, shortPath(vpath(s)), at)
}

// byteVal: one non-constant byte stored in a literal.
func (p *byteProv) byteVal(b ssa.Value, at ssa.Instruction) {
	p.add(bsUnknown, "byte "+shortPath(vpath(b)), at)
}

// cellRoot: the Alloc behind an address that is the Alloc itself or a closure's free variable bound to it.
func cellRoot(addr ssa.Value) *ssa.Alloc {
	switch t := addr.(type) {
	case *ssa.Alloc:
		return t
	case *ssa.FreeVar:
		fn := t.Parent()
		idx := -1
		for i, fv := range fn.FreeVars {
			if fv == t {
				idx = i
			}
		}
		if idx < 0 || fn.Parent() == nil {
			return nil
		}
		for _, b := range fn.Parent().Blocks {
			for _, in := range b.Instrs {
				if mc, ok := in.(*ssa.MakeClosure); ok && mc.Fn == fn && idx < len(mc.Bindings) {
					return cellRoot(mc.Bindings[idx])
				}
			}
		}
	}
	return nil
}

// cellStores: every store to the cell, in the allocating function and in the closures that capture it.
func cellStores(cell *ssa.Alloc) []*ssa.Store {
	var out []*ssa.Store
	var scan func(fn *ssa.Function, addr ssa.Value)
	scan = func(fn *ssa.Function, addr ssa.Value) {
		for _, b := range fn.Blocks {
			for _, in := range b.Instrs {
				switch t := in.(type) {
				case *ssa.Store:
					if t.Addr == addr {
						out = append(out, t)
					}
				case *ssa.MakeClosure:
					for i, bd := range t.Bindings {
						if bd == addr {
							if cf, ok := t.Fn.(*ssa.Function); ok && i < len(cf.FreeVars) {
								scan(cf, cf.FreeVars[i])
							}
						}
					}
				}
			}
		}
	}
	scan(cell.Parent(), cell)
	return out
}
