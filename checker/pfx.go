package main

// Prefix typestate (used by C06): tracks, along every CFG path of a function,
// how many times each error source has been given a path prefix of each kind
// (response key, list index, argument name, other) by Errors.in / (*Error).in.

import (
	"fmt"
	"go/token"
	"go/types"
	"sort"

	"golang.org/x/tools/go/ssa"
)

type pfxKind int

const (
	kKey pfxKind = iota
	kIndex
	kArg
	kOther
	nKinds
)

var kindName = [...]string{"key", "index", "argument-name", "other"}

type pfxSrc struct {
	site  ssa.Value // call (or parameter) producing the errors
	desc  string
	keyed bool // created with the field's key already in its path
	block *ssa.BasicBlock
}

type cnt [nKinds]uint8 // per kind: bitmask {1:zero, 2:one, 4:two-or-more}

type pfxState map[*pfxSrc]cnt

func (s pfxState) clone() pfxState {
	o := pfxState{}
	for k, v := range s {
		o[k] = v
	}
	return o
}

func joinState(a, b pfxState) (pfxState, bool) {
	changed := false
	for k, v := range b {
		if av, ok := a[k]; ok {
			nv := av
			for i := range nv {
				nv[i] |= v[i]
			}
			if nv != av {
				a[k] = nv
				changed = true
			}
		} else {
			a[k] = v
			changed = true
		}
	}
	return a, changed
}

func shift(m uint8) uint8 {
	var o uint8
	if m&1 != 0 {
		o |= 2
	}
	if m&2 != 0 {
		o |= 4
	}
	if m&4 != 0 {
		o |= 4
	}
	return o
}

type pfxCall struct {
	call ssa.CallInstruction
	recv ssa.Value
	kind pfxKind
	arg  ssa.Value // the location value (unwrapped from MakeInterface)
}

type pfxEngine struct {
	c       *Ctx
	fn      *ssa.Function
	srcs    map[ssa.Value]*pfxSrc
	order   []*pfxSrc
	prefix  map[ssa.Instruction]*pfxCall
	memo    map[ssa.Value]map[*pfxSrc]bool
	loops   []*loopInfo
	in      map[*ssa.BasicBlock]pfxState
	edgeHk  func(pred, succ *ssa.BasicBlock, st pfxState)
	retired map[*pfxSrc]bool
	inEdge  map[*ssa.BasicBlock]map[*ssa.BasicBlock]pfxState // per incoming edge, for blocks that test a flag phi
}

func isErrish(t types.Type) bool {
	if isErrorType(t) || isErrSlice(t) {
		return true
	}
	if n, ok := t.(*types.Named); ok && n.Obj().Name() == "Errors" {
		return true
	}
	if p, ok := t.(*types.Pointer); ok {
		if n, ok := p.Elem().(*types.Named); ok && n.Obj().Name() == "Error" {
			return true
		}
	}
	return false
}

func newPfxEngine(c *Ctx, fn *ssa.Function) *pfxEngine {
	e := &pfxEngine{c: c, fn: fn, srcs: map[ssa.Value]*pfxSrc{}, prefix: map[ssa.Instruction]*pfxCall{}, memo: map[ssa.Value]map[*pfxSrc]bool{}, retired: map[*pfxSrc]bool{}}
	e.loops = loopsOf(fn)
	ord := map[string]int{}
	for _, p := range fn.Params {
		if isErrish(p.Type()) {
			s := &pfxSrc{site: p, desc: "parameter " + p.Name()}
			e.srcs[p] = s
			e.order = append(e.order, s)
		}
	}
	for _, b := range fn.Blocks {
		for _, in := range b.Instrs {
			call, ok := in.(*ssa.Call)
			if !ok {
				continue
			}
			if _, isB := call.Call.Value.(*ssa.Builtin); isB {
				continue
			}
			f := calleeObj(call)
			// prefix call?
			if f != nil && f.Name() == "in" && f.Pkg() == c.P.Types && (recvTypeName(f) == "Errors" || recvTypeName(f) == "Error") {
				pc := &pfxCall{call: call, recv: callRecv(call)}
				args := explicitArgs(call)
				if len(args) == 1 {
					pc.arg = stripIface(args[0])
					pc.kind = e.classify(pc.arg)
				} else {
					pc.kind = kOther
				}
				e.prefix[call] = pc
				continue
			}
			produces := false
			res := call.Type()
			if tup, ok := res.(*types.Tuple); ok {
				for i := 0; i < tup.Len(); i++ {
					if isErrish(tup.At(i).Type()) {
						produces = true
					}
				}
			} else if isErrish(res) {
				produces = true
			}
			if !produces {
				continue
			}
			name := "call"
			if f != nil {
				name = f.Name()
				if rt := recvTypeName(f); rt != "" {
					name = rt + "." + name
				}
			}
			ord[name]++
			s := &pfxSrc{site: call, desc: fmt.Sprintf("%s#%d", name, ord[name]), block: b}
			// keyed at creation: resWarnp-like constructor given a *Field
			if f != nil && c.keyedConstructor(call) {
				s.keyed = true
			}
			e.srcs[call] = s
			e.order = append(e.order, s)
		}
	}
	return e
}

// keyedConstructor: the callee builds an *Error whose Path starts with the key
// of its first argument when that is a *Field, and the argument is a *Field here.
func (c *Ctx) keyedConstructor(call *ssa.Call) bool {
	cal := call.Call.StaticCallee()
	if cal == nil || !c.inPkg(cal) || len(call.Call.Args) == 0 {
		return false
	}
	// callee must type-assert param 0 to *Field and call key() on it
	p0 := cal.Params
	if len(p0) == 0 {
		return false
	}
	callsKey := false
	for _, ci := range callsIn(cal) {
		if isMethodCall(ci, ggqlPath, "Field", "key") {
			if r := callRecv(ci); r != nil {
				if ex, ok := r.(*ssa.Extract); ok {
					if ta, ok := ex.Tuple.(*ssa.TypeAssert); ok && ta.X == p0[0] {
						callsKey = true
					}
				}
			}
		}
	}
	if !callsKey {
		return false
	}
	a0 := stripIface(call.Call.Args[0])
	return c.isNamed(a0.Type(), "Field")
}

func (e *pfxEngine) classify(arg ssa.Value) pfxKind {
	if call, ok := arg.(*ssa.Call); ok {
		if isMethodCall(call, ggqlPath, "Field", "key") {
			return kKey
		}
		return kOther
	}
	if b, ok := arg.Type().Underlying().(*types.Basic); ok {
		if b.Info()&types.IsInteger != 0 {
			if _, isC := arg.(*ssa.Const); !isC {
				return kIndex
			}
			return kOther
		}
		if b.Kind() == types.String {
			if _, o, f, ok := loadOfField(arg); ok && o == "ArgValue" && f == "Arg" {
				return kArg
			}
			if _, isP := arg.(*ssa.Parameter); isP {
				return kArg // inErr(err, k): the key is supplied by the caller
			}
			if _, isE := arg.(*ssa.Extract); isE {
				return kArg // range key of a map of fields
			}
		}
	}
	return kOther
}

func (e *pfxEngine) sourcesOf(v ssa.Value) map[*pfxSrc]bool {
	if m, ok := e.memo[v]; ok {
		return m
	}
	out := map[*pfxSrc]bool{}
	e.memo[v] = out // cycle guard
	add := func(m map[*pfxSrc]bool) {
		for k := range m {
			out[k] = true
		}
	}
	if s, ok := e.srcs[v]; ok {
		out[s] = true
		// pass-through: an in-package callee that returns (a slice built from) its error
		// parameter hands the caller's earlier errors back
		if call, isCall := v.(*ssa.Call); isCall {
			if cal := call.Call.StaticCallee(); cal != nil && e.c.inPkg(cal) {
				for _, i := range e.c.errPassThrough(cal) {
					if i < len(call.Call.Args) {
						add(e.sourcesOf(call.Call.Args[i]))
					}
				}
			}
		}
		return out
	}
	switch t := v.(type) {
	case *ssa.Extract:
		add(e.sourcesOf(t.Tuple))
	case *ssa.Phi:
		for _, x := range t.Edges {
			add(e.sourcesOf(x))
		}
	case *ssa.ChangeType:
		add(e.sourcesOf(t.X))
	case *ssa.Convert:
		add(e.sourcesOf(t.X))
	case *ssa.MakeInterface:
		add(e.sourcesOf(t.X))
	case *ssa.ChangeInterface:
		add(e.sourcesOf(t.X))
	case *ssa.TypeAssert:
		add(e.sourcesOf(t.X))
	case *ssa.Slice:
		add(e.sourcesOf(t.X))
	case *ssa.Call:
		if b, ok := t.Call.Value.(*ssa.Builtin); ok && b.Name() == "append" {
			for _, a := range t.Call.Args {
				add(e.sourcesOf(a))
			}
		}
	case *ssa.Alloc:
		// everything stored into it (directly, into its elements, or through errors.As)
		for _, ref := range *t.Referrers() {
			switch r := ref.(type) {
			case *ssa.Store:
				if r.Addr == t {
					add(e.sourcesOf(r.Val))
				}
			case *ssa.IndexAddr:
				for _, rr := range *r.Referrers() {
					if st, ok := rr.(*ssa.Store); ok && st.Addr == r {
						add(e.sourcesOf(st.Val))
					}
				}
			case *ssa.MakeInterface:
				// errors.As(x, &alloc)
				for _, rr := range *r.Referrers() {
					if call, ok := rr.(*ssa.Call); ok && isFuncCall(call, "errors", "As") && len(call.Call.Args) == 2 {
						add(e.sourcesOf(call.Call.Args[0]))
					}
				}
			}
		}
	case *ssa.UnOp:
		if t.Op == token.MUL {
			add(e.sourcesOf(t.X))
		}
	}
	return out
}

// run performs the forward dataflow. atReturn/atBackEdge are invoked with the
// state reaching each return / back edge; atBackEdge may delete (retire) sources.
func (e *pfxEngine) run(atReturn func(ret *ssa.Return, st pfxState), atBackEdge func(l *loopInfo, latch *ssa.BasicBlock, st pfxState)) {
	if len(e.fn.Blocks) == 0 {
		return
	}
	e.in = map[*ssa.BasicBlock]pfxState{}
	e.inEdge = map[*ssa.BasicBlock]map[*ssa.BasicBlock]pfxState{}
	entry := e.fn.Blocks[0]
	init := pfxState{}
	for _, s := range e.order {
		if _, isP := s.site.(*ssa.Parameter); isP {
			init[s] = freshCnt(false)
		}
	}
	e.in[entry] = init
	work := []*ssa.BasicBlock{entry}
	inWork := map[*ssa.BasicBlock]bool{entry: true}
	iter := 0
	for len(work) > 0 && iter < 20000 {
		iter++
		b := work[0]
		work = work[1:]
		inWork[b] = false
		transfer := func(st pfxState) pfxState {
			for _, in := range b.Instrs {
				switch t := in.(type) {
				case *ssa.Call:
					if pc, ok := e.prefix[t]; ok {
						for s := range e.sourcesOf(pc.recv) {
							if c, ok := st[s]; ok {
								c[pc.kind] = shift(c[pc.kind])
								st[s] = c
							}
						}
					} else if s, ok := e.srcs[t]; ok {
						st[s] = freshCnt(s.keyed)
					}
				}
			}
			return st
		}
		st := transfer(e.in[b].clone())
		for si, succ := range b.Succs {
			if !e.edgeFeasible(b, succ) {
				continue
			}
			out := st.clone()
			// the block tests a flag that its predecessors set to a constant (a result pair taken apart again):
			// what came in with the other constant does not leave through this edge
			if th := e.threaded(b, si); th != nil {
				out = transfer(th)
			}
			e.emptyOnEdge(b, succ, out)
			if e.edgeHk != nil {
				e.edgeHk(b, succ, out)
			}
			if succ.Dominates(b) {
				// back edge
				for _, l := range e.loops {
					if l.head == succ {
						// retire in-loop sources
						for s := range out {
							if s.block != nil && l.body[s.block] {
								delete(out, s)
							}
						}
					}
				}
			}
			if e.inEdge[succ] == nil {
				e.inEdge[succ] = map[*ssa.BasicBlock]pfxState{}
			}
			chEdge := false
			if prev, ok := e.inEdge[succ][b]; ok {
				_, chEdge = joinState(prev, out.clone())
			} else {
				e.inEdge[succ][b] = out.clone()
				chEdge = true
			}
			if chEdge && !inWork[succ] {
				if _, seen := e.in[succ]; seen {
					work = append(work, succ)
					inWork[succ] = true
				}
			}
			cur, ok := e.in[succ]
			if !ok {
				e.in[succ] = out
				if !inWork[succ] {
					work = append(work, succ)
					inWork[succ] = true
				}
				continue
			}
			if _, ch := joinState(cur, out); ch {
				if !inWork[succ] {
					work = append(work, succ)
					inWork[succ] = true
				}
			}
		}
	}
	// fixpoint reached: report at returns and back edges using the final states
	for _, b := range e.fn.Blocks {
		base, ok := e.in[b]
		if !ok {
			continue
		}
		st := base.clone()
		for _, in := range b.Instrs {
			switch t := in.(type) {
			case *ssa.Call:
				if pc, ok := e.prefix[t]; ok {
					for s := range e.sourcesOf(pc.recv) {
						if c, ok := st[s]; ok {
							c[pc.kind] = shift(c[pc.kind])
							st[s] = c
						}
					}
				} else if s, ok := e.srcs[t]; ok {
					st[s] = freshCnt(s.keyed)
				}
			case *ssa.Return:
				if atReturn != nil {
					atReturn(t, st)
				}
			}
		}
		for _, succ := range b.Succs {
			if succ.Dominates(b) && atBackEdge != nil && e.edgeFeasible(b, succ) {
				out := st.clone()
				e.emptyOnEdge(b, succ, out)
				if e.edgeHk != nil {
					e.edgeHk(b, succ, out)
				}
				for _, l := range e.loops {
					if l.head == succ {
						atBackEdge(l, b, out)
					}
				}
			}
		}
	}
}

func freshCnt(keyed bool) cnt {
	var c cnt
	for i := range c {
		c[i] = 1
	}
	if keyed {
		c[kKey] = 2
	}
	return c
}

func cntStr(m uint8) string {
	s := ""
	if m&1 != 0 {
		s += "0"
	}
	if m&2 != 0 {
		if s != "" {
			s += "|"
		}
		s += "1"
	}
	if m&4 != 0 {
		if s != "" {
			s += "|"
		}
		s += "2+"
	}
	return "{" + s + "}"
}

func (e *pfxEngine) sortedSrcs(st pfxState) []*pfxSrc {
	var out []*pfxSrc
	for s := range st {
		out = append(out, s)
	}
	sort.Slice(out, func(i, j int) bool { return out[i].desc < out[j].desc })
	return out
}

// topLevelExempt: edge hook for the field resolver. On the false edge of
// `depth < MaxResolveDepth` the field is the synthetic top-level field whose key
// is by design not part of any path; the key prefix counts as applied.
func topLevelExemptHook(pred, succ *ssa.BasicBlock, st pfxState) {
	if len(pred.Instrs) == 0 {
		return
	}
	ifi, ok := pred.Instrs[len(pred.Instrs)-1].(*ssa.If)
	if !ok {
		return
	}
	b, ok := ifi.Cond.(*ssa.BinOp)
	if !ok {
		return
	}
	isMax := func(v ssa.Value) bool {
		u, ok := v.(*ssa.UnOp)
		if !ok || u.Op != token.MUL {
			return false
		}
		g, ok := u.X.(*ssa.Global)
		return ok && g.Name() == "MaxResolveDepth"
	}
	isDepth := func(v ssa.Value) bool {
		p, ok := v.(*ssa.Parameter)
		if !ok {
			return false
		}
		bt, ok := p.Type().Underlying().(*types.Basic)
		return ok && bt.Kind() == types.Int
	}
	var topEdge int = -1
	switch {
	case b.Op == token.LSS && isDepth(b.X) && isMax(b.Y): // depth < Max: false edge is top level
		topEdge = 1
	case b.Op == token.GTR && isMax(b.X) && isDepth(b.Y):
		topEdge = 1
	case b.Op == token.GEQ && isDepth(b.X) && isMax(b.Y): // depth >= Max: true edge is top level
		topEdge = 0
	case b.Op == token.LEQ && isMax(b.X) && isDepth(b.Y):
		topEdge = 0
	}
	if topEdge < 0 || pred.Succs[topEdge] != succ {
		return
	}
	for s, c := range st {
		c[kKey] = shift(c[kKey])
		st[s] = c
	}
}

// errPassThrough lists the parameter indexes (incl. receiver) of error-ish type
// whose contents flow into a result of fn.
func (c *Ctx) errPassThrough(fn *ssa.Function) []int {
	if v, ok := c.passThroughMemo[fn]; ok {
		return v
	}
	c.passThroughMemo[fn] = nil
	e := newPfxEngine(c, fn)
	hit := map[int]bool{}
	for _, b := range fn.Blocks {
		for _, in := range b.Instrs {
			if rt, ok := in.(*ssa.Return); ok {
				for _, res := range rt.Results {
					if !isErrish(res.Type()) {
						continue
					}
					for s := range e.sourcesOf(res) {
						if p, ok := s.site.(*ssa.Parameter); ok {
							for i, fp := range fn.Params {
								if fp == p {
									hit[i] = true
								}
							}
						}
					}
				}
			}
		}
	}
	var out []int
	for i := range hit {
		out = append(out, i)
	}
	sort.Ints(out)
	c.passThroughMemo[fn] = out
	return out
}

// emptyOnEdge: on an edge that implies len(X) == 0 the sources of X hold no errors.
func (e *pfxEngine) emptyOnEdge(pred, succ *ssa.BasicBlock, st pfxState) {
	if len(pred.Instrs) == 0 {
		return
	}
	ifi, ok := pred.Instrs[len(pred.Instrs)-1].(*ssa.If)
	if !ok || pred.Succs[0] == pred.Succs[1] {
		return
	}
	taken := pred.Succs[0] == succ
	g := normGuard(guard{ifi.Cond, taken, ifi})
	v, op, k, ok := intCmp(g.cond)
	if !ok {
		return
	}
	x, isLen := isLenOf(v)
	if !isLen || !isErrish(x.Type()) {
		return
	}
	if !g.val {
		op = negOp(op)
	}
	empty := (op == token.EQL && k == 0) || (op == token.LEQ && k == 0) || (op == token.LSS && k == 1)
	if !empty {
		return
	}
	for s := range e.sourcesOf(x) {
		delete(st, s)
	}
}

// edgeFeasible prunes the false edge of errors.As(x, &t) when x is always a *Error
// built by an in-package constructor and t is a **Error.
func (e *pfxEngine) edgeFeasible(pred, succ *ssa.BasicBlock) bool {
	if len(pred.Instrs) == 0 {
		return true
	}
	ifi, ok := pred.Instrs[len(pred.Instrs)-1].(*ssa.If)
	if !ok || pred.Succs[0] == pred.Succs[1] {
		return true
	}
	g := normGuard(guard{ifi.Cond, pred.Succs[0] == succ, ifi})
	call, ok := g.cond.(*ssa.Call)
	if !ok || !isFuncCall(call, "errors", "As") || len(call.Call.Args) != 2 {
		return true
	}
	if g.val {
		return true
	}
	// target must be **Error
	tgt := stripIface(call.Call.Args[1])
	pt, ok := tgt.Type().(*types.Pointer)
	if !ok || !e.c.isNamed(pt.Elem(), "Error") {
		return true
	}
	if _, isPtr := pt.Elem().(*types.Pointer); !isPtr {
		return true
	}
	srcs := e.sourcesOf(call.Call.Args[0])
	if len(srcs) == 0 {
		return true
	}
	for s := range srcs {
		sc, ok := s.site.(*ssa.Call)
		if !ok {
			return true
		}
		cal := sc.Call.StaticCallee()
		if cal == nil || !e.c.alwaysStarError(cal) {
			return true
		}
	}
	return false
}

// alwaysStarError: every error result returned by fn is a non-nil *Error.
func (c *Ctx) alwaysStarError(fn *ssa.Function) bool {
	if v, ok := c.starErrMemo[fn]; ok {
		return v == 1
	}
	c.starErrMemo[fn] = 0
	if !c.inPkg(fn) || len(fn.Blocks) == 0 {
		return false
	}
	okAll := true
	n := 0
	for _, b := range fn.Blocks {
		for _, in := range b.Instrs {
			rt, ok := in.(*ssa.Return)
			if !ok {
				continue
			}
			for _, res := range rt.Results {
				if !isErrorType(res.Type()) {
					continue
				}
				n++
				mi, ok := res.(*ssa.MakeInterface)
				if !ok {
					okAll = false
					continue
				}
				pt, ok := mi.X.Type().(*types.Pointer)
				if !ok || !c.isNamed(pt.Elem(), "Error") {
					okAll = false
					continue
				}
				if _, isAlloc := mi.X.(*ssa.Alloc); !isAlloc && !c.freshStarError(mi.X, 0) {
					okAll = false
				}
			}
		}
	}
	if okAll && n > 0 {
		c.starErrMemo[fn] = 1
		return true
	}
	return false
}

// freshStarError: the *Error value is made on the spot - the address of a composite literal, or the result of a
// function of the package every return of which is one (a builder shared by the constructors).
func (c *Ctx) freshStarError(v ssa.Value, depth int) bool {
	if depth > 3 {
		return false
	}
	switch t := v.(type) {
	case *ssa.Alloc:
		return true
	case *ssa.Call:
		cal := t.Call.StaticCallee()
		if cal == nil || !c.inPkg(cal) || len(cal.Blocks) == 0 {
			return false
		}
		n := 0
		for _, b := range cal.Blocks {
			for _, in := range b.Instrs {
				if rt, ok := in.(*ssa.Return); ok {
					if len(rt.Results) != 1 || !c.freshStarError(rt.Results[0], depth+1) {
						return false
					}
					n++
				}
			}
		}
		return n > 0
	}
	return false
}

// threaded: block b ends in a test of a boolean phi of its own that is a constant on some incoming edges. For the
// successor si the state is the join of what came in through the edges that agree with that outcome; nil when
// b is not of that shape.
func (e *pfxEngine) threaded(b *ssa.BasicBlock, si int) pfxState {
	if len(b.Instrs) == 0 || len(b.Succs) != 2 || b.Succs[0] == b.Succs[1] {
		return nil
	}
	ifi, ok := b.Instrs[len(b.Instrs)-1].(*ssa.If)
	if !ok {
		return nil
	}
	g := normGuard(guard{ifi.Cond, si == 0, ifi})
	p, ok := g.cond.(*ssa.Phi)
	if !ok || p.Block() != b {
		return nil
	}
	any := false
	var st pfxState
	for i, pred := range b.Preds {
		if k, ok := p.Edges[i].(*ssa.Const); ok && k.Value != nil {
			any = true
			if (k.Value.String() == "true") != g.val {
				continue
			}
		}
		in, ok := e.inEdge[b][pred]
		if !ok {
			continue
		}
		if st == nil {
			st = in.clone()
		} else {
			joinState(st, in.clone())
		}
	}
	if !any {
		return nil
	}
	if st == nil {
		st = pfxState{}
	}
	return st
}
