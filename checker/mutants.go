package main

// Positive controls: seeded single-edit mutants of /repo's sources (must make
// the named rule fire) and benign variants (must stay silent). They are applied
// through the loader's Overlay; /repo is never written. Results are evidence
// about the checker; they never produce a VIOLATION line. A mutant whose anchor
// text no longer exists in /repo is recorded anchor-missing, never failed.

import (
	"encoding/json"
	"fmt"
	"os"
	"path/filepath"
	"sort"
	"strings"
	"sync"
)

type Edit struct {
	File string `json:"file"`
	Old  string `json:"old"`
	New  string `json:"new"`
	Nth  int    `json:"nth,omitempty"` // 1-based occurrence; 0 = must be unique
}

type Mutant struct {
	Name   string `json:"name"`
	Kind   string `json:"kind"` // mutant | benign
	Rule   string `json:"rule"` // rule expected to fire (prefix match); empty for benign
	Quick  bool   `json:"quick,omitempty"`
	Edits  []Edit `json:"edits"`
	Reason string `json:"reason,omitempty"`
}

func loadMutants(verif, id string) []Mutant {
	b, err := os.ReadFile(filepath.Join(verif, "mutants", id+".json"))
	if err != nil {
		return nil
	}
	var ms []Mutant
	if err := json.Unmarshal(b, &ms); err != nil {
		fmt.Fprintf(os.Stderr, "mutants/%s.json: %v\n", id, err)
		return nil
	}
	return ms
}

func buildOverlay(repo string, m Mutant) (map[string][]byte, string) {
	ov := map[string][]byte{}
	for _, e := range m.Edits {
		p := filepath.Join(repo, e.File)
		src, ok := ov[p]
		if !ok {
			if bb, ok := baseOverlay[p]; ok {
				src = bb
			} else {
				b, err := os.ReadFile(p)
				if err != nil {
					return nil, "anchor-missing"
				}
				src = b
			}
		}
		s := string(src)
		n := strings.Count(s, e.Old)
		if n == 0 {
			return nil, "anchor-missing"
		}
		if e.Nth == 0 {
			if n != 1 {
				return nil, "anchor-missing"
			}
			s = strings.Replace(s, e.Old, e.New, 1)
		} else {
			if n < e.Nth {
				return nil, "anchor-missing"
			}
			idx := -1
			off := 0
			for i := 0; i < e.Nth; i++ {
				j := strings.Index(s[off:], e.Old)
				idx = off + j
				off = idx + len(e.Old)
			}
			s = s[:idx] + e.New + s[idx+len(e.Old):]
		}
		ov[p] = []byte(s)
	}
	return ov, ""
}

func badKeys(r *Report, known *KnownFile) map[string]Obligation {
	kidx := map[string]bool{}
	for _, k := range known.Findings {
		if k.Property == r.Property {
			kidx[k.Rule+"|"+k.Key] = true
		}
	}
	out := map[string]Obligation{}
	for _, o := range r.Obls {
		if (o.Status == Violated || o.Status == Undecided) && !kidx[o.Rule+"|"+o.Key] {
			out[o.Rule+"|"+o.Key] = o
		}
	}
	return out
}

func evalMutant(id, repo string, m Mutant, base map[string]Obligation, known *KnownFile) Control {
	ctl := Control{Name: m.Name, Rule: m.Rule, Kind: m.Kind}
	if m.Kind == "benign" {
		ctl.Expected = "silent"
	} else {
		ctl.Expected = "detected"
	}
	ov, st := buildOverlay(repo, m)
	if st != "" {
		ctl.Result = st
		return ctl
	}
	rep, err := analyse(id, "quick", repo, ov, nil, false)
	if err != nil {
		ctl.Result = "cannot-analyse"
		ctl.Detail = firstLine(err.Error())
		return ctl
	}
	var fired []string
	hit := false
	for k, o := range badKeys(rep, known) {
		if _, was := base[k]; was {
			continue
		}
		fired = append(fired, o.Rule+" | "+o.Key)
		if m.Rule == "" || strings.HasPrefix(o.Rule, m.Rule) {
			hit = true
		}
	}
	sort.Strings(fired)
	if len(fired) > 4 {
		fired = append(fired[:4], fmt.Sprintf("... %d more", len(fired)-4))
	}
	ctl.Detail = strings.Join(fired, "; ")
	switch {
	case m.Kind == "benign" && len(fired) == 0:
		ctl.Result = "silent"
	case m.Kind == "benign":
		ctl.Result = "fired"
	case hit:
		ctl.Result = "detected"
	case len(fired) > 0:
		ctl.Result = "detected-by-other-rule"
	default:
		ctl.Result = "missed"
	}
	return ctl
}

func firstLine(s string) string {
	if i := strings.IndexByte(s, '\n'); i >= 0 {
		j := strings.IndexByte(s[i+1:], '\n')
		if j >= 0 {
			return s[:i+1+j]
		}
	}
	return s
}

func runControls(id, tier, repo, verif string, rep *Report, known *KnownFile) {
	ms := loadMutants(verif, id)
	base := badKeys(rep, known)
	var sel []Mutant
	for _, m := range ms {
		if tier == "thorough" || m.Quick {
			sel = append(sel, m)
		}
	}
	res := make([]Control, len(sel))
	var wg sync.WaitGroup
	sem := make(chan struct{}, 6)
	for i := range sel {
		wg.Add(1)
		go func(i int) {
			defer wg.Done()
			sem <- struct{}{}
			defer func() { <-sem }()
			res[i] = evalMutant(id, repo, sel[i], base, known)
		}(i)
	}
	wg.Wait()
	rep.Controls = append(rep.Controls, res...)
}

func runOneMutant(id, repo, verif, name string, known *KnownFile) int {
	rep, err := analyse(id, "quick", repo, nil, nil, false)
	if err != nil {
		fmt.Fprintln(os.Stderr, err)
		return 2
	}
	base := badKeys(rep, known)
	for _, m := range loadMutants(verif, id) {
		if m.Name == name || name == "all" {
			ctl := evalMutant(id, repo, m, base, known)
			fmt.Printf("%-8s %-50s expect=%-8s result=%-22s %s\n", m.Kind, m.Name, ctl.Expected, ctl.Result, ctl.Detail)
		}
	}
	return 0
}

// thoroughExtras: verdict equality under VTA, and under other GOOS/GOARCH.
func thoroughExtras(id, repo, verif string, rep *Report, known *KnownFile, extra map[string]interface{}) {
	sig := func(r *Report) string {
		var s []string
		for _, o := range r.Obls {
			s = append(s, o.Rule+"|"+o.Key+"|"+string(o.Status))
		}
		sort.Strings(s)
		return strings.Join(s, "\n")
	}
	baseSig := sig(rep)
	var variants []map[string]interface{}
	// VTA call graph
	{
		pd := registry[id]
		c := rep.c
		c.useVT = true
		r2 := newReport(id, "thorough", c)
		func() {
			defer func() {
				if p := recover(); p != nil {
					r2.undecided(id+".VTA", "checker panic under VTA", 0, fmt.Sprint(p))
				}
			}()
			pd.run(c, r2)
		}()
		c.useVT = false
		same := sig(r2) == baseSig
		variants = append(variants, map[string]interface{}{"variant": "callgraph=vta", "nodes": len(c.cgVTA.Nodes), "same_verdicts": same})
		if !same {
			rep.undecided(id+".XCHK", "verdicts differ between CHA and VTA call graphs", 0, diffSig(baseSig, sig(r2)))
		}
	}
	for _, env := range [][]string{{"GOOS=windows", "GOARCH=amd64"}, {"GOOS=linux", "GOARCH=386"}} {
		r2, err := analyse(id, "thorough", repo, rep.overlay, env, false)
		v := map[string]interface{}{"variant": strings.Join(env, " ")}
		if err != nil {
			v["error"] = firstLine(err.Error())
			rep.undecided(id+".XCHK", "tree cannot be analysed under "+strings.Join(env, " "), 0, firstLine(err.Error()))
		} else {
			same := sig(r2) == baseSig
			v["same_verdicts"] = same
			v["files"] = len(r2.c.P.CompiledGoFiles) + len(r2.c.G.CompiledGoFiles)
			if !same {
				rep.undecided(id+".XCHK", "verdicts differ under "+strings.Join(env, " "), 0, diffSig(baseSig, sig(r2)))
			}
		}
		variants = append(variants, v)
	}
	extra["build_variants"] = variants
}

func diffSig(a, b string) string {
	am := map[string]bool{}
	for _, l := range strings.Split(a, "\n") {
		am[l] = true
	}
	var d []string
	for _, l := range strings.Split(b, "\n") {
		if !am[l] {
			d = append(d, "+"+l)
		}
		delete(am, l)
	}
	for l := range am {
		d = append(d, "-"+l)
	}
	sort.Strings(d)
	if len(d) > 6 {
		d = d[:6]
	}
	return strings.Join(d, " ; ")
}
