package main

import (
	"fmt"
	"go/token"
	"go/types"
	"sort"
	"strings"

	"golang.org/x/tools/go/ssa"
)

func init() {
	register("C15", checkC15,
		"Reader/writer agreement for the SDL: (RW) for every schema struct the set of members the SDL reader stores (positions excluded) is contained in the set of members read by the functions reachable from that struct's Write method - derived from the code on every run, so a printer that forgets directive uses, defaults, descriptions, implements, members or locations is reported; member lists are printed by ranging over the whole list; (ESC) every non-constant string a printer emits between quotes goes through the escaping writer; (KINDS) every Type implementation the tables can hold has a Write that writes; (GEN) ggqlgen's -w and -e outputs are built only from constants and Type.SDL(true) of every definition of the loaded schema, directive definitions included.",
		"The round trip itself (scanner and printer inverse over all strings, numeric formatting of defaults) - values.")
	register("C16", checkC16,
		"Structural conditions for order / split / extend independence (thin, and said so): (SORT) the type table's ordered list is written only by its add method (and the duplicating constructor), which re-sorts by (rank, name) after every insertion, so the table order is canonical whatever the order of definitions or loads; (ITER) no ordered schema content is produced by ranging over a Go map: every Extend implementation iterates the ordered member list (sibling agreement over all implementations), as do the SDL printers; (REFS) forward references work in any order only if every reference position is replaced - that is C13.REFS, evaluated there; (FS) ParseFS concatenates files in map order and therefore relies on this property (recorded as a dependency).",
		"Equivalence of arrangements - acceptance, introspection and responses over permutations and partitions are behaviours over histories; state derived once (assureSchema only when Root.schema is nil) is a history effect no rule here decides.")
}

var schemaStructs = []string{"Object", "Interface", "Input", "Enum", "Union", "Scalar", "Directive", "Schema", "FieldDef", "Arg", "InputField", "EnumValue", "DirectiveUse", "ArgValue"}

// rootStructOf: the named struct type of the object whose (nested) field is addressed.
func rootStructOf(v ssa.Value) string {
	for i := 0; i < 8; i++ {
		fa, ok := v.(*ssa.FieldAddr)
		if !ok {
			break
		}
		v = fa.X
	}
	return derefNamed(v.Type())
}

func checkC15(c *Ctx, r *Report) {
	r.rule("C15.RW", "members stored by the SDL reader for struct T (minus positions/flags) ⊆ members loaded in functions reachable from (*T).Write; member lists are printed by a loop over the whole list")
	r.rule("C15.ESC", "strings written between quotes by the printers go through writeString")
	r.rule("C15.KINDS", "table-resident Type implementations have a Write that writes")
	r.rule("C15.GEN", "ggqlgen -w/-e: bytes come from constants and Type.SDL of every definition, incl. directives")
	// reader side: stores in scanner functions
	stored := map[string]map[string]token.Pos{}
	for _, fn := range c.allFns {
		recv := fn.Signature.Recv()
		if recv == nil || !(c.isNamed(recv.Type(), "sdlParser") || c.isNamed(recv.Type(), "parser")) {
			continue
		}
		r.fnSeen(fnName(fn))
		for _, b := range fn.Blocks {
			for _, in := range b.Instrs {
				st, ok := in.(*ssa.Store)
				if !ok {
					continue
				}
				fa, ok := st.Addr.(*ssa.FieldAddr)
				if !ok {
					continue
				}
				root := rootStructOf(fa)
				o, f := fieldOwner(fa.X.Type(), fa.Field)
				if _, isStruct := fa.Type().(*types.Pointer).Elem().Underlying().(*types.Struct); isStruct && f != "fields" && f != "args" && f != "values" {
					continue // storing a whole embedded struct: its members are recorded individually
				}
				if stored[root] == nil {
					stored[root] = map[string]token.Pos{}
				}
				stored[root][o+"."+f] = st.Pos()
			}
		}
		// members filled through add(): fields / args / values
		for _, ci := range callsIn(fn) {
			cal := ci.Common().StaticCallee()
			if cal == nil || cal.Name() != "add" || len(ci.Common().Args) == 0 {
				continue
			}
			if fa, ok := ci.Common().Args[0].(*ssa.FieldAddr); ok {
				root := rootStructOf(fa)
				o, f := fieldOwner(fa.X.Type(), fa.Field)
				if stored[root] == nil {
					stored[root] = map[string]token.Pos{}
				}
				stored[root][o+"."+f] = ci.Pos()
			}
		}
	}
	// members handed in through pointer parameters (readArgs(&dir.args), readFields(&obj.fields), ...)
	for _, fn := range c.allFns {
		recv := fn.Signature.Recv()
		if recv == nil || !c.isNamed(recv.Type(), "sdlParser") {
			continue
		}
		for _, ci := range callsIn(fn) {
			for _, a := range ci.Common().Args {
				if fa, ok := a.(*ssa.FieldAddr); ok {
					root := rootStructOf(fa)
					o, f := fieldOwner(fa.X.Type(), fa.Field)
					if f == "fields" || f == "args" || f == "values" {
						if stored[root] == nil {
							stored[root] = map[string]token.Pos{}
						}
						stored[root][o+"."+f] = ci.Pos()
					}
				}
			}
		}
	}
	exclude := map[string]bool{"line": true, "col": true, "core": true, "Root": true, "parser": true, "dict": true}
	nPairs := 0
	for _, T := range schemaStructs {
		w := c.fn("(*" + T + ").Write")
		if w == nil {
			// Schema uses Object.write through (*Schema).Write; DirectiveUse / ArgValue have Write
			r.check("C15.RW", T+": has a Write method", token.NoPos, false, "not found")
			continue
		}
		loaded := map[string]bool{}
		for f := range c.reachable(w) {
			if !c.inPkg(f) {
				continue
			}
			for _, b := range f.Blocks {
				for _, in := range b.Instrs {
					switch t := in.(type) {
					case *ssa.FieldAddr:
						o, fl := fieldOwner(t.X.Type(), t.Field)
						loaded[o+"."+fl] = true
					case *ssa.Field:
						o, fl := fieldOwner(t.X.Type(), t.Field)
						loaded[o+"."+fl] = true
					}
				}
			}
		}
		var ks []string
		for k := range stored[T] {
			ks = append(ks, k)
		}
		sort.Strings(ks)
		for _, k := range ks {
			f := k[strings.IndexByte(k, '.')+1:]
			if exclude[f] {
				continue
			}
			nPairs++
			r.check("C15.RW", fmt.Sprintf("%s: member %s stored by the SDL reader is printed", T, k), stored[T][k], loaded[k],
				"no function reachable from this type's Write reads the member: printing and re-parsing loses it")
		}
	}
	r.floor("C15.RW", "(struct, member) pairs stored by the reader", nPairs, 40)
	// member lists printed by a loop over the whole list
	nLoops := 0
	for _, fn := range c.allFns {
		if fn.Name() != "Write" && fn.Name() != "write" && fn.Name() != "writeArgs" && fn.Name() != "writeDirectiveUses" && fn.Name() != "writeHeader" {
			continue
		}
		for li, l := range loopsOf(fn) {
			ind := loopInduction(l)
			if !ind.ok {
				continue
			}
			x, isLen := isLenOf(ind.length)
			if !isLen {
				continue
			}
			nLoops++
			_, isSlice := x.(*ssa.Slice)
			r.check("C15.RW", fmt.Sprintf("%s: loop %d prints every element of %s", fnName(fn), li+1, shortPath(vpath(x))), ind.phi.Pos(), !isSlice, "the printer walks only part of the member list")
		}
	}
	r.floor("C15.RW", "printing loops over member lists", nLoops, 10)
	c15Every(c, r)
	c15ValText(c, r)
	importRules(c, r, "C07", "C15.STRESC", "string defaults and descriptions are escaped by the string writer (C07.ESC): every escape it emits is one the SDL scanner reads back to the same code point", "C07.ESC")
	c15Esc(c, r)
	c15Kinds(c, r)
	c15Gen(c, r)
	c15Order(c, r)
	c15AllDefs(c, r)
	c15Format(c, r)
	importRulesFrom(c, r, "C18", func(c *Ctx, sub *Report) { c18Num(c, sub) }, "C15.NUMTEXT", "every number text the value printer can emit for a default is read back as a number (C18.NUM): the float formatter prints exponent forms without a decimal point, so the reader may not decide by the presence of a point", "C18.NUM")
	c15Fresh(c, r)
}

func c15Esc(c *Ctx, r *Report) {
	// functions that write a quote constant and a non-constant string
	n := 0
	// helpers of the description writer write between the quotes their caller wrote
	descHelpers := map[*ssa.Function]bool{}
	if wd := c.fn("writeDesc"); wd != nil {
		for f := range c.reachable(wd) {
			if c.inPkg(f) && f != wd && f.Name() != "writeString" {
				descHelpers[f] = true
			}
		}
	}
	for _, fn := range c.allFns {
		if !(fn.Name() == "writeDesc" || fn.Name() == "Write" || fn.Name() == "write" || fn.Name() == "writeHeader" || descHelpers[fn]) {
			continue
		}
		if fn.Signature.Recv() != nil && c.isNamed(fn.Signature.Recv().Type(), "ArgValue") {
			continue // goes through valueString -> writeString
		}
		writesQuote := false
		for _, ci := range callsIn(fn) {
			if !ci.Common().IsInvoke() || ci.Common().Method.Name() != "Write" || len(ci.Common().Args) != 1 {
				continue
			}
			if elems, ok := sliceLitElems(ci.Common().Args[0]); ok {
				for _, e := range elems {
					if k, ok := e.(*ssa.Const); ok && k.Int64() == '"' {
						writesQuote = true
					}
				}
			}
			if cv, ok := ci.Common().Args[0].(*ssa.Convert); ok {
				if s, ok := constStr(cv.X); ok && strings.Contains(s, `"`) {
					writesQuote = true
				}
			}
		}
		if !writesQuote && !descHelpers[fn] {
			continue
		}
		k := 0
		for _, ci := range callsIn(fn) {
			if !ci.Common().IsInvoke() || ci.Common().Method.Name() != "Write" || len(ci.Common().Args) != 1 {
				continue
			}
			cv, ok := ci.Common().Args[0].(*ssa.Convert)
			if !ok {
				continue
			}
			if _, isC := cv.X.(*ssa.Const); isC {
				continue
			}
			// indentation strings built from constants
			if c.indentString(cv.X, 0) {
				continue
			}
			n++
			k++
			r.flag("C15.ESC", fmt.Sprintf("%s: quoted text write #%d (%s) is escaped", fnName(fn), k, shortPath(vpath(cv.X))), ci.Pos(),
				"text is written between quotes without escaping: a backslash, a quote at the end, or \"\"\" inside it does not survive printing and re-parsing")
		}
	}
	r.floor("C15.ESC", "raw text writes between quotes in the SDL printers", n, 0)
	r.check("C15.ESC", "values in the SDL (defaults, directive arguments) are printed through the escaping value writer", token.NoPos, c.fn("valueString") != nil && c.reachable(c.fn("valueString"))[c.fn("writeString")], "valueString must reach writeString")
}

func c15Kinds(c *Ctx, r *Report) {
	excl := map[string]bool{"*List": true, "*NonNull": true, "*Ref": true}
	n := 0
	for _, t := range c.implementers("Type") {
		name := typeStr(t)
		if excl[name] {
			continue
		}
		n++
		obj, _, _ := types.LookupFieldOrMethod(t, true, c.P.Types, "Write")
		f, _ := obj.(*types.Func)
		ok := false
		if f != nil {
			if fn := c.prog.FuncValue(f); fn != nil {
				for g := range c.reachable(fn) {
					if !c.inPkg(g) {
						continue
					}
					for _, ci := range callsIn(g) {
						if ci.Common().IsInvoke() && ci.Common().Method.Name() == "Write" {
							ok = true
						}
					}
				}
			}
		}
		r.check("C15.KINDS", fmt.Sprintf("%s: Write emits text", name), token.NoPos, ok, "a type that can sit in the tables prints nothing")
	}
	r.floor("C15.KINDS", "table-resident Type implementations", n, 14)
}

func c15Gen(c *Ctx, r *Report) {
	mainFn := c.fn("ggqlgen.main")
	typesFn := c.fn("(*Root).Types")
	sdlFn := c.fn("(*Root).SDL")
	if mainFn == nil || typesFn == nil || sdlFn == nil {
		r.undecided("C15.GEN", "anchors ggqlgen.main / (*Root).Types / (*Root).SDL", token.NoPos, "not found")
		return
	}
	r.fnSeen(fnName(mainFn), fnName(typesFn), fnName(sdlFn))
	// tables enumerated by Types() and by SDL()
	tables := func(fn *ssa.Function) map[string]bool {
		out := map[string]bool{}
		for _, b := range fn.Blocks {
			for _, in := range b.Instrs {
				if fa, ok := in.(*ssa.FieldAddr); ok {
					if o, f := fieldOwner(fa.X.Type(), fa.Field); o == "Root" && (f == "types" || f == "dirs") {
						out[f] = true
					}
				}
			}
		}
		return out
	}
	tt, ts := tables(typesFn), tables(sdlFn)
	// output loops in main: loops calling SDL on elements of a Types() result and appending to a buffer
	n := 0
	for li, l := range loopsOf(mainFn) {
		usesSDL := false
		var pos token.Pos
		for b := range l.body {
			for _, in := range b.Instrs {
				if call, ok := in.(*ssa.Call); ok && call.Call.IsInvoke() && call.Call.Method.Name() == "SDL" {
					usesSDL = true
					pos = call.Pos()
				}
			}
		}
		if !usesSDL {
			continue
		}
		n++
		// the loop ranges over root.Types()
		ind := loopInduction(l)
		overTypes := false
		if ind.ok {
			if x, isLen := isLenOf(ind.length); isLen {
				if call, ok := x.(*ssa.Call); ok && call.Call.StaticCallee() == typesFn {
					overTypes = true
				}
			}
		}
		complete := !overTypes || (tt["dirs"] == ts["dirs"])
		// which output is this? the enclosing loop ranges over the -e or the -w requests
		which := fmt.Sprintf("output loop %d", li+1)
		for _, ol := range loopsOf(mainFn) {
			if ol == l || !ol.body[l.head] {
				continue
			}
			if oi := loopInduction(ol); oi.ok {
				if x, isLen := isLenOf(oi.length); isLen {
					if _, _, f, ok := loadOfField(x); ok {
						switch f {
						case "embeds":
							which = "embed (-e) output"
						case "overs":
							which = "rewrite (-w) output"
						}
					}
				}
			}
		}
		r.check("C15.GEN", fmt.Sprintf("ggqlgen main: %s writes every definition of the schema", which), pos, complete,
			"the loop enumerates Root.Types(), which lists the type table only; directive definitions (a separate table that Root.SDL does print) are never written: -w / -e drop every 'directive @x ...' definition and the rewritten file no longer parses when a directive is used")
	}
	r.floor("C15.GEN", "SDL output loops in ggqlgen", n, 2)
	// the bytes appended in those loops are constants or SDL(true) results
	okBytes := true
	badSrc := ""
	// output sections: loops (at any nesting) that contain an SDL() call
	loops := loopsOf(mainFn)
	inOutput := func(b *ssa.BasicBlock) bool {
		for _, l := range loops {
			if !l.body[b] {
				continue
			}
			for bb := range l.body {
				for _, in := range bb.Instrs {
					if call, ok := in.(*ssa.Call); ok && call.Call.IsInvoke() && call.Call.Method.Name() == "SDL" {
						return true
					}
				}
			}
		}
		return false
	}
	for _, ci := range callsIn(mainFn) {
		call, ok := ci.(*ssa.Call)
		if !ok || !isBuiltinCall(call, "append") || !inOutput(call.Block()) {
			continue
		}
		if bt, ok := call.Type().Underlying().(*types.Slice); !ok || !isByte(bt.Elem()) {
			continue
		}
		src := call.Call.Args[1]
		switch t := src.(type) {
		case *ssa.Const:
		case *ssa.Slice:
		case *ssa.Call:
			if !(t.Call.IsInvoke() && t.Call.Method.Name() == "SDL") {
				okBytes = false
			}
		case *ssa.Convert:
			if _, isC := t.X.(*ssa.Const); !isC {
				if cl, ok := t.X.(*ssa.Call); !ok || !(cl.Call.IsInvoke() && cl.Call.Method.Name() == "SDL") {
					// package name / const name given by the user for -e
					if _, isLoad := t.X.(*ssa.UnOp); !isLoad {
						okBytes = false
					}
				}
			}
		case *ssa.UnOp:
		default:
			okBytes = false
			badSrc = fmt.Sprintf("%T %s", src, shortPath(vpath(src)))
		}
	}
	_ = badSrc
	r.check("C15.GEN", "ggqlgen main: output bytes are constants, user-given names or Type.SDL(true)", mainFn.Pos(), okBytes, "the output buffer receives bytes from another source: "+badSrc)
}

func isByte(t types.Type) bool {
	b, ok := t.Underlying().(*types.Basic)
	return ok && b.Kind() == types.Uint8
}

// ---- C16 --------------------------------------------------------------------------

func checkC16(c *Ctx, r *Report) {
	r.rule("C16.SORT", "typeList.list written only by add() and dup(); add() sorts by (rank, name) after inserting")
	r.rule("C16.ITER", "no Extend implementation (and no SDL printer) ranges over a map")
	r.rule("C16.FS", "ParseFS relies on order independence (informational)")
	add := c.fn("(*typeList).add")
	if add == nil {
		r.undecided("C16.SORT", "anchor (*typeList).add", token.NoPos, "not found")
		return
	}
	r.fnSeen(fnName(add))
	n := 0
	for _, fn := range c.allFns {
		for _, b := range fn.Blocks {
			for _, in := range b.Instrs {
				st, ok := in.(*ssa.Store)
				if !ok {
					continue
				}
				fa, ok := st.Addr.(*ssa.FieldAddr)
				if !ok {
					continue
				}
				if o, f := fieldOwner(fa.X.Type(), fa.Field); o != "typeList" || f != "list" {
					continue
				}
				n++
				okFn := fn == add || fn.Name() == "dup"
				r.check("C16.SORT", fmt.Sprintf("%s: writes typeList.list", fnName(fn)), st.Pos(), okFn, "the ordered type list is written outside add()/dup(): its canonical order is no longer guaranteed")
			}
		}
	}
	r.floor("C16.SORT", "stores to typeList.list", n, 2)
	// add sorts after the last append, on every path to return
	var sortCall ssa.CallInstruction
	for _, ci := range callsIn(add) {
		if isFuncCall(ci, "sort", "Slice") || isFuncCall(ci, "sort", "SliceStable") {
			sortCall = ci
		}
	}
	okSort := false
	if sortCall != nil {
		okSort = true
		for _, rt := range returnsOf(add) {
			if !sortCall.Block().Dominates(rt.Block()) {
				okSort = false
			}
		}
		// sorts the list itself
		if !(len(sortCall.Common().Args) > 0) {
			okSort = false
		} else if _, o, f, ok := loadOfField(stripIface(sortCall.Common().Args[0])); !ok || o != "typeList" || f != "list" {
			okSort = false
		}
	}
	r.check("C16.SORT", "(*typeList).add: the list is re-sorted after every insertion", posOf(sortCall), okSort, "without the sort the table order depends on the order of definitions and loads")
	// the comparison uses Rank and Name
	usesRank, usesName := false, false
	// the comparator: the function literals of add, or the function value handed to the sort (a method value,
	// a named function), followed into the package functions it calls
	var cmpFns []*ssa.Function
	cmpFns = append(cmpFns, add.AnonFuncs...)
	if sortCall != nil && len(sortCall.Common().Args) > 1 {
		switch t := sortCall.Common().Args[1].(type) {
		case *ssa.MakeClosure:
			if f, ok := t.Fn.(*ssa.Function); ok {
				cmpFns = append(cmpFns, f)
			}
		case *ssa.Function:
			cmpFns = append(cmpFns, t)
		}
	}
	seenCmp := map[*ssa.Function]bool{}
	for depth := 0; depth < 4 && len(cmpFns) > 0; depth++ {
		var next []*ssa.Function
		for _, an := range cmpFns {
			if seenCmp[an] {
				continue
			}
			seenCmp[an] = true
			for _, ci := range callsIn(an) {
				if ci.Common().IsInvoke() {
					switch ci.Common().Method.Name() {
					case "Rank":
						usesRank = true
					case "Name":
						usesName = true
					}
				} else if cal := ci.Common().StaticCallee(); cal != nil && (c.inPkg(cal) || cal.Synthetic != "") && len(cal.Blocks) > 0 {
					next = append(next, cal)
				}
			}
		}
		cmpFns = next
	}
	r.check("C16.SORT", "(*typeList).add: the order is (rank, name)", add.Pos(), usesRank && usesName, "the comparison must be a total order independent of insertion order")
	// ITER: Extend implementations
	nExt := 0
	mapRange := map[string]bool{}
	for _, fn := range c.allFns {
		if fn.Name() != "Extend" || fn.Signature.Recv() == nil {
			continue
		}
		nExt++
		bad := token.NoPos
		for _, b := range fn.Blocks {
			for _, in := range b.Instrs {
				if rg, ok := in.(*ssa.Range); ok {
					if _, isMap := rg.X.Type().Underlying().(*types.Map); isMap {
						bad = rg.Pos()
						mapRange[fnName(fn)] = true
					}
				}
			}
		}
		r.check("C16.ITER", fmt.Sprintf("%s: merges members in declaration order (no map iteration)", fnName(fn)), firstPos(bad, fn.Pos()), !bad.IsValid(), "members added by an extend block arrive in Go map order: printed SDL and introspection order differ from run to run (the sibling implementations iterate the ordered list)")
		r.fnSeen(fnName(fn))
	}
	r.floor("C16.ITER", "Extend implementations", nExt, 8)
	// printers
	for _, fn := range c.allFns {
		if fn.Name() != "Write" && fn.Name() != "write" && fn.Name() != "SDL" {
			continue
		}
		if fn.Signature.Recv() != nil && (c.isNamed(fn.Signature.Recv().Type(), "DirectiveUse")) {
			continue // sorts the keys before printing
		}
		if fn.Signature.Recv() != nil && requestTypes[derefNamed(fn.Signature.Recv().Type())] {
			continue // request printers are not schema content
		}
		for _, b := range fn.Blocks {
			for _, in := range b.Instrs {
				if rg, ok := in.(*ssa.Range); ok {
					if _, isMap := rg.X.Type().Underlying().(*types.Map); isMap {
						r.flag("C16.ITER", fmt.Sprintf("%s: prints in a defined order", fnName(fn)), rg.Pos(), "a printer ranges over a map")
					}
				}
			}
		}
	}
	// DirectiveUse.Write sorts
	if du := c.fn("(*DirectiveUse).Write"); du != nil {
		sorted := false
		for _, ci := range callsIn(du) {
			if isFuncCall(ci, "sort", "Strings") {
				sorted = true
			}
		}
		r.check("C16.ITER", "(*DirectiveUse).Write: arguments are printed in sorted order", du.Pos(), sorted, "directive-use arguments live in a map and must be sorted before printing")
	}
	// FS: dependency note
	if pf := c.fn("(*Root).ParseFS"); pf != nil {
		r.fnSeen(fnName(pf))
		dep := false
		for _, b := range pf.Blocks {
			for _, in := range b.Instrs {
				if rg, ok := in.(*ssa.Range); ok {
					if _, isMap := rg.X.Type().Underlying().(*types.Map); isMap {
						dep = true
					}
				}
			}
		}
		r.Notes = append(r.Notes, fmt.Sprintf("ParseFS concatenates the matched files in Go map iteration order (%v): it relies on the order independence this property states", dep))
	}
	tableIncrRule(c, r, "C16.INCR", "two definitions of one name inside a single document are then both accepted (the later wins in the name index, both stay in the list), while the same definitions split over two loads are rejected: acceptance depends on how the definitions are partitioned")
	c16ExtRefs(c, r)
	c16Defaults(c, r)
	c16BindName(c, r)
	c16ExtPure(c, r)
	c16RefPure(c, r)
	c16ScanPure(c, r)
	c16Implied(c, r)
	importRulesFrom(c, r, "C17", func(c *Ctx, sub *Report) { c17Roots(c, sub) }, "C16.ROOTS", "root operation fields are added to the schema object only while an undeclared schema is being built (C17.ROOTS): a derived schema that keeps picking up Query / Mutation / Subscription types from later loads, with a flag that survives an explicit declaration, makes the operation types depend on how the definitions were split over loads", "C17.ROOTS")
	importRules(c, r, "C13", "C16.VALALL", "after every load the whole type table and the whole directive table are validated, unfiltered (C13.WALK): validating only what a load defines or extends accepts a split arrangement (`extend interface` arriving after its implementers) that the single document refuses", "C13.WALK")
}

// c16BindName: while scanning, a type name is bound either to a definition the root already holds or to a
// *Ref placeholder that the reference pass replaces afterwards. It is never bound to a definition of the
// document being scanned: such a binding exists only for names declared before their use, so the two
// orders of the same definitions are treated differently (and a re-declared scalar that the loader later
// drops stays referenced).
func c16BindName(c *Ctx, r *Report) {
	r.rule("C16.BINDNAME", "every Type value the type reader produces for a name is the result of a lookup in the root's tables, or a fresh *Ref")
	rt := c.fn("(*parser).readType")
	if rt == nil {
		r.undecided("C16.BINDNAME", "anchor (*parser).readType", 0, "not found")
		return
	}
	okCallee := func(f *ssa.Function) bool {
		return f != nil && (f.Name() == "GetType" || (f.Name() == "get" && f.Signature.Recv() != nil && c.isNamed(f.Signature.Recv().Type(), "typeList")))
	}
	var bad []string
	n := 0
	seenCell := map[*ssa.Alloc]bool{}
	var examine func(fn *ssa.Function, v ssa.Value, depth int)
	examine = func(fn *ssa.Function, v ssa.Value, depth int) {
		leaves, _ := phiLeaves(v)
		for _, lf := range leaves {
			x := stripIface(lf.val)
			switch t := x.(type) {
			case *ssa.Const:
			case *ssa.Alloc:
				// a fresh node (Ref, List, NonNull)
			case *ssa.UnOp:
				// the result variable spilled to a cell (functions with defer): everything ever stored into it
				al, isAl := t.X.(*ssa.Alloc)
				if !isAl || seenCell[al] {
					if !isAl {
						bad = append(bad, fmt.Sprintf("%s in %s", shortPath(vpath(x)), fnName(fn)))
					}
					continue
				}
				seenCell[al] = true
				for _, ref := range *al.Referrers() {
					if st, ok := ref.(*ssa.Store); ok && st.Addr == ssa.Value(al) {
						examine(fn, st.Val, depth)
					}
				}
			case *ssa.Call:
				cal := t.Call.StaticCallee()
				switch {
				case okCallee(cal):
					n++
				case cal == rt:
					// nested type: same rule recursively
				case cal != nil && c.inPkg(cal) && depth < 2:
					for _, ret := range returnsOf(cal) {
						if len(ret.Results) > 0 {
							examine(cal, ret.Results[0], depth+1)
						}
					}
				default:
					bad = append(bad, fmt.Sprintf("%s in %s", shortPath(vpath(x)), fnName(fn)))
				}
			case *ssa.Extract:
				if call, ok := t.Tuple.(*ssa.Call); ok && call.Call.StaticCallee() == rt {
					continue
				}
				bad = append(bad, fmt.Sprintf("%s in %s", shortPath(vpath(x)), fnName(fn)))
			default:
				bad = append(bad, fmt.Sprintf("%s in %s", shortPath(vpath(x)), fnName(fn)))
			}
		}
	}
	for _, ret := range returnsOf(rt) {
		if len(ret.Results) > 0 {
			examine(rt, ret.Results[0], 0)
		}
	}
	sort.Strings(bad)
	r.check("C16.BINDNAME", fnName(rt)+": names are bound to root definitions or placeholders only", rt.Pos(), len(bad) == 0,
		"a type name can be bound to "+strings.Join(bad, "; ")+", which is neither a lookup in the root's tables nor a placeholder: references written after a definition of the same document are bound differently from references written before it")
	r.floor("C16.BINDNAME", "root lookups feeding the type reader", n, 1)
}

// c16ExtPure: merging an extension is free of validation. The rules are checked once, on the merged result
// (C13.WALK); a check made at the moment one extend block is merged sees an intermediate state that
// depends on the order of the blocks.
func c16ExtPure(c *Ctx, r *Report) {
	r.rule("C16.EXTPURE", "no Extend implementation reaches a validation function (Validate, validate*, isSubType)")
	n := 0
	for _, fn := range c.allFns {
		if fn.Name() != "Extend" || fn.Signature.Recv() == nil {
			continue
		}
		n++
		badFn := ""
		for g := range c.reachable(fn) {
			if !c.inPkg(g) || g == fn {
				continue
			}
			nm := g.Name()
			if nm == "Validate" || strings.HasPrefix(nm, "validate") || nm == "isSubType" {
				// reachable only through in-package static calls, not through interface dispatch of Type.Extend itself
				badFn = fnName(g)
			}
		}
		// restrict to static call chains: CHA adds every Type method through the interface; recheck with static edges only
		if badFn != "" {
			badFn = ""
			seen := map[*ssa.Function]bool{}
			var walk func(f *ssa.Function, d int)
			walk = func(f *ssa.Function, d int) {
				if seen[f] || d > 4 {
					return
				}
				seen[f] = true
				for _, ci := range callsIn(f) {
					g := ci.Common().StaticCallee()
					if g == nil || !c.inPkg(g) {
						continue
					}
					nm := g.Name()
					if nm == "Validate" || strings.HasPrefix(nm, "validate") || nm == "isSubType" {
						badFn = fnName(g)
					}
					walk(g, d+1)
				}
			}
			walk(fn, 0)
		}
		r.check("C16.EXTPURE", fmt.Sprintf("%s: merges without validating", fnName(fn)), fn.Pos(), badFn == "",
			"the merge calls "+badFn+": a rule is checked against the partly merged definition, so `extend type T implements I {}` before `extend type T { f: .. }` is refused while the other order, the inline form and the split loads are accepted")
	}
	r.floor("C16.EXTPURE", "Extend implementations", n, 6)
}

// c16Defaults: the reader completes a directive use with the defaults of the directive's definition only
// when that definition is already known; what it may fill in is therefore restricted to arguments the
// use does not mention at all. An argument written with an explicit value - null included - keeps it,
// so that the arrangement "definition first" and "use first" describe the same schema.
// Ctx.dirUseCompletionHook lets another property's rule set look at the same completion sites (a field of the
// context, not a package variable: controls analyse several programs at the same time).

func c16Defaults(c *Ctx, r *Report) {
	if r.Property == "C16" {
		r.rule("C16.DEFAULTS", "an ArgValue carrying Arg.Default is stored into a directive use's argument map only under a failed lookup (nil entry) of that argument name in the same map")
	}
	c16DefaultsBody(c, r)
}

func c16DefaultsBody(c *Ctx, r *Report) {
	n := 0
	for _, fn := range c.allFns {
		k := 0
		for _, b := range fn.Blocks {
			for _, in := range b.Instrs {
				mu, ok := in.(*ssa.MapUpdate)
				if !ok {
					continue
				}
				mt, ok := mu.Map.Type().Underlying().(*types.Map)
				if !ok || derefNamed(mt.Elem()) != "ArgValue" {
					continue
				}
				// the stored ArgValue is built here with Value = <Arg>.Default
				al, ok := mu.Value.(*ssa.Alloc)
				if !ok {
					continue
				}
				fromDefault := false
				for _, ref := range *al.Referrers() {
					fa, ok := ref.(*ssa.FieldAddr)
					if !ok || fieldName(fa.X.Type(), fa.Field) != "Value" {
						continue
					}
					for _, r2 := range *fa.Referrers() {
						if st, ok := r2.(*ssa.Store); ok {
							if _, o, f, ok := loadOfField(stripIface(st.Val)); ok && o == "Arg" && f == "Default" {
								fromDefault = true
							}
						}
					}
				}
				if !fromDefault {
					continue
				}
				n++
				k++
				absent := hasGuard(b, func(g guard) bool {
					v, eq, ok := nilCmp(g.cond)
					if !ok || eq != g.val {
						return false
					}
					var lk *ssa.Lookup
					switch t := stripIface(v).(type) {
					case *ssa.Lookup:
						lk = t
					case *ssa.Extract:
						lk, _ = t.Tuple.(*ssa.Lookup)
					}
					return lk != nil && sameVal(lk.X, mu.Map) && sameVal(lk.Index, mu.Key)
				})
				// C10: the completion is made for every absent argument, with or without a default
				condOnDefault := hasGuard(b, func(g guard) bool {
					v, _, ok := nilCmp(g.cond)
					if !ok {
						return false
					}
					_, o, f, isF := loadOfField(stripIface(v))
					return isF && o == "Arg" && f == "Default"
				})
				if c.dirUseCompletionHook != nil {
					c.dirUseCompletionHook(fn, mu, k, condOnDefault)
				}
				if r.Property != "C16" {
					continue
				}
				r.check("C16.DEFAULTS", fmt.Sprintf("%s: default #%d is filled in only for an argument the use does not mention", fnName(fn), k), mu.Pos(), absent,
					"the definition's default can replace an argument the use wrote explicitly (e.g. `max: null`): the use means `null` when the directive is defined after it in the same document and the default when the directive was loaded first")
			}
		}
	}
	if r.Property == "C16" {
		r.floor("C16.DEFAULTS", "default completions of directive uses", n, 1)
	}
}

// tableIncrRule: the type and directive tables have no duplicate test of their own (unlike the member
// lists); uniqueness of names rests on the loader inserting one definition at a time, each insertion
// made only after a lookup of that name in the same table came back empty. An insertion of a
// collected batch after the loop is not seen by the lookups of the other members of the batch.
func tableIncrRule(c *Ctx, r *Report, rule, consequence string) {
	r.rule(rule, "in the loader every insertion into Root.types / Root.dirs adds exactly one definition and is control-dependent on get(name) == nil of the same table")
	at := c.fn("(*Root).addTypes")
	add := c.fn("(*typeList).add")
	get := c.fn("(*typeList).get")
	if at == nil || add == nil || get == nil {
		r.undecided(rule, "anchors (*Root).addTypes / (*typeList).add / (*typeList).get", token.NoPos, "not found")
		return
	}
	r.fnSeen(fnName(at))
	tableOf := func(v ssa.Value) string {
		// receiver: load of Root.types / Root.dirs
		if _, o, f, ok := loadOfField(v); ok && o == "Root" {
			return f
		}
		return ""
	}
	n := 0
	for _, ci := range callsIn(at) {
		if ci.Common().StaticCallee() != add || len(ci.Common().Args) < 2 {
			continue
		}
		tbl := tableOf(ci.Common().Args[0])
		if tbl == "" {
			continue
		}
		n++
		elems, lit := sliceLitElems(ci.Common().Args[1])
		one := lit && len(elems) == 1
		guarded := hasGuard(ci.Block(), func(g guard) bool {
			v, eq, ok := nilCmp(g.cond)
			if !ok || eq != g.val {
				return false
			}
			call, ok := stripIface(v).(*ssa.Call)
			if !ok || call.Call.StaticCallee() != get || len(call.Call.Args) < 1 {
				return false
			}
			return tableOf(call.Call.Args[0]) == tbl
		})
		r.check(rule, fmt.Sprintf("%s: insertion #%d into Root.%s adds one definition after a failed lookup of its name", fnName(at), n, tbl), ci.Pos(), one && guarded,
			fmt.Sprintf("single definition: %v, dominated by get(name)==nil on Root.%s: %v; %s", one, tbl, guarded, consequence))
	}
	r.floor(rule, "insertions into the type and directive tables by the loader", n, 2)
	// a duplicate name is passed over in silence only for a scalar that is declared again: every kind test made
	// after a successful lookup looks at the definition being added, not at the one found
	for _, ci := range callsIn(at) {
		cc := ci.Common()
		if !cc.IsInvoke() || cc.Method.Name() != "Rank" {
			continue
		}
		dup := hasGuard(ci.Block(), func(g guard) bool {
			v, eq, ok := nilCmp(g.cond)
			if !ok || eq == g.val {
				return false
			}
			call, ok := stripIface(v).(*ssa.Call)
			return ok && call.Call.StaticCallee() == get
		})
		if !dup {
			continue
		}
		_, fromGet := stripIface(cc.Value).(*ssa.Call)
		r.check(rule, fmt.Sprintf("%s: the tolerated duplicate is decided by the kind of the new definition", fnName(at)), ci.Pos(), !fromGet,
			"after a name was found in the table the kind test looks at the registered definition: any definition that re-uses a scalar's name (type Time {...}, enum ID {...}) is dropped without an error instead of being refused as a duplicate")
	}
}

// c16ExtRefs: what an extend block adds has its references resolved before it is merged into the
// extended definition. Resolution after the merge only reaches definitions the table walk visits; the
// implicit schema object is not in the type table.
func c16ExtRefs(c *Ctx, r *Report) {
	r.rule("C16.EXTREFS", "every Extend(x) made by the loader is dominated by a successful reference replacement of the same x")
	ae := c.fn("(*Root).addExtends")
	rt := c.fn("(*Root).replaceTypeRefs")
	if ae == nil || rt == nil {
		r.undecided("C16.EXTREFS", "anchors (*Root).addExtends / (*Root).replaceTypeRefs", token.NoPos, "not found")
		return
	}
	r.fnSeen(fnName(ae))
	n := 0
	for _, ci := range callsIn(ae) {
		cc := ci.Common()
		if !cc.IsInvoke() || cc.Method.Name() != "Extend" || len(cc.Args) != 1 {
			continue
		}
		n++
		ok := false
		for _, c2 := range callsIn(ae) {
			call, isCall := c2.(*ssa.Call)
			if !isCall || call.Call.StaticCallee() != rt || len(call.Call.Args) < 2 {
				continue
			}
			if !sameVal(stripIface(call.Call.Args[1]), stripIface(cc.Args[0])) {
				continue
			}
			if !(call.Block() == ci.Block() || call.Block().Dominates(ci.Block())) {
				continue
			}
			if hasGuard(ci.Block(), func(g guard) bool { return guardSaysNil(g, call) }) {
				ok = true
			}
		}
		r.check("C16.EXTREFS", fmt.Sprintf("%s: merge #%d happens after the extension's own references were resolved", fnName(ae), n), ci.Pos(), ok,
			"the extension is merged with its forward references still placeholders; a later walk over the type table does not visit the implicit schema object, so `extend schema { mutation: M }` with M defined in the same load keeps a placeholder while the same definitions arranged differently resolve")
	}
	r.floor("C16.EXTREFS", "extension merges in the loader", n, 1)
}

// c15Every: in the printers of schema definitions, a loop over the members of one definition
// (arguments of a directive use, fields, arguments, enum values, union members, interfaces,
// locations, directive uses) emits something for every member: on every fault-free path through an
// iteration there is a write, a call of a printing function or an append to the list that is
// printed afterwards. A member skipped because of its value (a null argument, an empty
// description) is lost when the text is parsed again.
func c15Every(c *Ctx, r *Report) {
	r.rule("C15.EVERY", "printer loops over the members of a definition emit for every member: no fault-free path completes an iteration without a write, a printing call or an append")
	var roots []*ssa.Function
	for _, T := range schemaStructs {
		if w := c.fn("(*" + T + ").Write"); w != nil {
			roots = append(roots, w)
		}
	}
	reach := c.reachable(roots...)
	var fns []*ssa.Function
	for f := range reach {
		if c.inPkg(f) && len(f.Blocks) > 0 {
			fns = append(fns, f)
		}
	}
	sort.Slice(fns, func(i, j int) bool { return fnName(fns[i]) < fnName(fns[j]) })
	isWriter := func(t types.Type) bool {
		n, ok := t.(*types.Named)
		return ok && n.Obj().Pkg() != nil && n.Obj().Pkg().Path() == "io" && n.Obj().Name() == "Writer"
	}
	memberSel := map[string]bool{"DirectiveUse.Args": true, "fieldList.list": true, "argList.list": true, "inputFieldList.list": true, "enumValueList.list": true, "Union.Members": true, "Object.Interfaces": true, "Directive.On": true, "Base.Dirs": true, "FieldDef.Dirs": true, "Arg.Dirs": true, "InputField.Dirs": true, "EnumValue.Dirs": true}
	r.Tables["C15.EVERY member containers"] = keys(memberSel)
	overMembers := func(l *loopInfo) (string, bool) {
		found, name := false, ""
		var walk func(v ssa.Value, d int)
		walk = func(v ssa.Value, d int) {
			if d > 8 || found {
				return
			}
			switch t := v.(type) {
			case *ssa.UnOp:
				if fa, ok := t.X.(*ssa.FieldAddr); ok {
					sel := selOfField(fa.X.Type(), fa.Field)
					if memberSel[sel] {
						found, name = true, sel
						return
					}
					walk(fa.X, d+1)
				} else {
					walk(t.X, d+1)
				}
			case *ssa.FieldAddr:
				sel := selOfField(t.X.Type(), t.Field)
				if memberSel[sel] {
					found, name = true, sel
					return
				}
				walk(t.X, d+1)
			case *ssa.Field:
				sel := selOfField(t.X.Type(), t.Field)
				if memberSel[sel] {
					found, name = true, sel
					return
				}
				walk(t.X, d+1)
			case *ssa.Phi:
				for _, e := range t.Edges {
					walk(e, d+1)
				}
			case *ssa.Parameter:
				// a list handed in by the caller (writeArgs(w, &fd.args), writeDirectiveUses(w, dirs))
				switch derefNamed(t.Type()) {
				case "argList", "fieldList", "inputFieldList", "enumValueList":
					found, name = true, "parameter "+t.Name()
				}
				if sl, ok := t.Type().Underlying().(*types.Slice); ok && derefNamed(sl.Elem()) == "DirectiveUse" {
					found, name = true, "parameter "+t.Name()
				}
			}
		}
		for b := range l.body {
			for _, in := range b.Instrs {
				switch t := in.(type) {
				case *ssa.Next:
					if rg, ok := t.Iter.(*ssa.Range); ok {
						walk(rg.X, 0)
					}
				case *ssa.IndexAddr:
					if l.body[b] {
						walk(t.X, 0)
					}
				case *ssa.Index:
					walk(t.X, 0)
				}
			}
		}
		// rangeindex loops compute len(x) in the preheader: the IndexAddr in the body covers them
		return name, found
	}
	n := 0
	for _, fn := range fns {
		for li, l := range loopsOf(fn) {
			name, ok := overMembers(l)
			if !ok {
				continue
			}
			n++
			effect := map[*ssa.BasicBlock]bool{}
			for b := range l.body {
				for _, in := range b.Instrs {
					ci, ok := in.(ssa.CallInstruction)
					if !ok {
						continue
					}
					cc := ci.Common()
					switch {
					case cc.IsInvoke() && cc.Method.Name() == "Write":
						effect[b] = true
					case isBuiltinCall(ci, "append"):
						effect[b] = true
					default:
						sig := cc.Signature()
						for i := 0; i < sig.Params().Len(); i++ {
							if isWriter(sig.Params().At(i).Type()) {
								effect[b] = true
							}
						}
					}
				}
			}
			// search a fault-free path head -> latch that avoids every effect block
			seen := map[*ssa.BasicBlock]bool{}
			var skip *ssa.BasicBlock
			var dfs func(b *ssa.BasicBlock) bool
			dfs = func(b *ssa.BasicBlock) bool {
				if seen[b] || !l.body[b] || effect[b] {
					return false
				}
				seen[b] = true
				succs := b.Succs
				if len(b.Instrs) > 0 {
					if ifi, ok := b.Instrs[len(b.Instrs)-1].(*ssa.If); ok {
						g := normGuard(guard{ifi.Cond, true, ifi})
						if v, eq, isN := nilCmp(g.cond); isN && isErrorType(v.Type()) {
							// fault-free: the error is nil
							if eq == g.val {
								succs = []*ssa.BasicBlock{b.Succs[0]}
							} else {
								succs = []*ssa.BasicBlock{b.Succs[1]}
							}
						}
					}
				}
				for _, s := range succs {
					if s == l.head {
						skip = b
						return true
					}
					if dfs(s) {
						return true
					}
				}
				return false
			}
			bad := false
			for _, s := range l.head.Succs {
				if l.body[s] && s != l.head && dfs(s) {
					bad = true
				}
			}
			detail := "an iteration over " + name + " can complete without emitting anything for that member: the member is missing from the printed SDL, so the re-parsed schema differs (an omitted argument is replaced by the definition's default)"
			if skip != nil {
				detail += "; skipping path ends at " + c.pos(valPosInstr(skip))
			}
			r.check("C15.EVERY", fmt.Sprintf("%s: loop %d over %s emits for every member", fnName(fn), li+1, name), loopPos(l), !bad, detail)
		}
	}
	r.floor("C15.EVERY", "printer loops over member containers", n, 8)
}

// indentString: v is layout text built only from constants and strings.Repeat of constants:
// a constant, Repeat(..), a concatenation or phi of such, or a parameter that receives such a
// value at every in-package call site.
func (c *Ctx) indentString(v ssa.Value, depth int) bool {
	if depth > 4 {
		return false
	}
	switch t := v.(type) {
	case *ssa.Const:
		return true
	case *ssa.Call:
		if f := calleeObj(t); f != nil && f.Name() == "Repeat" && f.Pkg() != nil && (f.Pkg().Path() == "strings" || f.Pkg().Path() == "bytes") {
			return len(t.Call.Args) > 0 && c.indentString(t.Call.Args[0], depth+1)
		}
	case *ssa.BinOp:
		return t.Op == token.ADD && c.indentString(t.X, depth+1) && c.indentString(t.Y, depth+1)
	case *ssa.Phi:
		for _, e := range t.Edges {
			if e != ssa.Value(t) && !c.indentString(e, depth+1) {
				return false
			}
		}
		return true
	case *ssa.Parameter:
		fn := t.Parent()
		idx := paramIndex(fn, t)
		node := c.cg.Nodes[fn]
		if node == nil || len(node.In) == 0 {
			return false
		}
		for _, e := range node.In {
			if e.Site == nil {
				return false
			}
			args := e.Site.Common().Args
			if e.Site.Common().IsInvoke() || idx >= len(args) {
				return false
			}
			if !c.indentString(args[idx], depth+1) {
				return false
			}
		}
		return true
	}
	return false
}

// c15ValText: a default value or a directive argument is printed as the value writer renders it. Text
// concatenated to that rendering (a forced ".0", quotes, a unit) is not part of the value grammar the reader
// accepts in every case.
func c15ValText(c *Ctx, r *Report) {
	r.rule("C15.VALTEXT", "the text returned by valueString reaches the output unmodified: it is never an operand of a string concatenation")
	vs := c.fn("valueString")
	if vs == nil {
		r.undecided("C15.VALTEXT", "anchor valueString", 0, "not found")
		return
	}
	n := 0
	for _, fn := range c.allFns {
		k := 0
		for _, ci := range callsIn(fn) {
			call, ok := ci.(*ssa.Call)
			if !ok || call.Call.StaticCallee() != vs {
				continue
			}
			n++
			k++
			bad := token.NoPos
			seen := map[ssa.Value]bool{}
			var walk func(v ssa.Value, d int)
			walk = func(v ssa.Value, d int) {
				if d > 6 || seen[v] || v.Referrers() == nil {
					return
				}
				seen[v] = true
				for _, ref := range *v.Referrers() {
					switch t := ref.(type) {
					case *ssa.BinOp:
						if t.Op == token.ADD {
							// layout around the value (" = " + text, text + ")") is harmless; anything else is part of the value
							other := t.X
							if other == v {
								other = t.Y
							}
							layout := false
							if k, ok := other.(*ssa.Const); ok {
								if str, ok := constStr(k); ok && strings.Trim(str, " =,:()[]{}\n\t") == "" {
									layout = true
								}
							}
							if layout {
								walk(t, d+1)
							} else {
								bad = t.Pos()
							}
						}
					case *ssa.Phi:
						walk(t, d+1)
					case *ssa.Store:
						// spilled local: follow the loads of the cell
						if al, ok := t.Addr.(*ssa.Alloc); ok {
							for _, r2 := range *al.Referrers() {
								if u, ok := r2.(*ssa.UnOp); ok {
									walk(u, d+1)
								}
							}
						}
					}
				}
			}
			walk(call, 0)
			r.check("C15.VALTEXT", fmt.Sprintf("%s: value text #%d is printed as rendered", fnName(fn), k), firstPos(bad, call.Pos()), !bad.IsValid(),
				"the rendered value is extended by string concatenation before it is written: a suffix that suits the plain decimal form (\".0\") turns an exponent form into text the reader rejects (1e+06.0), and the second print differs from the first")
		}
	}
	r.floor("C15.VALTEXT", "uses of the value renderer by the printers", n, 2)
}

// c16RefPure: whether a name is bound while the document is scanned (the definition is already in the root)
// or later by the reference replacement pass (the definition follows, or comes in the same load) depends on
// how the definitions are arranged. The replacement pass may therefore do nothing but put the definition in
// place of the placeholder: every write in its summary is a store that is control dependent on the
// overwritten value being a *Ref. Anything else it does (recording implementers, completing defaults)
// happens for one arrangement and not for the other.
func c16RefPure(c *Ctx, r *Report) {
	r.rule("C16.REFPURE", "every write in the summary of the reference replacement pass (replaceTypeRefs) is a store control dependent on the overwritten value being a *Ref placeholder")
	rt := c.fn("(*Root).replaceTypeRefs")
	if rt == nil {
		r.undecided("C16.REFPURE", "anchor (*Root).replaceTypeRefs", token.NoPos, "not found")
		return
	}
	eng := newEffEngine(c)
	eng.run(rt)
	s := eng.sums[rt]
	n, bad := 0, 0
	if s != nil {
		var keys []string
		for k := range s.effects {
			keys = append(keys, k)
		}
		sort.Strings(keys)
		seen := map[string]bool{}
		for _, k := range keys {
			ef := s.effects[k]
			if !writeKinds[ef.kind] {
				continue
			}
			n++
			if ef.refOnly || isFreshTarget(ef.target) {
				continue
			}
			key := fmt.Sprintf("%s: %s", fnName(ef.fn), ef.descr())
			if seen[key] {
				continue
			}
			seen[key] = true
			bad++
			r.add("C16.REFPURE", key, ef.pos, Violated, "the replacement pass does more than replace a placeholder ("+ef.target.String()+"): this happens only for names that were still placeholders, i.e. for definitions that follow their use in the same load, and not when the definition was already in the root - the two arrangements then describe different schemas")
		}
	}
	r.check("C16.REFPURE", fnName(rt)+": only placeholder replacements", rt.Pos(), bad == 0, fmt.Sprintf("%d other write(s) among %d summarised writes", bad, n))
	r.floor("C16.REFPURE", "writes of the replacement pass examined", n, 5)
}

// c16ScanPure: what the scanner does with a type it has just bound depends on whether the name was already
// defined (an earlier load) or is still a placeholder (same document): the scanner may store the type, and
// nothing else. In particular no function reachable from the SDL scanner through static calls invokes an
// input coercer: a default "completed" through its type at scan time is completed for one arrangement of the
// definitions only.
func c16ScanPure(c *Ctx, r *Report) {
	r.rule("C16.SCANPURE", "no function reachable from the SDL scanner's methods by static calls invokes CoerceIn / CoerceOut")
	var roots []*ssa.Function
	for _, fn := range c.allFns {
		if recv := fn.Signature.Recv(); recv != nil && c.isNamed(recv.Type(), "sdlParser") {
			roots = append(roots, fn)
		}
	}
	if len(roots) == 0 {
		r.undecided("C16.SCANPURE", "anchors: sdlParser methods", token.NoPos, "not found")
		return
	}
	seen := map[*ssa.Function]bool{}
	var work []*ssa.Function
	for _, f := range roots {
		seen[f] = true
		work = append(work, f)
	}
	n := 0
	var bad []string
	var pos token.Pos
	for len(work) > 0 {
		fn := work[len(work)-1]
		work = work[:len(work)-1]
		n++
		for _, ci := range callsIn(fn) {
			cm := ci.Common()
			if cm.IsInvoke() && (cm.Method.Name() == "CoerceIn" || cm.Method.Name() == "CoerceOut") {
				bad = append(bad, fnName(fn))
				pos = ci.Pos()
			}
			if cal := cm.StaticCallee(); cal != nil && c.inPkg(cal) && !seen[cal] && len(cal.Blocks) > 0 {
				if cal.Name() == "CoerceIn" || cal.Name() == "CoerceOut" {
					bad = append(bad, fnName(fn))
					pos = ci.Pos()
					continue
				}
				seen[cal] = true
				work = append(work, cal)
			}
		}
	}
	sort.Strings(bad)
	r.check("C16.SCANPURE", "the SDL scanner coerces nothing through the types it binds", pos, len(bad) == 0,
		"a coercer is invoked at scan time in "+strings.Join(bad, ", ")+": the bound type is a definition only when it arrived in an earlier load and a placeholder otherwise, so the value stored differs between one document and two loads")
	r.floor("C16.SCANPURE", "functions reachable from the SDL scanner", n, 20)
}

// C16.IMPLIED: a root without a schema block gets its schema from the types named Query, Mutation and
// Subscription. That derivation is made by a function outside the reader that stores a Schema made there
// into Root.schema. If it can only run while Root.schema is nil, the schema derived by the first load is
// final: a Query type that arrives in a later load is not a root operation type, while the same definitions
// in one document make it one. The rule: the store is reachable on a path on which Root.schema is not nil
// (an implied schema left by an earlier load); that a declared schema cannot reach it is C17.ROOTS.
func c16Implied(c *Ctx, r *Report) {
	r.rule("C16.IMPLIED", "the function that derives the schema of a root without a schema block from the Query / Mutation / Subscription types can run again when an earlier load left a derived schema: the store of the derived Schema into Root.schema is reachable with Root.schema != nil")
	n := 0
	for _, fn := range c.allFns {
		if isScannerFn(c, fn) {
			continue
		}
		for _, b := range fn.Blocks {
			for _, in := range b.Instrs {
				st, ok := in.(*ssa.Store)
				if !ok {
					continue
				}
				fa, ok := st.Addr.(*ssa.FieldAddr)
				if !ok {
					continue
				}
				if o, f := fieldOwner(fa.X.Type(), fa.Field); o != "Root" || f != "schema" {
					continue
				}
				al := rootAlloc(st.Val)
				if al == nil || derefNamed(al.Type()) != "Schema" {
					continue
				}
				n++
				r.fnSeen(fnName(fn))
				// cut the edges on which Root.schema is known to be nil
				cut := map[[2]*ssa.BasicBlock]bool{}
				for _, bb := range fn.Blocks {
					if len(bb.Instrs) == 0 {
						continue
					}
					ifi, ok := bb.Instrs[len(bb.Instrs)-1].(*ssa.If)
					if !ok {
						continue
					}
					for i, succ := range bb.Succs {
						g := normGuard(guard{ifi.Cond, i == 0, ifi})
						if x, eq, isN := nilCmp(g.cond); isN && eq == g.val {
							if _, o, f, ok := loadOfField(x); ok && o == "Root" && f == "schema" {
								cut[[2]*ssa.BasicBlock{bb, succ}] = true
							}
						}
					}
				}
				seen := map[*ssa.BasicBlock]bool{fn.Blocks[0]: true}
				work := []*ssa.BasicBlock{fn.Blocks[0]}
				reach := false
				for len(work) > 0 {
					x := work[len(work)-1]
					work = work[:len(work)-1]
					if x == b {
						reach = true
						break
					}
					for _, s := range x.Succs {
						if !cut[[2]*ssa.BasicBlock{x, s}] && !seen[s] {
							seen[s] = true
							work = append(work, s)
						}
					}
				}
				// the test may stand at the call sites: the insertions of the default names may hang on a parameter
				// (derive), then some call that passes true for it is reachable with a schema in place
				if reach && fn.Object() != nil && !fn.Object().Exported() {
					need := map[int]bool{} // indexes of boolean parameters that must be true for a derivation
					for _, ci := range callsIn(fn) {
						cal := ci.Common().StaticCallee()
						if cal == nil || cal.Name() != "add" || recvName(cal) != "fieldList" || len(ci.Common().Args) < 2 || rootAlloc(ci.Common().Args[0]) != al {
							continue
						}
						added := ci.Common().Args[1]
						if elems, ok := sliceLitElems(added); ok && len(elems) == 1 {
							added = elems[0]
						}
						if rootAlloc(added) == nil {
							continue
						}
						for _, g := range blockGuards(ci.Block()) {
							g = normGuard(g)
							if pr, ok := g.cond.(*ssa.Parameter); ok && g.val {
								for i, p := range fn.Params {
									if p == pr {
										need[i] = true
									}
								}
							}
						}
					}
					reach = false
					for _, caller := range c.allFns {
						for _, cs := range callsIn(caller) {
							if cs.Common().StaticCallee() != fn {
								continue
							}
							passes := true
							for i := range need {
								if i < len(cs.Common().Args) {
									if k, ok := cs.Common().Args[i].(*ssa.Const); ok && k.Value != nil && k.Value.String() != "true" {
										passes = false
									}
								}
							}
							if !passes {
								continue
							}
							// reachable in the caller with Root.schema != nil
							cutC := map[[2]*ssa.BasicBlock]bool{}
							for _, bb := range caller.Blocks {
								if len(bb.Instrs) == 0 {
									continue
								}
								ifi, ok := bb.Instrs[len(bb.Instrs)-1].(*ssa.If)
								if !ok {
									continue
								}
								for i, succ := range bb.Succs {
									g := normGuard(guard{ifi.Cond, i == 0, ifi})
									if x, eq, isN := nilCmp(g.cond); isN && eq == g.val {
										if _, o, f, ok := loadOfField(x); ok && o == "Root" && f == "schema" {
											cutC[[2]*ssa.BasicBlock{bb, succ}] = true
										}
									}
								}
							}
							seenC := map[*ssa.BasicBlock]bool{caller.Blocks[0]: true}
							workC := []*ssa.BasicBlock{caller.Blocks[0]}
							for len(workC) > 0 {
								x := workC[len(workC)-1]
								workC = workC[:len(workC)-1]
								if x == cs.Block() {
									reach = true
									break
								}
								for _, s2 := range x.Succs {
									if !cutC[[2]*ssa.BasicBlock{x, s2}] && !seenC[s2] {
										seenC[s2] = true
										workC = append(workC, s2)
									}
								}
							}
						}
					}
				}
				r.check("C16.IMPLIED", fmt.Sprintf("%s: the derived schema is made again when an earlier load left one", fnName(fn)), st.Pos(), reach,
					"the schema is derived only while Root.schema is nil: after a first load without a Query type, a Query type defined in a later load is not a root operation type, although the same definitions in one document make it one")
				// what the application registered on the previous derived schema (its Go type) is carried over
				carried := false
				for _, b2 := range fn.Blocks {
					for _, in2 := range b2.Instrs {
						st2, ok := in2.(*ssa.Store)
						if !ok {
							continue
						}
						fa2, ok := st2.Addr.(*ssa.FieldAddr)
						if !ok {
							continue
						}
						if _, f2 := fieldOwner(fa2.X.Type(), fa2.Field); f2 != "meta" || rootAlloc(fa2.X) != al {
							continue
						}
						if _, _, lf, ok := loadOfField(st2.Val); ok && lf == "meta" {
							carried = true
						}
					}
				}
				r.check("C16.IMPLIED", fmt.Sprintf("%s: the Go type registered for the schema is carried over to the schema derived again", fnName(fn)), st.Pos(), carried,
					"the schema derived again starts without the Go type the application registered for the previous one: RegisterType(x, \"\") before a load and after it differ, and a second registration of another type is accepted")
				// only a load derives again: anywhere else the derivation is for a root that has no schema yet. A
				// function that calls a deriving function without that test derives too; a function that puts a
				// saved schema back is a load; an exported function that derives without being a load is the finding
				restores := func(f *ssa.Function) bool {
					for _, b3 := range f.Blocks {
						for _, in3 := range b3.Instrs {
							if st3, ok := in3.(*ssa.Store); ok {
								if fa3, ok := st3.Addr.(*ssa.FieldAddr); ok {
									if o3, f3 := fieldOwner(fa3.X.Type(), fa3.Field); o3 == "Root" && f3 == "schema" && rootAlloc(st3.Val) == nil {
										if _, isCall := st3.Val.(*ssa.Call); !isCall {
											return true
										}
									}
								}
							}
						}
					}
					return false
				}
				derives := map[*ssa.Function]string{fn: fnName(fn)}
				for changed := true; changed; {
					changed = false
					for _, caller := range c.allFns {
						if _, ok := derives[caller]; ok || restores(caller) {
							continue
						}
						for _, ci := range callsIn(caller) {
							cal := ci.Common().StaticCallee()
							chain, ok := derives[cal]
							if cal == nil || !ok {
								continue
							}
							guardedNil := hasGuard(ci.Block(), func(g guard) bool {
								g = normGuard(g)
								x, eq, isN := nilCmp(g.cond)
								if !isN || eq != g.val {
									return false
								}
								_, o, f, ok := loadOfField(x)
								return ok && o == "Root" && f == "schema"
							})
							if guardedNil {
								continue
							}
							derives[caller] = fnName(caller) + " -> " + chain
							changed = true
							break
						}
					}
				}
				var ds []*ssa.Function
				for f := range derives {
					ds = append(ds, f)
				}
				sort.Slice(ds, func(i, j int) bool { return fnName(ds[i]) < fnName(ds[j]) })
				for _, f := range ds {
					if f.Object() == nil || !f.Object().Exported() {
						continue
					}
					r.flag("C16.IMPLIED", fmt.Sprintf("%s: outside a load the schema is derived only for a root that has none", fnName(f)), f.Pos(),
						"a registration replaces the derived schema by a new one ("+derives[f]+", none of the calls under Root.schema == nil): what was registered before is on an object that is no longer the root's schema")
				}
				r.check("C16.IMPLIED", fmt.Sprintf("%s: the functions that reach the derivation with a schema in place are loads", fnName(fn)), st.Pos(), true, "")
				// what an earlier derivation supplied is not taken over as if an extension had given it: the fields
				// copied from the previous schema are those its record of derived fields does not name
				nCopy, okCopy := 0, true
				for _, ci := range callsIn(fn) {
					cal := ci.Common().StaticCallee()
					if cal == nil || cal.Name() != "add" || recvName(cal) != "fieldList" || len(ci.Common().Args) < 2 {
						continue
					}
					if rootAlloc(ci.Common().Args[0]) != al {
						continue
					}
					// the added value comes out of the previous schema's field list (not a fresh definition)
					added := ci.Common().Args[1]
					if elems, ok := sliceLitElems(added); ok && len(elems) == 1 {
						added = elems[0] // add(defs ...*FieldDef)
					}
					if fresh := rootAlloc(added); fresh != nil {
						continue
					}
					nCopy++
					filtered := hasGuard(ci.Block(), func(g guard) bool {
						g = normGuard(g)
						lk, ok := g.cond.(*ssa.Lookup)
						if !ok || g.val {
							return false
						}
						_, o, _, ok := loadOfField(lk.X)
						return ok && o == "Schema"
					})
					if !filtered {
						okCopy = false
					}
				}
				r.check("C16.IMPLIED", fmt.Sprintf("%s: fields taken over from the previous derived schema are those an extension gave", fnName(fn)), st.Pos(), nCopy == 0 || okCopy,
					"the schema derived again takes over every field of the previous one, derived ones included: `extend schema { mutation: Mutation }` in a load after the one that brought the Mutation type is refused as a duplicate, in the same load it is accepted; `extend schema { mutation: Other }` is refused in one arrangement and decides the operation type in the other")
				// ... and an extension of a derived schema is applied to one made for this load, not to the previous one
				for _, ext := range c.allFns {
					for _, b4 := range ext.Blocks {
						for _, in4 := range b4.Instrs {
							mi, ok := in4.(*ssa.MakeInterface)
							if !ok || derefNamed(mi.X.Type()) != "Schema" || !c.isNamed(mi.Type(), "Type") {
								continue
							}
							// only where the interface is the target of an Extend
							isTarget := false
							seenV := map[ssa.Value]bool{}
							var uses func(v ssa.Value)
							uses = func(v ssa.Value) {
								if seenV[v] || v.Referrers() == nil {
									return
								}
								seenV[v] = true
								for _, ref := range *v.Referrers() {
									switch t := ref.(type) {
									case *ssa.Phi:
										uses(t)
									case ssa.CallInstruction:
										if cm := t.Common(); cm.IsInvoke() && cm.Value == v && cm.Method.Name() == "Extend" {
											isTarget = true
										}
									}
								}
							}
							uses(mi)
							if !isTarget {
								continue
							}
							leaves, _ := phiLeaves(mi.X)
							inPlace := ""
							for _, lf := range leaves {
								if ex, ok := lf.val.(*ssa.Call); ok {
									if _, isD := derives[ex.Call.StaticCallee()]; isD {
										continue
									}
								}
								if _, o, f, ok := loadOfField(lf.val); ok && o == "Root" && f == "schema" {
									// the previous schema itself: only when it is a declared one
									var gs []guard
									if lf.pred != nil {
										gs = edgeGuards(lf.pred, lf.phi.Block())
									} else {
										gs = blockGuards(b4)
									}
									declared := false
									for _, g := range gs {
										g = normGuard(g)
										if _, o2, f2, ok := loadOfField(g.cond); ok && o2 == "Schema" && f2 == "implied" && !g.val {
											declared = true
										}
									}
									if !declared {
										inPlace = "Root.schema"
									}
									continue
								}
								inPlace = shortPath(vpath(lf.val))
							}
							r.check("C16.IMPLIED", fmt.Sprintf("%s: an extension of a derived schema is applied to a schema made for this load", fnName(ext)), mi.Pos(), inPlace == "",
								"the extension is merged into "+inPlace+", which may be the schema an earlier load derived, derived fields included: the same definitions are then accepted or refused depending on how they are split over loads")
						}
					}
				}
			}
		}
	}
	r.floor("C16.IMPLIED", "derivations of an undeclared schema outside the reader", n, 1)
}
