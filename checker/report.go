package main

// Obligations, evidence files, known findings and the output contract.

import (
	"crypto/sha1"
	"encoding/hex"
	"encoding/json"
	"fmt"
	"go/token"
	"os"
	"path/filepath"
	"sort"
	"strings"
	"time"
)

type Status string

const (
	Discharged Status = "discharged"
	Violated   Status = "violated"
	Known      Status = "known"
	Undecided  Status = "undecided"
)

// Obligation is the unit of work: (rule, construct). Keys never contain line
// numbers; lines are reported, never matched.
type Obligation struct {
	Rule   string   `json:"rule"`
	Key    string   `json:"construct"`
	Pos    string   `json:"pos"`
	Status Status   `json:"status"`
	Detail string   `json:"detail,omitempty"`
	Path   []string `json:"path,omitempty"`
	// an instance of something that must not occur at all ("the registry is written outside ..."): when nothing
	// of the kind occurs there is no obligation under this key
	NegOnly bool `json:"-"`
}

type Floor struct {
	Rule  string `json:"rule"`
	What  string `json:"what"`
	Found int    `json:"found"`
	Min   int    `json:"min"`
}

type Control struct {
	Name     string `json:"name"`
	Rule     string `json:"rule"`
	Kind     string `json:"kind"` // mutant | benign
	Result   string `json:"result"`
	Expected string `json:"expected"`
	Detail   string `json:"detail,omitempty"`
}

type Report struct {
	Property    string
	Tier        string
	c           *Ctx
	Obls        []Obligation
	Floors      []Floor
	Controls    []Control
	Rules       map[string]string // rule id -> text
	ruleOrder   []string
	Notes       []string
	Tables      map[string]interface{}
	FuncsSeen   map[string]bool
	Explanation string
	NotDecided  string
	seenKeys    map[string]bool
	overlay     map[string][]byte // the normal form the report was made on, nil for the text as written
}

func newReport(prop, tier string, c *Ctx) *Report {
	return &Report{Property: prop, Tier: tier, c: c, Rules: map[string]string{}, Tables: map[string]interface{}{}, FuncsSeen: map[string]bool{}, seenKeys: map[string]bool{}}
}

func (r *Report) rule(id, text string) {
	if _, ok := r.Rules[id]; !ok {
		r.ruleOrder = append(r.ruleOrder, id)
	}
	r.Rules[id] = text
}

func (r *Report) add(rule, key string, pos token.Pos, st Status, detail string, path ...string) {
	k := rule + "|" + key
	if r.seenKeys[k] {
		// keep keys unique: the same construct examined twice keeps the worse status
		for i := range r.Obls {
			if r.Obls[i].Rule == rule && r.Obls[i].Key == key {
				if st != Discharged && r.Obls[i].Status == Discharged {
					r.Obls[i].Status = st
					r.Obls[i].Detail = detail
					r.Obls[i].Pos = r.c.pos(pos)
					r.Obls[i].Path = path
				}
				return
			}
		}
	}
	r.seenKeys[k] = true
	r.Obls = append(r.Obls, Obligation{Rule: rule, Key: key, Pos: r.c.pos(pos), Status: st, Detail: detail, Path: path})
}

// ok/bad helpers.
func (r *Report) check(rule, key string, pos token.Pos, ok bool, detail string, path ...string) bool {
	if ok {
		r.add(rule, key, pos, Discharged, detail, path...)
	} else {
		r.add(rule, key, pos, Violated, detail, path...)
	}
	return ok
}

// flag reports an occurrence of something the rule forbids outright; there is no discharged twin of it.
func (r *Report) flag(rule, key string, pos token.Pos, detail string, path ...string) {
	r.add(rule, key, pos, Violated, detail, path...)
	for i := range r.Obls {
		if r.Obls[i].Rule == rule && r.Obls[i].Key == key {
			r.Obls[i].NegOnly = true
		}
	}
}

func (r *Report) undecided(rule, key string, pos token.Pos, detail string) {
	r.add(rule, key, pos, Undecided, detail)
}

func (r *Report) floor(rule, what string, found, min int) {
	r.Floors = append(r.Floors, Floor{rule, what, found, min})
	if found < min {
		r.add(rule, "floor: "+what, token.NoPos, Undecided, fmt.Sprintf("rule matched %d < floor %d instances (%s); a rule that matches nothing would pass vacuously", found, min, what))
	}
}

func (r *Report) fnSeen(names ...string) {
	for _, n := range names {
		r.FuncsSeen[n] = true
	}
}

// ---- known findings -------------------------------------------------------

type KnownFinding struct {
	Property string `json:"property"`
	Rule     string `json:"rule"`
	Key      string `json:"construct"`
	What     string `json:"what"`
	Witness  string `json:"witness"`
}

type KnownFile struct {
	Findings []KnownFinding `json:"findings"`
	Fixed    []string       `json:"fixed"`
}

func loadKnown(path string) (*KnownFile, error) {
	b, err := os.ReadFile(path)
	if err != nil {
		if os.IsNotExist(err) {
			return &KnownFile{}, nil
		}
		return nil, err
	}
	var k KnownFile
	if err := json.Unmarshal(b, &k); err != nil {
		return nil, fmt.Errorf("%s: %w", path, err)
	}
	return &k, nil
}

// ---- finish: evidence + output contract ------------------------------------

var commonAssumptions = []string{
	"Application-implemented callees (Resolver.Resolve, AnyResolver.*, ListResolver.*, Subscriber.*, Nester.Nest, custom coercers, io.Reader/Writer, reflected methods) are opaque: assumed to terminate, not to re-enter Root, and not to mutate library-owned memory.",
	"The Go type checker, go/ssa, go/cfg and callgraph/{cha,vta} of golang.org/x/tools v0.29.0 are trusted.",
	"Only the structural clauses named in coverage.explanation are decided; runtime values (leaf equality, response equality, histories, interleavings) are not.",
	"Access paths are compared structurally and flow-insensitively for intervening stores.",
}

func (r *Report) finish(verifDir string, known *KnownFile, wall time.Duration, seed int, extra map[string]interface{}) int {
	// match known findings
	kidx := map[string]KnownFinding{}
	for _, k := range known.Findings {
		if k.Property == r.Property {
			kidx[k.Rule+"|"+k.Key] = k
		}
	}
	usedKnown := map[string]bool{}
	for i := range r.Obls {
		o := &r.Obls[i]
		if o.Status == Violated {
			if _, ok := kidx[o.Rule+"|"+o.Key]; ok {
				o.Status = Known
				usedKnown[o.Rule+"|"+o.Key] = true
			}
		}
	}
	sort.SliceStable(r.Obls, func(i, j int) bool {
		if r.Obls[i].Rule != r.Obls[j].Rule {
			return r.Obls[i].Rule < r.Obls[j].Rule
		}
		return r.Obls[i].Key < r.Obls[j].Key
	})
	var nDis, nKnown, nViol, nUnd int
	constructs := map[string]bool{}
	for _, o := range r.Obls {
		switch o.Status {
		case Discharged:
			nDis++
		case Known:
			nKnown++
		case Violated:
			nViol++
		case Undecided:
			nUnd++
		}
		if !strings.HasPrefix(o.Key, "floor:") {
			constructs[o.Key] = true
		}
	}
	violDir := filepath.Join(verifDir, "evidence", "violations")
	exit := 0
	var lines []string
	for _, o := range r.Obls {
		switch o.Status {
		case Known:
			k := kidx[o.Rule+"|"+o.Key]
			lines = append(lines, fmt.Sprintf("KNOWN-FINDING: property=%s %s %s (%s): %s", r.Property, o.Rule, o.Key, o.Pos, k.What))
		case Violated, Undecided:
			exit = 1
			_ = os.MkdirAll(violDir, 0o755)
			h := sha1.Sum([]byte(o.Rule + "|" + o.Key))
			fn := filepath.Join(violDir, fmt.Sprintf("%s-%s-%s.json", r.Property, strings.ReplaceAll(o.Rule, ".", "_"), hex.EncodeToString(h[:4])))
			rep := map[string]interface{}{
				"property": r.Property, "rule": o.Rule, "rule_text": r.Rules[o.Rule], "construct": o.Key,
				"pos": o.Pos, "status": o.Status, "detail": o.Detail, "path": o.Path,
			}
			b, _ := json.MarshalIndent(rep, "", " ")
			_ = os.WriteFile(fn, b, 0o644)
			lines = append(lines, fmt.Sprintf("%s %s | %s | %s | %s", strings.ToUpper(string(o.Status)), o.Rule, o.Key, o.Pos, o.Detail))
			lines = append(lines, fmt.Sprintf("VIOLATION property=%s replay=%s", r.Property, fn))
		}
	}
	// stale known findings are reported (informational): the defect went away or the key changed
	for k, kf := range kidx {
		if !usedKnown[k] {
			lines = append(lines, fmt.Sprintf("NOTE: known finding %s %q no longer reported on this tree", kf.Rule, kf.Key))
		}
	}
	for _, ctl := range r.Controls {
		if ctl.Result != ctl.Expected && ctl.Result != "anchor-missing" {
			lines = append(lines, fmt.Sprintf("CONTROL-MISBEHAVED: %s (%s) expected %s got %s %s", ctl.Name, ctl.Rule, ctl.Expected, ctl.Result, ctl.Detail))
		}
	}
	// evidence
	samples := []interface{}{}
	for _, o := range r.Obls {
		samples = append(samples, o)
	}
	var rulesOut []map[string]string
	for _, id := range r.ruleOrder {
		rulesOut = append(rulesOut, map[string]string{"id": id, "text": r.Rules[id]})
	}
	var fns []string
	for f := range r.FuncsSeen {
		fns = append(fns, f)
	}
	sort.Strings(fns)
	cov := map[string]interface{}{
		"explanation":         r.Explanation,
		"not_decided":         r.NotDecided,
		"obligations":         len(r.Obls),
		"discharged":          nDis,
		"known":               nKnown,
		"violated":            nViol,
		"undecided":           nUnd,
		"evaluations":         len(r.Obls),
		"distinct_nontrivial": len(constructs),
		"rule":                "one obligation per (rule, construct) enumerated from /repo's type-checked AST / SSA / call graph on this run; distinct_nontrivial counts distinct constructs (function, call site, loop, case, field) for which an AST/SSA/CFG fact was actually examined; floor placeholders are excluded",
		"samples":             samples,
		"rules":               rulesOut,
		"floors":              r.Floors,
		"controls":            r.Controls,
		"functions_analysed":  fns,
		"tables":              r.Tables,
		"notes":               r.Notes,
		"callgraph":           map[string]interface{}{"algorithm": map[bool]string{false: "static+CHA", true: "static+CHA and VTA"}[r.c.cgVTA != nil], "nodes": len(r.c.cg.Nodes)},
		"packages":            []string{ggqlPath, genPath},
		"checker_cmd":         fmt.Sprintf("./bin/ggqlcheck -property %s -tier %s", r.Property, r.Tier),
		"trusted_base":        []string{"go/types", "golang.org/x/tools v0.29.0 go/packages, go/ssa, go/cfg, callgraph/cha, callgraph/vta", "frozen tables printed under coverage.tables"},
		"exhaustive":          false,
	}
	for k, v := range extra {
		cov[k] = v
	}
	ev := map[string]interface{}{
		"property_id": r.Property,
		"tier":        r.Tier,
		"seed":        seed,
		"level":       "other",
		"coverage":    cov,
		"assumptions": commonAssumptions,
		"wall_s":      wall.Seconds(),
		"violations":  nViol + nUnd,
	}
	_ = os.MkdirAll(filepath.Join(verifDir, "evidence"), 0o755)
	b, _ := json.MarshalIndent(ev, "", " ")
	if err := os.WriteFile(filepath.Join(verifDir, "evidence", r.Property+".json"), b, 0o644); err != nil {
		fmt.Fprintln(os.Stderr, "cannot write evidence:", err)
		return 2
	}
	fmt.Printf("%s %s: %d obligations: %d discharged, %d known, %d violated, %d undecided; %d constructs; %d functions analysed; %.2fs\n",
		r.Property, r.Tier, len(r.Obls), nDis, nKnown, nViol, nUnd, len(constructs), len(fns), wall.Seconds())
	for _, l := range lines {
		fmt.Println(l)
	}
	return exit
}
