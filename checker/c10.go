package main

import (
	"fmt"
	"go/token"
	"go/types"
	"os"
	"sort"
	"strings"

	"golang.org/x/tools/go/ssa"
)

func init() {
	register("C10", checkC10,
		"Must-pass-through and exhaustiveness conditions for undefined names: (FIELD) every application resolver invocation (Resolver, AnyResolver, reflection) is dominated by fd != nil for fd = field-definition lookup of (container type, field name); (KINDS) container kinds the dispatcher can enter are a subset of the kinds the field lookup knows, which are a subset of the kinds for which unknown arguments are checked; (ARG) the argument builder stores a value under an argument name only if the field declares it or an error is appended; (REQ) the required-argument scan covers all declared arguments and reports every missing one; (DIRS) every request node kind that carries directives validates each use with its own location through validateDirUse, Executable.Validate reaches all of them, and validateDirUse rejects unknown directives, wrong locations and unknown arguments; (COND) every parsed type condition is checked for being an undefined-type placeholder; (PRE) resolution is entered only when parsing and validation returned no error.",
		"That valid sibling selections are still resolved (values), and that error messages name the offender (message text).")
}

func checkC10(c *Ctx, r *Report) {
	r.rule("C10.FIELD", "resolver invocation dominated by fd != nil, fd = lookup(t, field.Name)")
	r.rule("C10.KINDS", "kinds(dispatcher enters selection sets) ⊆ kinds(field lookup); undeclared arguments are rejected independently of the container kind by C10.ARG")
	r.rule("C10.ARGCHK", "the argument check that reorders field.Args into declared slots (dropping the rest) reports every supplied argument whose lookup fails, unconditionally")
	r.rule("C10.ARG", "a store args[name] in the argument builder is control-dependent on the argument being declared, or an error is appended for it")
	r.rule("C10.REQ", "required scan: range over all declared args with *NonNull test; every unsatisfied entry appends an error; satisfied only when a non-nil value was supplied")
	r.rule("C10.DIRS", "each of Op, Field, Inline, Fragment, FragRef, VarDef has a Validate that loops over its directive uses calling validateDirUse(.., Locate(receiver), du); all are reachable from Executable.Validate; validateDirUse has the three rejections")
	r.rule("C10.COND", "a readType result stored as a fragment type condition is first rejected when it is a *Ref placeholder")
	r.rule("C10.PRE", "ResolveExecutable is called from the library only under err == nil of ParseExecutableReader, whose error covers parse and validation errors")
	a := c.anchors()
	if !requireAnchors(r, "C10.FIELD", a) {
		return
	}
	c10Field(c, r, a)
	c10Static(c, r, a)
	c10DirReq(c, r)
	c10Kinds(c, r, a)
	c10Arg(c, r, a)
	c10Req(c, r, a, "C10.REQ")
	c10ArgFrozen(c, r, a)
	if ev, w := c.skipEval(), c.selWalker(); ev != nil && w != nil {
		importRulesFrom(c, r, "C09", func(c *Ctx, sub *Report) { c09Only(c, sub, w, ev, c.resolverReaching()) }, "C10.EVERYSEL", "every selection the directives do not exclude is dispatched, and so checked for existence and arguments (C09.ONLY): a selection passed over because its response key is already present is never looked at", "C09.ONLY")
	}
	importRulesFrom(c, r, "C04", func(c *Ctx, sub *Report) { c04Arms(c, sub, a) }, "C10.REQVAR", "a required argument given as a variable is only refused through the coercion of the variable's value to the argument's declared type (NonNull.CoerceIn of nil): the substitution arm for variables coerces on every path on which a declared type exists (C04.ARMS)", "C04.ARMS")
	c10Dirs(c, r)
	c10Cond(c, r)
	c10Pre(c, r, a, "C10.PRE")
}

func c10Field(c *Ctx, r *Report, a *Anchors) {
	fn := a.field
	// fd = call getFD(t, field.Name)
	var fdCall *ssa.Call
	for _, ci := range callsIn(fn) {
		if ci.Common().StaticCallee() == a.getFD {
			fdCall, _ = ci.(*ssa.Call)
		}
	}
	if fdCall == nil {
		r.undecided("C10.FIELD", fnName(fn)+": field definition lookup call", fn.Pos(), "not found")
		return
	}
	// lookup arguments: container type parameter and field.Name
	var tP, fieldP *ssa.Parameter
	for _, p := range fn.Params {
		if c.isNamed(p.Type(), "Type") {
			tP = p
		}
		if c.isNamed(p.Type(), "Field") {
			fieldP = p
		}
	}
	argsOK := false
	ex := explicitArgs(fdCall)
	if len(ex) == 2 {
		base, _, f, ok := loadOfField(ex[1])
		argsOK = stripIface(ex[0]) == tP && ok && f == "Name" && base == fieldP
	}
	r.check("C10.FIELD", fnName(fn)+": lookup uses the container type and the field's name", fdCall.Pos(), argsOK, "the field definition must be looked up in the container type handed to the field resolver under field.Name")
	n := 0
	for _, ci := range callsIn(fn) {
		isInv := c.isResolverInvoke(ci)
		isRefl := ci.Common().StaticCallee() == a.reflectRes
		if !isInv && !isRefl {
			continue
		}
		n++
		name := "reflection resolver"
		if isInv {
			name = calleeDesc(ci.(*ssa.Call))
		}
		ok := hasGuard(ci.Block(), func(g guard) bool { return guardSaysNonNil(g, fdCall) })
		r.check("C10.FIELD", fmt.Sprintf("%s: invocation of %s requires a field definition", fnName(fn), name), ci.Pos(), ok, "the invocation is not dominated by fd != nil: a field the container type does not define would reach the application resolver")
	}
	r.floor("C10.FIELD", "resolver invocations in the field resolver", n, 3)
}

func kindSet(fn *ssa.Function, x ssa.Value, filter func(ta *ssa.TypeAssert) bool) map[string]bool {
	out := map[string]bool{}
	for _, b := range fn.Blocks {
		for _, in := range b.Instrs {
			if ta, ok := in.(*ssa.TypeAssert); ok && (x == nil || sameVal(stripIface(ta.X), x)) {
				if filter == nil || filter(ta) {
					out[typeStr(ta.AssertedType)] = true
				}
			}
		}
	}
	return out
}

func keys(m map[string]bool) []string {
	var o []string
	for k := range m {
		o = append(o, k)
	}
	sort.Strings(o)
	return o
}

func c10Kinds(c *Ctx, r *Report, a *Anchors) {
	// kinds for which the dispatcher enters a selection set: case types reaching a call to fieldSels with the static type
	var tP *ssa.Parameter
	for _, p := range a.dispatch.Params {
		if c.isNamed(p.Type(), "Type") {
			tP = p
		}
	}
	enter := map[string]bool{}
	tAlias := wrapperAliases(a.dispatch, tP)
	isT := func(v ssa.Value) bool { return tAlias[stripIface(v)] }
	for _, ci := range callsIn(a.dispatch) {
		if ci.Common().StaticCallee() != a.fieldSels {
			continue
		}
		// the container type may be picked in the arms and handed on in one place: each value where it was picked
		for _, arg := range ci.Common().Args {
			if !c.isNamed(arg.Type(), "Type") {
				continue
			}
			leaves := phiLeavesUntil(stripIface(arg), isT)
			for _, lf := range leaves {
				if isNilConst(lf.val) {
					continue
				}
				at := ci.Block()
				if lf.pred != nil {
					at = lf.pred
				}
				if os.Getenv("C10_DEBUG") != "" {
					fmt.Fprintln(os.Stderr, "leaf", lf.val, "at", at.Index, "isT", isT(lf.val), "kinds", caseTypesOf(at, isT), "aliases", len(tAlias))
				}
				for _, t := range caseTypesOf(at, isT) {
					enter[typeStr(t)] = true
				}
				if lf.pred != nil && len(lf.pred.Instrs) > 0 {
					if ifi, ok := lf.pred.Instrs[len(lf.pred.Instrs)-1].(*ssa.If); ok && lf.pred.Succs[0] == lf.phi.Block() {
						if f, ok := assertFactOf(guard{ifi.Cond, true, ifi}); ok && f.holds && isT(f.x) {
							enter[typeStr(f.t)] = true
						}
					}
				}
				// union arm: members are objects
				if !isT(lf.val) {
					enter["*Object"] = true
				}
			}
		}
	}
	delete(enter, "*Union")
	if os.Getenv("C10_DEBUG") != "" {
		fmt.Fprintln(os.Stderr, "C10.KINDS enter:", enter)
	}
	var gP *ssa.Parameter
	for _, p := range a.getFD.Params {
		if c.isNamed(p.Type(), "Type") {
			gP = p
		}
	}
	known := kindSet(a.getFD, gP, nil)
	// unknown-argument check: function(s) appending "is not an argument" style errors keyed on ConType: the
	// method called from the field resolver that returns []error and reads field.ConType
	var argCheck *ssa.Function
	for _, ci := range callsIn(a.field) {
		cal := ci.Common().StaticCallee()
		if cal != nil && c.inPkg(cal) && cal.Signature.Recv() != nil && c.isNamed(cal.Signature.Recv().Type(), "Field") && cal.Signature.Results().Len() == 1 && isErrSlice(cal.Signature.Results().At(0).Type()) {
			argCheck = cal
		}
	}
	checked := map[string]bool{}
	if argCheck != nil {
		c.markRole(argCheck)
		r.fnSeen(fnName(argCheck))
		for _, b := range argCheck.Blocks {
			for _, in := range b.Instrs {
				if ta, ok := in.(*ssa.TypeAssert); ok {
					if _, _, f, ok := loadOfField(ta.X); ok && f == "ConType" {
						checked[typeStr(ta.AssertedType)] = true
					}
				}
			}
		}
	}
	r.Tables["container_kinds"] = map[string][]string{"dispatcher enters": keys(enter), "field lookup knows": keys(known), "argument reordering covers": keys(checked)}
	for _, k := range keys(enter) {
		r.check("C10.KINDS", fmt.Sprintf("container kind %s: known to the field lookup", k), a.getFD.Pos(), known[k], "the dispatcher resolves selections under this kind but the field lookup has no case for it: every field under it would be reported undefined (or, if looked up elsewhere, escape the existence check)")
	}
	// the argument check that drops undeclared arguments (reorders field.Args into declared slots) must
	// report each of them; the report may not be gated by a comparison of two lengths (regression of the
	// defect fixed in 878f75c: equal counts hid an undeclared argument)
	if argCheck != nil {
		n := 0
		for _, b := range argCheck.Blocks {
			for _, in := range b.Instrs {
				call, ok := in.(*ssa.Call)
				if !ok || !isBuiltinCall(call, "append") || !isErrSlice(call.Type()) {
					continue
				}
				n++
				gated := ""
				for _, g := range blockGuards(b) {
					g = normGuard(g)
					bo, ok := g.cond.(*ssa.BinOp)
					if !ok {
						continue
					}
					_, xl := isLenOf(bo.X)
					_, yl := isLenOf(bo.Y)
					if xl && yl {
						gated = "len(..) " + bo.Op.String() + " len(..)"
					}
				}
				undecl := hasGuard(b, func(g guard) bool {
					v, eq, ok := nilCmp(g.cond)
					if !ok || eq != g.val {
						return false
					}
					cl, ok := v.(*ssa.Call)
					return ok && c.isNamed(cl.Type(), "Arg")
				})
				r.check("C10.ARGCHK", fmt.Sprintf("%s: undeclared-argument report #%d is unconditional", fnName(argCheck), n), call.Pos(), undecl && gated == "",
					"the report must depend only on the argument lookup failing; gated by "+gated)
			}
		}
		r.floor("C10.ARGCHK", "undeclared-argument reports in the argument check", n, 1)
		// it must look every supplied argument up
		loops := loopsOf(argCheck)
		nLook := 0
		for _, ci := range callsIn(argCheck) {
			if cl, ok := ci.(*ssa.Call); ok && c.isNamed(cl.Type(), "Arg") && innermostLoop(loops, cl.Block()) != nil {
				nLook++
			}
		}
		r.check("C10.ARGCHK", fnName(argCheck)+": looks up every supplied argument in the field definition", argCheck.Pos(), nLook >= 1, "no declared-argument lookup inside a loop over the supplied arguments")
	} else {
		r.undecided("C10.ARGCHK", "anchor: argument check ((*Field) method returning []error called by the field resolver)", a.field.Pos(), "not found")
	}
	r.floor("C10.KINDS", "container kinds entered by the dispatcher", len(enter), 4)
}

func c10Arg(c *Ctx, r *Report, a *Anchors) {
	fn := a.formArgs
	n := 0
	for _, b := range fn.Blocks {
		for _, in := range b.Instrs {
			mu, ok := in.(*ssa.MapUpdate)
			if !ok || !isStrIfaceMap(mu.Map.Type()) {
				continue
			}
			n++
			// declared: guarded by non-nil result of an argument lookup by this name, or an error append on the undeclared path
			declared := hasGuard(b, func(g guard) bool {
				v, eq, ok := nilCmp(g.cond)
				if !ok || eq == g.val {
					return false
				}
				if lk, isL := v.(*ssa.Lookup); isL && isArgDict(lk.X) {
					return true
				}
				call, ok := v.(*ssa.Call)
				return ok && c.isNamed(call.Type(), "Arg")
			})
			reported := false
			if !declared {
				// is there an error append control dependent on the lookup being nil?
				for _, b2 := range fn.Blocks {
					for _, in2 := range b2.Instrs {
						call, ok := in2.(*ssa.Call)
						if !ok || !isBuiltinCall(call, "append") || !isErrSlice(call.Type()) {
							continue
						}
						if hasGuard(b2, func(g guard) bool {
							v, eq, ok := nilCmp(g.cond)
							if !ok || eq != g.val {
								return false
							}
							if lk, isL := v.(*ssa.Lookup); isL && isArgDict(lk.X) {
								return true
							}
							cl, ok := v.(*ssa.Call)
							return ok && c.isNamed(cl.Type(), "Arg")
						}) {
							reported = true
						}
					}
				}
			}
			r.check("C10.ARG", fmt.Sprintf("%s: argument store #%d is for a declared argument or reported", fnName(fn), n), mu.Pos(), declared || reported, "a value is stored under an argument name without the field declaring that argument and without an error: an undeclared argument reaches the resolver (the separate check in sortArgs only covers *Object containers)")
		}
	}
	r.floor("C10.ARG", "argument stores in the argument builder", n, 1)
}

// c10Req is shared with C04.REQ.
func c10Req(c *Ctx, r *Report, a *Anchors, rule string) {
	fn := a.formArgs
	// required map: MakeMap of map[string]bool
	var req *ssa.MakeMap
	for _, b := range fn.Blocks {
		for _, in := range b.Instrs {
			if mm, ok := in.(*ssa.MakeMap); ok {
				if m, ok := mm.Type().Underlying().(*types.Map); ok {
					if bt, ok := m.Elem().Underlying().(*types.Basic); ok && bt.Kind() == types.Bool {
						req = mm
					}
				}
			}
		}
	}
	if req == nil {
		r.undecided(rule, fnName(fn)+": required-argument table", fn.Pos(), "no map[string]bool allocation found")
		return
	}
	var regFalse, setTrue, scan bool
	var posReg, posTrue, posScan token.Pos
	for _, ref := range *req.Referrers() {
		switch t := ref.(type) {
		case *ssa.MapUpdate:
			k, isC := t.Value.(*ssa.Const)
			if !isC {
				continue
			}
			if k.Value.String() == "false" {
				// inside a range over fd.args.dict guarded by *NonNull assertion
				overDict := false
				if ex, ok := t.Key.(*ssa.Extract); ok {
					if nx, ok := ex.Tuple.(*ssa.Next); ok {
						if rg, ok := nx.Iter.(*ssa.Range); ok {
							if isArgDict(rg.X) {
								overDict = true
							}
						}
					}
				}
				nn := false
				for _, f := range assertFacts(t.Block()) {
					if f.holds && derefNamed(f.t) == "NonNull" {
						nn = true
					}
				}
				if overDict && nn {
					regFalse = true
				}
				posReg = t.Pos()
			} else {
				// satisfied only when a non-nil value was supplied
				ok := hasGuard(t.Block(), func(g guard) bool {
					v, eq, ok := nilCmp(g.cond)
					if !ok || eq == g.val {
						return false
					}
					_, _, f, ok := loadOfField(v)
					return ok && f == "Value"
				})
				setTrue = ok
				posTrue = t.Pos()
			}
		case *ssa.Range:
			// the report loop: an error append guarded by value == false
			for _, b := range fn.Blocks {
				for _, in := range b.Instrs {
					call, ok := in.(*ssa.Call)
					if !ok || !isBuiltinCall(call, "append") || !isErrSlice(call.Type()) {
						continue
					}
					if hasGuard(b, func(g guard) bool {
						ex, ok := g.cond.(*ssa.Extract)
						if !ok || g.val {
							return false
						}
						nx, ok := ex.Tuple.(*ssa.Next)
						return ok && nx.Iter == t
					}) {
						scan = true
						posScan = call.Pos()
					}
				}
			}
		}
	}
	r.check(rule, fnName(fn)+": every declared non-null argument is registered as required", firstPos(posReg, fn.Pos()), regFalse, "the required table must be filled by ranging over all declared arguments (fd.args.dict) with a *NonNull test")
	r.check(rule, fnName(fn)+": an argument counts as supplied only with a non-nil value", firstPos(posTrue, fn.Pos()), setTrue, "required[arg] = true must be control-dependent on av.Value != nil: an explicit null does not satisfy a non-null argument")
	r.check(rule, fnName(fn)+": every unsatisfied required argument appends an error", firstPos(posScan, fn.Pos()), scan, "the report loop over the required table (append of an error when the entry is false) is missing")
}

func c10Dirs(c *Ctx, r *Report) {
	vdu := c.fn("(*Root).validateDirUse")
	locate := c.fn("Locate")
	exeVal := c.fn("(*Executable).Validate")
	if vdu == nil || locate == nil || exeVal == nil {
		r.undecided("C10.DIRS", "anchors validateDirUse / Locate / (*Executable).Validate", token.NoPos, "not found")
		return
	}
	r.fnSeen(fnName(vdu), "Locate", fnName(exeVal))
	reach := c.reachable(exeVal)
	kinds := []string{"Op", "Field", "Inline", "Fragment", "FragRef", "VarDef"}
	for _, k := range kinds {
		fn := c.fn("(*" + k + ").Validate")
		key := fmt.Sprintf("(*%s).Validate", k)
		if fn == nil {
			r.check("C10.DIRS", key+": exists", token.NoPos, false, "request node kind "+k+" carries directives but has no Validate method")
			continue
		}
		r.fnSeen(fnName(fn))
		r.check("C10.DIRS", key+": reachable from (*Executable).Validate", fn.Pos(), reach[fn], "directive uses on this node kind are never validated because the document validation does not reach it")
		loops := loopsOf(fn)
		okCall := false
		var pos token.Pos
		for _, ci := range callsIn(fn) {
			if ci.Common().StaticCallee() != vdu {
				continue
			}
			pos = ci.Pos()
			args := explicitArgs(ci)
			if len(args) != 3 {
				continue
			}
			// loc argument: Locate(receiver)
			lc, ok := args[1].(*ssa.Call)
			locOK := ok && lc.Call.StaticCallee() == locate && len(lc.Call.Args) == 1 && stripIface(lc.Call.Args[0]) == fn.Params[0]
			inLoop := innermostLoop(loops, ci.Block()) != nil
			// du argument: element of the receiver's directive list
			if locOK && inLoop {
				okCall = true
			}
		}
		r.check("C10.DIRS", key+": validates every directive use with Locate(receiver)", firstPos(pos, fn.Pos()), okCall, "no loop over the node's directive uses calling validateDirUse with the node's own location was found: unknown or misplaced directives on this node kind would be accepted")
	}
	// the walker reaches all selections: SelBase.Validate invokes Validate on each selection
	sbv := c.fn("(*SelBase).Validate")
	okSB := false
	if sbv != nil {
		r.fnSeen(fnName(sbv))
		loops := loopsOf(sbv)
		for _, ci := range callsIn(sbv) {
			if ci.Common().IsInvoke() && ci.Common().Method.Name() == "Validate" && innermostLoop(loops, ci.Block()) != nil {
				okSB = true
			}
		}
	}
	r.check("C10.DIRS", "(*SelBase).Validate: validates every sub-selection", posFn(sbv), okSB, "nested selections must each be validated")
	// three rejections in validateDirUse
	unknownDir, badLoc, unknownArg := false, false, false
	for _, b := range vdu.Blocks {
		for _, in := range b.Instrs {
			call, ok := in.(*ssa.Call)
			if !ok || !isBuiltinCall(call, "append") || !isErrSlice(call.Type()) {
				continue
			}
			for _, g := range blockGuards(b) {
				g = normGuard(g)
				if f, ok := assertFactOf(g); ok && !f.holds && derefNamed(f.t) == "Directive" {
					unknownDir = true
				}
				if v, eq, ok := nilCmp(g.cond); ok && eq == g.val {
					if cl, ok := v.(*ssa.Call); ok && c.isNamed(cl.Type(), "Arg") {
						unknownArg = true
					}
				}
				if p, ok := g.cond.(*ssa.Phi); ok && !g.val {
					if bt, ok := p.Type().Underlying().(*types.Basic); ok && bt.Kind() == types.Bool {
						badLoc = true
					}
				}
			}
		}
	}
	r.check("C10.DIRS", fnName(vdu)+": rejects a use whose directive is not a defined *Directive", vdu.Pos(), unknownDir, "missing rejection of unknown directives")
	r.check("C10.DIRS", fnName(vdu)+": rejects a use at a location not listed in the directive's On", vdu.Pos(), badLoc, "missing rejection of misplaced directives")
	r.check("C10.DIRS", fnName(vdu)+": rejects an argument the directive does not declare", vdu.Pos(), unknownArg, "missing rejection of unknown directive arguments")
	dirUseArgLoop(c, r, "C10.DIRS")
	dirUseLocation(c, r, "C10.DIRS")
}

func posFn(f *ssa.Function) token.Pos {
	if f == nil {
		return token.NoPos
	}
	return f.Pos()
}

// c10Cond: every readType result that ends up in a Condition field is first tested for *Ref.
func c10Cond(c *Ctx, r *Report) {
	readType := c.fn("(*parser).readType")
	if readType == nil {
		r.undecided("C10.COND", "anchor (*parser).readType", token.NoPos, "not found")
		return
	}
	n := 0
	for _, fn := range c.allFns {
		for _, b := range fn.Blocks {
			for _, in := range b.Instrs {
				st, ok := in.(*ssa.Store)
				if !ok {
					continue
				}
				fa, ok := st.Addr.(*ssa.FieldAddr)
				if !ok {
					continue
				}
				owner, f := fieldOwner(fa.X.Type(), fa.Field)
				if f != "Condition" || owner != "Inline" {
					continue
				}
				leaves, _ := phiLeaves(st.Val)
				for _, lf := range leaves {
					if isNilConst(lf.val) {
						continue
					}
					n++
					key := fmt.Sprintf("%s: type condition stored from %s", fnName(fn), shortPath(vpath(lf.val)))
					// direct: value is result of readType in this function
					if c.refChecked(lf.val, b, readType) {
						r.check("C10.COND", key, st.Pos(), true, "")
						continue
					}
					// through a parameter: every caller must have checked
					if p, ok := lf.val.(*ssa.Parameter); ok {
						okAll, cnt := true, 0
						node := c.cg.Nodes[fn]
						idx := -1
						for i, fp := range fn.Params {
							if fp == p {
								idx = i
							}
						}
						if node != nil {
							for _, e := range node.In {
								if e.Site == nil || idx >= len(e.Site.Common().Args) {
									continue
								}
								arg := e.Site.Common().Args[idx]
								if isNilConst(arg) {
									continue
								}
								cnt++
								if !c.refChecked(arg, e.Site.Block(), readType) {
									okAll = false
								}
							}
						}
						r.check("C10.COND", key, st.Pos(), okAll && cnt > 0, "a caller passes a parsed type as fragment condition without rejecting the undefined-type placeholder (*Ref)")
						continue
					}
					r.flag("C10.COND", key, st.Pos(), "a parsed type is stored as fragment type condition without rejecting the undefined-type placeholder (*Ref): a fragment on an undefined type is accepted and silently never applies")
				}
			}
		}
	}
	r.floor("C10.COND", "stores of a parsed type into a fragment type condition", n, 2)
}

// refChecked: v (a readType result) is known not to be a *Ref at block b.
func (c *Ctx) refChecked(v ssa.Value, b *ssa.BasicBlock, readType *ssa.Function) bool {
	for _, f := range assertFacts(b) {
		if !f.holds && derefNamed(f.t) == "Ref" && sameVal(stripIface(f.x), stripIface(v)) {
			return true
		}
	}
	return false
}

// c10Pre is shared with C07.PRE.
func c10Pre(c *Ctx, r *Report, a *Anchors, rule string) {
	per := c.fn("(*Root).ParseExecutableReader")
	if per == nil {
		r.undecided(rule, "anchor (*Root).ParseExecutableReader", token.NoPos, "not found")
		return
	}
	r.fnSeen(fnName(per))
	n := 0
	for _, fn := range c.allFns {
		if fn == a.entry {
			continue
		}
		for _, ci := range callsIn(fn) {
			if ci.Common().StaticCallee() != a.entry {
				continue
			}
			n++
			ok := false
			for _, g := range blockGuards(ci.Block()) {
				g = normGuard(g)
				v, eq, isN := nilCmp(g.cond)
				if !isN || eq != g.val {
					continue
				}
				// v must derive from Extract #1 of ParseExecutableReader
				leaves, _ := phiLeaves(v)
				for _, lf := range leaves {
					if ex, ok2 := lf.val.(*ssa.Extract); ok2 && ex.Index == 1 {
						if call, ok3 := ex.Tuple.(*ssa.Call); ok3 && call.Call.StaticCallee() == per {
							ok = true
						}
					}
				}
			}
			r.check(rule, fmt.Sprintf("%s: resolves only a document that parsed and validated", fnName(fn)), ci.Pos(), ok, "the call to ResolveExecutable is not dominated by err == nil for the error of ParseExecutableReader")
		}
	}
	r.floor(rule, "in-library callers of ResolveExecutable", n, 1)
	// ParseExecutableReader returns the validation errors
	exeVal := c.fn("(*Executable).Validate")
	okVal := false
	for _, rt := range returnsOf(per) {
		if len(rt.Results) != 2 {
			continue
		}
		leaves, _ := phiLeaves(rt.Results[1])
		for _, lf := range leaves {
			v := stripIface(lf.val)
			if ct, ok := v.(*ssa.ChangeType); ok {
				v = ct.X
			}
			if call, ok := v.(*ssa.Call); ok && call.Call.StaticCallee() == exeVal {
				// taken exactly when the validation result is non-empty
				var gs []guard
				if lf.pred != nil {
					gs = edgeGuards(lf.pred, lf.phi.Block())
				} else {
					gs = blockGuards(rt.Block())
				}
				for _, g := range gs {
					g = normGuard(g)
					if x, op, k, ok := intCmp(g.cond); ok {
						if lx, isLen := isLenOf(x); isLen && lx == ssa.Value(call) {
							if !g.val {
								op = negOp(op)
							}
							if (op == token.GTR && k == 0) || (op == token.NEQ && k == 0) || (op == token.GEQ && k == 1) {
								okVal = true
							}
						}
					}
				}
			}
		}
	}
	r.check(rule, fnName(per)+": validation errors become the returned error", per.Pos(), okVal, "the []error of Executable.Validate must flow into the returned error")
}

var _ = strings.Contains

// c10Static: a selection made directly under an interface-typed field names a field of the interface.
// The library has no separate validation pass for selections: the only existence check is the field lookup
// made while resolving, against the container type handed down. If values behind an interface-typed
// field are walked with their concrete object type instead, a field that only the object defines is
// resolved (and its resolver run) where the declared container does not define it - unless a lookup
// against the declared interface is made first.
func c10Static(c *Ctx, r *Report, a *Anchors) {
	r.rule("C10.STATIC", "values behind an interface-typed field are walked with the declared interface as container type, or the re-typing function first looks the selections up in the declared interface")
	if a.inline == nil || a.spread == nil || a.fieldSels == nil {
		r.undecided("C10.STATIC", "anchors of the selection-set resolver", 0, "not resolved")
		return
	}
	ret := c.interfaceRetyped(a)
	if len(ret) == 0 {
		r.check("C10.STATIC", "interface-typed values are walked with the declared container type", a.dispatch.Pos(), true, "no re-typing site")
		return
	}
	for i, ci := range ret {
		fn := ci.Parent()
		// a lookup of field definitions against the function's own Type parameter that dominates the re-typed call
		checked := false
		for _, c2 := range callsIn(fn) {
			if c2.Common().StaticCallee() != a.getFD || a.getFD == nil {
				continue
			}
			if !(c2.Block() == ci.Block() || c2.Block().Dominates(ci.Block())) {
				continue
			}
			for _, arg := range c2.Common().Args {
				if p, ok := stripIface(arg).(*ssa.Parameter); ok && c.isNamed(p.Type(), "Type") {
					checked = true
				}
			}
		}
		r.check("C10.STATIC", fmt.Sprintf("%s: re-typing site #%d keeps the existence check against the declared interface", fnName(fn), i+1), ci.Pos(), checked,
			"selections under an interface-typed field are looked up in the concrete object type only: a field the interface does not define is resolved, and its resolver invoked, instead of being rejected")
	}
}

// c10DirReq: the validator of a directive use walks the arguments the use holds. A required argument that
// was left out is only seen because the reader completes every use with an entry (value nil, or the
// default) for each declared argument the use does not mention. The completion must therefore not depend
// on the argument having a default.
func c10DirReq(c *Ctx, r *Report) {
	r.rule("C10.DIRREQ", "the reader's completion of a directive use with the declared arguments it does not mention is not conditioned on Arg.Default being set: an omitted required argument reaches the validator as a nil entry")
	n := 0
	c.dirUseCompletionHook = func(fn *ssa.Function, mu *ssa.MapUpdate, ord int, condOnDefault bool) {
		n++
		r.check("C10.DIRREQ", fmt.Sprintf("%s: completion #%d covers arguments without a default", fnName(fn), ord), mu.Pos(), !condOnDefault,
			"only arguments that have a default are completed: `@skip` without `if`, or a user directive with an omitted `T!` argument, passes validation and the selection is resolved")
	}
	defer func() { c.dirUseCompletionHook = nil }()
	sub := newReport("C10", r.Tier, c)
	c16DefaultsBody(c, sub)
	r.floor("C10.DIRREQ", "directive-use completions in the reader", n, 1)
}

// dirUseArgLoop: the argument loop of validateDirUse. (a) the lookup of the argument in the directive's
// declaration is reached for every argument of the use (inside the loop it is guarded by nothing but the
// loop's own condition); (b) the coercion of the value to the declared type is reached for every argument
// that was found, is not a variable reference and whose type is an input coercer - no other test (a value
// that happens to be null, a kind of value) may route an argument round it.
func dirUseArgLoop(c *Ctx, r *Report, rule string) {
	vdu := c.fn("(*Root).validateDirUse")
	if vdu == nil {
		r.undecided(rule, "anchor validateDirUse", token.NoPos, "not found")
		return
	}
	loops := loopsOf(vdu)
	// the lookup: what yields the declared *Arg for the use's argument inside the loop - a function of the package
	// that returns *Arg (findArg, the argument list's get) or the table lookup itself
	type lookupInstr interface {
		ssa.Instruction
		ssa.Value
	}
	var find lookupInstr
	var coerce ssa.CallInstruction
	for _, b := range vdu.Blocks {
		if innermostLoop(loops, b) == nil {
			continue
		}
		for _, in := range b.Instrs {
			switch t := in.(type) {
			case *ssa.Call:
				if cal := t.Call.StaticCallee(); cal != nil && c.inPkg(cal) && c.isNamed(t.Type(), "Arg") && find == nil {
					find = t
				}
				if t.Call.IsInvoke() && t.Call.Method.Name() == "CoerceIn" {
					coerce = t
				}
			case *ssa.Lookup:
				if c.isNamed(t.Type(), "Arg") && find == nil {
					find = t
				}
			}
		}
	}
	if find == nil || coerce == nil {
		r.check(rule, fnName(vdu)+": argument loop looks every argument up and coerces its value", vdu.Pos(), false, fmt.Sprintf("findArg call in loop found=%v, CoerceIn call in loop found=%v", find != nil, coerce != nil))
		return
	}
	r.check(rule, fnName(vdu)+": argument loop looks every argument up and coerces its value", vdu.Pos(), true, "")
	anyPol := map[*ssa.If]bool{} // branches both of whose outcomes lead to the call: polarity not demanded
	inLoopGuardsAt := func(blk *ssa.BasicBlock) []guard {
		l := innermostLoop(loops, blk)
		var out []guard
		for _, g := range blockGuards(blk) {
			if g.at != nil && l.body[g.at.Block()] {
				out = append(out, normGuard(g))
			}
		}
		for _, d := range loopControlDeps(l, blk) {
			if d.known {
				out = append(out, normGuard(d.guard()))
			} else {
				anyPol[d.ifi] = true
				out = append(out, normGuard(d.guard()))
			}
		}
		return out
	}
	bad := ""
	for _, g := range inLoopGuardsAt(find.Block()) {
		if isRangeCond(g.cond) {
			continue
		}
		bad = shortPath(vpath(g.cond))
	}
	r.check(rule, fnName(vdu)+": every argument of a directive use is looked up in the directive's declaration", find.Pos(), bad == "",
		"the lookup is skipped depending on "+bad+": an argument the directive does not declare is accepted when that test routes it round the lookup (e.g. when its value is a variable)")
	bad = ""
	findRes := ssa.Value(find)
	for _, g := range inLoopGuardsAt(coerce.Block()) {
		if isRangeCond(g.cond) {
			continue
		}
		if v, _, ok := nilCmp(g.cond); ok {
			if sameVal(v, findRes) {
				continue // the argument was found
			}
			if ex, ok := v.(*ssa.Extract); ok {
				if ta, ok := ex.Tuple.(*ssa.TypeAssert); ok && c.isNamed(ta.AssertedType, "InCoercer") {
					continue // the declared type coerces input
				}
			}
		}
		if f, ok := assertFactOf(g); ok {
			if derefNamed(f.t) == "Var" && (!f.holds || anyPol[g.at]) {
				continue // not a variable reference
			}
			if derefNamed(f.t) == "InCoercer" && (f.holds || anyPol[g.at]) {
				continue
			}
		}
		bad = shortPath(vpath(g.cond))
	}
	r.check(rule, fnName(vdu)+": every literal argument value of a directive use is coerced to the declared type", coerce.Pos(), bad == "",
		"the coercion is skipped depending on "+bad+": a value that fails that test is accepted without being checked against the declared type (a null for a non-null argument)")
}

// c10ArgFrozen: forming the arguments of one field evaluation writes nothing into the schema's field and
// argument definitions: the write summary of the argument builder (with everything it calls) contains no
// location of a schema type. A table of required arguments cached on the definition and then filtered in
// place lets one rejected request erase a required argument for every later request.
func c10ArgFrozen(c *Ctx, r *Report, a *Anchors) {
	r.rule("C10.DEFFROZEN", "the write summary of the argument builder contains no location inside a schema definition (FieldDef, Arg, argument lists)")
	if a.formArgs == nil {
		r.undecided("C10.DEFFROZEN", "anchor: argument builder", token.NoPos, "not found")
		return
	}
	eng := newEffEngine(c)
	eng.run(a.formArgs)
	s := eng.sums[a.formArgs]
	n, bad := 0, 0
	if s != nil {
		var keys []string
		for k := range s.effects {
			keys = append(keys, k)
		}
		sort.Strings(keys)
		seen := map[string]bool{}
		for _, k := range keys {
			ef := s.effects[k]
			if !writeKinds[ef.kind] {
				continue
			}
			n++
			owner := ef.owner
			if owner == "" && ef.elemOf != "" {
				owner = ef.elemOf[:strings.IndexByte(ef.elemOf+".", '.')]
			}
			if !schemaTypes[owner] || isFreshTarget(ef.target) {
				continue
			}
			key := fmt.Sprintf("%s: %s", fnName(ef.fn), ef.descr())
			if seen[key] {
				continue
			}
			seen[key] = true
			bad++
			r.add("C10.DEFFROZEN", key, ef.pos, Violated, "forming the arguments of a request writes into the schema ("+ef.target.String()+"): what one request leaves there decides what the next request is checked against - a required argument filtered out once is no longer demanded")
		}
	}
	r.fnSeen(fnName(a.formArgs))
	r.check("C10.DEFFROZEN", fnName(a.formArgs)+": writes nothing into field or argument definitions", a.formArgs.Pos(), bad == 0, fmt.Sprintf("%d write(s) into schema definitions among %d summarised writes", bad, n))
	r.floor("C10.DEFFROZEN", "functions summarised below the argument builder", len(eng.sums), 5)
}

// dirUseLocation: "directives applied only at declared locations": the flag that decides the
// "can not be applied to" rejection is false unless it was set under an equality test of the use's location
// with an element of the directive's On list. Every value the flag can have where it is tested is the constant
// false, or the constant true on an edge guarded by that comparison.
func dirUseLocation(c *Ctx, r *Report, rule string) {
	vdu := c.fn("(*Root).validateDirUse")
	if vdu == nil {
		return
	}
	var locP *ssa.Parameter
	for _, p := range vdu.Params {
		if c.isNamed(p.Type(), "Location") {
			locP = p
		}
	}
	n := 0
	for _, b := range vdu.Blocks {
		if len(b.Instrs) == 0 {
			continue
		}
		ifi, ok := b.Instrs[len(b.Instrs)-1].(*ssa.If)
		if !ok {
			continue
		}
		ph, ok := ifi.Cond.(*ssa.Phi)
		if !ok {
			continue
		}
		if bt, ok := ph.Type().Underlying().(*types.Basic); !ok || bt.Info()&types.IsBoolean == 0 {
			continue
		}
		n++
		bad := ""
		leaves, _ := phiLeaves(ph)
		for _, lf := range leaves {
			k, isC := lf.val.(*ssa.Const)
			if !isC || k.Value == nil {
				bad = "it can start as " + shortPath(vpath(lf.val))
				continue
			}
			if k.Value.String() == "false" {
				continue
			}
			// true: only on an edge guarded by loc == on
			okEdge := false
			if lf.pred != nil {
				gs := append(blockGuards(lf.pred), edgeGuards(lf.pred, lf.phi.Block())...)
				for _, g := range gs {
					g = normGuard(g)
					bo, ok := g.cond.(*ssa.BinOp)
					if !ok || bo.Op != token.EQL || !g.val {
						continue
					}
					if locP != nil && (stripIface(bo.X) == ssa.Value(locP) || stripIface(bo.Y) == ssa.Value(locP)) {
						okEdge = true
					}
				}
			}
			if !okEdge {
				bad = "it is set to true without a match of the location"
			}
		}
		r.check(rule, fnName(vdu)+": the location-match flag is true only after loc matched an element of the directive's On list", ifi.Pos(), bad == "",
			bad+": for such a carrier every directive is accepted, whatever locations it declares")
	}
	if n == 0 {
		r.undecided(rule, fnName(vdu)+": location-match flag", vdu.Pos(), "no test of a boolean flag found")
	}
}

// isArgDict: the declared-argument table of a field definition (a load of argList.dict), or that table merged
// with nil for "no definition / no arguments" (`var declared map[string]*Arg; if fd != nil { declared = fd.args.dict }`).
func isArgDict(v ssa.Value) bool {
	ls, _ := phiLeaves(v)
	n := 0
	for _, lf := range ls {
		if isNilConst(lf.val) {
			continue
		}
		if _, o, f, ok := loadOfField(lf.val); ok && o == "argList" && f == "dict" {
			n++
			continue
		}
		return false
	}
	return n > 0
}
