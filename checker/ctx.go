package main

// Loading of /repo's current working tree: go/packages (type-checked AST),
// go/ssa, call graph. Every run re-reads the sources; nothing is cached.

import (
	"fmt"
	"go/ast"
	"go/token"
	"go/types"
	"os"
	"sort"
	"strings"

	"golang.org/x/tools/go/callgraph"
	"golang.org/x/tools/go/callgraph/cha"
	"golang.org/x/tools/go/callgraph/vta"
	"golang.org/x/tools/go/packages"
	"golang.org/x/tools/go/ssa"
	"golang.org/x/tools/go/ssa/ssautil"
)

const ggqlPath = "github.com/uhn/ggql/pkg/ggql"
const genPath = "github.com/uhn/ggql/cmd/ggqlgen"

// Ctx is one loaded, type-checked, SSA-built view of the repository.
type Ctx struct {
	repo  string
	fset  *token.FileSet
	pkgs  []*packages.Package
	P     *packages.Package // pkg/ggql
	G     *packages.Package // cmd/ggqlgen
	prog  *ssa.Program
	SP    *ssa.Package // ssa of pkg/ggql
	SG    *ssa.Package
	cg    *callgraph.Graph
	cgVTA *callgraph.Graph
	useVT bool

	funcs map[string]*ssa.Function // RelString name -> function (ggql package + ggqlgen)
	// set by C10.DIRREQ while it runs the defaults rule of C16 on this program
	dirUseCompletionHook func(fn *ssa.Function, mu *ssa.MapUpdate, ord int, condOnDefault bool)
	allFns               []*ssa.Function // source functions of pkg/ggql incl. closures
	declOf               map[*types.Func]*ast.FuncDecl
	fileOf               map[*ast.FuncDecl]*ast.File
	loadEnv              []string

	passThroughMemo map[*ssa.Function][]int
	starErrMemo     map[*ssa.Function]int
	natMemo         *natInfo

	rep *Report

	// functions a rule resolved by role (by what they take, return and call): never inlined by a normal form
	roleFns map[string]bool
}

func (c *Ctx) markRole(fn *ssa.Function) {
	if fn == nil {
		return
	}
	if c.roleFns == nil {
		c.roleFns = map[string]bool{}
	}
	c.roleFns[fn.Name()] = true
}

type loadOpts struct {
	repo    string
	overlay map[string][]byte
	env     []string // extra env, e.g. GOOS=windows
	vta     bool
}

func load(o loadOpts) (*Ctx, error) {
	env := append(os.Environ(), "GOFLAGS=-mod=mod", "GOPROXY=off", "GOSUMDB=off", "GOWORK=off", "GOTOOLCHAIN=local")
	env = append(env, o.env...)
	fset := token.NewFileSet()
	cfg := &packages.Config{
		Mode:    packages.LoadSyntax | packages.NeedModule,
		Dir:     o.repo,
		Env:     env,
		Fset:    fset,
		Tests:   false,
		Overlay: withBase(o.overlay),
	}
	pkgs, err := packages.Load(cfg, "./...")
	if err != nil {
		return nil, fmt.Errorf("packages.Load: %w", err)
	}
	c := &Ctx{repo: o.repo, fset: fset, pkgs: pkgs, funcs: map[string]*ssa.Function{}, passThroughMemo: map[*ssa.Function][]int{}, starErrMemo: map[*ssa.Function]int{}, declOf: map[*types.Func]*ast.FuncDecl{}, fileOf: map[*ast.FuncDecl]*ast.File{}}
	var errs []string
	for _, p := range pkgs {
		for _, e := range p.Errors {
			errs = append(errs, e.Error())
		}
		if len(p.IgnoredFiles) > 0 {
			errs = append(errs, fmt.Sprintf("%s: ignored files %v (build constraints hide source from the analysis)", p.PkgPath, p.IgnoredFiles))
		}
		switch p.PkgPath {
		case ggqlPath:
			c.P = p
		case genPath:
			c.G = p
		}
	}
	if len(errs) > 0 {
		return nil, fmt.Errorf("load/type errors:\n  %s", strings.Join(errs, "\n  "))
	}
	if len(pkgs) < 2 || c.P == nil || c.G == nil {
		return nil, fmt.Errorf("expected packages %s and %s, loaded %d packages", ggqlPath, genPath, len(pkgs))
	}
	prog, _ := ssautil.Packages(pkgs, ssa.InstantiateGenerics)
	prog.Build()
	c.prog = prog
	c.SP = prog.Package(c.P.Types)
	c.SG = prog.Package(c.G.Types)
	if c.SP == nil || c.SG == nil {
		return nil, fmt.Errorf("ssa package missing")
	}
	for fn := range ssautil.AllFunctions(prog) {
		if fn.Pkg == c.SP || fn.Pkg == c.SG {
			if fn.Synthetic != "" && fn.Syntax() == nil {
				continue
			}
			name := fn.RelString(fn.Pkg.Pkg)
			if fn.Pkg == c.SG {
				name = "ggqlgen." + name
			}
			c.funcs[name] = fn
			if fn.Pkg == c.SP {
				c.allFns = append(c.allFns, fn)
			}
		}
	}
	sort.Slice(c.allFns, func(i, j int) bool {
		pi, pj := c.fset.Position(c.allFns[i].Pos()), c.fset.Position(c.allFns[j].Pos())
		if pi.Filename != pj.Filename {
			return pi.Filename < pj.Filename
		}
		if pi.Offset != pj.Offset {
			return pi.Offset < pj.Offset
		}
		return fnName(c.allFns[i]) < fnName(c.allFns[j])
	})
	for _, p := range []*packages.Package{c.P, c.G} {
		for _, f := range p.Syntax {
			for _, d := range f.Decls {
				if fd, ok := d.(*ast.FuncDecl); ok {
					if obj, ok := p.TypesInfo.Defs[fd.Name].(*types.Func); ok {
						c.declOf[obj] = fd
						c.fileOf[fd] = f
					}
				}
			}
		}
	}
	c.cg = cha.CallGraph(prog)
	if o.vta {
		c.cgVTA = vta.CallGraph(ssautil.AllFunctions(prog), c.cg)
	}
	return c, nil
}

// graph returns the call graph in use (CHA, or VTA when switched).
func (c *Ctx) graph() *callgraph.Graph {
	if c.useVT && c.cgVTA != nil {
		return c.cgVTA
	}
	return c.cg
}

// fn returns the named function or nil.
func (c *Ctx) fn(name string) *ssa.Function { return c.funcs[name] }

// pos renders a position relative to the repo root.
func (c *Ctx) pos(p token.Pos) string {
	if !p.IsValid() {
		return "-"
	}
	pp := c.fset.Position(p)
	f := strings.TrimPrefix(pp.Filename, c.repo+"/")
	return fmt.Sprintf("%s:%d", f, pp.Line)
}

func (c *Ctx) fileBase(p token.Pos) string {
	pp := c.fset.Position(p)
	i := strings.LastIndex(pp.Filename, "/")
	return pp.Filename[i+1:]
}

// named looks a package-level type up.
func (c *Ctx) named(name string) *types.Named {
	o := c.P.Types.Scope().Lookup(name)
	if o == nil {
		return nil
	}
	n, _ := o.Type().(*types.Named)
	return n
}

func (c *Ctx) iface(name string) *types.Interface {
	n := c.named(name)
	if n == nil {
		return nil
	}
	i, _ := n.Underlying().(*types.Interface)
	return i
}

// implementers returns the named types T of pkg/ggql such that T or *T implements iface.
func (c *Ctx) implementers(ifaceName string) []types.Type {
	it := c.iface(ifaceName)
	if it == nil {
		return nil
	}
	var out []types.Type
	sc := c.P.Types.Scope()
	for _, n := range sc.Names() {
		tn, ok := sc.Lookup(n).(*types.TypeName)
		if !ok || tn.IsAlias() {
			continue
		}
		if _, isI := tn.Type().Underlying().(*types.Interface); isI {
			continue
		}
		if types.Implements(tn.Type(), it) {
			out = append(out, tn.Type())
		} else if types.Implements(types.NewPointer(tn.Type()), it) {
			out = append(out, types.NewPointer(tn.Type()))
		}
	}
	return out
}

func typeStr(t types.Type) string {
	return types.TypeString(t, func(p *types.Package) string { return "" })
}

// reachable returns the set of functions reachable from roots over the call graph.
func (c *Ctx) reachable(roots ...*ssa.Function) map[*ssa.Function]bool {
	g := c.graph()
	seen := map[*ssa.Function]bool{}
	var stack []*ssa.Function
	for _, r := range roots {
		if r != nil && !seen[r] {
			seen[r] = true
			stack = append(stack, r)
		}
	}
	for len(stack) > 0 {
		f := stack[len(stack)-1]
		stack = stack[:len(stack)-1]
		n := g.Nodes[f]
		if n == nil {
			continue
		}
		for _, e := range n.Out {
			if !seen[e.Callee.Func] {
				seen[e.Callee.Func] = true
				stack = append(stack, e.Callee.Func)
			}
		}
		// closures created inside f are reachable too
		for _, an := range f.AnonFuncs {
			if !seen[an] {
				seen[an] = true
				stack = append(stack, an)
			}
		}
	}
	return seen
}

// inPkg reports whether fn is a source function of pkg/ggql.
func (c *Ctx) inPkg(fn *ssa.Function) bool { return fn != nil && fn.Pkg == c.SP }

// calleesOf resolves the possible in-module callees of a call instruction.
func (c *Ctx) calleesOf(call ssa.CallInstruction) []*ssa.Function {
	if f := call.Common().StaticCallee(); f != nil {
		return []*ssa.Function{f}
	}
	var out []*ssa.Function
	n := c.graph().Nodes[call.Parent()]
	if n == nil {
		return nil
	}
	for _, e := range n.Out {
		if e.Site == call {
			out = append(out, e.Callee.Func)
		}
	}
	return out
}

// sortedFuncNames gives deterministic output.
func sortedFuncNames(m map[*ssa.Function]bool, pkg *ssa.Package) []string {
	var out []string
	for f := range m {
		if f.Pkg == pkg {
			out = append(out, f.RelString(pkg.Pkg))
		}
	}
	sort.Strings(out)
	return out
}
