package main

import (
	"fmt"
	"go/token"
	"go/types"
	"sort"
	"strings"

	"golang.org/x/tools/go/ssa"
)

func init() {
	register("C13", checkC13,
		"A coverage matrix of the schema validation: rows are the positions of a schema (type, field, field argument, directive argument, input field, enum value, union member, interface reference, directive use on each of them), columns the rule families the statement lists; a cell is discharged when code enforcing that rule at that position is reachable from Root.validate / ReplaceRefs and its result is not dropped. (REFS) every position that can hold a type or directive reference is rewritten by a reference replacement that fails on an undefined name; (UNIQ) the member tables are written only by their add method, which rejects duplicates, and the parser never discards that error; (NAMES) names are validated at every named position; (INOUT) output-type test at field positions, the same input-type predicate at every input position; (NONEMPTY) objects, interfaces, inputs, enums, unions; (UNION) members are objects; (IFACE) every implemented interface is checked field by field; (DIRUSE) directive uses are validated (definition, location, arguments) at every position that can carry them; (LOOP) directive cycles; (DROP) no error list produced during validation is dropped; (LOCATE) the node-kind -> location table equals the specification's.",
		"Correctness of each predicate's logic (isSubType, typeEqual) and therefore 'accepts every well-formed schema' - values.")
}

func checkC13(c *Ctx, r *Report) {
	for id, txt := range map[string]string{
		"C13.REFS": "reference positions are covered by a *Ref-conditional replacement whose failed lookup returns an error", "C13.UNIQ": "member tables written only by add(); add() rejects duplicates; parser call sites use add's error",
		"C13.NAMES": "validateName reached for each named position", "C13.INOUT": "IsOutputType at field positions; IsInputType at every input position (sibling agreement)",
		"C13.WRAP":     "the input/output class predicates look through wrappers to any depth: an answer other than the recursive one is given only for a value proven to be of a named non-wrapper type, or proven to be neither *List nor *NonNull (both wrappers implement the coercer interfaces themselves, so a coercer test alone admits [[T]] for any T)",
		"C13.NONEMPTY": "emptiness test with error at objects, interfaces, inputs, enums, unions", "C13.UNION": "non-object union member rejected", "C13.IFACE": "validateInterface per implemented interface",
		"C13.DIRUSE": "validateDirUse reached for the uses at every carrying position", "C13.LOOP": "directive definition cycles rejected", "C13.DROP": "every []error result inside the validation call tree is used", "C13.LOCATE": "Locate's table equals the specification's",
	} {
		r.rule(id, txt)
	}
	val := c.fn("(*Root).validate")
	rr := c.fn("(*Root).ReplaceRefs")
	if val == nil || rr == nil {
		r.undecided("C13.REFS", "anchors (*Root).validate / ReplaceRefs", token.NoPos, "not found")
		return
	}
	vreach := c.reachable(val)
	var fns []string
	for f := range vreach {
		if c.inPkg(f) {
			fns = append(fns, fnName(f))
		}
	}
	r.fnSeen(fns...)
	c13Refs(c, r, rr)
	c13Uniq(c, r)
	c13Names(c, r, vreach)
	c13InOut(c, r, vreach)
	c13Wrap(c, r)
	c13Walk(c, r)
	tableIncrRule(c, r, "C13.UNIQT", "two definitions of one type or directive name in a single document are both accepted: the uniqueness rule for type names is not enforced inside one load")
	c13NonEmpty(c, r, vreach)
	c13DirUse(c, r, vreach)
	c13Drop(c, r, vreach)
	c13Locate(c, r)
	c13NoVerdictCache(c, r)
	importRulesFrom(c, r, "C16", func(c *Ctx, sub *Report) { c16ExtRefs(c, sub) }, "C13.EXTREFS", "every reference an extension brings along is resolved - and an undefined one refused - before the extension is merged (C16.EXTREFS): the schema object derived from the Query type is in no table, so references merged into it are never looked at by the table-wide pass", "C16.EXTREFS")
	// LOOP / IFACE / UNION by reachability + structure
	hd := c.fn("(*Directive).hasDirLoop")
	r.check("C13.LOOP", "directive definition cycles are searched during validation", posFn(hd), hd != nil && vreach[hd], "hasDirLoop is not reachable from Root.validate")
	// the conformance check is whatever Object.Validate does (itself or in functions it calls) that leads to the
	// sub-type predicate; how it is cut into functions is not part of the rule
	ov := c.fn("(*Object).Validate")
	sub := c.fn("(*Object).isSubType")
	te := c.fn("typeEqual")
	reachesSub := func(f *ssa.Function) bool { return f != nil && sub != nil && (f == sub || c.reachable(f)[sub]) }
	okI := false
	if ov != nil && sub != nil {
		loops := loopsOf(ov)
		for _, ci := range callsIn(ov) {
			cal := ci.Common().StaticCallee()
			if cal == nil || !reachesSub(cal) {
				continue
			}
			// a loop around the call walks the whole Interfaces slice
			for _, l := range loops {
				if !l.body[ci.Block()] {
					continue
				}
				if ind := loopInduction(l); ind.ok {
					if x, isLen := isLenOf(ind.length); isLen {
						if _, o, f, ok := loadOfField(x); ok && o == "Object" && f == "Interfaces" {
							okI = true
						}
					}
				}
			}
		}
	}
	r.check("C13.IFACE", "(*Object).Validate checks every implemented interface", posFn(ov), okI && vreach[ov], "the conformance check (what leads to the sub-type predicate) is not made for each element of Interfaces")
	r.check("C13.IFACE", "interface fields are compared by type (isSubType) and arguments", posFn(sub), sub != nil && te != nil && ov != nil && c.reachable(ov)[sub] && c.reachable(ov)[te] && vreach[sub], "field compatibility check not reachable")
	// positions and their predicates: the field's type is covariant (isSubType), an argument's type is invariant (typeEqual)
	if ov != nil && sub != nil {
		var region []*ssa.Function
		for f := range c.reachable(ov) {
			if c.inPkg(f) && f != sub && !c.reachable(sub)[f] && reachesSub(f) {
				region = append(region, f)
			}
		}
		region = append(region, ov)
		sort.Slice(region, func(i, j int) bool { return fnName(region[i]) < fnName(region[j]) })
		nA := 0
		seenFn := map[*ssa.Function]bool{}
		for _, vf := range region {
			if seenFn[vf] {
				continue
			}
			seenFn[vf] = true
			for _, ci := range callsIn(vf) {
				cal := ci.Common().StaticCallee()
				if cal == nil || (cal != sub && cal != te) {
					continue
				}
				pos := ""
				for _, arg := range ci.Common().Args {
					if _, o, f, ok := loadOfField(stripIface(arg)); ok && f == "Type" {
						pos = o
					}
				}
				switch pos {
				case "Arg":
					nA++
					r.check("C13.IFACE", fmt.Sprintf("%s: argument types of an interface field are compared for equality", fnName(vf)), ci.Pos(), cal == te,
						"argument types are compared with the covariant predicate: an implementation that narrows an argument (String -> String!, [String] -> [String!]) is accepted although callers of the interface field may pass what the interface allows")
				case "FieldDef":
					r.check("C13.IFACE", fmt.Sprintf("%s: the field's own type is compared with the sub-type predicate", fnName(vf)), ci.Pos(), cal == sub, "the field type must be the interface field's type or a sub-type of it")
				}
			}
		}
		r.floor("C13.IFACE", "argument type comparisons in the interface conformance check", nA, 1)
	}
	c13SubWrap(c, r, sub)
	c13IfaceEvery(c, r)
	uv := c.fn("(*Union).Validate")
	okU := false
	if uv != nil {
		for _, b := range uv.Blocks {
			for _, in := range b.Instrs {
				if call, ok := in.(*ssa.Call); ok && isBuiltinCall(call, "append") && isErrSlice(call.Type()) {
					for _, f := range assertFacts(b) {
						if !f.holds && derefNamed(f.t) == "Object" {
							okU = true
						}
					}
				}
			}
		}
	}
	r.check("C13.UNION", "(*Union).Validate rejects a member that is not an object", posFn(uv), okU && vreach[uv], "no error under a failed *Object assertion")
}

func c13Refs(c *Ctx, r *Report, rr *ssa.Function) {
	eng := newEffEngine(c)
	eng.run(rr)
	s := eng.sums[rr]
	// positions: (owner.field) that hold type references, and directive holders
	typePos := []string{"FieldDef.Type", "Arg.Type", "InputField.Type", "List.Base", "NonNull.Base", "elem:Object.Interfaces", "elem:Union.Members", "DirectiveUse.Directive"}
	covered := map[string]effect{}
	holders := map[string]bool{}
	var dirFns []*ssa.Function
	for _, ef := range s.effects {
		if !writeKinds[ef.kind] || !ef.refOnly {
			continue
		}
		k := ef.owner + "." + ef.field
		if ef.owner == "" {
			k = "elem:" + ef.elemOf
		}
		covered[k] = ef
		if k == "DirectiveUse.Directive" {
			dirFns = append(dirFns, ef.fn)
		}
	}
	// who hands which holder's directive uses to the directive-reference replacement
	for _, df := range dirFns {
		node := c.cg.Nodes[df]
		if node == nil {
			continue
		}
		for _, e := range node.In {
			if e.Site == nil || !c.inPkg(e.Caller.Func) {
				continue
			}
			for _, arg := range e.Site.Common().Args {
				if call, ok := arg.(*ssa.Call); ok && call.Call.IsInvoke() && call.Call.Method.Name() == "Directives" {
					holders["Type"] = true
				}
				if base, _, f, ok := loadOfField(arg); ok && (f == "Dirs" || f == "Directives") {
					// strip the embedded Base
					if fa, ok := base.(*ssa.FieldAddr); ok {
						base = fa.X
					}
					holders[derefNamed(base.Type())] = true
				}
			}
		}
	}
	for _, p := range typePos {
		ef, ok := covered[p]
		pos := rr.Pos()
		if ok {
			pos = ef.pos
		}
		r.check("C13.REFS", fmt.Sprintf("reference position %s is replaced (only when it holds a *Ref placeholder)", strings.TrimPrefix(p, "elem:")), pos, ok, "no reference replacement writes this position: a forward reference here stays a placeholder (or an undefined name is accepted)")
	}
	for _, h := range [][2]string{{"type definition", "Type"}, {"field definition", "FieldDef"}, {"field / directive argument", "Arg"}, {"input field", "InputField"}, {"enum value", "EnumValue"}} {
		r.check("C13.REFS", fmt.Sprintf("directive uses on a %s have their directive reference replaced", h[0]), rr.Pos(), holders[h[1]], "directive uses at this position are never resolved against the directive table")
	}
	// failed lookup returns an error: in every function that performs a refOnly store, a nil test of the stored value leads to an error return
	seen := map[*ssa.Function]bool{}
	for _, ef := range covered {
		seen[ef.fn] = true
	}
	var fl []*ssa.Function
	for f := range seen {
		fl = append(fl, f)
	}
	sort.Slice(fl, func(i, j int) bool { return fnName(fl[i]) < fnName(fl[j]) })
	for _, fn := range fl {
		nStores, nChecked := 0, 0
		for _, b := range fn.Blocks {
			for _, in := range b.Instrs {
				var stored ssa.Value
				var addr ssa.Value
				switch t := in.(type) {
				case *ssa.Store:
					if ro, _ := overwriteGuards(b, t.Addr); ro {
						stored, addr = t.Val, t.Addr
					}
				}
				if stored == nil {
					continue
				}
				nStores++
				// an If comparing stored (or a reload of addr) with nil whose nil edge returns a non-nil error
				ok := false
				for _, b2 := range fn.Blocks {
					if len(b2.Instrs) == 0 {
						continue
					}
					ifi, isIf := b2.Instrs[len(b2.Instrs)-1].(*ssa.If)
					if !isIf {
						continue
					}
					g := normGuard(guard{ifi.Cond, true, ifi})
					v, eq, isN := nilCmp(g.cond)
					if !isN {
						continue
					}
					same := v == stored
					if u, isU := v.(*ssa.UnOp); isU && u.Op == token.MUL && vpath(u.X) == vpath(addr) {
						same = true
					}
					if !same {
						continue
					}
					nilEdge := 0
					if eq != g.val {
						nilEdge = 1
					}
					tb := b2.Succs[nilEdge]
					for _, in2 := range tb.Instrs {
						if rt, isRet := in2.(*ssa.Return); isRet && len(rt.Results) > 0 && !isNilConst(rt.Results[len(rt.Results)-1]) {
							ok = true
						}
					}
				}
				if ok {
					nChecked++
				}
			}
		}
		r.check("C13.REFS", fmt.Sprintf("%s: an undefined name fails the replacement", fnName(fn)), fn.Pos(), nStores > 0 && nStores == nChecked, fmt.Sprintf("%d of %d replacements return an error when the lookup yields nil", nChecked, nStores))
	}
	r.floor("C13.REFS", "functions performing reference replacement", len(fl), 1) // how the positions are shared out between functions is free; the positions themselves are enumerated above
	c13RefsEveryIter(c, r, rr)
}

// c13RefsEveryIter: inside the reference-replacement walk, a replacement call made in a loop on
// a member of the loop's element (not on the binding of a type-switch arm, which exists only in
// that arm) must run on every completed iteration: its block dominates every back edge of the
// loop. A `continue` that skips it leaves the references of some elements unresolved.
func c13RefsEveryIter(c *Ctx, r *Report, rr *ssa.Function) {
	reach := c.reachable(rr)
	var fns []*ssa.Function
	for f := range reach {
		if c.inPkg(f) && f.Parent() == nil && len(f.Blocks) > 0 {
			fns = append(fns, f)
		}
	}
	sort.Slice(fns, func(i, j int) bool { return fnName(fns[i]) < fnName(fns[j]) })
	isRepl := func(f *ssa.Function) bool {
		if f == nil || !reach[f] || !c.inPkg(f) || !strings.HasPrefix(f.Name(), "replace") && f != rr {
			return false
		}
		res := f.Signature.Results()
		return res.Len() == 1 && isErrorType(res.At(0).Type())
	}
	fromAssert := func(v ssa.Value) bool {
		v = stripIface(v)
		for i := 0; i < 6; i++ {
			switch t := v.(type) {
			case *ssa.Extract:
				if _, ok := t.Tuple.(*ssa.TypeAssert); ok {
					return true
				}
				return false
			case *ssa.TypeAssert:
				return true
			case *ssa.FieldAddr:
				v = t.X
			case *ssa.UnOp:
				v = t.X
			case *ssa.Phi:
				for _, e := range t.Edges {
					if fromAssertShallow(e) {
						return true
					}
				}
				return false
			default:
				return false
			}
		}
		return false
	}
	n := 0
	for _, fn := range fns {
		loops := loopsOf(fn)
		if len(loops) == 0 {
			continue
		}
		ord := map[string]int{}
		for _, ci := range callsIn(fn) {
			cal := ci.Common().StaticCallee()
			if !isRepl(cal) {
				continue
			}
			l := innermostLoop(loops, ci.Block())
			if l == nil {
				continue
			}
			cond := false
			for _, a := range ci.Common().Args {
				if fromAssert(a) {
					cond = true
				}
			}
			if cond {
				continue // the argument only exists inside a type-switch arm
			}
			n++
			ord[fnName(cal)]++
			ok := true
			var skip *ssa.BasicBlock
			for _, lt := range l.latches {
				if !ci.Block().Dominates(lt) {
					ok = false
					skip = lt
				}
			}
			pos := ci.Pos()
			detail := "a path completes an iteration of the loop without this call: the references (types, directive uses) held by that element stay unresolved placeholders and an undefined name is accepted"
			if skip != nil && len(skip.Instrs) > 0 {
				detail += "; the iteration is completed from " + c.pos(valPosInstr(skip))
			}
			r.check("C13.REFS", fmt.Sprintf("%s: %s #%d runs on every completed iteration of its loop", fnName(fn), fnName(cal), ord[fnName(cal)]), pos, ok, detail)
		}
	}
	r.floor("C13.REFS", "per-element replacement calls inside loops", n, 5)
}

func fromAssertShallow(v ssa.Value) bool {
	v = stripIface(v)
	if ex, ok := v.(*ssa.Extract); ok {
		_, isTA := ex.Tuple.(*ssa.TypeAssert)
		return isTA
	}
	_, isTA := v.(*ssa.TypeAssert)
	return isTA
}

func valPosInstr(b *ssa.BasicBlock) token.Pos {
	for _, in := range b.Instrs {
		if in.Pos().IsValid() {
			return in.Pos()
		}
	}
	return token.NoPos
}

func c13Uniq(c *Ctx, r *Report) {
	lists := []string{"fieldList", "argList", "inputFieldList", "enumValueList"}
	for _, l := range lists {
		add := c.fn("(*" + l + ").add")
		if add == nil {
			r.check("C13.UNIQ", l+": has an add method", token.NoPos, false, "not found")
			continue
		}
		r.fnSeen(fnName(add))
		// duplicate test dominates the map update
		okDup := false
		for _, b := range add.Blocks {
			for _, in := range b.Instrs {
				mu, ok := in.(*ssa.MapUpdate)
				if !ok {
					continue
				}
				okDup = hasGuard(b, func(g guard) bool {
					// `if m[k] == nil`, or the comma-ok form `if _, taken := m[k]; !taken`
					if ex, isEx := g.cond.(*ssa.Extract); isEx && ex.Index == 1 && !g.val {
						if lk, isLk := ex.Tuple.(*ssa.Lookup); isLk && lk.CommaOk {
							return sameVal(lk.X, mu.Map) && sameVal(lk.Index, mu.Key)
						}
					}
					v, eq, ok := nilCmp(g.cond)
					if !ok || eq != g.val {
						return false
					}
					lk, ok := v.(*ssa.Lookup)
					return ok && sameVal(lk.X, mu.Map) && sameVal(lk.Index, mu.Key)
				})
			}
		}
		r.check("C13.UNIQ", fmt.Sprintf("(*%s).add rejects a duplicate name before inserting", l), add.Pos(), okDup, "the insertion is not dominated by a failed lookup of the same key")
		// who may write dict / list
		for _, fn := range c.allFns {
			for _, b := range fn.Blocks {
				for _, in := range b.Instrs {
					var owner, field string
					switch t := in.(type) {
					case *ssa.Store:
						if fa, ok := t.Addr.(*ssa.FieldAddr); ok {
							owner, field = fieldOwner(fa.X.Type(), fa.Field)
							// composite literal initialisation of a fresh list is fine
							if _, isAlloc := rootAllocOf(fa.X).(*ssa.Alloc); isAlloc && fn != add {
								owner = ""
							}
						}
					case *ssa.MapUpdate:
						if _, o, f, ok := loadOfField(t.Map); ok {
							owner, field = o, f
						}
					}
					if owner == l && (field == "dict" || field == "list") && fn != add {
						r.flag("C13.UNIQ", fmt.Sprintf("%s: writes %s.%s outside add()", fnName(fn), l, field), in.Pos(), "the member table is modified without the duplicate check")
					}
				}
			}
		}
		// parser / Extend call sites use the error
		n := 0
		for _, fn := range c.allFns {
			isParser := fn.Signature.Recv() != nil && c.isNamed(fn.Signature.Recv().Type(), "sdlParser")
			if !isParser && fn.Name() != "Extend" {
				continue
			}
			for _, ci := range callsIn(fn) {
				if ci.Common().StaticCallee() != add {
					continue
				}
				n++
				used := false
				if v := ci.Value(); v != nil {
					for _, ref := range *v.Referrers() {
						if _, isDbg := ref.(*ssa.DebugRef); !isDbg {
							used = true
						}
					}
				}
				r.check("C13.UNIQ", fmt.Sprintf("%s: uses the error of %s.add", fnName(fn), l), ci.Pos(), used, "a duplicate member is dropped silently")
			}
		}
	}
}

func rootAllocOf(v ssa.Value) ssa.Value {
	for i := 0; i < 6; i++ {
		if fa, ok := v.(*ssa.FieldAddr); ok {
			v = fa.X
			continue
		}
		break
	}
	return v
}

func c13Names(c *Ctx, r *Report, vreach map[*ssa.Function]bool) {
	vn := c.fn("validateName")
	if vn == nil {
		r.undecided("C13.NAMES", "anchor validateName", token.NoPos, "not found")
		return
	}
	got := map[string]bool{}
	for f := range vreach {
		if !c.inPkg(f) {
			continue
		}
		for _, ci := range callsIn(f) {
			if ci.Common().StaticCallee() != vn || len(ci.Common().Args) < 2 {
				continue
			}
			kind := "(variable)"
			if s, ok := constStr(ci.Common().Args[1]); ok {
				kind = s
			}
			got[fnName(f)+": "+kind] = true
		}
	}
	want := []string{"(*Base).validateFieldDefs: field", "(*Base).validateFieldDefs: argument", "(*Input).Validate: field", "(*Enum).Validate: enum value", "(*Directive).Validate: argument", "(*Root).validateTypeName: (variable)"}
	for _, w := range want {
		r.check("C13.NAMES", "name check at "+w, vn.Pos(), got[w], "names at this position are not validated (well-formedness, reserved prefix)")
	}
	r.Tables["name_checks"] = keys(got)
	// the exemption from the reserved prefix is decided by the flag of the node that is named, not by its owner's
	rootOf := func(v ssa.Value) ssa.Value {
		for d := 0; d < 6; d++ {
			switch t := v.(type) {
			case *ssa.UnOp:
				v = t.X
			case *ssa.FieldAddr:
				v = t.X
			case *ssa.Field:
				v = t.X
			default:
				return v
			}
		}
		return v
	}
	var fl []*ssa.Function
	for f := range vreach {
		if c.inPkg(f) {
			fl = append(fl, f)
		}
	}
	sort.Slice(fl, func(i, j int) bool { return fnName(fl[i]) < fnName(fl[j]) })
	for _, f := range fl {
		k := 0
		for _, ci := range callsIn(f) {
			args := ci.Common().Args
			if ci.Common().StaticCallee() != vn || len(args) < 3 {
				continue
			}
			_, _, f0, ok0 := loadOfField(args[0])
			_, _, f2, ok2 := loadOfField(args[2])
			if !ok0 || !ok2 || f0 != "core" || f2 != "N" {
				continue
			}
			k++
			same := sameVal(rootOf(args[0]), rootOf(args[2]))
			r.check("C13.NAMES", fmt.Sprintf("%s: name check #%d takes the built-in flag of the node it names", fnName(f), k), ci.Pos(), same,
				"the reserved '__' prefix is waived according to the flag of a different node (the owning type): a document that extends a built-in type can give it members with reserved names")
		}
	}
}

func c13InOut(c *Ctx, r *Report, vreach map[*ssa.Function]bool) {
	isIn, isOut := c.fn("IsInputType"), c.fn("IsOutputType")
	type site struct{ fn, what, pred string }
	var sites []site
	// input positions: functions validating Arg / InputField / VarDef types
	check := func(fnName_ string, typOwner string, want *ssa.Function, label string) {
		fn := c.fn(fnName_)
		if fn == nil {
			r.check("C13.INOUT", label, token.NoPos, false, "function not found")
			return
		}
		pred := "none"
		for _, ci := range callsIn(fn) {
			cal := ci.Common().StaticCallee()
			if cal != isIn && cal != isOut {
				continue
			}
			for _, a := range ci.Common().Args {
				if _, o, f, ok := loadOfField(stripIface(a)); ok && o == typOwner && f == "Type" {
					pred = cal.Name()
				}
			}
		}
		if pred == "none" {
			// a type assertion to InCoercer/OutCoercer on the position's type
			for _, b := range fn.Blocks {
				for _, in := range b.Instrs {
					if ta, ok := in.(*ssa.TypeAssert); ok {
						if _, o, f, ok := loadOfField(ta.X); ok && o == typOwner && f == "Type" {
							pred = "assertion to " + typeStr(ta.AssertedType)
						}
					}
				}
			}
		}
		sites = append(sites, site{fnName_, label, pred})
		r.check("C13.INOUT", label, fn.Pos(), pred == want.Name(), fmt.Sprintf("this position is checked with %q; the other positions of the same class use %s: wrappers ([T], T!) of the wrong class satisfy the weaker test", pred, want.Name()))
	}
	if isIn == nil || isOut == nil {
		r.undecided("C13.INOUT", "anchors IsInputType / IsOutputType", token.NoPos, "not found")
		return
	}
	check("(*Base).validateFieldDefs", "FieldDef", isOut, "field position: output-type test")
	check("(*Base).validateFieldDefs", "Arg", isIn, "field argument position: input-type test")
	check("(*Input).Validate", "InputField", isIn, "input field position: input-type test")
	check("(*Directive).Validate", "Arg", isIn, "directive argument position: input-type test")
	check("(*VarDef).Validate", "VarDef", isIn, "variable definition position: input-type test")
}

func c13NonEmpty(c *Ctx, r *Report, vreach map[*ssa.Function]bool) {
	for _, nm := range []string{"(*Base).validateFieldDefs", "(*Input).Validate", "(*Enum).Validate", "(*Union).Validate"} {
		fn := c.fn(nm)
		if fn == nil {
			r.check("C13.NONEMPTY", nm+": emptiness rejected", token.NoPos, false, "not found")
			continue
		}
		ok := false
		for _, b := range fn.Blocks {
			for _, in := range b.Instrs {
				call, isC := in.(*ssa.Call)
				if !isC || !isBuiltinCall(call, "append") || !isErrSlice(call.Type()) {
					// a fresh list holding the error (return []error{..}) reports it as well
					sl, isS := in.(*ssa.Slice)
					if !isS || !isErrSlice(sl.Type()) {
						continue
					}
					if el, lit := sliceLitElems(sl); !lit || len(el) == 0 {
						continue
					}
				}
				if hasGuard(b, func(g guard) bool {
					v, op, k, ok := intCmp(g.cond)
					if !ok {
						return false
					}
					isLen := false
					if _, l := isLenOf(v); l {
						isLen = true
					}
					if cl, isCall := v.(*ssa.Call); isCall {
						if f := calleeObj(cl); f != nil && f.Name() == "Len" {
							isLen = true
						}
					}
					if !isLen {
						return false
					}
					if !g.val {
						op = negOp(op)
					}
					return (op == token.LEQ && k == 0) || (op == token.EQL && k == 0) || (op == token.LSS && k == 1)
				}) {
					ok = true
				}
			}
		}
		r.check("C13.NONEMPTY", nm+": an empty member list is rejected", fn.Pos(), ok && vreach[fn], "no error is appended on the branch where the member list is empty")
	}
}

// c13DirUse: which holders' directive uses reach validateDirUse during schema validation.
func c13DirUse(c *Ctx, r *Report, vreach map[*ssa.Function]bool) {
	vdu := c.fn("(*Root).validateDirUse")
	locate := c.fn("Locate")
	if vdu == nil || locate == nil {
		r.undecided("C13.DIRUSE", "anchors validateDirUse / Locate", token.NoPos, "not found")
		return
	}
	got := map[string]token.Pos{}
	for f := range vreach {
		if !c.inPkg(f) {
			continue
		}
		for _, ci := range callsIn(f) {
			if ci.Common().StaticCallee() != vdu {
				continue
			}
			args := explicitArgs(ci)
			if len(args) != 3 {
				continue
			}
			// holder: the argument of Locate; a location handed in as a parameter is followed to the call sites
			var holders func(v ssa.Value, in *ssa.Function, depth int)
			holders = func(v ssa.Value, in *ssa.Function, depth int) {
				if lc, ok := v.(*ssa.Call); ok && lc.Call.StaticCallee() == locate && len(lc.Call.Args) == 1 {
					h := stripIface(lc.Call.Args[0])
					got[derefNamed(h.Type())] = ci.Pos()
					return
				}
				pr, ok := v.(*ssa.Parameter)
				if !ok || depth > 2 {
					return
				}
				idx := -1
				for i, p := range in.Params {
					if p == pr {
						idx = i
					}
				}
				if idx < 0 {
					return
				}
				for g := range vreach {
					if !c.inPkg(g) {
						continue
					}
					for _, cs := range callsIn(g) {
						if cs.Common().StaticCallee() == in && idx < len(cs.Common().Args) {
							holders(cs.Common().Args[idx], g, depth+1)
						}
					}
				}
			}
			holders(args[1], f, 0)
		}
	}
	r.Tables["directive_use_validation_sites"] = sortedKeys(got)
	rows := []struct{ holder, typ string }{{"type definition", "Type"}, {"enum value", "EnumValue"}, {"directive argument / field argument (Arg)", "Arg"}, {"field definition", "FieldDef"}, {"input field", "InputField"}}
	for _, row := range rows {
		pos, ok := got[row.typ]
		r.check("C13.DIRUSE", fmt.Sprintf("directive uses on a %s are validated", row.holder), firstPos(pos, vdu.Pos()), ok,
			"no call validateDirUse(.., Locate(<"+row.typ+">), ..) is reachable from Root.validate: an undefined-location or undeclared-argument use of a directive at this position is accepted")
	}
	// field arguments: Arg holders are validated only inside Directive.Validate?
	argInFields := false
	if f := c.fn("(*Base).validateFieldDefs"); f != nil {
		for _, ci := range callsIn(f) {
			if ci.Common().StaticCallee() == vdu {
				argInFields = true
			}
		}
	}
	r.check("C13.DIRUSE", "directive uses on field arguments are validated where fields are validated", vdu.Pos(), argInFields, "validateFieldDefs never calls validateDirUse: directive uses on fields and on their arguments are not checked")
	dirUseArgLoop(c, r, "C13.DIRUSE")
	dirUseLocation(c, r, "C13.DIRUSE")
}

func c13Drop(c *Ctx, r *Report, vreach map[*ssa.Function]bool) {
	n := 0
	var fl []*ssa.Function
	for f := range vreach {
		if c.inPkg(f) {
			fl = append(fl, f)
		}
	}
	sort.Slice(fl, func(i, j int) bool { return fnName(fl[i]) < fnName(fl[j]) })
	for _, f := range fl {
		k := 0
		for _, ci := range callsIn(f) {
			call, ok := ci.(*ssa.Call)
			if !ok || isBuiltinCall(call, "append") {
				continue
			}
			if !isErrSlice(call.Type()) {
				continue
			}
			n++
			k++
			used := false
			for _, ref := range *call.Referrers() {
				if _, isDbg := ref.(*ssa.DebugRef); !isDbg {
					used = true
				}
			}
			name := "call"
			if fo := calleeObj(call); fo != nil {
				name = fo.Name()
			}
			r.check("C13.DROP", fmt.Sprintf("%s: error list of %s #%d is used", fnName(f), name, k), call.Pos(), used, "validation errors are computed and dropped")
		}
	}
	r.floor("C13.DROP", "calls returning []error inside the validation tree", n, 15)
}

func c13Locate(c *Ctx, r *Report) {
	locate := c.fn("Locate")
	if locate == nil {
		r.undecided("C13.LOCATE", "anchor Locate", token.NoPos, "not found")
		return
	}
	spec := map[string]string{
		"*Object": "OBJECT", "*uuSchema": "OBJECT", "*Schema": "SCHEMA", "*FieldDef": "FIELD_DEFINITION", "*Arg": "ARGUMENT_DEFINITION",
		"*InputField": "INPUT_FIELD_DEFINITION", "*Interface": "INTERFACE", "*Union": "UNION", "*Enum": "ENUM", "*EnumValue": "ENUM_VALUE",
		"*Input": "INPUT_OBJECT", "*Scalar": "SCALAR", "*Field": "FIELD", "*Fragment": "FRAGMENT_DEFINITION", "*Inline": "INLINE_FRAGMENT",
		"*FragRef": "FRAGMENT_SPREAD", "*VarDef": "VARIABLE_DEFINITION",
	}
	r.Tables["spec_location_table"] = spec
	got := map[string]string{}
	for _, rt := range returnsOf(locate) {
		s, ok := constStr(rt.Results[0])
		if !ok {
			continue
		}
		for _, t := range caseTypes(rt.Block(), nil) {
			got[typeStr(t)] = s
		}
	}
	for _, k := range sortedKeys(spec) {
		r.check("C13.LOCATE", fmt.Sprintf("Locate(%s) = %s", k, spec[k]), locate.Pos(), got[k] == spec[k], fmt.Sprintf("Locate returns %q: directive uses at this node kind are checked against the wrong location", got[k]))
	}
	_ = types.Typ
}

// c13Wrap: wrapper transparency of IsInputType / IsOutputType (C13.WRAP).
func c13Wrap(c *Ctx, r *Report) {
	n := 0
	for _, nm := range []string{"IsInputType", "IsOutputType"} {
		fn := c.fn(nm)
		if fn == nil {
			r.undecided("C13.WRAP", nm, token.NoPos, "function not found")
			continue
		}
		r.fnSeen(nm)
		isWrapper := func(t types.Type) string {
			for _, w := range []string{"List", "NonNull"} {
				if p, ok := t.(*types.Pointer); ok && c.isNamed(p.Elem(), w) {
					return w
				}
			}
			return ""
		}
		examine := func(b *ssa.BasicBlock, val ssa.Value, pos token.Pos, ord int) {
			if k, ok := val.(*ssa.Const); ok && k.Value != nil && k.Value.String() == "false" {
				return
			}
			if call, ok := val.(*ssa.Call); ok {
				if cal := call.Call.StaticCallee(); cal != nil && (cal.Name() == "IsInputType" || cal.Name() == "IsOutputType") {
					return // delegated to the predicate on the wrapped type
				}
			}
			n++
			facts := assertFacts(b)
			// `_, ok := x.(T); return ok`: the answer is true exactly when the assertion holds
			if ex, ok := val.(*ssa.Extract); ok && ex.Index == 1 {
				if ta, ok := ex.Tuple.(*ssa.TypeAssert); ok && ta.CommaOk {
					facts = append(assertFacts(ta.Block()), assertFact{ta.X, ta.AssertedType, true})
				}
			}
			okc, why := false, "the answer true is given without any type test of the value"
			// a case clause listing several types: entered from one successful test per type
			if cts := caseTypes(b, nil); len(cts) > 0 {
				all := true
				for _, t := range cts {
					if _, isI := t.Underlying().(*types.Interface); isI || isWrapper(t) != "" {
						all = false
					}
				}
				if all {
					okc = true
				}
			}
			for _, f := range facts {
				if !f.holds {
					continue
				}
				if _, isI := f.t.Underlying().(*types.Interface); !isI {
					if isWrapper(f.t) == "" {
						okc = true
					} else {
						why = "the answer true is given for a wrapper itself"
					}
					continue
				}
				neg := map[string]bool{}
				for _, g := range facts {
					if !g.holds && sameVal(stripIface(g.x), stripIface(f.x)) {
						if w := isWrapper(g.t); w != "" {
							neg[w] = true
						}
					}
				}
				if neg["List"] && neg["NonNull"] {
					okc = true
				} else {
					why = fmt.Sprintf("the answer rests on the value implementing %s, but on this path the value has not been shown to be neither *List nor *NonNull: both wrappers implement the coercer interfaces, so a wrapped type of the wrong class (e.g. [[Obj]] in an input position) is admitted", typeStr(f.t))
				}
			}
			r.check("C13.WRAP", fmt.Sprintf("%s: non-recursive answer #%d is given only for a non-wrapper value", nm, ord), pos, okc, why)
		}
		ord := 0
		for _, ret := range returnsOf(fn) {
			if len(ret.Results) != 1 {
				continue
			}
			if phi, ok := ret.Results[0].(*ssa.Phi); ok {
				for i, e := range phi.Edges {
					ord++
					examine(phi.Block().Preds[i], e, ret.Pos(), ord)
				}
				continue
			}
			ord++
			examine(ret.Block(), ret.Results[0], ret.Pos(), ord)
		}
		// the wrapper arms must exist: some recursive or iterative descent through Base
		desc := 0
		for _, b := range fn.Blocks {
			for _, in := range b.Instrs {
				if fa, ok := in.(*ssa.FieldAddr); ok {
					if o, f := fieldOwner(fa.X.Type(), fa.Field); (o == "List" || o == "NonNull") && f == "Base" {
						desc++
					}
				}
			}
		}
		r.check("C13.WRAP", nm+": descends through List.Base and NonNull.Base", fn.Pos(), desc >= 2, "the predicate does not look inside both wrapper kinds")
	}
	r.floor("C13.WRAP", "non-recursive answers of the class predicates", n, 4)
}

// c13Walk: the validation pass after a load walks the complete type table and the complete directive
// table. The rules relate definitions to one another (an object to the interfaces it implements, a
// union to its members, a use to its directive), so a load that only adds or extends one definition
// can invalidate another that it does not touch.
func c13Walk(c *Ctx, r *Report) {
	r.rule("C13.WALK", "Root.validate applies Validate / validateTypeName / validateDirUses inside loops that range over Root.types.list and Root.dirs.list themselves")
	vf := c.fn("(*Root).validate")
	if vf == nil {
		r.undecided("C13.WALK", "anchor (*Root).validate", token.NoPos, "not found")
		return
	}
	loops := loopsOf(vf)
	tableOfLoop := func(l *loopInfo) string {
		found := ""
		for b := range l.body {
			for _, in := range b.Instrs {
				var x ssa.Value
				switch t := in.(type) {
				case *ssa.IndexAddr:
					x = t.X
				case *ssa.Next:
					if rg, ok := t.Iter.(*ssa.Range); ok {
						x = rg.X
					}
				}
				if x == nil {
					continue
				}
				// x = load of typeList.list of (load of Root.types | Root.dirs)
				if base, o, f, ok := loadOfField(x); ok && o == "typeList" && f == "list" {
					if _, o2, f2, ok2 := loadOfField(base); ok2 && o2 == "Root" {
						found = f2
					}
				}
			}
		}
		return found
	}
	n := 0
	seen := map[string]bool{}
	for _, ci := range callsIn(vf) {
		cc := ci.Common()
		what := ""
		switch {
		case cc.IsInvoke() && cc.Method.Name() == "Validate":
			what = "Validate"
		case cc.StaticCallee() != nil && (cc.StaticCallee().Name() == "validateTypeName" || cc.StaticCallee().Name() == "validateDirUses"):
			what = cc.StaticCallee().Name()
		default:
			continue
		}
		n++
		l := innermostLoop(loops, ci.Block())
		tbl := ""
		if l != nil {
			tbl = tableOfLoop(l)
		}
		seen[what+":"+tbl] = true
		// ... and to every entry: inside the loop nothing but the loop's own test decides whether the call is made
		filter := ""
		if l != nil {
			for _, d := range loopControlDeps(l, ci.Block()) {
				if !isRangeCond(d.ifi.Cond) {
					filter = shortPath(vpath(d.ifi.Cond))
				}
			}
		}
		r.check("C13.WALK", fmt.Sprintf("%s: %s #%d is applied to every entry, unfiltered", fnName(vf), what, n), ci.Pos(), filter == "",
			"inside the loop the check is skipped depending on "+filter+" (a set of definitions changed by this load): a definition that became invalid because another one was extended is not re-checked, and the same text loaded as one document is refused")
		r.check("C13.WALK", fmt.Sprintf("%s: %s #%d is applied to every entry of a root table", fnName(vf), what, n), ci.Pos(), tbl != "",
			"the check runs over something other than Root.types.list / Root.dirs.list (a list of the definitions changed by this load): a definition that became invalid because another one was extended is not re-checked, and the same text loaded as one document is refused")
	}
	for _, want := range []string{"Validate:types", "validateTypeName:types", "validateDirUses:types", "validateTypeName:dirs"} {
		r.check("C13.WALK", "validation pass covers "+want, vf.Pos(), seen[want], "no such loop in Root.validate")
	}
}

// c13SubWrap: "a compatible type": the sub-type relation compares the two types wrapper by wrapper (a list
// with a list, non-null with non-null, plus T! for T). In the predicate and the two-type helpers it reaches,
// the types handed on are the parameters themselves, the Base of a wrapper that was recognised by a type
// test, or a member of a member list - never the result of a function that transforms a type (BaseType strips
// every wrapper at once, so [U!]! and U would be related through their named types alone).
func c13SubWrap(c *Ctx, r *Report, sub *ssa.Function) {
	r.rule("C13.SUBWRAP", "in the sub-type predicate and the two-type helpers it reaches no argument of a two-type call is the result of a type-transforming function: wrappers are peeled pairwise under type tests")
	if sub == nil {
		r.undecided("C13.SUBWRAP", "anchor (*Object).isSubType", token.NoPos, "not found")
		return
	}
	isType := func(t types.Type) bool { return c.isNamed(t, "Type") }
	twoType := func(fn *ssa.Function) bool {
		k := 0
		for _, p := range fn.Params {
			if isType(p.Type()) {
				k++
			}
		}
		return k >= 2
	}
	n := 0
	for fn := range c.reachable(sub) {
		if !c.inPkg(fn) || !twoType(fn) {
			continue
		}
		r.fnSeen(fnName(fn))
		k := 0
		for _, ci := range callsIn(fn) {
			cal := ci.Common().StaticCallee()
			if cal == nil || !c.inPkg(cal) || !twoType(cal) {
				continue
			}
			n++
			k++
			bad := ""
			for _, a := range ci.Common().Args {
				if !isType(a.Type()) {
					continue
				}
				if call, ok := a.(*ssa.Call); ok {
					bad = calleeDesc2(call)
				}
			}
			r.check("C13.SUBWRAP", fmt.Sprintf("%s: two-type call #%d (%s) compares the types as they are or peeled pairwise", fnName(fn), k, cal.Name()), ci.Pos(), bad == "",
				"an operand is the result of "+bad+": the relation is evaluated on transformed types, so wrapper mismatches (a nullable or single value for a non-null list) between an interface field and its implementation are accepted")
		}
	}
	r.floor("C13.SUBWRAP", "two-type calls in the sub-type predicate family", n, 4)
}

// c13IfaceEvery: "objects providing every interface field": in the conformance check of one interface the
// comparison is made for every field the interface declares: inside the loop over the interface's fields the
// call that checks one field is control dependent on nothing but the loop's own test - not on a set of names
// already seen under another interface (two interfaces may declare one name differently).
func c13IfaceEvery(c *Ctx, r *Report) {
	ov := c.fn("(*Object).Validate")
	sub := c.fn("(*Object).isSubType")
	if ov == nil || sub == nil {
		r.undecided("C13.IFACE", "anchor (*Object).Validate / isSubType", token.NoPos, "not found")
		return
	}
	// the function that looks each field of the interface up in the object: it calls the field list's get inside a loop
	var vi *ssa.Function
	var cands []*ssa.Function
	for f := range c.reachable(ov) {
		cands = append(cands, f)
	}
	cands = append(cands, ov)
	sort.Slice(cands, func(i, j int) bool { return fnName(cands[i]) < fnName(cands[j]) })
	for _, f := range cands {
		if !c.inPkg(f) || !(f == ov || c.reachable(f)[sub]) || c.reachable(sub)[f] || f == sub {
			continue
		}
		ls := loopsOf(f)
		for _, ci := range callsIn(f) {
			cal := ci.Common().StaticCallee()
			if cal != nil && cal.Name() == "get" && recvName(cal) == "fieldList" && innermostLoop(ls, ci.Block()) != nil && vi == nil {
				vi = f
			}
		}
	}
	if vi == nil {
		r.undecided("C13.IFACE", "anchor: the loop that looks every field of an interface up in the object", token.NoPos, "not found")
		return
	}
	reachesSub := func(f *ssa.Function) bool { return f == sub || c.reachable(f)[sub] }
	loops := loopsOf(vi)
	n := 0
	for _, ci := range callsIn(vi) {
		cal := ci.Common().StaticCallee()
		if cal == nil {
			continue
		}
		isCheck := reachesSub(cal) || cal.Name() == "get" && recvName(cal) == "fieldList"
		if !isCheck {
			continue
		}
		l := innermostLoop(loops, ci.Block())
		if l == nil {
			continue
		}
		n++
		filter := ""
		for _, d := range loopControlDeps(l, ci.Block()) {
			if isRangeCond(d.ifi.Cond) {
				continue
			}
			// the object has no such field: reported instead of compared
			if v, _, ok := nilCmp(d.ifi.Cond); ok {
				if gc, ok := v.(*ssa.Call); ok {
					if g := gc.Call.StaticCallee(); g != nil && g.Name() == "get" && recvName(g) == "fieldList" {
						continue
					}
				}
			}
			filter = shortPath(vpath(d.ifi.Cond))
		}
		r.check("C13.IFACE", fmt.Sprintf("%s: %s is reached for every field of the interface", fnName(vi), cal.Name()), ci.Pos(), filter == "",
			"the comparison of an interface field is skipped depending on "+filter+": a field that another interface of the object declares under the same name is then never compared with this interface's declaration")
	}
	r.floor("C13.IFACE", "per-field checks in the interface conformance loop", n, 1)
}

// c13NoVerdictCache: validation decides from the schema as it is now. The functions reachable from
// Root.validate write nothing into schema nodes except the reviewed idempotent normalisations (a directive
// argument value / default replaced by its coerced form). A verdict remembered on a node ("this directive is
// loop free", "this object conforms") is computed from the part of the schema walked at that moment and is
// consulted when other definitions are validated, or after other definitions arrived.
func c13NoVerdictCache(c *Ctx, r *Report) {
	r.rule("C13.NOCACHE", "the write summary of Root.validate contains no location inside a schema node other than the reviewed idempotent normalisations (ArgValue.Value, Arg.Default)")
	val := c.fn("(*Root).validate")
	if val == nil {
		r.undecided("C13.NOCACHE", "anchor (*Root).validate", token.NoPos, "not found")
		return
	}
	idem := map[string]bool{"ArgValue.Value": true, "Arg.Default": true}
	eng := newEffEngine(c)
	eng.run(val)
	s := eng.sums[val]
	n, bad := 0, 0
	if s != nil {
		var keys []string
		for k := range s.effects {
			keys = append(keys, k)
		}
		sort.Strings(keys)
		seen := map[string]bool{}
		for _, k := range keys {
			ef := s.effects[k]
			if !writeKinds[ef.kind] {
				continue
			}
			n++
			owner := ef.owner
			of := ef.owner + "." + ef.field
			if owner == "" && ef.elemOf != "" {
				owner = ef.elemOf[:strings.IndexByte(ef.elemOf+".", '.')]
				of = ef.elemOf
			}
			if !schemaTypes[owner] || isFreshTarget(ef.target) || idem[of] {
				continue
			}
			key := fmt.Sprintf("%s: %s", fnName(ef.fn), ef.descr())
			if seen[key] {
				continue
			}
			seen[key] = true
			bad++
			r.add("C13.NOCACHE", key, ef.pos, Violated, "validation writes into the schema ("+ef.target.String()+"): a verdict or intermediate result kept on a node is consulted later as if it described the whole, current schema - a directive marked loop free while another one was being checked hides its own cycle")
		}
	}
	r.check("C13.NOCACHE", fnName(val)+": validation leaves no verdict on schema nodes", val.Pos(), bad == 0, fmt.Sprintf("%d write(s) into schema nodes among %d summarised writes", bad, n))
	r.floor("C13.NOCACHE", "functions summarised below Root.validate", len(eng.sums), 20)
}
