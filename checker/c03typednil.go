package main

import (
	"fmt"
	"go/token"
	"go/types"
	"sort"

	"golang.org/x/tools/go/ssa"
)

// C03.TYPEDNIL: a nil pointer put into an interface is not a nil interface. The code believes a pointer
// field may be nil when it tests the field against nil somewhere (Root.schema: `if root.schema == nil`).
// Where a load of such a field is converted to an interface without a dominating non-nil fact for that
// pointer, a later `iface == nil` test does not see the nil, and a method invoked on the interface runs with
// a nil receiver: `cur = root.schema; if cur == nil {..}; cur.Extend(..)` dereferences nil for
// `extend schema {..}` in a document without a schema block.
//
// The rule: every conversion to an interface of a load of a pointer field that is nil-tested somewhere in
// the package is dominated by a non-nil fact for a load of the same field, unless the interface value is
// neither compared with nil nor used as the receiver of an invoke (directly or through phis).
func c03TypedNil(c *Ctx, r *Report) {
	r.rule("C03.TYPEDNIL", "a pointer field that the package tests against nil somewhere is converted to an interface only under a non-nil fact for that field, wherever the interface value is then compared with nil or has a method invoked on it")
	// fields the code believes may be nil
	nilTested := map[string]bool{}
	for _, fn := range c.allFns {
		for _, b := range fn.Blocks {
			for _, in := range b.Instrs {
				bo, ok := in.(*ssa.BinOp)
				if !ok || (bo.Op != token.EQL && bo.Op != token.NEQ) {
					continue
				}
				for _, pr := range [][2]ssa.Value{{bo.X, bo.Y}, {bo.Y, bo.X}} {
					if !isNilConst(pr[1]) {
						continue
					}
					if _, o, f, ok := loadOfField(pr[0]); ok {
						if _, isP := pr[0].Type().Underlying().(*types.Pointer); isP {
							nilTested[o+"."+f] = true
						}
					}
				}
			}
		}
	}
	var names []string
	for k := range nilTested {
		names = append(names, k)
	}
	sort.Strings(names)
	r.Tables["C03.TYPEDNIL pointer fields tested against nil"] = names
	n := 0
	for _, fn := range c.allFns {
		k := 0
		for _, b := range fn.Blocks {
			for _, in := range b.Instrs {
				mi, ok := in.(*ssa.MakeInterface)
				if !ok {
					continue
				}
				_, o, f, isLd := loadOfField(mi.X)
				if !isLd || !nilTested[o+"."+f] {
					continue
				}
				if _, isP := mi.X.Type().Underlying().(*types.Pointer); !isP {
					continue
				}
				// how the interface value is used
				use := typedNilUse(mi, map[ssa.Value]bool{})
				if use == "" {
					continue
				}
				n++
				k++
				r.fnSeen(fnName(fn))
				// a non-nil fact for a load of the same field at the conversion
				okG := provenNonNil(mi.X, b, 0) || hasGuard(b, func(g guard) bool {
					v, eq, isN := nilCmp(g.cond)
					if !isN || eq == g.val {
						return false
					}
					_, o2, f2, ok2 := loadOfField(v)
					return ok2 && o2 == o && f2 == f && vpath(v) == vpath(mi.X)
				})
				r.check("C03.TYPEDNIL", fmt.Sprintf("%s: %s.%s put into an interface #%d only when it is not nil", fnName(fn), o, f, k), mi.Pos(), okG,
					fmt.Sprintf("%s.%s may be nil here (the package tests it against nil elsewhere) and the interface made from it is %s: a nil pointer inside an interface is not a nil interface, so the test does not see it and the method runs on a nil receiver", o, f, use))
			}
		}
	}
	r.floor("C03.TYPEDNIL", "nil-tested pointer fields converted to interfaces that are nil-compared or invoked", n, 0) // a program without such a conversion is fine; the control with the defect keeps the rule alive
}

// typedNilUse: "" when the interface value (followed through phis and interface changes) is neither compared
// with nil nor the receiver of an invoke.
func typedNilUse(v ssa.Value, seen map[ssa.Value]bool) string {
	if seen[v] || v.Referrers() == nil {
		return ""
	}
	seen[v] = true
	for _, ref := range *v.Referrers() {
		switch t := ref.(type) {
		case *ssa.Phi:
			if u := typedNilUse(t, seen); u != "" {
				return u
			}
		case *ssa.ChangeInterface:
			if u := typedNilUse(t, seen); u != "" {
				return u
			}
		case *ssa.BinOp:
			if (t.Op == token.EQL || t.Op == token.NEQ) && (isNilConst(t.X) || isNilConst(t.Y)) {
				return "compared with nil"
			}
		case ssa.CallInstruction:
			if cm := t.Common(); cm.IsInvoke() && cm.Value == v {
				return "the receiver of " + cm.Method.Name() + "()"
			}
		}
	}
	return ""
}
