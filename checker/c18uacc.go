package main

import (
	"fmt"
	"go/constant"
	"go/token"
	"go/types"

	"golang.org/x/tools/go/ssa"
)

// c18UAccept: every code point the string writer spells as \uXXXX is a code point the escape reader
// gives back. The reader decodes four hex digits into an accumulator; the rule collects the comparisons of
// that accumulator (followed through phis, conversions and the results of in-package helpers) with constants
// that guard the making of an error, and demands that the values refused that way are disjoint from the
// writer's \u set. What it does not decide: that the accumulator holds the digits' value (C18.TABLE counts
// the digits; the arithmetic is not checked).
func c18UAccept(c *Ctx, r *Report) {
	const rule = "C18.UACCEPT"
	r.rule(rule, "code points written as \\uXXXX by writeString ∩ decoded values for which the escape reader makes an error (comparisons of the hex accumulator, or of a value it flows into, with constants) = ∅")
	ws, re := c.fn("writeString"), c.fn("(*parser).readEscaped")
	if ws == nil || re == nil {
		r.undecided(rule, "anchors writeString / (*parser).readEscaped", token.NoPos, "not found")
		return
	}
	var rn ssa.Value
	for _, b := range ws.Blocks {
		for _, in := range b.Instrs {
			if ex, ok := in.(*ssa.Extract); ok && ex.Index == 2 {
				if nx, ok := ex.Tuple.(*ssa.Next); ok && nx.IsString {
					rn = ex
				}
			}
		}
	}
	if rn == nil {
		r.undecided(rule, "writeString: rune loop", ws.Pos(), "no range over the string found (the escaping rule reports the shape)")
		return
	}
	var uset iset
	for _, w := range runeWrites(c, ws, rn) {
		if !w.known || len(w.elems) < 2 {
			continue
		}
		k0, ok0 := w.elems[0].(*ssa.Const)
		k1, ok1 := w.elems[1].(*ssa.Const)
		if ok0 && ok1 && k0.Value != nil && k1.Value != nil && k0.Int64() == '\\' && k1.Int64() == 'u' {
			uset = append(uset, w.rs...)
		}
	}
	uset = uset.norm()
	r.Tables[rule+" writer \\u code points"] = uset.String()
	if len(uset) == 0 {
		// nothing is written as \u: nothing to demand of the reader
		r.check(rule, "the escape reader gives back every code point the writer spells as \\uXXXX", re.Pos(), true, "")
		return
	}
	// the reader and the in-package helpers it calls
	fns := escapeReaderFns(c, re)
	seenFn := map[*ssa.Function]bool{}
	for _, f := range fns {
		seenFn[f] = true
	}
	// values the decoded number flows into
	memo := map[ssa.Value]int{} // 1 in progress / no, 2 yes
	var isAcc func(v ssa.Value) bool
	retAcc := func(f *ssa.Function, idx int) bool {
		for _, rt := range returnsOf(f) {
			if idx < len(rt.Results) && isAcc(rt.Results[idx]) {
				return true
			}
		}
		return false
	}
	isAcc = func(v ssa.Value) bool {
		if v == nil {
			return false
		}
		if s, ok := memo[v]; ok {
			return s == 2
		}
		memo[v] = 1
		res := false
		switch x := v.(type) {
		case *ssa.BinOp:
			if k, isC := x.Y.(*ssa.Const); isC && k.Value != nil && k.Value.Kind() == constant.Int {
				if (x.Op == token.SHL && k.Int64() == 4) || (x.Op == token.MUL && k.Int64() == 16) {
					res = true
				}
			}
			if !res {
				switch x.Op {
				case token.ADD, token.OR, token.SUB, token.XOR:
					res = isAcc(x.X) || isAcc(x.Y)
				}
			}
		case *ssa.Phi:
			for _, e := range x.Edges {
				if isAcc(e) {
					res = true
				}
			}
		case *ssa.Convert:
			res = isAcc(x.X)
		case *ssa.ChangeType:
			res = isAcc(x.X)
		case *ssa.Extract:
			if call, ok := x.Tuple.(*ssa.Call); ok {
				if f := call.Call.StaticCallee(); f != nil {
					if seenFn[f] {
						res = retAcc(f, x.Index)
					} else if f.Pkg != nil && f.Pkg.Pkg.Path() == "strconv" && (f.Name() == "ParseUint" || f.Name() == "ParseInt") && x.Index == 0 {
						res = true
					}
				}
			}
		case *ssa.Call:
			if f := x.Call.StaticCallee(); f != nil && seenFn[f] {
				res = retAcc(f, 0)
			}
		}
		if res {
			memo[v] = 2
		}
		return res
	}
	u := ival{0, 0xFFFF}
	var reject iset
	nAcc, nCmp := 0, 0
	for _, f := range fns {
		for _, b := range f.Blocks {
			for _, in := range b.Instrs {
				if v, ok := in.(ssa.Value); ok && isAcc(v) {
					nAcc++
				}
				call, ok := in.(*ssa.Call)
				if !ok {
					continue
				}
				cal := call.Call.StaticCallee()
				if cal == nil || isScannerFn(c, cal) || !lastIsError(call.Type()) {
					continue
				}
				// an error made here: which decoded values lead to it?
				for _, g := range blockGuards(b) {
					g = normGuard(g)
					v, _, _, ok := intCmp(g.cond)
					if !ok || !isAcc(v) {
						continue
					}
					nCmp++
					s := reachSet(b, v, u)
					if len(s) == 1 && s[0] == u {
						continue
					}
					reject = append(reject, s...)
				}
			}
		}
	}
	reject = reject.norm()
	bad := reject.intersect(uset)
	r.Tables[rule+" decoded values refused by the reader"] = reject.String()
	r.Tables[rule+" reader functions"] = fmt.Sprint(len(fns))
	for _, f := range fns {
		r.fnSeen(fnName(f))
	}
	if nAcc == 0 {
		r.undecided(rule, "(*parser).readEscaped: hex accumulator", re.Pos(), "no value built by shifting four bits (or multiplying by 16, or strconv.ParseUint/ParseInt) found in the escape reader or its helpers: the decoding is in a form the rule does not read")
		return
	}
	r.check(rule, "the escape reader gives back every code point the writer spells as \\uXXXX", re.Pos(), len(bad) == 0,
		fmt.Sprintf("code points %s are written as \\uXXXX by writeString, and the reader makes an error when the decoded number is one of %s (%d comparison(s) of the decoded value guard an error): a string containing such a character does not parse back from its own SDL or JSON form", bad, reject, nCmp))
}

// escapeReaderFns: the escape reader and the in-package functions it calls (transitively), without the byte source.
func escapeReaderFns(c *Ctx, re *ssa.Function) []*ssa.Function {
	fns := []*ssa.Function{re}
	seenFn := map[*ssa.Function]bool{re: true}
	for i := 0; i < len(fns); i++ {
		for _, b := range fns[i].Blocks {
			for _, in := range b.Instrs {
				if call, ok := in.(ssa.CallInstruction); ok {
					if f := call.Common().StaticCallee(); f != nil && c.inPkg(f) && len(f.Blocks) > 0 && !seenFn[f] && f.Name() != "readByte" {
						seenFn[f] = true
						fns = append(fns, f)
					}
				}
			}
		}
	}
	return fns
}

// lastIsError: the type is error, or a tuple whose last component is.
func lastIsError(t types.Type) bool {
	if tu, ok := t.(*types.Tuple); ok {
		return tu.Len() > 0 && isErrorType(tu.At(tu.Len()-1).Type())
	}
	return isErrorType(t)
}

// c18NumLen: a bound on the length of a number token does not refuse a number the writer can print.
// strconv.FormatFloat(f, 'g', -1, 64) prints at most 24 characters (-2.2250738585072014e-308) and
// FormatInt at most 20; a comparison of the token's length with a constant that guards the making of an
// error must leave the lengths 1..24 alone. Today the reader has no such bound: the rule then has nothing
// to check (its positive control is the mutant in mutants/C18.json).
func c18NumLen(c *Ctx, r *Report) {
	const rule = "C18.NUMLEN"
	r.rule(rule, "lengths of number tokens for which the value reader makes an error (comparisons of the token buffer's length with constants) ∩ [1,24] (the lengths strconv.FormatFloat 'g' -1 and FormatInt can print) = ∅")
	rn, rv := c.fn("(*parser).readNumberToken"), c.fn("(*parser).readValue")
	if rn == nil || rv == nil {
		r.undecided(rule, "anchors (*parser).readNumberToken / (*parser).readValue", token.NoPos, "not found")
		return
	}
	r.fnSeen(fnName(rn), fnName(rv))
	fromNumTok := func(v ssa.Value) bool {
		for d := 0; d < 6 && v != nil; d++ {
			switch x := v.(type) {
			case *ssa.Extract:
				if call, ok := x.Tuple.(*ssa.Call); ok {
					return call.Call.StaticCallee() == rn
				}
				return false
			case *ssa.Phi:
				for _, e := range x.Edges {
					if ex, ok := e.(*ssa.Extract); ok {
						if call, ok := ex.Tuple.(*ssa.Call); ok && call.Call.StaticCallee() == rn {
							return true
						}
					}
				}
				return false
			case *ssa.Convert:
				v = x.X
			case *ssa.Slice:
				v = x.X
			default:
				return false
			}
		}
		return false
	}
	isLen := func(fn *ssa.Function, v ssa.Value) bool {
		call, ok := v.(*ssa.Call)
		if !ok {
			return false
		}
		if b, isB := call.Call.Value.(*ssa.Builtin); isB && b.Name() == "len" && len(call.Call.Args) == 1 {
			return fn == rn || fromNumTok(call.Call.Args[0])
		}
		if f := call.Call.StaticCallee(); f != nil && f.Name() == "Len" && f.Pkg != nil && (f.Pkg.Pkg.Path() == "bytes" || f.Pkg.Pkg.Path() == "strings") {
			return fn == rn
		}
		return false
	}
	u := ival{0, 1 << 20}
	written := iset{{1, 24}}
	var reject iset
	n := 0
	at := token.NoPos
	for _, fn := range []*ssa.Function{rn, rv} {
		for _, b := range fn.Blocks {
			for _, in := range b.Instrs {
				call, ok := in.(*ssa.Call)
				if !ok {
					continue
				}
				cal := call.Call.StaticCallee()
				if cal == nil || isScannerFn(c, cal) || !lastIsError(call.Type()) {
					continue
				}
				for _, g := range blockGuards(b) {
					g = normGuard(g)
					v, _, _, ok := intCmp(g.cond)
					if !ok || !isLen(fn, v) {
						continue
					}
					n++
					s := reachSet(b, v, u)
					if len(s) == 1 && s[0] == u {
						continue
					}
					if len(s.intersect(written)) > 0 && at == token.NoPos {
						at = call.Pos()
					}
					reject = append(reject, s...)
				}
			}
		}
	}
	reject = reject.norm()
	bad := reject.intersect(written)
	r.Tables[rule+" token lengths refused by the reader"] = reject.String()
	r.Tables[rule+" length comparisons guarding an error"] = fmt.Sprint(n)
	pos := rn.Pos()
	if at != token.NoPos {
		pos = at
	}
	r.check(rule, "no number the writer can print is refused for its length", pos, len(bad) == 0,
		fmt.Sprintf("number tokens of length %s are refused, and the writer prints numbers of up to 24 characters (-2.2250738585072014e-308): such a value does not parse back from its own text", bad))
}
