package main

import (
	"fmt"
	"go/token"
	"go/types"
	"sort"
	"strings"

	"golang.org/x/tools/go/ssa"
)

func init() {
	register("C08", checkC08,
		"Structural conditions for resolving abstract-typed fields by concrete type: (DISPATCH) under an abstract arm of the type dispatcher (*Union, *Interface) the container type handed to the selection-set resolver is not the static abstract type but an *Object selected by comparing the runtime object's Go type with the member's bound type (union: objType == meta from metaCheck); (COND) the applicability test of inline fragments and fragment spreads consults the relation between the condition and the container (reads Object.Interfaces / Union.Members), identity alone is insufficient; (SIB) inline and named fragments use the same applicability predicate; (META) the Go type binding of an object type is written only by the registered writers.",
		"The behaviour on actual type hierarchies and mixed lists (values); the interface-resolver-only limitation is outside the claim.")
}

func checkC08(c *Ctx, r *Report) {
	r.rule("C08.DISPATCH", "each call to the selection-set resolver under an abstract arm passes a member/registry *Object selected under objType == meta, never the dispatcher's own static type")
	r.rule("C08.COND", "the fragment applicability test reads Object.Interfaces or Union.Members (directly or through a helper)")
	r.rule("C08.SIB", "inline fragments and fragment spreads use the same set of applicability tests")
	r.rule("C08.META", "who-may-write Object.meta: frozen table; every write outside construction is write-once")
	r.rule("C08.BIND", "the Go field/method binding of a FieldDef is computed from the object type that owns that FieldDef")
	importRulesFrom(c, r, "C01", func(c *Ctx, sub *Report) {
		if a := c.anchors(); a != nil && a.field != nil {
			c01Typename(c, sub, a)
		}
	}, "C08.TYPENAME", "__typename stores Name() of the type the value is resolved as (C01.TYPENAME): the dispatcher hands the concrete member type to the selection walker, so the name reported and the fragments that apply agree", "C01.TYPENAME")
	c08OneBinding(c, r)
	a := c.anchors()
	if !requireAnchors(r, "C08.DISPATCH", a) {
		return
	}
	if a.inline == nil || a.spread == nil || a.fieldSels == nil {
		r.undecided("C08.COND", "anchor: inline / spread / selection-set resolvers", token.NoPos, "not resolved")
		return
	}
	c08Dispatch(c, r, a)
	c08Cond(c, r, a)
	c08Consist(c, r, a)
	c08Meta(c, r)
	c08Bind(c, r)
	importRulesFrom(c, r, "C06", func(c *Ctx, sub *Report) { c06G1(c, sub, a) }, "C08.ELEMTYPE", "every element of a list is handed to the type dispatcher with the list's declared element type (the dispatcher-origin part of C06.G1): the concrete type behind an abstract element type is chosen per element there - a type chosen once from the first element resolves a mixed list as if it were homogeneous", "C06.G1~type dispatcher for the element type")
	r.rule("C08.METADOM", "every reflect.Type recorded in or compared with Object.meta / Input.meta is derived from an object in the same way (all raw, or all pointer-stripped); parameters are followed to their in-package call sites")
	c08MetaDom(c, r, "C08.METADOM")
	r.rule("C08.SCAN", "the Go-type -> object-type lookup loop over the type table reaches the comparison with Object.meta for every *Object element (only the type assertion, nil tests and the range condition guard it)")
	c08Scan(c, r, "C08.SCAN")
}

func c08Dispatch(c *Ctx, r *Report, a *Anchors) {
	fn := a.dispatch
	var tP *ssa.Parameter
	for _, p := range fn.Params {
		if c.isNamed(p.Type(), "Type") {
			tP = p
		}
	}
	n := 0
	abstractSeen := map[string]bool{}
	tAlias := wrapperAliases(fn, tP)
	isT := func(v ssa.Value) bool { return tAlias[stripIface(v)] }
	for _, ci := range callsIn(fn) {
		if ci.Common().StaticCallee() != a.fieldSels {
			continue
		}
		var targ ssa.Value
		for _, arg := range ci.Common().Args {
			if c.isNamed(arg.Type(), "Type") {
				targ = arg
			}
		}
		if targ == nil {
			continue
		}
		// the container type handed on may have been picked in the arms and handed on in one place: each value it
		// can hold is judged where it was picked
		leaves := phiLeavesUntil(stripIface(targ), isT)
		seen := map[string]bool{}
		for _, lf := range leaves {
			if isNilConst(lf.val) {
				continue
			}
			at := ci.Block()
			var gs []guard
			if lf.pred != nil {
				at = lf.pred
				gs = edgeGuards(lf.pred, lf.phi.Block())
			} else {
				gs = blockGuards(at)
			}
			kinds := caseTypesOf(at, isT)
			// kinds whose assertion dominates (single case)
			for _, f := range assertFacts(at) {
				if f.holds && isT(f.x) {
					kinds = append(kinds, f.t)
				}
			}
			// ... or is the test of the edge itself (an arm that does nothing but pick the type)
			if lf.pred != nil && len(lf.pred.Instrs) > 0 {
				if ifi, ok := lf.pred.Instrs[len(lf.pred.Instrs)-1].(*ssa.If); ok && lf.pred.Succs[0] == lf.phi.Block() {
					if f, ok := assertFactOf(guard{ifi.Cond, true, ifi}); ok && f.holds && isT(f.x) {
						kinds = append(kinds, f.t)
					}
				}
			}
			for _, k := range kinds {
				name := derefNamed(k)
				if name != "Interface" && name != "Union" {
					continue
				}
				static := isT(lf.val)
				if ta, ok := stripIface(lf.val).(*ssa.TypeAssert); ok && isT(ta.X) {
					static = true
				}
				if ex, ok := stripIface(lf.val).(*ssa.Extract); ok {
					if ta, ok := ex.Tuple.(*ssa.TypeAssert); ok && isT(ta.X) {
						static = true
					}
				}
				if seen[name] {
					continue
				}
				seen[name] = true
				n++
				abstractSeen[name] = true
				key := fmt.Sprintf("%s: abstract arm *%s resolves selections against the concrete object type", fnName(fn), name)
				if static {
					r.flag("C08.DISPATCH", key, ci.Pos(), "the selection set of a value behind an abstract-typed field is resolved against the static abstract type itself: __typename reports the abstract type's name and fragments on the concrete type never apply")
					continue
				}
				// concrete: must be selected under objType == meta
				typeEqMeta := func(g guard) bool {
					bo, ok := g.cond.(*ssa.BinOp)
					if !ok || !((bo.Op == token.EQL && g.val) || (bo.Op == token.NEQ && !g.val)) {
						return false
					}
					isTypeOf := func(v ssa.Value) bool {
						call, ok := v.(*ssa.Call)
						return ok && isFuncCall(call, "reflect", "TypeOf")
					}
					isMeta := func(v ssa.Value) bool {
						ex, ok := v.(*ssa.Extract)
						if !ok {
							if call, ok := v.(*ssa.Call); ok {
								if cal := call.Call.StaticCallee(); cal != nil && c.inPkg(cal) {
									return true
								}
							}
							return false
						}
						call, ok := ex.Tuple.(*ssa.Call)
						return ok && call.Call.StaticCallee() != nil && c.inPkg(call.Call.StaticCallee())
					}
					return (isTypeOf(bo.X) && isMeta(bo.Y)) || (isTypeOf(bo.Y) && isMeta(bo.X))
				}
				sel := false
				for _, g := range gs {
					if typeEqMeta(normGuard(g)) {
						sel = true
					}
				}
				r.check("C08.DISPATCH", key, ci.Pos(), sel, "the concrete type is not selected by comparing reflect.TypeOf(obj) with the candidate's bound Go type")
			}
		}
	}
	for _, k := range []string{"Interface", "Union"} {
		if !abstractSeen[k] {
			r.undecided("C08.DISPATCH", fmt.Sprintf("%s: abstract arm *%s", fnName(fn), k), fn.Pos(), "no call to the selection-set resolver found under this arm")
		}
	}
}

// interfaceRetyped reports where a value behind an interface-typed field has its container type replaced by
// something other than the declared interface before its selections are walked: in the dispatcher's
// *Interface arm, or inside the selection-set resolver itself.
func (c *Ctx) interfaceRetyped(a *Anchors) (where []ssa.CallInstruction) {
	typeParam := func(fn *ssa.Function) *ssa.Parameter {
		for _, p := range fn.Params {
			if c.isNamed(p.Type(), "Type") {
				return p
			}
		}
		return nil
	}
	isStatic := func(v ssa.Value, tP *ssa.Parameter) bool {
		v = stripIface(v)
		if v == ssa.Value(tP) {
			return true
		}
		if ta, ok := v.(*ssa.TypeAssert); ok && stripIface(ta.X) == ssa.Value(tP) {
			return true
		}
		if ex, ok := v.(*ssa.Extract); ok {
			if ta, ok := ex.Tuple.(*ssa.TypeAssert); ok && stripIface(ta.X) == ssa.Value(tP) {
				return true
			}
		}
		return false
	}
	// dispatcher: calls of the selection-set resolver under the *Interface arm
	if tP := typeParam(a.dispatch); tP != nil {
		for _, ci := range callsIn(a.dispatch) {
			if ci.Common().StaticCallee() != a.fieldSels {
				continue
			}
			isIface := false
			for _, k := range caseTypes(ci.Block(), tP) {
				if derefNamed(k) == "Interface" {
					isIface = true
				}
			}
			for _, f := range assertFacts(ci.Block()) {
				if f.holds && stripIface(f.x) == ssa.Value(tP) && derefNamed(f.t) == "Interface" {
					isIface = true
				}
			}
			if !isIface {
				continue
			}
			for _, arg := range ci.Common().Args {
				if c.isNamed(arg.Type(), "Type") && !isStatic(arg, tP) {
					where = append(where, ci)
				}
			}
		}
	}
	// selection-set resolver: the type handed to the walker
	if tP := typeParam(a.fieldSels); tP != nil && a.walker != nil && a.fieldSels != a.walker {
		for _, ci := range callsIn(a.fieldSels) {
			if ci.Common().StaticCallee() != a.walker {
				continue
			}
			for _, arg := range ci.Common().Args {
				if c.isNamed(arg.Type(), "Type") && !isStatic(arg, tP) {
					where = append(where, ci)
				}
			}
		}
	}
	return
}

// c08Consist: the two sites cooperate. Once interface-typed values are walked as their concrete object type,
// an identity-only applicability test no longer lets a fragment on the interface itself apply.
func c08Consist(c *Ctx, r *Report, a *Anchors) {
	r.rule("C08.CONSIST", "if values behind an interface-typed field are walked with a container type other than the declared interface, both fragment applicability tests consult the type relation")
	ret := c.interfaceRetyped(a)
	_, relI := c.condTests(a.inline)
	_, relS := c.condTests(a.spread)
	if len(ret) == 0 {
		r.check("C08.CONSIST", "interface-typed values keep the declared container type, or fragment tests are relation-aware", a.dispatch.Pos(), true, "no re-typing site")
		return
	}
	for i, ci := range ret {
		r.check("C08.CONSIST", fmt.Sprintf("%s: re-typing site #%d is matched by relation-aware fragment tests", fnName(ci.Parent()), i+1), ci.Pos(), relI && relS,
			"values behind an interface-typed field are walked as their concrete object type here, but fragments still apply only when their condition is identical to the container: `... on <the interface>` (inline or named) now contributes nothing although every value implements it")
	}
}

type condTest struct {
	kind string
	pos  token.Pos
}

// condTests lists the tests a fragment resolver applies to the fragment's type condition.
func (c *Ctx) condTests(fn *ssa.Function) (tests []condTest, readsRelation bool) {
	var tP *ssa.Parameter
	for _, p := range fn.Params {
		if c.isNamed(p.Type(), "Type") {
			tP = p
		}
	}
	isCond := func(v ssa.Value) bool {
		_, _, f, ok := loadOfField(stripIface(v))
		return ok && f == "Condition"
	}
	for _, b := range fn.Blocks {
		for _, in := range b.Instrs {
			switch t := in.(type) {
			case *ssa.BinOp:
				if t.Op != token.EQL && t.Op != token.NEQ {
					continue
				}
				switch {
				case isCond(t.X) && isNilConst(t.Y), isCond(t.Y) && isNilConst(t.X):
					tests = append(tests, condTest{"condition-is-nil", t.Pos()})
				case isCond(t.X) && stripIface(t.Y) == ssa.Value(tP), isCond(t.Y) && stripIface(t.X) == ssa.Value(tP):
					tests = append(tests, condTest{"condition-identical-to-container", t.Pos()})
				case isCond(t.X) || isCond(t.Y):
					tests = append(tests, condTest{"condition-compared-with-" + shortPath(vpath(t.Y)), t.Pos()})
				}
			case *ssa.Call:
				cal := t.Call.StaticCallee()
				if cal == nil || !c.inPkg(cal) {
					continue
				}
				usesCond := false
				for _, arg := range t.Call.Args {
					if isCond(arg) {
						usesCond = true
					}
				}
				if usesCond {
					tests = append(tests, condTest{"helper:" + fnName(cal), t.Pos()})
					if c.readsTypeRelation(cal, 2) {
						readsRelation = true
					}
				}
			}
		}
	}
	if c.readsTypeRelation(fn, 0) {
		readsRelation = true
	}
	return
}

func (c *Ctx) readsTypeRelation(fn *ssa.Function, depth int) bool {
	for _, b := range fn.Blocks {
		for _, in := range b.Instrs {
			if fa, ok := in.(*ssa.FieldAddr); ok {
				o, f := fieldOwner(fa.X.Type(), fa.Field)
				if (o == "Object" && f == "Interfaces") || (o == "Union" && f == "Members") {
					return true
				}
			}
		}
	}
	if depth > 0 {
		for _, ci := range callsIn(fn) {
			if cal := ci.Common().StaticCallee(); cal != nil && c.inPkg(cal) && cal != fn {
				if c.readsTypeRelation(cal, depth-1) {
					return true
				}
			}
		}
	}
	return false
}

func c08Cond(c *Ctx, r *Report, a *Anchors) {
	sig := map[*ssa.Function]string{}
	for _, fn := range []*ssa.Function{a.inline, a.spread} {
		tests, rel := c.condTests(fn)
		var ks []string
		seen := map[string]bool{}
		for _, t := range tests {
			if !seen[t.kind] {
				seen[t.kind] = true
				ks = append(ks, t.kind)
			}
		}
		sort.Strings(ks)
		sig[fn] = strings.Join(ks, ", ")
		r.check("C08.COND", fmt.Sprintf("%s: applicability consults the type relation", fnName(fn)), fn.Pos(), rel,
			"the fragment applies only when its condition is absent or identical to the container type ("+sig[fn]+"): a fragment conditioned on an interface the object implements, on a union containing it, or (under an abstract container) on the concrete type never applies")
		r.check("C08.COND", fmt.Sprintf("%s: has an applicability test at all", fnName(fn)), fn.Pos(), len(tests) > 0, "fragments on unrelated types would contribute their selections")
	}
	r.Tables["fragment_condition_tests"] = map[string]string{fnName(a.inline): sig[a.inline], fnName(a.spread): sig[a.spread]}
	r.check("C08.SIB", "inline fragments and fragment spreads apply the same tests", a.spread.Pos(), sig[a.inline] == sig[a.spread], fmt.Sprintf("inline: {%s}; spread: {%s}", sig[a.inline], sig[a.spread]))
}

func c08Meta(c *Ctx, r *Report) {
	allowed := map[string]string{
		"(*Root).assureType":  "explicit or first-use registration of the Go type of an object",
		"(*Object).metaCheck": "union member discovery by @go directive or type name",
	}
	r.Tables["object_meta_writers"] = allowed
	n := 0
	for _, fn := range c.allFns {
		for _, b := range fn.Blocks {
			for _, in := range b.Instrs {
				st, ok := in.(*ssa.Store)
				if !ok {
					continue
				}
				fa, ok := st.Addr.(*ssa.FieldAddr)
				if !ok {
					continue
				}
				if o, f := fieldOwner(fa.X.Type(), fa.Field); o != "Object" || f != "meta" {
					continue
				}
				n++
				// a writer outside the table of known writers is held to what makes those acceptable: it writes
				// the binding only while it is unset (or to the same type), or on an object it has just made
				_, ok = allowed[fnName(fn)]
				if !ok {
					ok = rootAlloc(fa.X) != nil || metaWriteOnce(st, fa)
				}
				r.check("C08.META", fmt.Sprintf("%s: writes Object.meta", fnName(fn)), st.Pos(), ok, "the Go type binding of an object type is written by a function outside the table of known writers, and not under a test that the binding is still unset")
				if rootAlloc(fa.X) == nil {
					r.check("C08.META", fmt.Sprintf("%s: the binding is written once (only while unset or to the same Go type)", fnName(fn)), st.Pos(), metaWriteOnce(st, fa),
						"an established Go type binding can be replaced: a value of another Go type resolved under an object-typed field rebinds the type, after which union / interface dispatch by Go type no longer finds the member")
				}
			}
		}
	}
	r.floor("C08.META", "stores to Object.meta", n, 2)
	_ = types.Typ
}

// metaWriteOnce: on every way into the store's block the bound type is known to be unset, or equal to the value stored.
func metaWriteOnce(st *ssa.Store, fa *ssa.FieldAddr) bool {
	want := vpath(fa)
	isMeta := func(v ssa.Value) bool {
		u, ok := v.(*ssa.UnOp)
		return ok && u.Op == token.MUL && vpath(u.X) == want
	}
	says := func(g guard) bool {
		g = normGuard(g)
		if v, eq, ok := nilCmp(g.cond); ok && isMeta(v) && eq == g.val {
			return true // meta == nil holds
		}
		if bo, ok := g.cond.(*ssa.BinOp); ok && (bo.Op == token.EQL || bo.Op == token.NEQ) {
			same := (isMeta(bo.X) && bo.Y == st.Val) || (isMeta(bo.Y) && bo.X == st.Val)
			if same && (bo.Op == token.EQL) == g.val {
				return true // meta == new value holds
			}
		}
		return false
	}
	b := st.Block()
	for _, g := range blockGuards(b) {
		if says(g) {
			return true
		}
	}
	if len(b.Preds) == 0 {
		return false
	}
	for _, p := range b.Preds {
		ok := false
		for _, g := range edgeGuards(p, b) {
			if says(g) {
				ok = true
			}
		}
		if !ok {
			return false
		}
	}
	return true
}

// c08Bind: a FieldDef's Go binding (goField / method) is looked up in the Go type bound to one object type. The binder must
// therefore be handed a FieldDef that belongs to that same object: a FieldDef of an interface is shared by all implementers
// and must not be bound through one of them.
func c08Bind(c *Ctx, r *Report) {
	binders := map[*ssa.Function]bool{}
	for _, fn := range c.allFns {
		for _, b := range fn.Blocks {
			for _, in := range b.Instrs {
				st, ok := in.(*ssa.Store)
				if !ok {
					continue
				}
				fa, ok := st.Addr.(*ssa.FieldAddr)
				if !ok {
					continue
				}
				if o, f := fieldOwner(fa.X.Type(), fa.Field); o == "FieldDef" && (f == "goField" || f == "method") && rootAlloc(fa.X) == nil {
					binders[fn] = true
				}
			}
		}
	}
	n := 0
	for _, fn := range c.allFns {
		if binders[fn] {
			continue
		}
		k := 0
		for _, ci := range callsIn(fn) {
			cal := ci.Common().StaticCallee()
			if cal == nil || !binders[cal] {
				continue
			}
			var objArg, fdArg ssa.Value
			for _, a := range ci.Common().Args {
				switch derefNamed(a.Type()) {
				case "Object":
					objArg = a
				case "FieldDef":
					fdArg = a
				}
			}
			if objArg == nil || fdArg == nil {
				continue
			}
			n++
			k++
			want := vpath(objArg)
			ok := true
			why := ""
			ls, _ := phiLeaves(fdArg)
			for _, l := range ls {
				call, isCall := l.val.(*ssa.Call)
				if !isCall || call.Call.StaticCallee() == nil {
					ok, why = false, "the field definition is not the result of a field lookup"
					continue
				}
				cl := call.Call.StaticCallee()
				recv := callRecv(call)
				switch {
				case cl.Name() == "GetField" && recv != nil && derefNamed(recv.Type()) == "Object" && vpath(recv) == want:
				case cl.Name() == "get" && recv != nil && derefNamed(recv.Type()) == "fieldList" && vpath(recv) == want+".fields":
				default:
					ok = false
					why = fmt.Sprintf("the field definition comes from %s on %s, the Go type from %s", fnName(cl), vpath(recv), want)
				}
			}
			r.check("C08.BIND", fmt.Sprintf("%s: binder call #%d (%s) binds a field definition of the same object type", fnName(fn), k, fnName(cal)), ci.Pos(), ok,
				"a field definition owned by another type (an interface shared by several object types) is bound to one object's Go type: values of the other implementers are then read through the wrong field or method; "+why)
		}
	}
	r.floor("C08.BIND", "calls to the field binder", n, 2) // the reflection resolver and RegisterField; one call per container kind is not required
}

// c08OneBinding: Object.meta is the only record of which Go type is bound to which object type. A second
// record derived from it (an index from Go type to object type kept on the Root, a copy on another
// struct) goes stale whenever one of the writers of Object.meta does not refresh it, and values of a
// type bound since are then no longer resolved by their concrete type.
func c08OneBinding(c *Ctx, r *Report) {
	r.rule("C08.ONEBIND", "a struct field other than Object.meta (and the set-up-time Input.meta) whose type mentions reflect.Type is written only if every function that stores Object.meta also stores it: a derived record of the bindings is refreshed by every binder")
	mentions := func(t types.Type) bool {
		var walk func(t types.Type, d int) bool
		walk = func(t types.Type, d int) bool {
			if d > 4 {
				return false
			}
			switch u := t.(type) {
			case *types.Named:
				if u.Obj().Pkg() != nil && u.Obj().Pkg().Path() == "reflect" && u.Obj().Name() == "Type" {
					return true
				}
				return false
			case *types.Pointer:
				return walk(u.Elem(), d+1)
			case *types.Slice:
				return walk(u.Elem(), d+1)
			case *types.Map:
				return walk(u.Key(), d+1) || walk(u.Elem(), d+1)
			}
			return false
		}
		return walk(t, 0)
	}
	allowed := map[string]string{"Object.meta": "the binding itself", "Input.meta": "input objects: bound by RegisterType at set-up time"}
	r.Tables["C08.ONEBIND allowed"] = allowed
	n := 0
	// who stores which field
	storers := map[string]map[*ssa.Function]bool{}
	for _, fn := range c.allFns {
		for _, b := range fn.Blocks {
			for _, in := range b.Instrs {
				if st, ok := in.(*ssa.Store); ok {
					if fa, ok := st.Addr.(*ssa.FieldAddr); ok {
						o, f := fieldOwner(fa.X.Type(), fa.Field)
						if storers[o+"."+f] == nil {
							storers[o+"."+f] = map[*ssa.Function]bool{}
						}
						storers[o+"."+f][fn] = true
					}
				}
			}
		}
	}
	for _, fn := range c.allFns {
		for _, b := range fn.Blocks {
			for _, in := range b.Instrs {
				st, ok := in.(*ssa.Store)
				if !ok {
					continue
				}
				fa, ok := st.Addr.(*ssa.FieldAddr)
				if !ok {
					continue
				}
				ft := fa.Type().(*types.Pointer).Elem()
				if !mentions(ft) {
					continue
				}
				o, f := fieldOwner(fa.X.Type(), fa.Field)
				n++
				_, ok2 := allowed[o+"."+f]
				if !ok2 {
					// a derived record is in step with the binding when every writer of Object.meta also rewrites it
					ok2 = true
					for w := range storers["Object.meta"] {
						if !storers[o+"."+f][w] {
							ok2 = false
						}
					}
				}
				r.check("C08.ONEBIND", fmt.Sprintf("%s: store to %s.%s", fnName(fn), o, f), st.Pos(), ok2,
					"a second record of Go-type bindings is kept next to Object.meta: a binding made by another writer of Object.meta (a union member bound by name or @go) is not reflected in it, and later values of that Go type under an interface-typed field resolve to null fields")
			}
		}
	}
	r.floor("C08.ONEBIND", "stores to fields holding Go types", n, 2)
}
