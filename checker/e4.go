package main

// E4: scanner progress. A path-partitioned abstract interpretation of the
// scanner functions (methods of parser / sdlParser / exeParser and parseSDL /
// parseExe). The abstract state never joins inside a function: the worklist
// runs over (block, state) pairs. It tracks
//   - per active loop, a lower bound (0, 1, >=2) of the net number of input
//     bytes consumed since the loop's header was last passed,
//   - the look-ahead cell p.onDeck (empty / holds a non-zero byte) and p.eof,
//   - a nil/zero/empty tag for scanner-related values.
// Callee effects come from summaries computed by the same analysis, bottom-up
// to a least fixpoint; only readByte and putBack are modelled by hand (and
// their shape is verified).

import (
	"fmt"
	"go/constant"
	"go/token"
	"go/types"
	"os"
	"sort"
	"strings"

	"golang.org/x/tools/go/ssa"
)

type tag uint8

const (
	tZero tag = 1 // nil / zero / empty / false
	tNon  tag = 2 // non-nil / non-zero / non-empty / true
	tAny  tag = 3
)

type pstate struct {
	ct   uint8   // net bytes consumed since function entry (lower bound, saturating at 2)
	rd   uint8   // reads from the underlying reader since function entry (exact below 2, 2 = two or more)
	lc   []uint8 // per loop of the function
	pend []bool  // per loop: header re-entered through the back edge without progress
	deck tag     // tZero: empty, tNon: holds a non-zero byte
	eof  tag     // tZero: not at eof, tNon: eof seen
	vals map[ssa.Value]tag
	snap map[ssa.Value]uint8 // loads of p.line / p.col / p.onDeck: value of rd when loaded
	ints map[ssa.Value]int64 // exactly known small integers (induction variables of constant loops, compared bytes)
	// the byte that was on deck when the function was entered is the symbol D0
	deckSym   bool               // the deck still holds D0
	deckConst int16              // exactly known byte on deck, -1 unknown
	symVals   map[ssa.Value]bool // values equal to D0
	d0eq      int16              // D0 == c is known (-1: not)
	d0ne      map[int64]bool     // D0 != c facts
}

func (s *pstate) clone() *pstate {
	n := &pstate{ct: s.ct, rd: s.rd, deck: s.deck, eof: s.eof, lc: append([]uint8{}, s.lc...), pend: append([]bool{}, s.pend...), vals: make(map[ssa.Value]tag, len(s.vals)), snap: make(map[ssa.Value]uint8, len(s.snap)), ints: make(map[ssa.Value]int64, len(s.ints))}
	for k, v := range s.ints {
		n.ints[k] = v
	}
	n.deckSym, n.deckConst, n.d0eq = s.deckSym, s.deckConst, s.d0eq
	n.symVals = make(map[ssa.Value]bool, len(s.symVals))
	for k, v := range s.symVals {
		n.symVals[k] = v
	}
	n.d0ne = make(map[int64]bool, len(s.d0ne))
	for k, v := range s.d0ne {
		n.d0ne[k] = v
	}
	for k, v := range s.vals {
		n.vals[k] = v
	}
	for k, v := range s.snap {
		n.snap[k] = v
	}
	return n
}

func (s *pstate) read(n uint8) {
	v := s.rd + n
	if v > 2 {
		v = 2
	}
	s.rd = v
}

func (s *pstate) key(names map[ssa.Value]int) string {
	var sb strings.Builder
	fmt.Fprintf(&sb, "%d|%d|%v|%v|%d|%d|", s.ct, s.rd, s.lc, s.pend, s.deck, s.eof)
	{
		var sn []string
		for v, k := range s.snap {
			id, ok := names[v]
			if !ok {
				id = len(names) + 1
				names[v] = id
			}
			sn = append(sn, fmt.Sprintf("s%d:%d", id, k))
		}
		for v, k := range s.ints {
			id, ok := names[v]
			if !ok {
				id = len(names) + 1
				names[v] = id
			}
			sn = append(sn, fmt.Sprintf("i%d:%d", id, k))
		}
		for v := range s.symVals {
			id, ok := names[v]
			if !ok {
				id = len(names) + 1
				names[v] = id
			}
			sn = append(sn, fmt.Sprintf("y%d", id))
		}
		for k := range s.d0ne {
			sn = append(sn, fmt.Sprintf("n%d", k))
		}
		sn = append(sn, fmt.Sprintf("D%v:%d:%d", s.deckSym, s.deckConst, s.d0eq))
		sort.Strings(sn)
		sb.WriteString(strings.Join(sn, ","))
		sb.WriteByte('|')
	}
	ids := make([]int, 0, len(s.vals))
	byID := map[int]tag{}
	for v, t := range s.vals {
		if t == tAny {
			continue
		}
		id, ok := names[v]
		if !ok {
			id = len(names) + 1
			names[v] = id
		}
		ids = append(ids, id)
		byID[id] = t
	}
	sort.Ints(ids)
	for _, id := range ids {
		fmt.Fprintf(&sb, "%d:%d,", id, byID[id])
	}
	return sb.String()
}

func (s *pstate) consume(n int) {
	add := func(c uint8) uint8 {
		v := int(c) + n
		if v < 0 {
			v = 0
		}
		if v > 2 {
			v = 2
		}
		return uint8(v)
	}
	if n < 0 {
		// a lower bound of >=2 stays >=1 after giving one back
		sub := func(c uint8) uint8 {
			if c == 0 {
				return 0
			}
			return c - 1
		}
		s.ct = sub(s.ct)
		for i := range s.lc {
			s.lc[i] = sub(s.lc[i])
		}
		return
	}
	s.ct = add(s.ct)
	for i := range s.lc {
		s.lc[i] = add(s.lc[i])
	}
}

type outcome struct {
	c    uint8
	rd   uint8
	deck tag
	eof  tag
	res  []tag
	// relation to the byte D0 that was on deck at entry (meaningful for the deck-full entry class)
	sameDeck bool    // the deck still holds D0 at exit
	resSym   []bool  // result i equals D0
	d0eq     int16   // the path requires D0 == c (-1: no requirement)
	d0ne     []int64 // the path requires D0 != c
}

func (o outcome) key() string {
	return fmt.Sprintf("%d|%d|%d|%d|%v|%v|%v|%d|%v", o.c, o.rd, o.deck, o.eof, o.res, o.sameDeck, o.resSym, o.d0eq, o.d0ne)
}

type sumKey struct {
	fn   *ssa.Function
	deck tag
	eof  tag
}

type loopFinding struct {
	fn      *ssa.Function
	loop    *loopInfo
	idx     int
	ok      bool
	witness []string
	states  int
}

type e4Engine struct {
	c        *Ctx
	scan     map[*ssa.Function]bool
	sums     map[sumKey]map[string]outcome
	changed  bool
	loops    map[*ssa.Function][]*loopInfo
	findings map[string]*loopFinding
	blown    map[*ssa.Function]bool
	readByte *ssa.Function
	putBack  *ssa.Function
	rawRead  map[*ssa.Function]bool // other (byte, error) functions that call Read on parser.reader themselves
	collect  bool
	nStates  int
	relMemo  map[*ssa.Function]map[ssa.Value]bool
	liveMemo map[*ssa.Function]map[*ssa.BasicBlock]map[ssa.Value]bool
}

func newE4(c *Ctx) *e4Engine {
	e := &e4Engine{c: c, scan: map[*ssa.Function]bool{}, sums: map[sumKey]map[string]outcome{}, loops: map[*ssa.Function][]*loopInfo{}, findings: map[string]*loopFinding{}, blown: map[*ssa.Function]bool{}, relMemo: map[*ssa.Function]map[ssa.Value]bool{}, liveMemo: map[*ssa.Function]map[*ssa.BasicBlock]map[ssa.Value]bool{}}
	for _, fn := range c.allFns {
		if fn.Parent() != nil {
			continue
		}
		recv := fn.Signature.Recv()
		isScan := false
		if recv != nil {
			for _, n := range []string{"parser", "sdlParser", "exeParser"} {
				if c.isNamed(recv.Type(), n) {
					isScan = true
				}
			}
		}
		if fn.Name() == "parseSDL" || fn.Name() == "parseExe" {
			isScan = true
		}
		if isScan {
			e.scan[fn] = true
			e.loops[fn] = loopsOf(fn)
		}
	}
	e.readByte = c.fn("(*parser).readByte")
	e.putBack = c.fn("(*parser).putBack")
	e.rawRead = map[*ssa.Function]bool{}
	for fn := range e.scan {
		if fn == e.readByte || !containsRawRead(fn) {
			continue
		}
		res := fn.Signature.Results()
		if res.Len() == 2 && returnsByte(fn) && isErrorType(res.At(1).Type()) {
			e.rawRead[fn] = true
		}
	}
	return e
}

// containsRawRead: fn calls Read on the parser's reader field itself.
func containsRawRead(fn *ssa.Function) bool {
	for _, ci := range callsIn(fn) {
		if isRawRead(ci) {
			return true
		}
	}
	return false
}

func isRawRead(ci ssa.CallInstruction) bool {
	cm := ci.Common()
	if !cm.IsInvoke() || cm.Method.Name() != "Read" {
		return false
	}
	_, o, f, ok := loadOfField(cm.Value)
	return ok && o == "parser" && f == "reader"
}

// rawReadLoop: the loop retries the raw read.
func rawReadLoop(l *loopInfo) bool {
	for b := range l.body {
		for _, in := range b.Instrs {
			if ci, ok := in.(ssa.CallInstruction); ok && isRawRead(ci) {
				return true
			}
		}
	}
	return false
}

// primitive outcomes of a raw read helper (readByte without the lookahead byte): the deck is not touched.
func rawReadOutcomes(deck, eof tag) []outcome {
	var out []outcome
	if eof != tZero {
		out = append(out, outcome{c: 0, deck: deck, eof: tNon, res: []tag{tZero, tZero}, d0eq: -1, sameDeck: true})
	}
	if eof != tNon {
		out = append(out,
			outcome{c: 1, rd: 1, deck: deck, eof: tZero, res: []tag{tNon, tZero}, d0eq: -1, sameDeck: true},
			outcome{c: 1, rd: 1, deck: deck, eof: tZero, res: []tag{tZero, tZero}, d0eq: -1, sameDeck: true},
			outcome{c: 0, rd: 0, deck: deck, eof: tNon, res: []tag{tZero, tZero}, d0eq: -1, sameDeck: true},
			outcome{c: 1, rd: 1, deck: deck, eof: tNon, res: []tag{tNon, tZero}, d0eq: -1, sameDeck: true},
			outcome{c: 0, rd: 0, deck: deck, eof: tZero, res: []tag{tZero, tNon}, d0eq: -1, sameDeck: true},
		)
	}
	return out
}

func tagOfType(t types.Type) bool {
	switch u := t.Underlying().(type) {
	case *types.Basic:
		return u.Info()&(types.IsInteger|types.IsString|types.IsBoolean) != 0
	case *types.Pointer, *types.Interface, *types.Slice, *types.Map, *types.Signature:
		return true
	}
	return false
}

func constTag(k *ssa.Const) tag {
	if k.Value == nil {
		return tZero
	}
	switch k.Value.Kind() {
	case constant.Int:
		if n, ok := constant.Int64Val(k.Value); ok && n == 0 {
			return tZero
		}
		return tNon
	case constant.String:
		if constant.StringVal(k.Value) == "" {
			return tZero
		}
		return tNon
	case constant.Bool:
		if constant.BoolVal(k.Value) {
			return tNon
		}
		return tZero
	}
	return tAny
}

// isDeckLoad / isEOFLoad: loads of p.onDeck / p.eof.
func parserField(v ssa.Value) string {
	u, ok := v.(*ssa.UnOp)
	if !ok || u.Op != token.MUL {
		return ""
	}
	fa, ok := u.X.(*ssa.FieldAddr)
	if !ok {
		return ""
	}
	o, f := fieldOwner(fa.X.Type(), fa.Field)
	if o == "parser" && (f == "onDeck" || f == "eof" || f == "line" || f == "col") {
		return f
	}
	return ""
}

func (e *e4Engine) eval(s *pstate, v ssa.Value) tag {
	if t, ok := s.vals[v]; ok {
		return t
	}
	switch t := v.(type) {
	case *ssa.Const:
		return constTag(t)
	case *ssa.UnOp:
		switch parserField(t) {
		case "onDeck":
			return s.deck
		case "eof":
			return s.eof
		case "line", "col":
			return tAny
		}
		if t.Op == token.NOT {
			x := e.eval(s, t.X)
			switch x {
			case tZero:
				return tNon
			case tNon:
				return tZero
			}
			return tAny
		}
		if t.Op == token.MUL {
			if al, ok := t.X.(*ssa.Alloc); ok {
				if tg, ok := s.vals[al]; ok {
					return tg
				}
			}
		}
	case *ssa.Call:
		if b, ok := t.Call.Value.(*ssa.Builtin); ok && b.Name() == "len" {
			return e.eval(s, t.Call.Args[0])
		}
	case *ssa.Convert:
		return e.eval(s, t.X)
	case *ssa.ChangeType:
		return e.eval(s, t.X)
	case *ssa.MakeInterface:
		x := e.eval(s, t.X)
		if _, isPtr := t.X.Type().Underlying().(*types.Pointer); isPtr {
			return x
		}
		return tNon
	case *ssa.Alloc, *ssa.MakeMap, *ssa.MakeSlice, *ssa.MakeClosure, *ssa.FieldAddr, *ssa.IndexAddr, *ssa.Function:
		return tNon
	case *ssa.BinOp:
		return e.evalCmp(s, t)
	case *ssa.Slice:
		return tAny
	}
	return tAny
}

func (e *e4Engine) evalCmp(s *pstate, b *ssa.BinOp) tag {
	if xi, ok := e.evalInt(s, b.X, 0); ok {
		if yi, ok := e.evalInt(s, b.Y, 0); ok {
			r := false
			known := true
			switch b.Op {
			case token.EQL:
				r = xi == yi
			case token.NEQ:
				r = xi != yi
			case token.LSS:
				r = xi < yi
			case token.LEQ:
				r = xi <= yi
			case token.GTR:
				r = xi > yi
			case token.GEQ:
				r = xi >= yi
			default:
				known = false
			}
			if known {
				if r {
					return tNon
				}
				return tZero
			}
		}
	}
	x, y := e.eval(s, b.X), e.eval(s, b.Y)
	kx, xc := b.X.(*ssa.Const)
	ky, yc := b.Y.(*ssa.Const)
	_ = kx
	_ = ky
	boolOf := func(v bool) tag {
		if v {
			return tNon
		}
		return tZero
	}
	switch b.Op {
	case token.EQL, token.NEQ:
		eq := tAny
		// two loads of the same position field with no reader read in between are equal
		if fx, fy := parserFieldOfLoad(b.X), parserFieldOfLoad(b.Y); fx != "" && fx == fy {
			sx, okx := s.snap[b.X]
			sy, oky := s.snap[b.Y]
			if okx && oky && sx < 2 && sy < 2 && sx == sy {
				if fx != "onDeck" || (x != tAny && x == y) {
					eq = tNon
				}
			}
		}
		switch {
		case eq != tAny:
		case x == tZero && y == tZero && (isNilable(b.X.Type()) || xc || yc):
			// both nil / both the zero constant
			if xc || yc || isNilable(b.X.Type()) {
				eq = tNon
			}
		case (x == tZero && y == tNon) || (x == tNon && y == tZero):
			eq = tZero
		}
		if eq == tAny {
			return tAny
		}
		if b.Op == token.NEQ {
			if eq == tNon {
				return tZero
			}
			return tNon
		}
		return eq
	case token.LSS, token.LEQ, token.GTR, token.GEQ:
		// comparisons of a length / count with the constants 0 and 1
		v, op, k, ok := intCmp(b)
		if !ok {
			return tAny
		}
		tv := e.eval(s, v)
		if tv == tAny {
			return tAny
		}
		if _, isU := unsignedOrLen(v); !isU {
			return tAny
		}
		zero := tv == tZero
		switch {
		case op == token.GTR && k == 0, op == token.GEQ && k == 1:
			return boolOf(!zero)
		case op == token.LEQ && k == 0, op == token.LSS && k == 1:
			return boolOf(zero)
		}
	}
	return tAny
}

func isNilable(t types.Type) bool {
	switch t.Underlying().(type) {
	case *types.Pointer, *types.Interface, *types.Slice, *types.Map, *types.Signature, *types.Chan:
		return true
	}
	return false
}

func unsignedOrLen(v ssa.Value) (ssa.Value, bool) {
	if _, ok := isLenOf(v); ok {
		return v, true
	}
	if b, ok := v.Type().Underlying().(*types.Basic); ok && b.Info()&types.IsUnsigned != 0 {
		return v, true
	}
	return v, false
}

// set records a tag for v and propagates to what v aliases (deck / eof / len operand / local cell).
func (e *e4Engine) set(s *pstate, v ssa.Value, t tag) {
	switch x := v.(type) {
	case *ssa.Const:
		return
	case *ssa.UnOp:
		switch parserField(x) {
		case "onDeck":
			s.deck = t
			return
		case "eof":
			s.eof = t
			return
		}
		if x.Op == token.NOT {
			switch t {
			case tZero:
				e.set(s, x.X, tNon)
			case tNon:
				e.set(s, x.X, tZero)
			}
			return
		}
		if x.Op == token.MUL {
			if al, ok := x.X.(*ssa.Alloc); ok {
				s.vals[al] = t
			}
		}
	case *ssa.Call:
		if b, ok := x.Call.Value.(*ssa.Builtin); ok && b.Name() == "len" {
			e.set(s, x.Call.Args[0], t)
			return
		}
	case *ssa.Convert:
		e.set(s, x.X, t)
	case *ssa.ChangeType:
		e.set(s, x.X, t)
	}
	s.vals[v] = t
}

// assume refines s with cond == truth; returns false when infeasible.
func (e *e4Engine) assume(s *pstate, cond ssa.Value, truth bool) bool {
	cur := e.eval(s, cond)
	if (truth && cur == tZero) || (!truth && cur == tNon) {
		return false
	}
	switch t := cond.(type) {
	case *ssa.UnOp:
		if t.Op == token.NOT {
			return e.assume(s, t.X, !truth)
		}
	case *ssa.BinOp:
		switch t.Op {
		case token.EQL, token.NEQ:
			eq := truth == (t.Op == token.EQL)
			// exact byte / small integer facts
			for _, pr := range [][2]ssa.Value{{t.X, t.Y}, {t.Y, t.X}} {
				kc, isC := pr[1].(*ssa.Const)
				if !isC || kc.Value == nil || kc.Value.Kind() != constant.Int {
					continue
				}
				k, _ := constant.Int64Val(kc.Value)
				if k < 0 || k > 255 {
					continue
				}
				v := pr[0]
				if s.symVals[v] || (parserField(v) == "onDeck" && s.deckSym) {
					if eq {
						if (s.d0eq >= 0 && int64(s.d0eq) != k) || s.d0ne[k] {
							return false
						}
						s.d0eq = int16(k)
					} else {
						if s.d0eq >= 0 && int64(s.d0eq) == k {
							return false
						}
						s.d0ne[k] = true
					}
				}
				if eq {
					if bt, ok := v.Type().Underlying().(*types.Basic); ok && bt.Info()&types.IsInteger != 0 {
						if _, isConst := v.(*ssa.Const); !isConst {
							s.ints[v] = k
							if parserField(v) == "onDeck" {
								s.deckConst = int16(k)
							}
						}
					}
				}
			}
			x, y := e.eval(s, t.X), e.eval(s, t.Y)
			_, xc := t.X.(*ssa.Const)
			_, yc := t.Y.(*ssa.Const)
			refine := func(v ssa.Value, other tag, otherConst bool) {
				if !tagOfType(v.Type()) {
					return
				}
				switch {
				case eq && other == tZero:
					e.set(s, v, tZero)
				case eq && other == tNon && otherConst:
					e.set(s, v, tNon)
				case !eq && other == tZero && (otherConst || isNilable(v.Type())):
					e.set(s, v, tNon)
				}
			}
			refine(t.X, y, yc)
			refine(t.Y, x, xc)
		case token.LSS, token.LEQ, token.GTR, token.GEQ:
			v, op, k, ok := intCmp(t)
			if ok {
				// strings.IndexByte(<constant>, b) < 0 / >= 0: b is (not) one of the bytes of the constant
				if set, bv, isIdx := indexByteOf(v); isIdx {
					if !truth {
						op = negOp(op)
					}
					member, known := false, false
					switch {
					case (op == token.LSS && k == 0) || (op == token.LEQ && k == -1):
						member, known = false, true
					case (op == token.GEQ && k == 0) || (op == token.GTR && k == -1):
						member, known = true, true
					}
					if known && (s.symVals[bv] || (parserField(bv) == "onDeck" && s.deckSym)) {
						inSet := func(c int64) bool { return c >= 0 && c < 256 && strings.IndexByte(set, byte(c)) >= 0 }
						if member {
							if s.d0eq >= 0 && !inSet(int64(s.d0eq)) {
								return false
							}
							all := true
							for i := 0; i < len(set); i++ {
								if !s.d0ne[int64(set[i])] {
									all = false
								}
							}
							if all {
								return false
							}
						} else {
							if s.d0eq >= 0 && inSet(int64(s.d0eq)) {
								return false
							}
							for i := 0; i < len(set); i++ {
								s.d0ne[int64(set[i])] = true
							}
						}
					}
					return true
				}
				if _, isU := unsignedOrLen(v); isU {
					if !truth {
						op = negOp(op)
					}
					switch {
					case (op == token.GTR && k == 0) || (op == token.GEQ && k == 1):
						e.set(s, v, tNon)
					case (op == token.LEQ && k == 0) || (op == token.LSS && k == 1):
						e.set(s, v, tZero)
					}
				}
			}
		}
		return true
	}
	if truth {
		e.set(s, cond, tNon)
	} else {
		e.set(s, cond, tZero)
	}
	return true
}

// summary of a scanner callee for the current deck/eof class.
func (e *e4Engine) summary(fn *ssa.Function, deck, eof tag) []outcome {
	var out []outcome
	classes := func(t tag) []tag {
		if t == tAny {
			return []tag{tZero, tNon}
		}
		return []tag{t}
	}
	seen := map[string]bool{}
	for _, d := range classes(deck) {
		for _, f := range classes(eof) {
			k := sumKey{fn, d, f}
			if _, ok := e.sums[k]; !ok {
				e.sums[k] = map[string]outcome{}
				e.changed = true // needs analysis
			}
			for kk, o := range e.sums[k] {
				if !seen[kk] {
					seen[kk] = true
					out = append(out, o)
				}
			}
		}
	}
	return out
}

func resultTags(fn *ssa.Function) int { return fn.Signature.Results().Len() }

// primitive outcomes of readByte.
func readByteOutcomes(deck, eof tag) []outcome {
	var out []outcome
	if deck != tZero { // deck may be full
		out = append(out, outcome{c: 1, rd: 0, deck: tZero, eof: eof, res: []tag{tNon, tZero}, resSym: []bool{true, false}, d0eq: -1})
	}
	if deck != tNon { // deck may be empty
		if eof != tZero { // may be at eof
			out = append(out, outcome{c: 0, deck: tZero, eof: tNon, res: []tag{tZero, tZero}, d0eq: -1})
		}
		if eof != tNon {
			out = append(out,
				outcome{c: 1, rd: 1, deck: tZero, eof: tZero, res: []tag{tNon, tZero}, d0eq: -1},  // a byte
				outcome{c: 1, rd: 1, deck: tZero, eof: tZero, res: []tag{tZero, tZero}, d0eq: -1}, // a literal NUL byte
				outcome{c: 0, rd: 0, deck: tZero, eof: tNon, res: []tag{tZero, tZero}, d0eq: -1},  // end of input
				outcome{c: 1, rd: 1, deck: tZero, eof: tNon, res: []tag{tNon, tZero}, d0eq: -1},   // last byte together with EOF
				outcome{c: 0, rd: 0, deck: tZero, eof: tZero, res: []tag{tZero, tNon}, d0eq: -1},  // reader error
			)
		}
	}
	return out
}

type frame struct {
	b    *ssa.BasicBlock
	i    int
	s    *pstate
	path []*ssa.BasicBlock
}

// analyse explores fn from the given entry class. When collect is set, loop findings are recorded.
func (e *e4Engine) analyse(fn *ssa.Function, deck, eof tag) {
	if len(fn.Blocks) == 0 {
		return
	}
	loops := e.loops[fn]
	init := &pstate{deck: deck, eof: eof, lc: make([]uint8, len(loops)), pend: make([]bool, len(loops)), vals: map[ssa.Value]tag{}, snap: map[ssa.Value]uint8{}, ints: map[ssa.Value]int64{}, symVals: map[ssa.Value]bool{}, d0ne: map[int64]bool{}, deckConst: -1, d0eq: -1, deckSym: deck == tNon}
	rel := e.relevant(fn)
	names := map[ssa.Value]int{}
	seen := map[string]bool{}
	key := sumKey{fn, deck, eof}
	if e.sums[key] == nil {
		e.sums[key] = map[string]outcome{}
	}
	work := []frame{{fn.Blocks[0], 0, init, nil}}
	budget := 60000
	for len(work) > 0 {
		f := work[len(work)-1]
		work = work[:len(work)-1]
		if f.i == 0 {
			k := fmt.Sprintf("%d|%s", f.b.Index, f.s.key(names))
			if seen[k] {
				continue
			}
			seen[k] = true
			e.nStates++
			budget--
			if budget < 0 {
				e.blown[fn] = true
				return
			}
		}
		s := f.s
		b := f.b
		alive := true
		for idx := f.i; idx < len(b.Instrs) && alive; idx++ {
			switch in := b.Instrs[idx].(type) {
			case *ssa.Phi:
				// resolved on the edge
			case *ssa.Alloc:
				// a new cell holds the zero value
				if tagOfType(in.Type().(*types.Pointer).Elem()) {
					s.vals[in] = tZero
					delete(s.ints, in)
				}
			case *ssa.UnOp:
				if f := parserField(in); f == "line" || f == "col" || f == "onDeck" {
					if rel[in] {
						s.snap[in] = s.rd
						delete(s.ints, in)
						delete(s.symVals, in)
						if f == "onDeck" {
							s.vals[in] = s.deck
							if s.deckSym {
								s.symVals[in] = true
							}
							if s.deckConst >= 0 {
								s.ints[in] = int64(s.deckConst)
							}
						}
					}
				}
			case *ssa.Store:
				if fa, ok := in.Addr.(*ssa.FieldAddr); ok {
					if o, fl := fieldOwner(fa.X.Type(), fa.Field); o == "parser" {
						switch fl {
						case "onDeck":
							s.deck = e.eval(s, in.Val)
							s.deckSym = s.symVals[in.Val]
							s.deckConst = -1
							if n, ok := e.evalInt(s, in.Val, 0); ok {
								s.deckConst = int16(n)
							}
						case "eof":
							s.eof = e.eval(s, in.Val)
						}
					}
				}
				if al, ok := in.Addr.(*ssa.Alloc); ok {
					s.vals[al] = e.eval(s, in.Val)
				}
			case *ssa.Call:
				for li, l := range loops {
					if s.pend[li] && l.body[b] {
						e.violate(fn, li, append(append([]*ssa.BasicBlock{}, f.path...), b), b)
						s.pend[li] = false
					}
				}
				conts := e.call(fn, s, in)
				if conts == nil {
					alive = false
					break
				}
				if len(conts) == 1 {
					s = conts[0]
					continue
				}
				for _, ns := range conts[1:] {
					work = append(work, frame{b, idx + 1, ns, f.path})
				}
				s = conts[0]
			case *ssa.Extract:
				// tags of tuple components were bound at the call
				if ta, ok := in.Tuple.(*ssa.TypeAssert); ok && ta.CommaOk {
					_ = ta
				}
			case *ssa.Return:
				o := outcome{c: s.ct, rd: s.rd, deck: s.deck, eof: s.eof, sameDeck: s.deckSym && s.deck == tNon, d0eq: s.d0eq}
				for _, r := range in.Results {
					o.res = append(o.res, e.eval(s, r))
					o.resSym = append(o.resSym, s.symVals[r])
				}
				for k := range s.d0ne {
					o.d0ne = append(o.d0ne, k)
				}
				sort.Slice(o.d0ne, func(i, j int) bool { return o.d0ne[i] < o.d0ne[j] })
				if _, ok := e.sums[key][o.key()]; !ok {
					e.sums[key][o.key()] = o
					e.changed = true
				}
				alive = false
			case *ssa.If:
				for si, succ := range b.Succs {
					ns := s.clone()
					if !e.assume(ns, in.Cond, si == 0) {
						continue
					}
					e.edge(fn, b, succ, ns, f.path, &work)
				}
				alive = false
			case *ssa.Jump:
				e.edge(fn, b, b.Succs[0], s, f.path, &work)
				alive = false
			case *ssa.Panic:
				alive = false
			}
		}
	}
}

// edge moves state s along pred->succ: phis, loop counters, back-edge check.
func (e *e4Engine) edge(fn *ssa.Function, pred, succ *ssa.BasicBlock, s *pstate, path []*ssa.BasicBlock, work *[]frame) {
	// phis
	var pi int
	for i, p := range succ.Preds {
		if p == pred {
			pi = i
		}
	}
	rel := e.relevant(fn)
	iupd := map[ssa.Value]int64{}
	var idel []ssa.Value
	upd := map[ssa.Value]tag{}
	for _, in := range succ.Instrs {
		phi, ok := in.(*ssa.Phi)
		if !ok {
			break
		}
		if rel[phi] {
			upd[phi] = e.eval(s, phi.Edges[pi])
			if bt, ok := phi.Type().Underlying().(*types.Basic); ok && bt.Info()&types.IsInteger != 0 {
				if n, ok := e.evalInt(s, phi.Edges[pi], 0); ok && n > -300 && n < 300 {
					iupd[phi] = n
				} else {
					idel = append(idel, phi)
				}
			}
		}
	}
	// a byte that is the one on deck at entry stays that byte through a phi on the edge taken
	symUpd := map[ssa.Value]bool{}
	for _, in := range succ.Instrs {
		phi, ok := in.(*ssa.Phi)
		if !ok {
			break
		}
		if bt, ok := phi.Type().Underlying().(*types.Basic); ok && bt.Kind() == types.Uint8 {
			symUpd[phi] = s.symVals[phi.Edges[pi]]
		}
	}
	for k, v := range symUpd {
		if v {
			s.symVals[k] = true
		} else {
			delete(s.symVals, k)
		}
	}
	for k, v := range upd {
		s.vals[k] = v
	}
	for _, k := range idel {
		delete(s.ints, k)
	}
	for k, v := range iupd {
		s.ints[k] = v
	}
	np := append(append([]*ssa.BasicBlock{}, path...), pred)
	if len(np) > 80 {
		np = np[len(np)-80:]
	}
	for li, l := range e.loops[fn] {
		if s.pend[li] && !l.body[succ] {
			s.pend[li] = false // left the loop: the unproductive round trip ended it
		}
		if l.head != succ {
			continue
		}
		if succ.Dominates(pred) && l.body[pred] {
			// back edge
			if s.pend[li] {
				e.violate(fn, li, np, succ)
			}
			if e.collect {
				e.finding(fn, li).states++
			}
			if s.lc[li] == 0 {
				s.pend[li] = true // confirmed when the next iteration really starts (first call) or ends
				if os.Getenv("E4_DEBUG") == fnName(fn) {
					fmt.Printf("DEBUG pend %s loop %d pred=%d lc=%v ct=%d deck=%d eof=%d\n", fnName(fn), li, pred.Index, s.lc, s.ct, s.deck, s.eof)
				}
			}
		}
		s.lc[li] = 0
	}
	e.prune(fn, s, succ)
	*work = append(*work, frame{succ, 0, s, np})
}

func (e *e4Engine) finding(fn *ssa.Function, li int) *loopFinding {
	k := fmt.Sprintf("%s#%d", fnName(fn), li)
	fd := e.findings[k]
	if fd == nil {
		fd = &loopFinding{fn: fn, loop: e.loops[fn][li], idx: li, ok: true}
		e.findings[k] = fd
	}
	return fd
}

// violate records a loop round trip without progress, with the blocks of that round trip as witness.
func (e *e4Engine) violate(fn *ssa.Function, li int, path []*ssa.BasicBlock, cur *ssa.BasicBlock) {
	if !e.collect {
		return
	}
	fd := e.finding(fn, li)
	if !fd.ok {
		return
	}
	fd.ok = false
	head := e.loops[fn][li].head
	// the last two visits of the header delimit the unproductive iteration
	var idx []int
	for i, b := range path {
		if b == head {
			idx = append(idx, i)
		}
	}
	start := 0
	if len(idx) >= 2 {
		start = idx[len(idx)-2]
	} else if len(idx) == 1 {
		start = idx[0]
	}
	var w []string
	for _, b := range path[start:] {
		w = append(w, e.blockDesc(b))
	}
	w = append(w, e.blockDesc(cur))
	fd.witness = w
}

func (e *e4Engine) blockDesc(b *ssa.BasicBlock) string {
	for _, in := range b.Instrs {
		if in.Pos().IsValid() {
			return fmt.Sprintf("block %d (%s) at %s", b.Index, b.Comment, e.c.pos(in.Pos()))
		}
	}
	return fmt.Sprintf("block %d (%s)", b.Index, b.Comment)
}

// call applies a call instruction; returns the continuation states (nil: no feasible continuation yet).
func (e *e4Engine) call(fn *ssa.Function, s *pstate, call *ssa.Call) []*pstate {
	rel := e.relevant(fn)
	bind := func(ns *pstate, res []tag) {
		// the call's result values are (re)defined here: forget what an earlier iteration knew about them
		delete(ns.ints, call)
		delete(ns.symVals, call)
		for _, ref := range *call.Referrers() {
			if ex, ok := ref.(*ssa.Extract); ok {
				delete(ns.ints, ex)
				delete(ns.symVals, ex)
				delete(ns.vals, ex)
			}
		}
		if len(res) == 1 {
			if rel[call] {
				ns.vals[call] = res[0]
			}
			return
		}
		for _, ref := range *call.Referrers() {
			if ex, ok := ref.(*ssa.Extract); ok && ex.Index < len(res) && rel[ex] {
				ns.vals[ex] = res[ex.Index]
			}
		}
	}
	bindSym := func(ns *pstate, o outcome, wasSym bool, known int16) {
		set := func(v ssa.Value) {
			if !rel[v] {
				return
			}
			if wasSym {
				ns.symVals[v] = true
			}
			if known >= 0 {
				ns.ints[v] = int64(known)
			}
		}
		if len(o.resSym) == 1 && o.resSym[0] {
			set(call)
			return
		}
		for _, ref := range *call.Referrers() {
			if ex, ok := ref.(*ssa.Extract); ok && ex.Index < len(o.resSym) && o.resSym[ex.Index] {
				set(ex)
			}
		}
	}
	// apply one callee outcome to the caller state; nil when the outcome's requirements on the
	// entry deck byte contradict what the caller knows about its deck
	apply := func(o outcome) *pstate {
		ns := s.clone()
		full := s.deck == tNon
		known := s.deckConst
		if full {
			if o.d0eq >= 0 {
				if known >= 0 && known != o.d0eq {
					return nil
				}
				if s.deckSym {
					if (s.d0eq >= 0 && s.d0eq != o.d0eq) || s.d0ne[int64(o.d0eq)] {
						return nil
					}
					ns.d0eq = o.d0eq
				}
				known = o.d0eq
			}
			for _, k := range o.d0ne {
				if known >= 0 && int64(known) == k {
					return nil
				}
				if s.deckSym {
					if s.d0eq >= 0 && int64(s.d0eq) == k {
						return nil
					}
					ns.d0ne[k] = true
				}
			}
		}
		wasSym := full && s.deckSym
		ns.consume(int(o.c))
		ns.read(o.rd)
		ns.deck, ns.eof = o.deck, o.eof
		if full && o.sameDeck {
			ns.deckConst = known
		} else {
			ns.deckSym = false
			ns.deckConst = -1
		}
		bind(ns, o.res)
		if full {
			bindSym(ns, o, wasSym, known)
		}
		return ns
	}
	cal := call.Call.StaticCallee()
	switch {
	case cal != nil && cal == e.readByte:
		var out []*pstate
		for _, o := range readByteOutcomes(s.deck, s.eof) {
			if ns := apply(o); ns != nil {
				if os.Getenv("E4_DEBUG") == fnName(fn) {
					fmt.Printf("DEBUG readByte in block %d: before lc=%v deck=%d eof=%d -> o.c=%d after lc=%v deck=%d eof=%d res=%v\n", call.Block().Index, s.lc, s.deck, s.eof, o.c, ns.lc, ns.deck, ns.eof, o.res)
				}
				out = append(out, ns)
			}
		}
		return out
	case cal != nil && e.rawRead[cal]:
		var out []*pstate
		for _, o := range rawReadOutcomes(s.deck, s.eof) {
			if ns := apply(o); ns != nil {
				out = append(out, ns)
			}
		}
		return out
	case cal != nil && cal == e.putBack:
		arg := tAny
		var av ssa.Value
		if len(call.Call.Args) == 2 {
			av = call.Call.Args[1]
			arg = e.eval(s, av)
		}
		var out []*pstate
		if arg != tZero {
			ns := s.clone()
			ns.deck = tNon
			ns.deckSym = av != nil && s.symVals[av]
			ns.deckConst = -1
			if av != nil {
				if n, ok := e.evalInt(s, av, 0); ok {
					ns.deckConst = int16(n)
				}
			}
			ns.consume(-1)
			out = append(out, ns)
		}
		if arg != tNon {
			ns := s.clone()
			ns.deck = tZero
			ns.deckSym = false
			ns.deckConst = -1
			out = append(out, ns)
		}
		return out
	case cal != nil && e.scan[cal]:
		outs := e.summary(cal, s.deck, s.eof)
		var res []*pstate
		for _, o := range outs {
			if ns := apply(o); ns != nil {
				res = append(res, ns)
			}
		}
		return res // may be empty while the callee's summary is still being built
	}
	// closures defined in a scanner function (error constructors): result tags by type
	// other calls: no effect on the scanner; derive result tags
	ns := s
	f := calleeObj(call)
	switch {
	case f != nil && f.Pkg() != nil && f.Pkg().Path() == "bytes" && recvTypeName(f) == "Buffer":
		recv := callRecv(call)
		switch f.Name() {
		case "WriteByte", "WriteRune", "WriteString", "Write":
			if recv != nil {
				ns.vals[recv] = tNon
			}
		case "String", "Len", "Bytes":
			if recv != nil {
				if t, ok := ns.vals[recv]; ok {
					ns.vals[call] = t
				} else {
					ns.vals[call] = tZero // a fresh buffer nothing was written to on this path
				}
			}
		}
	case f != nil && (f.Name() == "Errorf" || f.Name() == "New") && f.Pkg() != nil && (f.Pkg().Path() == "fmt" || f.Pkg().Path() == "errors"):
		ns.vals[call] = tNon
	case cal != nil && e.c.inPkg(cal) && e.c.alwaysStarError(cal):
		ns.vals[call] = tNon
	case cal != nil && cal.Parent() != nil:
		// local closure returning (.., error) built with parseError: conservatively error non-nil if it always is
		if cal.Signature.Results().Len() == 2 {
			allErr := true
			for _, rt := range returnsOf(cal) {
				if c2, ok := rt.Results[1].(*ssa.Call); !ok || c2.Call.StaticCallee() == nil || !e.c.alwaysStarError(c2.Call.StaticCallee()) {
					allErr = false
				}
			}
			if allErr {
				for _, ref := range *call.Referrers() {
					if ex, ok := ref.(*ssa.Extract); ok && ex.Index == 1 {
						ns.vals[ex] = tNon
					}
				}
			}
		}
	}
	return []*pstate{ns}
}

// run computes all summaries to a fixpoint, then collects loop findings.
func (e *e4Engine) run() {
	var fns []*ssa.Function
	for f := range e.scan {
		if f != e.readByte && f != e.putBack && !e.rawRead[f] {
			fns = append(fns, f)
		}
	}
	sort.Slice(fns, func(i, j int) bool { return fnName(fns[i]) < fnName(fns[j]) })
	for round := 0; round < 30; round++ {
		e.changed = false
		var ks []sumKey
		for k := range e.sums {
			ks = append(ks, k)
		}
		if round == 0 {
			for _, f := range fns {
				for _, d := range []tag{tZero, tNon} {
					for _, o := range []tag{tZero, tNon} {
						ks = append(ks, sumKey{f, d, o})
					}
				}
			}
		}
		sort.Slice(ks, func(i, j int) bool {
			if fnName(ks[i].fn) != fnName(ks[j].fn) {
				return fnName(ks[i].fn) < fnName(ks[j].fn)
			}
			if ks[i].deck != ks[j].deck {
				return ks[i].deck < ks[j].deck
			}
			return ks[i].eof < ks[j].eof
		})
		for _, k := range ks {
			if k.fn == e.readByte || k.fn == e.putBack || e.rawRead[k.fn] {
				continue
			}
			e.analyse(k.fn, k.deck, k.eof)
		}
		if !e.changed {
			break
		}
	}
	// final pass with collection
	e.collect = true
	for _, f := range fns {
		for _, d := range []tag{tZero, tNon} {
			for _, o := range []tag{tZero, tNon} {
				e.analyse(f, d, o)
			}
		}
	}
}

func parserFieldOfLoad(v ssa.Value) string {
	f := parserField(v)
	if f == "line" || f == "col" || f == "onDeck" {
		return f
	}
	return ""
}

// relevant: values whose tag can influence a branch, a return value or a putBack argument.
func (e *e4Engine) relevant(fn *ssa.Function) map[ssa.Value]bool {
	if r, ok := e.relMemo[fn]; ok {
		return r
	}
	rel := map[ssa.Value]bool{}
	var mark func(v ssa.Value)
	mark = func(v ssa.Value) {
		if v == nil || rel[v] {
			return
		}
		rel[v] = true
		switch t := v.(type) {
		case *ssa.BinOp:
			mark(t.X)
			mark(t.Y)
		case *ssa.UnOp:
			mark(t.X)
		case *ssa.Phi:
			for _, x := range t.Edges {
				mark(x)
			}
		case *ssa.Call:
			if b, ok := t.Call.Value.(*ssa.Builtin); ok && b.Name() == "len" {
				mark(t.Call.Args[0])
			}
			if f := calleeObj(t); f != nil && f.Pkg() != nil && f.Pkg().Path() == "bytes" {
				mark(callRecv(t))
			}
		case *ssa.Extract:
			mark(t.Tuple)
		case *ssa.Convert:
			mark(t.X)
		case *ssa.ChangeType:
			mark(t.X)
		case *ssa.MakeInterface:
			mark(t.X)
		}
	}
	for _, b := range fn.Blocks {
		for _, in := range b.Instrs {
			switch t := in.(type) {
			case *ssa.If:
				mark(t.Cond)
			case *ssa.Return:
				for _, r := range t.Results {
					mark(r)
				}
			case *ssa.Call:
				if t.Call.StaticCallee() == e.putBack && len(t.Call.Args) == 2 {
					mark(t.Call.Args[1])
				}
			case *ssa.Store:
				if fa, ok := t.Addr.(*ssa.FieldAddr); ok {
					if o, _ := fieldOwner(fa.X.Type(), fa.Field); o == "parser" {
						mark(t.Val)
					}
				}
				if al, ok := t.Addr.(*ssa.Alloc); ok && rel[al] {
					mark(t.Val)
				}
			}
		}
	}
	// stores into relevant local cells (second pass)
	for _, b := range fn.Blocks {
		for _, in := range b.Instrs {
			if st, ok := in.(*ssa.Store); ok {
				if al, ok := st.Addr.(*ssa.Alloc); ok && rel[al] {
					mark(st.Val)
				}
			}
		}
	}
	e.relMemo[fn] = rel
	return rel
}

// evalInt: exact value of a small integer expression, when known.
func (e *e4Engine) evalInt(s *pstate, v ssa.Value, d int) (int64, bool) {
	if d > 6 {
		return 0, false
	}
	if n, ok := s.ints[v]; ok {
		return n, true
	}
	switch t := v.(type) {
	case *ssa.Const:
		if t.Value != nil && t.Value.Kind() == constant.Int {
			if n, ok := constant.Int64Val(t.Value); ok && n > -300 && n < 300 {
				if b, isB := t.Type().Underlying().(*types.Basic); isB && b.Info()&types.IsInteger != 0 {
					return n, true
				}
			}
		}
	case *ssa.BinOp:
		x, okx := e.evalInt(s, t.X, d+1)
		y, oky := e.evalInt(s, t.Y, d+1)
		if okx && oky {
			switch t.Op {
			case token.ADD:
				return x + y, true
			case token.SUB:
				return x - y, true
			}
		}
	}
	return 0, false
}

// liveIn computes, per block, the SSA values that may still be used at or after the block's entry.
func (e *e4Engine) liveIn(fn *ssa.Function) map[*ssa.BasicBlock]map[ssa.Value]bool {
	if l, ok := e.liveMemo[fn]; ok {
		return l
	}
	type set = map[ssa.Value]bool
	use := map[*ssa.BasicBlock]set{}
	def := map[*ssa.BasicBlock]set{}
	phiUse := map[*ssa.BasicBlock]map[*ssa.BasicBlock]set{} // succ -> pred -> values used by succ's phis on that edge
	for _, b := range fn.Blocks {
		u, d := set{}, set{}
		for _, in := range b.Instrs {
			if phi, ok := in.(*ssa.Phi); ok {
				for i, ev := range phi.Edges {
					if phiUse[b] == nil {
						phiUse[b] = map[*ssa.BasicBlock]set{}
					}
					p := b.Preds[i]
					if phiUse[b][p] == nil {
						phiUse[b][p] = set{}
					}
					phiUse[b][p][ev] = true
				}
				d[phi] = true
				continue
			}
			for _, op := range in.Operands(nil) {
				if *op == nil {
					continue
				}
				if !d[*op] {
					u[*op] = true
				}
			}
			if v, ok := in.(ssa.Value); ok {
				d[v] = true
			}
		}
		use[b], def[b] = u, d
	}
	live := map[*ssa.BasicBlock]set{}
	for _, b := range fn.Blocks {
		live[b] = set{}
		for v := range use[b] {
			live[b][v] = true
		}
	}
	changed := true
	for changed {
		changed = false
		for i := len(fn.Blocks) - 1; i >= 0; i-- {
			b := fn.Blocks[i]
			for _, sc := range b.Succs {
				add := func(v ssa.Value) {
					if !def[b][v] || use[b][v] {
						if !live[b][v] {
							live[b][v] = true
							changed = true
						}
					}
				}
				for v := range live[sc] {
					if _, isPhi := v.(*ssa.Phi); isPhi && v.(*ssa.Phi).Block() == sc {
						continue
					}
					add(v)
				}
				if pu := phiUse[sc][b]; pu != nil {
					for v := range pu {
						add(v)
					}
				}
			}
		}
	}
	e.liveMemo[fn] = live
	return live
}

// prune drops facts about values that are dead at the entry of block b.
func (e *e4Engine) prune(fn *ssa.Function, s *pstate, b *ssa.BasicBlock) {
	live := e.liveIn(fn)[b]
	keep := func(v ssa.Value) bool {
		if live[v] {
			return true
		}
		if phi, ok := v.(*ssa.Phi); ok && phi.Block() == b {
			return true
		}
		if al, ok := v.(*ssa.Alloc); ok {
			_ = al
			return true // local cells and buffers are addressed, not used as values
		}
		return false
	}
	for v := range s.vals {
		if !keep(v) {
			delete(s.vals, v)
		}
	}
	for v := range s.ints {
		if !keep(v) {
			delete(s.ints, v)
		}
	}
	for v := range s.symVals {
		if !keep(v) {
			delete(s.symVals, v)
		}
	}
	for v := range s.snap {
		if !keep(v) {
			delete(s.snap, v)
		}
	}
}

// indexByteOf: v is strings.IndexByte(K, b) or bytes.IndexByte([]byte(K), b) for a constant string K.
func indexByteOf(v ssa.Value) (set string, b ssa.Value, ok bool) {
	call, isCall := v.(*ssa.Call)
	if !isCall || len(call.Call.Args) != 2 {
		return "", nil, false
	}
	f := calleeObj(call)
	if f == nil || f.Pkg() == nil || f.Name() != "IndexByte" || (f.Pkg().Path() != "strings" && f.Pkg().Path() != "bytes") {
		return "", nil, false
	}
	src := call.Call.Args[0]
	if cv, isCv := src.(*ssa.Convert); isCv {
		src = cv.X
	}
	k, isC := src.(*ssa.Const)
	if !isC || k.Value == nil || k.Value.Kind() != constant.String {
		return "", nil, false
	}
	return constant.StringVal(k.Value), call.Call.Args[1], true
}
