package main

import (
	"fmt"
	"go/ast"
	"go/token"
	"go/types"

	"golang.org/x/tools/go/ssa"
)

func init() {
	register("C05", checkC05,
		"Value-domain discipline on the way out: (LEAF) everything the type dispatcher returns and everything the list resolver appends to a result list is the result of CoerceOut of the declared type, of a recursive resolve call, a map allocated there, or nil - never the resolver's raw value; (NILERR) at every call site of an output coercer the value is dropped when the error is non-nil; (NARROW) every narrowing numeric conversion in an output coercer (and its helpers) is range-guarded; (FINITE) floats returned by the Float coercers are bounded from both sides (NaN and infinities fail); (NILOBJ) a nil object yields the untyped nil; (KIND) every kind string a schema node can report is a member of __TypeKind and every location constant a member of __DirectiveLocation.",
		"Time formatting, and enum membership of returned symbols (Enum.CoerceOut accepts any string, reported as C05.ENUM deviant of Enum.CoerceIn). The raw value returned when the resolve depth is exhausted is a known finding (subscriptions rely on it).")
}

func checkC05(c *Ctx, r *Report) {
	appDataRule(c, r, "C05.OWNDATA", "a value coerced in place is seen, already converted, by every other field backed by the same slice or map: a [String] field and an [Int] field over one slice both come out with the shape of whichever was resolved last, without an error")
	r.rule("C05.LEAF", "values leaving the dispatcher / appended by the list resolver are coercer results, recursive results, fresh maps or nil")
	r.rule("C05.NILERR", "call sites of OutCoercer.CoerceOut: value used only where the error is nil")
	r.rule("C05.NARROW", "narrowing conversions in CoerceOut bodies and helpers are range-guarded")
	r.rule("C05.FINITE", "Float coercers return finite floats")
	r.rule("C05.NILOBJ", "IsNil(obj) exit returns the nil constant")
	r.rule("C05.KIND", "kind strings ⊆ __TypeKind, location constants ⊆ __DirectiveLocation, IsLocation agrees with the constants")
	r.rule("C05.ENUM", "Enum.CoerceOut checks membership like Enum.CoerceIn")
	a := c.anchors()
	if !requireAnchors(r, "C05.LEAF", a) {
		return
	}
	c05Leaf(c, r, a)
	c05NilErr(c, r)
	c04Narrow(c, r, "C05.NARROW", "CoerceOut", 6)
	r.rule("C05.BASE", "strconv.ParseInt / ParseUint in output coercers: base is the constant 10")
	c04Base(c, r, "C05.BASE", "CoerceOut")
	c05Repr(c, r)
	if a := c.anchors(); len(a.missing) == 0 {
		importRulesFrom(c, r, "C10", func(c *Ctx, sub *Report) { c10Field(c, sub, a) }, "C05.FDEF", "the declared type a leaf is coerced to is that of the field definition looked up in the container type of this evaluation (C10.FIELD): a definition remembered on the request node coerces the values of one union member with the declared type of another", "C10.FIELD")
	}
	finiteRule(c, r, "C05.FINITE")
	c05Kind(c, r)
	c05Enum(c, r)
	c05TimeRange(c, r)
}

func c05Leaf(c *Ctx, r *Report, a *Anchors) {
	fn := a.dispatch
	var objP *ssa.Parameter
	for _, p := range fn.Params {
		if it, ok := p.Type().Underlying().(*types.Interface); ok && it.NumMethods() == 0 {
			objP = p
			break
		}
	}
	classify := func(v ssa.Value) (string, bool) {
		switch t := v.(type) {
		case *ssa.Const:
			if t.Value == nil {
				return "nil", true
			}
		case *ssa.MakeMap:
			return "fresh map", true
		case *ssa.MakeInterface:
			if _, ok := t.X.(*ssa.MakeMap); ok {
				return "fresh map", true
			}
			if _, ok := t.X.(*ssa.Const); ok {
				return "nil", true
			}
		case *ssa.Extract:
			if call, ok := t.Tuple.(*ssa.Call); ok && t.Index == 0 {
				if f := calleeObj(call); f != nil && f.Name() == "CoerceOut" {
					return "CoerceOut result", true
				}
				if cal := call.Call.StaticCallee(); cal != nil && c.inPkg(cal) && c.resolverReaching()[cal] {
					return "result of " + fnName(cal), true
				}
			}
		}
		return "raw " + shortPath(vpath(v)), false
	}
	n := 0
	seen := map[string]int{}
	for _, rt := range returnsOf(fn) {
		ls, _ := phiLeaves(rt.Results[0])
		for _, l := range ls {
			n++
			d, ok := classify(l.val)
			seen[d]++
			key := fmt.Sprintf("%s: returns %s", fnName(fn), d)
			if seen[d] > 1 {
				key += fmt.Sprintf(" #%d", seen[d])
			}
			if !ok && stripIface(l.val) == ssa.Value(objP) {
				// which exit?
				var gs []guard
				if l.pred != nil {
					gs = edgeGuards(l.pred, l.phi.Block())
				} else {
					gs = blockGuards(rt.Block())
				}
				depthExit := false
				for _, g := range gs {
					g = normGuard(g)
					if v, op, k, ok2 := intCmp(g.cond); ok2 {
						if p, isP := v.(*ssa.Parameter); isP && p.Name() != "" {
							if !g.val {
								op = negOp(op)
							}
							if (op == token.LEQ && k == 0) || (op == token.LSS && k == 1) {
								depthExit = true
							}
						}
					}
				}
				if depthExit {
					key = fmt.Sprintf("%s: returns the raw object when the resolve depth is exhausted", fnName(fn))
				}
			}
			r.check("C05.LEAF", key, firstPos(valPos(l.val), rt.Pos()), ok, "the resolver's own value is handed to the response without coercion to the declared type")
		}
	}
	r.floor("C05.LEAF", "values returned by the type dispatcher", n, 6)
	// NILOBJ
	okNil := false
	for _, rt := range returnsOf(fn) {
		if hasGuard(rt.Block(), func(g guard) bool {
			call, ok := g.cond.(*ssa.Call)
			return ok && g.val && call.Call.StaticCallee() != nil && call.Call.StaticCallee().Name() == "IsNil"
		}) {
			okNil = isNilConst(rt.Results[0])
		}
	}
	r.check("C05.NILOBJ", fnName(fn)+": a nil object yields the untyped nil", fn.Pos(), okNil, "a typed nil pointer handed on is printed as \"<nil>\" by the JSON writer")
	// list resolver: appended values
	k := 0
	// the list resolver and the helpers it hands the walking of a list to (package functions it calls that
	// return the result value first and build []interface{} lists themselves)
	lfs := []*ssa.Function{a.list}
	for _, ci := range callsIn(a.list) {
		cal := ci.Common().StaticCallee()
		if cal == nil || !c.inPkg(cal) || cal == a.dispatch || cal == a.list || len(cal.Blocks) == 0 {
			continue
		}
		if res := cal.Signature.Results(); res.Len() == 0 || !isEmptyIface(res.At(0).Type()) {
			continue
		}
		dup := false
		for _, f := range lfs {
			if f == cal {
				dup = true
			}
		}
		if !dup {
			lfs = append(lfs, cal)
		}
	}
	for _, lf := range lfs {
		perArm := map[string]int{}
		for _, ci := range callsIn(lf) {
			call, ok := ci.(*ssa.Call)
			if !ok || !isBuiltinCall(call, "append") {
				continue
			}
			sl, ok := call.Type().Underlying().(*types.Slice)
			if !ok {
				continue
			}
			if it, ok := sl.Elem().Underlying().(*types.Interface); !ok || it.NumMethods() != 0 {
				continue
			}
			elems, known := sliceLitElems(call.Call.Args[1])
			if !known {
				continue
			}
			for _, e := range elems {
				k++
				arm := armOf(call.Block())
				perArm[arm]++
				ls, _ := phiLeaves(e)
				okAll := true
				desc := ""
				errPath := false
				for _, l := range ls {
					d, ok := classify(l.val)
					if !ok {
						// the element obtained from an accessor that failed: nil-able raw value from AnyResolver.Nth on the error path
						if ex, isEx := l.val.(*ssa.Extract); isEx {
							if cl, isCall := ex.Tuple.(*ssa.Call); isCall && cl.Call.IsInvoke() && cl.Call.Method.Name() == "Nth" {
								errv := extractOf(cl, 1)
								guardedErr := false
								gs := blockGuards(call.Block())
								if l.pred != nil {
									gs = edgeGuards(l.pred, l.phi.Block())
								}
								for _, g := range gs {
									if errv != nil && guardSaysNonNil(g, errv) {
										guardedErr = true
									}
								}
								if guardedErr {
									d = "accessor's value on its error path"
									okAll = false
									desc = d
									errPath = true
									continue
								}
							}
						}
						okAll = false
						desc = d
					}
				}
				key := fmt.Sprintf("%s: list element (%s) #%d", fnName(lf), arm, perArm[arm])
				if errPath {
					// named by what it is, not by its position among the appends of the arm
					perArm[arm]--
					key = fmt.Sprintf("%s: list element (%s): %s", fnName(lf), arm, desc)
				}
				r.check("C05.LEAF", key, call.Pos(), okAll, "a list element is appended without coercion to the element type: "+desc)
			}
		}
	}
	r.floor("C05.LEAF", "values appended to result lists", k, 3)
}

func c05NilErr(c *Ctx, r *Report) {
	n := 0
	for _, fn := range c.allFns {
		k := 0
		for _, ci := range callsIn(fn) {
			call, ok := ci.(*ssa.Call)
			if !ok {
				continue
			}
			f := calleeObj(call)
			if f == nil || f.Name() != "CoerceOut" {
				continue
			}
			n++
			k++
			val, errv := extractOf(call, 0), extractOf(call, 1)
			key := fmt.Sprintf("%s: CoerceOut call #%d drops the value on error", fnName(fn), k)
			if val == nil && errv == nil {
				// returned as is (delegation)
				r.check("C05.NILERR", key, call.Pos(), true, "delegated: both results returned together")
				continue
			}
			if errv == nil {
				r.flag("C05.NILERR", key, call.Pos(), "the coercion error is discarded")
				continue
			}
			if val == nil {
				r.check("C05.NILERR", key, call.Pos(), true, "")
				continue
			}
			// delegation: the pair is returned together by one return
			deleg := true
			for _, ref := range *val.Referrers() {
				rt, isRet := ref.(*ssa.Return)
				if _, isDbg := ref.(*ssa.DebugRef); isDbg {
					continue
				}
				if !isRet || len(rt.Results) != 2 || rt.Results[0] != val || rt.Results[1] != errv {
					deleg = false
				}
			}
			if deleg {
				r.check("C05.NILERR", key, call.Pos(), true, "delegated: both results returned together")
				continue
			}
			ok2, why := valueDroppedOnError(val, errv)
			r.check("C05.NILERR", key, call.Pos(), ok2, why+": an output coercer may return the unconverted value together with its error")
		}
	}
	r.floor("C05.NILERR", "call sites of CoerceOut", n, 3)
}

// rangedTableStrings: e is the value variable of a `for _, v := range table` loop in fd, where table is a
// package-level array or slice declared with a literal of constant strings and written nowhere else: the
// strings of the table.
func (c *Ctx) rangedTableStrings(fd *ast.FuncDecl, e ast.Expr) []string {
	id, ok := ast.Unparen(e).(*ast.Ident)
	if !ok {
		return nil
	}
	info := c.P.TypesInfo
	obj := info.Uses[id]
	if obj == nil {
		return nil
	}
	var table *types.Var
	ast.Inspect(fd.Body, func(n ast.Node) bool {
		rs, ok := n.(*ast.RangeStmt)
		if !ok || rs.Value == nil {
			return true
		}
		vid, ok := rs.Value.(*ast.Ident)
		if !ok || info.Defs[vid] != obj {
			return true
		}
		if xid, ok := ast.Unparen(rs.X).(*ast.Ident); ok {
			if tv, ok := info.Uses[xid].(*types.Var); ok && tv.Parent() == c.P.Types.Scope() {
				table = tv
			}
		}
		return true
	})
	if table == nil {
		return nil
	}
	// written only by its declaration
	if g, ok := c.SP.Members[table.Name()].(*ssa.Global); ok {
		for _, fn := range c.allFns {
			for _, b := range fn.Blocks {
				for _, in := range b.Instrs {
					if st, ok := in.(*ssa.Store); ok && rootGlobal(st.Addr) == g {
						return nil
					}
				}
			}
		}
	} else {
		return nil
	}
	var out []string
	for _, f := range c.P.Syntax {
		for _, d := range f.Decls {
			gd, ok := d.(*ast.GenDecl)
			if !ok || gd.Tok != token.VAR {
				continue
			}
			for _, sp := range gd.Specs {
				vs := sp.(*ast.ValueSpec)
				for i, nm := range vs.Names {
					if info.Defs[nm] != types.Object(table) || i >= len(vs.Values) {
						continue
					}
					cl, ok := vs.Values[i].(*ast.CompositeLit)
					if !ok {
						return nil
					}
					for _, el := range cl.Elts {
						if kv, ok := el.(*ast.KeyValueExpr); ok {
							el = kv.Value
						}
						s, ok := c.constString(el)
						if !ok {
							return nil
						}
						out = append(out, s)
					}
				}
			}
		}
	}
	return out
}

// rootGlobal: the package-level variable an address is inside of.
func rootGlobal(v ssa.Value) *ssa.Global {
	for i := 0; i < 8; i++ {
		switch t := v.(type) {
		case *ssa.Global:
			return t
		case *ssa.FieldAddr:
			v = t.X
		case *ssa.IndexAddr:
			v = t.X
		default:
			return nil
		}
	}
	return nil
}

func c05Kind(c *Ctx, r *Report) {
	// enum values built by the constructors
	enumVals := func(ctor string) map[string]bool {
		out := map[string]bool{}
		fd, _ := c.methodDecl("Root", ctor)
		if fd == nil {
			return out
		}
		ast.Inspect(fd.Body, func(n ast.Node) bool {
			cl, ok := n.(*ast.CompositeLit)
			if !ok {
				return true
			}
			if t := c.P.TypesInfo.TypeOf(cl); t == nil || !c.isNamed(t, "EnumValue") {
				return true
			}
			for _, el := range cl.Elts {
				if kv, ok := el.(*ast.KeyValueExpr); ok {
					if k, _ := kv.Key.(*ast.Ident); k != nil && k.Name == "Value" {
						if s, ok := c.constString(kv.Value); ok {
							out[s] = true
						} else {
							for _, s := range c.rangedTableStrings(fd, kv.Value) {
								out[s] = true
							}
						}
					}
				}
			}
			return true
		})
		return out
	}
	kinds := enumVals("newTypeKind")
	locs := enumVals("newDirectiveLocation")
	r.floor("C05.KIND", "__TypeKind values", len(kinds), 8)
	r.floor("C05.KIND", "__DirectiveLocation values", len(locs), 18)
	// Locate: node type -> location constant
	locate := c.fn("Locate")
	if locate == nil {
		r.undecided("C05.KIND", "anchor Locate", token.NoPos, "not found")
		return
	}
	r.fnSeen("Locate")
	locOf := map[string]string{}
	for _, rt := range returnsOf(locate) {
		k, isC := rt.Results[0].(*ssa.Const)
		if !isC || k.Value == nil {
			continue
		}
		s, _ := constStr(k)
		for _, t := range caseTypes(rt.Block(), nil) {
			locOf[typeStr(t)] = s
		}
	}
	// kinds reported by the __Type servers
	for _, srv := range []string{"Object", "Interface", "Union", "Enum", "Input", "Scalar"} {
		k := locOf["*"+srv]
		r.check("C05.KIND", fmt.Sprintf("kind reported for %s (%q) is a __TypeKind value", srv, k), locate.Pos(), kinds[k], "introspection would report a kind that is not a member of __TypeKind")
	}
	for _, lit := range []string{"LIST", "NON_NULL"} {
		r.check("C05.KIND", fmt.Sprintf("kind %q is a __TypeKind value", lit), token.NoPos, kinds[lit], "")
	}
	// every Loc* constant is a __DirectiveLocation value and known to IsLocation
	isLoc := c.fn("IsLocation")
	known := map[string]bool{}
	if isLoc != nil {
		r.fnSeen("IsLocation")
		for _, b := range isLoc.Blocks {
			for _, in := range b.Instrs {
				switch t := in.(type) {
				case *ssa.Store:
					if s, ok := constStr(t.Val); ok {
						known[s] = true
					}
				case *ssa.BinOp:
					// a switch or an if-chain over the constants
					if t.Op == token.EQL {
						if s, ok := constStr(t.Y); ok {
							known[s] = true
						}
						if s, ok := constStr(t.X); ok {
							known[s] = true
						}
					}
				case *ssa.Lookup:
					// membership in a package-level set declared with a literal and written nowhere else
					if u, ok := t.X.(*ssa.UnOp); ok && u.Op == token.MUL {
						if g, ok := u.X.(*ssa.Global); ok {
							if tab, ok := c.globalMapLit(g); ok {
								for k := range tab {
									known[k] = true
								}
							}
						}
					}
				}
			}
		}
	}
	sc := c.P.Types.Scope()
	n := 0
	for _, name := range sc.Names() {
		k, ok := sc.Lookup(name).(*types.Const)
		if !ok || !c.isNamed(k.Type(), "Location") {
			continue
		}
		n++
		v := constantString(k)
		r.check("C05.KIND", fmt.Sprintf("location constant %s (%q) is a __DirectiveLocation value", name, v), k.Pos(), locs[v], "a directive declared on this location reports a location that is not a member of __DirectiveLocation")
		r.check("C05.KIND", fmt.Sprintf("location constant %s (%q) is accepted by IsLocation", name, v), k.Pos(), known[v], "Directive.Validate would reject a directive declared on this location")
	}
	r.floor("C05.KIND", "Location constants", n, 19)
}

func constantString(k *types.Const) string {
	s := k.Val().ExactString()
	if len(s) >= 2 && s[0] == '"' {
		return s[1 : len(s)-1]
	}
	return s
}

func c05Enum(c *Ctx, r *Report) {
	in := c.fn("(*Enum).CoerceIn")
	out := c.fn("(*Enum).CoerceOut")
	if in == nil || out == nil {
		r.undecided("C05.ENUM", "anchors (*Enum).CoerceIn/CoerceOut", token.NoPos, "not found")
		return
	}
	member := func(fn *ssa.Function) bool {
		for _, ci := range callsIn(fn) {
			if cal := ci.Common().StaticCallee(); cal != nil && cal.Name() == "has" {
				return true
			}
		}
		for _, b := range fn.Blocks {
			for _, i := range b.Instrs {
				if lk, ok := i.(*ssa.Lookup); ok {
					if _, o, f, ok := loadOfField(lk.X); ok && o == "enumValueList" && f == "dict" {
						return true
					}
				}
			}
		}
		return false
	}
	r.fnSeen(fnName(in), fnName(out))
	r.check("C05.ENUM", "(*Enum).CoerceOut: checks that the value is a declared member (as CoerceIn does)", out.Pos(), !member(in) || member(out), "an enum-typed field can carry any string a resolver returns: the response may hold a name that is not a declared value")
}

// c05TimeRange: a number of seconds turned into a time.Time by the Time scalar is bounded from both sides
// first. RFC 3339 has four-digit years; time.Unix accepts any int64, and Format then prints years such as
// 292277026596, which is not the representation of the declared scalar.
func c05TimeRange(c *Ctx, r *Report) {
	r.rule("C05.TIMERANGE", "in the Time scalar's coercers every time.Unix call whose arguments derive from the value being coerced is dominated by a lower and an upper bound test of that value")
	n := 0
	for _, fn := range c.allFns {
		if fn.Signature.Recv() == nil || !c.isNamed(fn.Signature.Recv().Type(), "timeScalar") {
			continue
		}
		k := 0
		for _, ci := range callsIn(fn) {
			if !isFuncCall(ci, "time", "Unix") {
				continue
			}
			// the non-constant argument, traced back through arithmetic to the asserted value
			var src ssa.Value
			for _, a := range ci.Common().Args {
				if _, isC := a.(*ssa.Const); isC {
					continue
				}
				ls := arithLeaves(a, 0)
				if len(ls) == 0 {
					ls = []ssa.Value{a}
				}
				for _, lf := range ls {
					if _, isC := lf.(*ssa.Const); !isC {
						src = lf
					}
				}
			}
			if src == nil {
				continue
			}
			n++
			k++
			lo, up := boundsOn(ci.Block(), src)
			r.check("C05.TIMERANGE", fmt.Sprintf("%s: time.Unix #%d is applied to a bounded number of seconds", fnName(fn), k), ci.Pos(), lo && up,
				fmt.Sprintf("lower bound tested: %v, upper bound tested: %v: a timestamp beyond year 9999 (or before year 0) is formatted with a year RFC 3339 cannot express and reaches the response as the value of a Time field without an error", lo, up))
		}
	}
	r.floor("C05.TIMERANGE", "time.Unix conversions in the Time scalar", n, 2)
}
