package main

import (
	"fmt"
	"go/constant"
	"go/token"
	"go/types"

	"golang.org/x/tools/go/ssa"
)

// C07.LINE: "locations ... lie on the line of the offending token".
//
// Every node and error position is a copy of parser.line / parser.col. These are correct only when every
// byte that is taken from the underlying reader passes the newline accounting (line++ under b == '\n').
// The rule is a who-may-call rule over the resolved call graph: let RAW be the functions that call Read on
// parser.reader and COUNT the functions that contain the accounting (an increment of parser.line guarded
// by a comparison with '\n'). A RAW function must be in COUNT, or every caller of it must be in COUNT
// (recursively): no function obtains bytes of the document on a path that bypasses the accounting.
func c07Line(c *Ctx, r *Report) {
	r.rule("C07.LINE", "every call path to the raw Read of parser.reader passes through a function that counts lines (parser.line incremented under b == '\\n'); who-may-call over the resolved call graph")
	raw := map[*ssa.Function]token.Pos{}
	count := map[*ssa.Function]bool{}
	for _, fn := range c.allFns {
		for _, ci := range callsIn(fn) {
			cm := ci.Common()
			if !cm.IsInvoke() || cm.Method.Name() != "Read" {
				continue
			}
			if _, o, f, ok := loadOfField(cm.Value); ok && o == "parser" && f == "reader" {
				raw[fn] = ci.Pos()
			}
		}
		for _, b := range fn.Blocks {
			for _, in := range b.Instrs {
				st, ok := in.(*ssa.Store)
				if !ok {
					continue
				}
				fa, ok := st.Addr.(*ssa.FieldAddr)
				if !ok {
					continue
				}
				if o, f := fieldOwner(fa.X.Type(), fa.Field); o != "parser" || f != "line" {
					continue
				}
				bo, ok := st.Val.(*ssa.BinOp)
				if !ok || bo.Op != token.ADD {
					continue
				}
				if hasGuard(b, func(g guard) bool {
					g = normGuard(g)
					cmp, ok := g.cond.(*ssa.BinOp)
					if !ok {
						return false
					}
					isNL := func(v ssa.Value) bool {
						k, ok := v.(*ssa.Const)
						if !ok || k.Value == nil || k.Value.Kind() != constant.Int {
							return false
						}
						n, _ := constant.Int64Val(k.Value)
						bt, isB := k.Type().Underlying().(*types.Basic)
						return n == 10 && isB && (bt.Kind() == types.Uint8 || bt.Kind() == types.Byte)
					}
					if !isNL(cmp.X) && !isNL(cmp.Y) {
						return false
					}
					return (cmp.Op == token.EQL && g.val) || (cmp.Op == token.NEQ && !g.val)
				}) {
					count[fn] = true
				}
			}
		}
	}
	if len(raw) == 0 {
		r.undecided("C07.LINE", "raw read of parser.reader", token.NoPos, "no call of Read on parser.reader found")
		return
	}
	callers := map[*ssa.Function][]ssa.CallInstruction{}
	for _, fn := range c.allFns {
		for _, ci := range callsIn(fn) {
			if cal := ci.Common().StaticCallee(); cal != nil {
				callers[cal] = append(callers[cal], ci)
			}
		}
	}
	n := 0
	seen := map[*ssa.Function]bool{}
	var visit func(g *ssa.Function, via string)
	visit = func(g *ssa.Function, via string) {
		if seen[g] {
			return
		}
		seen[g] = true
		n++
		key := fmt.Sprintf("%s: bytes of the document%s pass the newline accounting", fnName(g), via)
		if count[g] {
			r.check("C07.LINE", key, g.Pos(), true, "")
			return
		}
		cs := callers[g]
		if len(cs) == 0 {
			r.check("C07.LINE", key, g.Pos(), false, "the function takes bytes from the reader without counting lines and nothing that calls it does: every position after a newline it consumed is reported on an earlier line")
			return
		}
		r.check("C07.LINE", key+" in every caller", g.Pos(), true, "")
		for _, ci := range cs {
			p := ci.Parent()
			if count[p] {
				// the accounting must look at the byte this call returned
				continue
			}
			if seen[p] {
				continue
			}
			// p hands the bytes on (or consumes them) without accounting
			if len(callers[p]) == 0 || !returnsByte(p) {
				n++
				r.check("C07.LINE", fmt.Sprintf("%s: bytes of the document (through %s) pass the newline accounting", fnName(p), g.Name()), ci.Pos(), false,
					"reads the document through "+g.Name()+", which does not count lines, and does not count them either: a newline consumed here leaves parser.line behind, every later position is reported on an earlier line")
				seen[p] = true
				continue
			}
			visit(p, " (through "+g.Name()+")")
		}
	}
	for g := range raw {
		r.fnSeen(fnName(g))
		visit(g, "")
	}
	r.floor("C07.LINE", "functions on the raw read path examined", n, 1)
}

func returnsByte(fn *ssa.Function) bool {
	res := fn.Signature.Results()
	for i := 0; i < res.Len(); i++ {
		if bt, ok := res.At(i).Type().Underlying().(*types.Basic); ok && bt.Kind() == types.Uint8 {
			return true
		}
	}
	return false
}
