package main

import (
	"fmt"
	"go/constant"
	"go/token"
	"go/types"
	"os"
	"sort"
	"strings"

	"golang.org/x/tools/go/ssa"
)

// C07.LINE: "locations ... lie on the line of the offending token".
//
// Every node and error position is a copy of parser.line / parser.col. These are correct only when every
// byte that is taken from the underlying reader passes the newline accounting (line++ under b == '\n').
// The rule is a who-may-call rule over the resolved call graph: let RAW be the functions that call Read on
// parser.reader and COUNT the functions that contain the accounting (an increment of parser.line guarded
// by a comparison with '\n'). A RAW function must be in COUNT, or every caller of it must be in COUNT
// (recursively): no function obtains bytes of the document on a path that bypasses the accounting.
func c07Line(c *Ctx, r *Report) {
	r.rule("C07.LINE", "every call path to the raw Read of parser.reader passes through a function that counts lines (parser.line incremented under b == '\\n', at once or through a flag that records the comparison for the next read); who-may-call over the resolved call graph")
	raw := map[*ssa.Function]token.Pos{}
	for _, fn := range c.allFns {
		for _, ci := range callsIn(fn) {
			cm := ci.Common()
			if !cm.IsInvoke() || cm.Method.Name() != "Read" {
				continue
			}
			if _, o, f, ok := loadOfField(cm.Value); ok && o == "parser" && f == "reader" {
				raw[fn] = ci.Pos()
			}
		}
	}
	acc := lineAccounting(c)
	count := map[*ssa.Function]bool{}
	for fn := range acc {
		count[fn] = true
	}
	if len(raw) == 0 {
		r.undecided("C07.LINE", "raw read of parser.reader", token.NoPos, "no call of Read on parser.reader found")
		return
	}
	callers := map[*ssa.Function][]ssa.CallInstruction{}
	for _, fn := range c.allFns {
		for _, ci := range callsIn(fn) {
			if cal := ci.Common().StaticCallee(); cal != nil {
				callers[cal] = append(callers[cal], ci)
			}
		}
	}
	n := 0
	seen := map[*ssa.Function]bool{}
	var visit func(g *ssa.Function, via string)
	visit = func(g *ssa.Function, via string) {
		if seen[g] {
			return
		}
		seen[g] = true
		n++
		key := fmt.Sprintf("%s: bytes of the document%s pass the newline accounting", fnName(g), via)
		if count[g] {
			r.check("C07.LINE", key, g.Pos(), true, "")
			return
		}
		cs := callers[g]
		if len(cs) == 0 {
			r.flag("C07.LINE", key, g.Pos(), "the function takes bytes from the reader without counting lines and nothing that calls it does: every position after a newline it consumed is reported on an earlier line")
			return
		}
		r.check("C07.LINE", key+" in every caller", g.Pos(), true, "")
		for _, ci := range cs {
			p := ci.Parent()
			if count[p] {
				// the accounting must look at the byte this call returned
				continue
			}
			if seen[p] {
				continue
			}
			// p hands the bytes on (or consumes them) without accounting
			if len(callers[p]) == 0 || !returnsByte(p) {
				n++
				r.flag("C07.LINE", fmt.Sprintf("%s: bytes of the document (through %s) pass the newline accounting", fnName(p), g.Name()), ci.Pos(),
					"reads the document through "+g.Name()+", which does not count lines, and does not count them either: a newline consumed here leaves parser.line behind, every later position is reported on an earlier line")
				seen[p] = true
				continue
			}
			visit(p, " (through "+g.Name()+")")
		}
	}
	for g := range raw {
		r.fnSeen(fnName(g))
		visit(g, "")
	}
	r.floor("C07.LINE", "functions on the raw read path examined", n, 1)
}

func returnsByte(fn *ssa.Function) bool {
	res := fn.Signature.Results()
	for i := 0; i < res.Len(); i++ {
		if bt, ok := res.At(i).Type().Underlying().(*types.Basic); ok && bt.Kind() == types.Uint8 {
			return true
		}
	}
	return false
}

// c07SubNil: a subscription request has no data of its own: the fields of the operation are resolved one
// level deep only (the resolver's *Subscription objects sit raw in the scratch map) and the caller gets a
// nil result. The rule: a response map that was handed to the field resolver with a depth other than
// MaxResolveDepth is not the result of any return reachable from that call. Returned on the failure path,
// the envelope would carry a non-null data entry for a rejected request, with *Subscription values that
// the JSON writer can only print through its %v fallback.
func c07SubNil(c *Ctx, r *Report, a *Anchors) {
	r.rule("C07.SUBNIL", "ResolveExecutable: a map passed to the field resolver with a depth other than MaxResolveDepth (subscription mode: raw values inside) is not returned by any return reachable from that call")
	fn := a.entry
	if fn == nil || a.field == nil {
		r.undecided("C07.SUBNIL", "anchors: entry point / field resolver", token.NoPos, "not found")
		return
	}
	isMaxDepth := func(v ssa.Value) bool {
		u, ok := v.(*ssa.UnOp)
		if !ok {
			return false
		}
		g, ok := u.X.(*ssa.Global)
		return ok && g.Name() == "MaxResolveDepth"
	}
	n := 0
	for _, ci := range callsIn(fn) {
		if ci.Common().StaticCallee() != a.field {
			continue
		}
		args := ci.Common().Args
		var depth, resMap ssa.Value
		for _, av := range args {
			if bt, ok := av.Type().Underlying().(*types.Basic); ok && bt.Kind() == types.Int {
				depth = av
			}
			if isStrIfaceMap(av.Type()) {
				resMap = av // the last map argument is the result map (vars comes first)
			}
		}
		if depth == nil || resMap == nil {
			continue
		}
		n++
		// the depth may be chosen before the call (1 for a subscription, MaxResolveDepth otherwise): the call is
		// shallow under the tests that select a shallow value
		dLeaves, _ := phiLeaves(depth)
		var shallowUnder [][]guard
		for _, dl := range dLeaves {
			if isMaxDepth(dl.val) {
				continue
			}
			if dl.pred != nil {
				shallowUnder = append(shallowUnder, edgeGuards(dl.pred, dl.phi.Block()))
			} else {
				shallowUnder = append(shallowUnder, blockGuards(ci.Block()))
			}
		}
		shallow := len(shallowUnder) > 0
		contradicts := func(a, b []guard) bool {
			for _, x := range a {
				x = normGuard(x)
				for _, y := range b {
					y = normGuard(y)
					if (x.cond == y.cond || sameCond(x.cond, y.cond)) && x.val != y.val {
						return true
					}
				}
			}
			return false
		}
		bad := token.NoPos
		if shallow {
			for _, rt := range returnsOf(fn) {
				if !instrReaches(ci, rt) || len(rt.Results) == 0 {
					continue
				}
				leaves, _ := phiLeaves(rt.Results[0])
				for _, lf := range leaves {
					if sameVal(stripIface(lf.val), resMap) || lf.val == resMap {
						// the map reaches this return under its own tests: a leak only if they can hold together
						// with the tests of a shallow call
						var under []guard
						if lf.pred != nil {
							under = edgeGuards(lf.pred, lf.phi.Block())
						} else {
							under = blockGuards(rt.Block())
						}
						for _, su := range shallowUnder {
							if !contradicts(su, under) {
								bad = rt.Pos()
							}
						}
					}
				}
			}
		}
		r.check("C07.SUBNIL", fmt.Sprintf("%s: field resolver call #%d (%s depth) does not leak a shallow result", fnName(fn), n, map[bool]string{true: "shallow", false: "full"}[shallow]), firstPos(bad, ci.Pos()), bad == token.NoPos,
			"the scratch map of a subscription request can be returned: a rejected subscription answers with a non-null data entry holding *Subscription objects, which do not serialise to JSON that decodes back")
	}
	r.floor("C07.SUBNIL", "field resolver calls in the entry point", n, 1)
}

// c07FreshErr: the location of an error is the position of the offending token in the SUBMITTED document.
// An error value kept in schema state (a field of a schema node) was built for the document of whichever
// request met the failure first; reported again later it carries that document's line and column (and the
// path segments every report prepends to it in place). The rule: no error that is appended to a response
// error list at request time is loaded from a field of a schema type, directly or through the result of a
// package function.
func c07FreshErr(c *Ctx, r *Report, a *Anchors) {
	r.rule("C07.FRESHERR", "no error appended to a response error list by a request-time function is loaded from a field of a schema node (directly or as the result of a package function)")
	var fromSchema func(v ssa.Value, depth int, seen map[ssa.Value]bool) string
	fromSchema = func(v ssa.Value, depth int, seen map[ssa.Value]bool) string {
		if v == nil || seen[v] || depth > 3 {
			return ""
		}
		seen[v] = true
		switch t := v.(type) {
		case *ssa.Phi:
			for _, e := range t.Edges {
				if w := fromSchema(e, depth, seen); w != "" {
					return w
				}
			}
		case *ssa.UnOp:
			if _, o, f, ok := loadOfField(t); ok && schemaTypes[o] && isErrorType(t.Type()) {
				return o + "." + f
			}
			if al, ok := t.X.(*ssa.Alloc); ok {
				for _, st := range cellStores(al) {
					if w := fromSchema(st.Val, depth, seen); w != "" {
						return w
					}
				}
			}
		case *ssa.Extract:
			return fromSchema(t.Tuple, depth, seen)
		case *ssa.Call:
			if cal := t.Call.StaticCallee(); cal != nil && c.inPkg(cal) && len(cal.Blocks) > 0 {
				for _, rt := range returnsOf(cal) {
					for _, res := range rt.Results {
						if isErrorType(res.Type()) {
							if w := fromSchema(res, depth+1, seen); w != "" {
								return w
							}
						}
					}
				}
			}
		}
		return ""
	}
	var fns []*ssa.Function
	for f := range a.reach {
		if c.inPkg(f) {
			fns = append(fns, f)
		}
	}
	sort.Slice(fns, func(i, j int) bool { return fnName(fns[i]) < fnName(fns[j]) })
	n := 0
	for _, fn := range fns {
		k := 0
		for _, ci := range callsIn(fn) {
			if !isBuiltinCall(ci, "append") {
				continue
			}
			call, ok := ci.(*ssa.Call)
			if !ok || len(call.Call.Args) != 2 || !isErrSlice(call.Type()) {
				continue
			}
			elems, ok := sliceLitElems(call.Call.Args[1])
			if !ok {
				continue
			}
			n++
			k++
			src := ""
			for _, e := range elems {
				if w := fromSchema(e, 0, map[ssa.Value]bool{}); w != "" {
					src = w
				}
			}
			if src != "" {
				r.add("C07.FRESHERR", fmt.Sprintf("%s: error append #%d reports an error made for this request", fnName(fn), k), call.Pos(), Violated,
					"the appended error is loaded from "+src+", long-lived schema state: it was built for the document of an earlier request, so its line and column (and the path prefixed to it in place on every report) do not belong to the submitted document")
			}
		}
	}
	r.check("C07.FRESHERR", "request-time error appends take errors made for the request at hand", token.NoPos, true, fmt.Sprintf("%d appends of single errors in %d request-time functions examined", n, len(fns)))
	r.floor("C07.FRESHERR", "appends of single errors in request-time functions", n, 10)
}

// c07Pool: bytes written to the caller's writer are produced by this call. A buffer taken from a sync.Pool
// still holds whatever its last user left in it unless it is reset when it is TAKEN (a reset before it is put
// back is skipped by every early return): every *bytes.Buffer obtained from (*sync.Pool).Get is Reset() (or
// Truncate(0)) at a point that dominates every other use of it.
func c07Pool(c *Ctx, r *Report) {
	r.rule("C07.POOL", "a *bytes.Buffer taken from a sync.Pool is reset at a point dominating every other use of it")
	n := 0
	for _, fn := range c.allFns {
		if !c.inPkg(fn) {
			continue
		}
		for _, ci := range callsIn(fn) {
			f := calleeObj(ci)
			if f == nil || f.Pkg() == nil || f.Pkg().Path() != "sync" || f.Name() != "Get" || recvTypeName(f) != "Pool" {
				continue
			}
			gv, ok := ci.(ssa.Value)
			if !ok || gv.Referrers() == nil {
				continue
			}
			// the buffer: the asserted value
			var bufs []ssa.Value
			for _, ref := range *gv.Referrers() {
				if ta, ok := ref.(*ssa.TypeAssert); ok && isBytesBufferPtr(ta.AssertedType) {
					if ta.CommaOk {
						if ex := extractOf(ta, 0); ex != nil {
							bufs = append(bufs, ex)
						}
					} else {
						bufs = append(bufs, ta)
					}
				}
			}
			for _, buf := range bufs {
				n++
				r.fnSeen(fnName(fn))
				var resets, uses []ssa.Instruction
				if buf.Referrers() != nil {
					for _, ref := range *buf.Referrers() {
						switch t := ref.(type) {
						case ssa.CallInstruction:
							if m := calleeObj(t); m != nil && (m.Name() == "Reset" || m.Name() == "Truncate") && recvTypeName(m) == "Buffer" && callRecv(t) == buf {
								resets = append(resets, t)
								continue
							}
							if _, isDefer := t.(*ssa.Defer); isDefer {
								continue // handing it back
							}
							uses = append(uses, t)
						case *ssa.MakeInterface, *ssa.ChangeInterface, *ssa.Store, *ssa.UnOp:
							uses = append(uses, ref)
						}
					}
				}
				bad := ""
				var pos = ci.Pos()
				for _, u := range uses {
					dom := false
					for _, rs := range resets {
						if instrDominates(rs, u) {
							dom = true
						}
					}
					if !dom {
						up := u.Pos()
						if !up.IsValid() {
							if v, ok := u.(ssa.Value); ok && v.Referrers() != nil {
								for _, r2 := range *v.Referrers() {
									if r2.Pos().IsValid() {
										up = r2.Pos()
										break
									}
								}
							}
						}
						bad = "a use of the pooled buffer at " + c.pos(up) + " is not preceded by a reset on every path"
						if up.IsValid() {
							pos = up
						}
						break
					}
				}
				r.check("C07.POOL", fmt.Sprintf("%s: pooled buffer is reset when taken", fnName(fn)), pos, bad == "",
					bad+": after an early return (a failing writer) the buffer goes back filled, and the next response starts with the text of the one that could not be delivered")
			}
		}
	}
	r.Notes = append(r.Notes, fmt.Sprintf("C07.POOL: %d pooled buffers", n))
}

func isBytesBufferPtr(t types.Type) bool {
	p, ok := t.(*types.Pointer)
	if !ok {
		return false
	}
	n, ok := p.Elem().(*types.Named)
	return ok && n.Obj().Pkg() != nil && n.Obj().Pkg().Path() == "bytes" && n.Obj().Name() == "Buffer"
}

// isNLConst: the byte constant '\n'.
func isNLConst(v ssa.Value) bool {
	k, ok := v.(*ssa.Const)
	if !ok || k.Value == nil || k.Value.Kind() != constant.Int {
		return false
	}
	n, _ := constant.Int64Val(k.Value)
	bt, isB := k.Type().Underlying().(*types.Basic)
	return n == 10 && isB && (bt.Kind() == types.Uint8 || bt.Kind() == types.Byte)
}

// nlCompare: v is `b == '\n'` (eq true) or `b != '\n'` (eq false).
func nlCompare(v ssa.Value) (eq bool, ok bool) {
	cmp, isB := v.(*ssa.BinOp)
	if !isB || (cmp.Op != token.EQL && cmp.Op != token.NEQ) {
		return false, false
	}
	if !isNLConst(cmp.X) && !isNLConst(cmp.Y) {
		return false, false
	}
	return cmp.Op == token.EQL, true
}

// lineAcc describes how one function advances parser.line.
type lineAcc struct {
	at       token.Pos
	deferred bool   // the advance is controlled by a flag that an earlier read set, not by the byte just read
	flag     string // the flag field, when deferred
	eager    []eagerAdvance
}

// eagerAdvance: parser.line is incremented under `b == K` for the byte b that the same read returns.
type eagerAdvance struct {
	at token.Pos
	k  int64
}

// byteConstCompare: v is `b == K` / `b != K` for a byte-typed b and a constant K.
func byteConstCompare(v ssa.Value) (k int64, eq bool, ok bool) {
	cmp, isB := v.(*ssa.BinOp)
	if !isB || (cmp.Op != token.EQL && cmp.Op != token.NEQ) {
		return 0, false, false
	}
	x, y := cmp.X, cmp.Y
	if _, isC := x.(*ssa.Const); isC {
		x, y = y, x
	}
	c, isC := y.(*ssa.Const)
	if !isC || c.Value == nil || c.Value.Kind() != constant.Int {
		return 0, false, false
	}
	if bt, isBt := x.Type().Underlying().(*types.Basic); !isBt || bt.Kind() != types.Uint8 {
		return 0, false, false
	}
	if _, _, _, isFld := loadOfField(x); isFld {
		return 0, false, false // scanner state (the lookahead slot), not the byte this read returns
	}
	n, _ := constant.Int64Val(c.Value)
	return n, cmp.Op == token.EQL, true
}

// lineAccounting finds the functions that hold the newline accounting: an increment of parser.line that is
// guarded by a comparison of a byte with '\n' (the advance happens in the read that returns the newline),
// or guarded by a bool field of the parser whose every non-constant store in the package is such a
// comparison (the advance happens in the read after the newline).
func lineAccounting(c *Ctx) map[*ssa.Function]lineAcc {
	// bool fields of the parser that record "the byte just read is a newline"
	type flagInfo struct {
		cmpIn map[*ssa.Function]bool
		other bool
	}
	flags := map[string]*flagInfo{}
	for _, fn := range c.allFns {
		for _, b := range fn.Blocks {
			for _, in := range b.Instrs {
				st, ok := in.(*ssa.Store)
				if !ok {
					continue
				}
				fa, ok := st.Addr.(*ssa.FieldAddr)
				if !ok {
					continue
				}
				o, f := fieldOwner(fa.X.Type(), fa.Field)
				if o != "parser" {
					continue
				}
				if bt, isB := st.Val.Type().Underlying().(*types.Basic); !isB || bt.Kind() != types.Bool {
					continue
				}
				fi := flags[f]
				if fi == nil {
					fi = &flagInfo{cmpIn: map[*ssa.Function]bool{}}
					flags[f] = fi
				}
				if k, isC := st.Val.(*ssa.Const); isC {
					// `if b == '\n' { p.flag = true }`: the same record, written as a branch
					if k.Value != nil && k.Value.Kind() == constant.Bool && constant.BoolVal(k.Value) {
						if hasGuard(b, func(g guard) bool {
							eq, ok := nlCompare(g.cond)
							return ok && eq == g.val
						}) {
							fi.cmpIn[fn] = true
						} else {
							fi.other = true
						}
					}
					continue
				}
				if eq, ok := nlCompare(st.Val); ok && eq {
					fi.cmpIn[fn] = true
				} else {
					fi.other = true
				}
			}
		}
	}
	out := map[*ssa.Function]lineAcc{}
	pending := map[*ssa.Function][]eagerAdvance{} // advances on other bytes seen before the function's newline accounting
	for _, fn := range c.allFns {
		for _, b := range fn.Blocks {
			for _, in := range b.Instrs {
				st, ok := in.(*ssa.Store)
				if !ok {
					continue
				}
				fa, ok := st.Addr.(*ssa.FieldAddr)
				if !ok {
					continue
				}
				if o, f := fieldOwner(fa.X.Type(), fa.Field); o != "parser" || f != "line" {
					continue
				}
				bo, ok := st.Val.(*ssa.BinOp)
				if !ok || bo.Op != token.ADD {
					continue
				}
				for _, g := range blockGuards(b) {
					g = normGuard(g)
					if k, eq, ok := byteConstCompare(g.cond); ok && eq == g.val {
						a := out[fn]
						if k == 10 && !a.at.IsValid() {
							a.at = st.Pos()
						}
						a.eager = append(a.eager, eagerAdvance{st.Pos(), k})
						if k == 10 || a.at.IsValid() {
							out[fn] = a
						} else {
							pending[fn] = append(pending[fn], eagerAdvance{st.Pos(), k})
						}
						continue
					}
					if _, o, f, ok := loadOfField(g.cond); ok && o == "parser" && g.val {
						if fi := flags[f]; fi != nil && !fi.other && fi.cmpIn[fn] {
							a := out[fn]
							a.at, a.deferred, a.flag = st.Pos(), true, f
							out[fn] = a
						}
					}
				}
			}
		}
	}
	for fn, ea := range pending {
		if a, ok := out[fn]; ok {
			a.eager = append(a.eager, ea...)
			out[fn] = a
		}
	}
	return out
}

// C07.AHEAD: the scanners work with one byte of lookahead: a token ends when the byte after it has been
// read, and that byte is then put back. Node positions are copied from parser.line / parser.col right
// after such a token read. If the read that returns a newline also advances parser.line, a token that is
// followed by a line break is reported on the next line (and with col - len(token) <= 0). The rule: when
// some function copies parser.line after a call that can put a newline back, the accounting function
// advances the line with the read after the newline (deferred form), not with the read that returns it.
func c07Ahead(c *Ctx, r *Report) {
	r.rule("C07.AHEAD", "where parser.line is read after a call that may leave a newline as the put-back lookahead byte, the line accounting advances parser.line with the read that follows the newline, not with the read that returns it")
	acc := lineAccounting(c)
	// functions that store a byte into parser.onDeck (putBack and the like)
	putters := map[*ssa.Function]int{} // function -> index of the byte parameter stored
	for _, fn := range c.allFns {
		for _, b := range fn.Blocks {
			for _, in := range b.Instrs {
				st, ok := in.(*ssa.Store)
				if !ok {
					continue
				}
				fa, ok := st.Addr.(*ssa.FieldAddr)
				if !ok {
					continue
				}
				if o, f := fieldOwner(fa.X.Type(), fa.Field); o != "parser" || f != "onDeck" {
					continue
				}
				if pa, ok := st.Val.(*ssa.Parameter); ok {
					for i, q := range fn.Params {
						if q == pa {
							putters[fn] = i
						}
					}
				}
			}
		}
	}
	// the bytes on which some read advances the line at once
	ks := map[int64]bool{}
	for _, a := range acc {
		for _, e := range a.eager {
			ks[e.k] = true
		}
	}
	loadsLine := func(in ssa.Instruction) bool {
		u, ok := in.(*ssa.UnOp)
		if !ok {
			return false
		}
		_, o, f, ok := loadOfField(u)
		return ok && o == "parser" && f == "line"
	}
	fnLoadsLine := map[*ssa.Function]bool{}
	for _, fn := range c.allFns {
		for _, b := range fn.Blocks {
			for _, in := range b.Instrs {
				if loadsLine(in) {
					fnLoadsLine[fn] = true
				}
			}
		}
	}
	// sitesFor(k): functions that read parser.line after a call that may put byte k back
	sitesFor := func(k int64) []string {
		mayPut := map[*ssa.Function]bool{}
		for _, fn := range c.allFns {
			for _, ci := range callsIn(fn) {
				cal := ci.Common().StaticCallee()
				idx, ok := putters[cal]
				if cal == nil || !ok || idx >= len(ci.Common().Args) {
					continue
				}
				if !byteExcluded(ci.Block(), ci.Common().Args[idx], k) {
					mayPut[fn] = true
				}
			}
		}
		var sites []string
		for _, fn := range c.allFns {
			if isAccFn(acc, fn) {
				continue // the accounting function itself
			}
			for _, ci := range callsIn(fn) {
				cal := ci.Common().StaticCallee()
				if cal == nil || !mayPut[cal] {
					continue
				}
				found := false
				for _, b := range fn.Blocks {
					for _, in := range b.Instrs {
						if found {
							break
						}
						if loadsLine(in) && instrReaches(ci, in) {
							found = true
						}
						if c2, ok := in.(ssa.CallInstruction); ok && instrReaches(ci, in) {
							if h := c2.Common().StaticCallee(); h != nil && fnLoadsLine[h] && !isAccFn(acc, h) && !mayPut[h] {
								found = true
							}
						}
					}
				}
				if found {
					sites = append(sites, fmt.Sprintf("%s after %s", fnName(fn), cal.Name()))
					break
				}
			}
		}
		sort.Strings(sites)
		return sites
	}
	nlSites := sitesFor(10)
	for _, st := range nlSites {
		r.check("C07.AHEAD", "position copy after a put-back lookahead: "+st, token.NoPos, true, "")
	}
	n := 0
	for fn, a := range acc {
		n++
		r.fnSeen(fnName(fn))
		key := fmt.Sprintf("%s: parser.line is advanced by the read after the line break", fnName(fn))
		if len(a.eager) == 0 {
			r.check("C07.AHEAD", key, a.at, a.deferred, "no advance of parser.line recognised")
			continue
		}
		bad := false
		for _, e := range a.eager {
			sites := nlSites
			if e.k != 10 {
				sites = sitesFor(e.k)
			}
			if len(sites) == 0 {
				continue
			}
			bad = true
			r.check("C07.AHEAD", key, e.at, false,
				fmt.Sprintf("the line is advanced by the read that returns the byte %#x, and %d functions copy parser.line after a token read whose put-back lookahead byte can be that byte (%s): a token followed by it is reported on the next line, with column = 1 - len(token)", e.k, len(sites), strings.Join(sites, "; ")))
			break
		}
		if !bad {
			r.check("C07.AHEAD", key+" (no position is copied after a put-back line break)", a.at, true, "")
		}
	}
	r.floor("C07.AHEAD", "line accounting functions examined", n, 1)
}

func isAccFn(acc map[*ssa.Function]lineAcc, fn *ssa.Function) bool {
	_, ok := acc[fn]
	return ok
}

// newlineExcluded: the guards that hold in block b rule out that byte value v is '\n': a comparison of v
// with a constant, or of <constant string>[v] with a constant, that is false for v == 10.
func byteExcluded(b *ssa.BasicBlock, v ssa.Value, k int64) bool {
	kv := k
	tableAt := func(tab, idx ssa.Value) (int64, bool) {
		k, ok := tab.(*ssa.Const)
		if !ok || k.Value == nil || k.Value.Kind() != constant.String {
			return 0, false
		}
		if cv, ok := idx.(*ssa.Convert); ok {
			idx = cv.X
		}
		if idx != v {
			return 0, false
		}
		if s := constant.StringVal(k.Value); int64(len(s)) > kv && kv >= 0 {
			return int64(s[kv]), true
		}
		return 0, false
	}
	evalSide := func(x ssa.Value) (int64, bool) {
		switch t := x.(type) {
		case *ssa.Const:
			if t.Value != nil && t.Value.Kind() == constant.Int {
				n, ok := constant.Int64Val(t.Value)
				return n, ok
			}
		case *ssa.Lookup:
			return tableAt(t.X, t.Index)
		case *ssa.Index:
			return tableAt(t.X, t.Index)
		default:
			if x == v {
				return kv, true
			}
		}
		return 0, false
	}
	for _, g := range blockGuards(b) {
		g = normGuard(g)
		cmp, ok := g.cond.(*ssa.BinOp)
		if !ok || (cmp.Op != token.EQL && cmp.Op != token.NEQ) {
			continue
		}
		x, okx := evalSide(cmp.X)
		y, oky := evalSide(cmp.Y)
		if os.Getenv("AHEAD_DEBUG") != "" {
			fmt.Fprintf(os.Stderr, "  guard %s=%v x=%d,%v y=%d,%v (%T %T)\n", g.cond, g.val, x, okx, y, oky, cmp.X, cmp.Y)
		}
		if !okx || !oky {
			continue
		}
		if _, cx := cmp.X.(*ssa.Const); cx {
			if _, cy := cmp.Y.(*ssa.Const); cy {
				continue
			}
		}
		holds := (x == y) == (cmp.Op == token.EQL)
		if holds != g.val {
			return true
		}
	}
	return false
}
