package main

// Role-based anchors: internal helpers are found by what they do (types they
// take, interface methods they invoke, who calls them), never by name, so a
// rename does not blind a rule. Public API names are used as stable anchors.

import (
	"go/types"
	"sort"

	"golang.org/x/tools/go/ssa"
)

type Anchors struct {
	entry      *ssa.Function // (*Root).ResolveExecutable
	field      *ssa.Function // field resolver: invokes Resolver.Resolve
	list       *ssa.Function // list resolver: takes *List, loops
	dispatch   *ssa.Function // type dispatcher: switches over Type, calls list resolver
	fieldSels  *ssa.Function
	walker     *ssa.Function // selection walker
	skip       *ssa.Function // directive evaluator
	inline     *ssa.Function
	spread     *ssa.Function
	formArgs   *ssa.Function
	subst      *ssa.Function // argument substitution (recursive)
	addError   *ssa.Function
	reflectRes *ssa.Function // reflection resolver
	reflArgs   *ssa.Function
	getFD      *ssa.Function // field definition lookup by container kind
	reach      map[*ssa.Function]bool
	missing    []string
}

func (c *Ctx) isNamed(t types.Type, name string) bool {
	if p, ok := t.(*types.Pointer); ok {
		t = p.Elem()
	}
	n, ok := t.(*types.Named)
	return ok && n.Obj().Name() == name && n.Obj().Pkg() == c.P.Types
}

func (c *Ctx) hasParam(f *ssa.Function, typeName string) bool {
	for _, p := range f.Params {
		if c.isNamed(p.Type(), typeName) {
			return true
		}
	}
	return false
}

func isErrSlice(t types.Type) bool {
	s, ok := t.Underlying().(*types.Slice)
	if !ok {
		return false
	}
	n, ok := s.Elem().(*types.Named)
	return ok && n.Obj().Name() == "error" && n.Obj().Pkg() == nil
}

func isErrorType(t types.Type) bool {
	n, ok := t.(*types.Named)
	return ok && n.Obj().Name() == "error" && n.Obj().Pkg() == nil
}

func isStrIfaceMap(t types.Type) bool {
	m, ok := t.Underlying().(*types.Map)
	if !ok {
		return false
	}
	if b, ok := m.Key().Underlying().(*types.Basic); !ok || b.Kind() != types.String {
		return false
	}
	i, ok := m.Elem().Underlying().(*types.Interface)
	return ok && i.NumMethods() == 0
}

func (c *Ctx) anchors() *Anchors {
	a := &Anchors{}
	miss := func(s string) { a.missing = append(a.missing, s) }
	a.entry = c.fn("(*Root).ResolveExecutable")
	if a.entry == nil {
		miss("(*Root).ResolveExecutable")
		return a
	}
	a.reach = c.reachable(a.entry)
	var cand []*ssa.Function
	for f := range a.reach {
		if c.inPkg(f) && f.Parent() == nil {
			cand = append(cand, f)
		}
	}
	sort.Slice(cand, func(i, j int) bool { return fnName(cand[i]) < fnName(cand[j]) })
	onRoot := func(f *ssa.Function) bool {
		return f.Signature.Recv() != nil && c.isNamed(f.Signature.Recv().Type(), "Root")
	}
	staticCallees := func(f *ssa.Function) []*ssa.Function {
		var out []*ssa.Function
		seen := map[*ssa.Function]bool{}
		for _, ci := range callsIn(f) {
			if cal := ci.Common().StaticCallee(); cal != nil && c.inPkg(cal) && !seen[cal] {
				seen[cal] = true
				out = append(out, cal)
			}
		}
		return out
	}
	invokesResolver := func(f *ssa.Function) bool {
		for _, ci := range callsIn(f) {
			cc := ci.Common()
			if cc.IsInvoke() && cc.Method.Name() == "Resolve" && c.isNamed(cc.Value.Type(), "Resolver") {
				return true
			}
		}
		return false
	}
	// the field resolver is what the selection walker calls for a *Field selection; the invocation of
	// Resolver.Resolve may sit in a helper of its own one or two calls below it
	if w := c.selWalker(); w != nil {
		for _, f := range staticCallees(w) {
			if !onRoot(f) || !c.hasParam(f, "Field") || f == w {
				continue
			}
			ok := invokesResolver(f)
			for _, g := range staticCallees(f) {
				if ok {
					break
				}
				if g == w || c.hasParam(g, "List") {
					continue
				}
				ok = invokesResolver(g)
				for _, h := range staticCallees(g) {
					if !ok && h != w && !c.hasParam(h, "List") {
						ok = invokesResolver(h)
					}
				}
			}
			if ok {
				a.field = f
			}
		}
	}
	for _, f := range cand {
		if a.field != nil {
			break
		}
		if onRoot(f) && c.hasParam(f, "Field") && invokesResolver(f) {
			a.field = f
		}
	}
	if a.field == nil {
		miss("field resolver (invokes Resolver.Resolve)")
		return a
	}
	for _, f := range cand {
		if onRoot(f) && c.hasParam(f, "List") && c.hasParam(f, "Field") && f.Signature.Results().Len() == 2 {
			if a.list != nil {
				miss("list resolver is ambiguous: " + fnName(a.list) + " / " + fnName(f))
			}
			a.list = f
		}
	}
	if a.list == nil {
		miss("list resolver (takes *List and *Field)")
	}
	a.walker = c.selWalker()
	a.skip = c.skipEval()
	if a.walker == nil {
		miss("selection walker")
	}
	// the directive evaluator may be written out inside the walker: only the rules of C09 need it by itself
	for _, f := range cand {
		// dispatcher: calls the list resolver and has a Type-typed parameter, returns (interface{}, []error)
		if a.list != nil && onRoot(f) && c.callTo(f, a.list) != nil && c.hasParam(f, "Type") && f != a.list {
			a.dispatch = f
		}
	}
	if a.dispatch == nil {
		miss("type dispatcher (calls the list resolver)")
	}
	if a.walker != nil {
		for _, cal := range staticCallees(a.walker) {
			switch {
			case c.hasParam(cal, "Inline") && !c.hasParam(cal, "FragRef"):
				a.inline = cal
			case c.hasParam(cal, "FragRef"):
				a.spread = cal
			}
		}
		for _, f := range cand {
			if f != a.walker && f != a.dispatch && c.callTo(f, a.walker) != nil && a.dispatch != nil && c.callTo(a.dispatch, f) != nil {
				a.fieldSels = f
			}
		}
		// no function in between: the dispatcher hands selection sets to the walker itself
		if a.fieldSels == nil && a.dispatch != nil && c.callTo(a.dispatch, a.walker) != nil {
			a.fieldSels = a.walker
		}
	}
	// what the field resolver calls, directly or through a helper of its own
	fieldCallees := staticCallees(a.field)
	{
		seen := map[*ssa.Function]bool{a.field: true, a.dispatch: true, a.list: true, a.walker: true}
		for _, f := range fieldCallees {
			seen[f] = true
		}
		for _, f := range staticCallees(a.field) {
			if f == a.dispatch || f == a.list || f == a.walker || f.Signature.Recv() == nil && len(f.Params) == 0 {
				continue
			}
			// a helper, not one of the roles themselves
			res := f.Signature.Results()
			isRole := (res.Len() == 2 && isStrIfaceMap(res.At(0).Type())) || (res.Len() == 1 && isErrSlice(res.At(0).Type())) || (res.Len() == 1 && c.isNamed(res.At(0).Type(), "FieldDef"))
			if isRole {
				continue
			}
			hasResolverInvoke := false
			for _, ci := range callsIn(f) {
				cc := ci.Common()
				if cc.IsInvoke() && cc.Method.Name() == "Resolve" && c.isNamed(cc.Value.Type(), "Resolver") {
					hasResolverInvoke = true
				}
			}
			if !hasResolverInvoke {
				continue
			}
			for _, g := range staticCallees(f) {
				if !seen[g] {
					seen[g] = true
					fieldCallees = append(fieldCallees, g)
				}
			}
		}
	}
	for _, cal := range fieldCallees {
		res := cal.Signature.Results()
		switch {
		case res.Len() == 2 && isStrIfaceMap(res.At(0).Type()) && isErrSlice(res.At(1).Type()):
			a.formArgs = cal
		case res.Len() == 1 && isErrSlice(res.At(0).Type()) && cal.Signature.Params().Len() == 3 && isErrorType(cal.Signature.Params().At(2).Type()):
			a.addError = cal
		case res.Len() == 2 && isErrSlice(res.At(1).Type()) && c.hasParam(cal, "Field") && cal != a.dispatch && cal != a.formArgs:
			if _, isIface := res.At(0).Type().Underlying().(*types.Interface); isIface {
				a.reflectRes = cal
			}
		case res.Len() == 1 && c.isNamed(res.At(0).Type(), "FieldDef") && c.hasParam(cal, "Type"):
			a.getFD = cal
		}
	}
	if a.formArgs == nil {
		miss("argument builder (returns (map[string]interface{}, []error))")
	} else {
		for _, cal := range staticCallees(a.formArgs) {
			res := cal.Signature.Results()
			if res.Len() == 2 && isErrSlice(res.At(1).Type()) && c.hasParam(cal, "Type") {
				a.subst = cal
			}
		}
		if a.subst == nil {
			miss("argument substitution (called by the argument builder)")
		}
	}
	if a.addError == nil {
		miss("error adder (func(*Field, []error, error) []error)")
	}
	if a.reflectRes == nil {
		miss("reflection resolver")
	} else {
		isReflArgs := func(cal *ssa.Function) bool {
			res := cal.Signature.Results()
			if res.Len() >= 1 {
				if s, ok := res.At(0).Type().Underlying().(*types.Slice); ok {
					if n, ok := s.Elem().(*types.Named); ok && n.Obj().Name() == "Value" && n.Obj().Pkg().Path() == "reflect" {
						return true
					}
				}
			}
			return false
		}
		for _, cal := range staticCallees(a.reflectRes) {
			if isReflArgs(cal) {
				a.reflArgs = cal
			}
		}
		if a.reflArgs == nil {
			// the reflected call taken out into a helper of the reflection resolver: one level further down
			for _, mid := range staticCallees(a.reflectRes) {
				if !c.inPkg(mid) || len(mid.Blocks) == 0 {
					continue
				}
				for _, cal := range staticCallees(mid) {
					if c.inPkg(cal) && isReflArgs(cal) {
						a.reflArgs = cal
					}
				}
			}
		}
	}
	if a.getFD == nil {
		miss("field definition lookup (func(Type, string) *FieldDef)")
	}
	return a
}

func (a *Anchors) names() map[string]string {
	m := map[string]string{}
	put := func(k string, f *ssa.Function) {
		if f != nil {
			m[k] = fnName(f)
		}
	}
	put("entry", a.entry)
	put("field resolver", a.field)
	put("list resolver", a.list)
	put("type dispatcher", a.dispatch)
	put("selection-set resolver", a.fieldSels)
	put("selection walker", a.walker)
	put("directive evaluator", a.skip)
	put("inline fragment resolver", a.inline)
	put("fragment spread resolver", a.spread)
	put("argument builder", a.formArgs)
	put("argument substitution", a.subst)
	put("error adder", a.addError)
	put("reflection resolver", a.reflectRes)
	put("reflection argument builder", a.reflArgs)
	put("field definition lookup", a.getFD)
	return m
}

// requireAnchors reports missing anchors as undecided obligations.
func requireAnchors(r *Report, rule string, a *Anchors) bool {
	for _, m := range a.missing {
		r.undecided(rule, "anchor: "+m, 0, "anchor could not be resolved by role; the rule cannot be evaluated")
	}
	r.Tables["anchors"] = a.names()
	for _, n := range a.names() {
		r.fnSeen(n)
	}
	return len(a.missing) == 0
}

// ---- loops ----------------------------------------------------------------

type loopInfo struct {
	head    *ssa.BasicBlock
	latches []*ssa.BasicBlock
	body    map[*ssa.BasicBlock]bool
}

func loopsOf(fn *ssa.Function) []*loopInfo {
	byHead := map[*ssa.BasicBlock]*loopInfo{}
	var order []*ssa.BasicBlock
	for _, b := range fn.Blocks {
		for _, s := range b.Succs {
			if s.Dominates(b) { // back edge b -> s
				li := byHead[s]
				if li == nil {
					li = &loopInfo{head: s, body: map[*ssa.BasicBlock]bool{s: true}}
					byHead[s] = li
					order = append(order, s)
				}
				li.latches = append(li.latches, b)
				// body: blocks that reach b without passing s
				st := []*ssa.BasicBlock{b}
				for len(st) > 0 {
					x := st[len(st)-1]
					st = st[:len(st)-1]
					if li.body[x] {
						continue
					}
					li.body[x] = true
					st = append(st, x.Preds...)
				}
			}
		}
	}
	var out []*loopInfo
	for _, h := range order {
		out = append(out, byHead[h])
	}
	return out
}

// innermostLoop returns the smallest loop containing b.
func innermostLoop(loops []*loopInfo, b *ssa.BasicBlock) *loopInfo {
	var best *loopInfo
	for _, l := range loops {
		if l.body[b] && (best == nil || len(l.body) < len(best.body)) {
			best = l
		}
	}
	return best
}
