package main

// Separator rule of the value writer (C07.SEP for the JSON form, C18.SEP for the SDL form), decided
// with E9. An "emitter" is the code that writes the items of a list or the members of a map: a loop
// of the value writer around its recursive call, or a closure that is called once per member.
// For every output mode (form x sign of indent) and every path from the start of a non-first item to
// the item's first own byte, the path either passes the write of a separator, or it has decided that
// no separator is needed for a reason that is sound in that form:
//   JSON: never. A flag carried from the previous item may suppress the comma only if, in this mode,
//         it can be true for the first item alone (every value assigned to it at the end of an item
//         is false).
//   SDL : the previous item ended with a closing bracket (the carried flag was assigned
//         isCollection(previous item)), or - for list elements only, whose text may start with an
//         opening bracket - the item itself is a collection. A map member starts with its key.

import (
	"fmt"
	"go/token"
	"go/types"
	"sort"
	"strings"

	"golang.org/x/tools/go/ssa"
)

type sepMode struct {
	sdl    bool
	indent int
}

func (m sepMode) String() string {
	f := "JSON"
	if m.sdl {
		f = "SDL"
	}
	return fmt.Sprintf("%s, indent %s", f, map[int]string{-1: "< 0", 0: "= 0", 1: "> 0"}[m.indent])
}

type writerRoles struct {
	fn          *ssa.Function
	sdl, indent *ssa.Parameter
}

// writerRolesOf finds the value writer and the roles of its parameters from the two public entry
// points: the boolean that is false from WriteJSONValue and true from WriteSDLValue selects the form;
// the integer that is not a constant is the indent.
func writerRolesOf(c *Ctx) (*writerRoles, string) {
	js, sd := c.fn("WriteJSONValue"), c.fn("WriteSDLValue")
	if js == nil || sd == nil {
		return nil, "WriteJSONValue / WriteSDLValue not found"
	}
	find := func(entry *ssa.Function) (*ssa.Function, []ssa.Value) {
		for _, ci := range callsIn(entry) {
			if cal := ci.Common().StaticCallee(); cal != nil && c.inPkg(cal) && len(ci.Common().Args) >= 3 {
				return cal, ci.Common().Args
			}
		}
		return nil, nil
	}
	fj, aj := find(js)
	fs, as := find(sd)
	if fj == nil || fj != fs {
		return nil, "the two entry points do not share one value writer"
	}
	wr := &writerRoles{fn: fj}
	for i, p := range fj.Params {
		if i >= len(aj) || i >= len(as) {
			break
		}
		kj, cj := aj[i].(*ssa.Const)
		ks, cs := as[i].(*ssa.Const)
		bt, isB := p.Type().Underlying().(*types.Basic)
		if !isB {
			continue
		}
		if bt.Info()&types.IsBoolean != 0 && cj && cs && kj.Value.String() == "false" && ks.Value.String() == "true" {
			wr.sdl = p
		}
		if bt.Info()&types.IsInteger != 0 && !cj && !cs {
			wr.indent = p
		}
	}
	if wr.sdl == nil || wr.indent == nil {
		return nil, "form / indent parameters of the value writer not identified"
	}
	return wr, ""
}

// rolesThrough maps the roles into a callee that receives them unchanged.
func rolesThrough(c *Ctx, from *writerRoles, callee *ssa.Function) *writerRoles {
	for _, ci := range callsIn(from.fn) {
		if ci.Common().StaticCallee() != callee {
			continue
		}
		wr := &writerRoles{fn: callee}
		for i, a := range ci.Common().Args {
			if i >= len(callee.Params) {
				break
			}
			if a == ssa.Value(from.sdl) {
				wr.sdl = callee.Params[i]
			}
			if a == ssa.Value(from.indent) {
				wr.indent = callee.Params[i]
			}
		}
		if wr.sdl != nil && wr.indent != nil {
			return wr
		}
	}
	return nil
}

func isSepByte(m sepMode, s string) bool {
	if s == "" {
		return false
	}
	if s[0] == ',' {
		return true
	}
	return m.sdl && strings.ContainsRune(" \n\t\r", rune(s[0]))
}

type sepPath struct {
	sepSeen bool
	comma   bool
	lits    map[string]bool
}

// sepRule runs the separator analysis for one form.
func sepRule(c *Ctx, r *Report, rule string, sdlForm bool) {
	r.rule(rule, "for every indent class, every path from the start of a non-first list element / map member to its first own byte passes a separator write, unless the carried flag says the previous item ended with a bracket (SDL) or the element itself starts with one (SDL lists); the flag's end-of-item values are false (JSON) or false / isCollection(item) (SDL); no separator precedes the first item (JSON)")
	wr, why := writerRolesOf(c)
	if wr == nil {
		r.undecided(rule, "anchors of the value writer", token.NoPos, why)
		return
	}
	r.fnSeen(fnName(wr.fn))
	var modes []sepMode
	for _, ind := range []int{-1, 0, 1} {
		modes = append(modes, sepMode{sdlForm, ind})
	}
	nEm := 0
	// ---- list emitters: loops of the value writer around its recursive call
	loops := loopsOf(wr.fn)
	for _, ci := range callsIn(wr.fn) {
		call, ok := ci.(*ssa.Call)
		if !ok || call.Call.StaticCallee() != wr.fn {
			continue
		}
		l := innermostLoop(loops, call.Block())
		if l == nil {
			continue
		}
		nEm++
		sepListEmitter(c, r, rule, wr, l, call, modes, nEm)
	}
	// ---- member emitters: closures (or functions) that call the value writer and are called in a loop
	seen := map[*ssa.Function]bool{}
	for _, fn := range c.allFns {
		if fn.Parent() == nil || seen[fn] {
			continue
		}
		callsWriter := false
		for _, ci := range callsIn(fn) {
			if ci.Common().StaticCallee() == wr.fn {
				callsWriter = true
			}
		}
		if !callsWriter {
			continue
		}
		parent := fn.Parent()
		pr := rolesThrough(c, wr, parent)
		if parent == wr.fn {
			pr = wr
		}
		if pr == nil {
			continue
		}
		seen[fn] = true
		nEm++
		sepClosureEmitter(c, r, rule, pr, fn, modes, nEm)
	}
	// ---- member emitters written as a loop of a function the value writer hands its form to (writeMap with the
	// loop body in the loop instead of a function literal)
	for _, fn := range c.allFns {
		if fn.Parent() != nil || fn == wr.fn || !c.inPkg(fn) {
			continue
		}
		pr := rolesThrough(c, wr, fn)
		if pr == nil {
			continue
		}
		fl := loopsOf(fn)
		for _, ci := range callsIn(fn) {
			call, ok := ci.(*ssa.Call)
			if !ok || call.Call.StaticCallee() != wr.fn {
				continue
			}
			l := innermostLoop(fl, call.Block())
			if l == nil {
				continue
			}
			// a member of a map (the item is looked up under its key, or is the value of a range over a map) or an
			// element of a list
			keyed := false
			for i, p := range wr.fn.Params {
				if isEmptyIface(p.Type()) && i < len(call.Call.Args) {
					switch t := call.Call.Args[i].(type) {
					case *ssa.Lookup:
						keyed = true
					case *ssa.Extract:
						if nx, ok := t.Tuple.(*ssa.Next); ok && !nx.IsString {
							if rg, ok := nx.Iter.(*ssa.Range); ok {
								if _, isMap := rg.X.Type().Underlying().(*types.Map); isMap {
									keyed = true
								}
							}
						}
					}
				}
			}
			nEm++
			sepListEmitterIn(c, r, rule, pr, wr.fn, l, call, modes, nEm, keyed)
		}
	}
	r.floor(rule, "emitters of item sequences in the value writer", nEm, 2)
}

func modeFrame(fn *ssa.Function, wr *writerRoles, m sepMode) *s9frame {
	fr := &s9frame{fn: fn, params: map[*ssa.Parameter]sval{}, cells: map[ssa.Value]sval{}, resolve: map[ssa.Value]string{}, headEnv: map[ssa.Value]sval{}}
	if wr.fn == fn {
		fr.params[wr.sdl] = sval{k: svBool, b: m.sdl}
		fr.params[wr.indent] = sval{k: svSign, sg: m.indent}
	}
	return fr
}

func sepListEmitter(c *Ctx, r *Report, rule string, wr *writerRoles, l *loopInfo, target *ssa.Call, modes []sepMode, ord int) {
	sepListEmitterIn(c, r, rule, wr, wr.fn, l, target, modes, ord, false)
}

// sepListEmitterIn analyses a loop whose body makes the call `target` of the value writer for the
// current item. keyed: the item's text starts with a key (map member), not with the value.
func sepListEmitterIn(c *Ctx, r *Report, rule string, wr *writerRoles, writer *ssa.Function, l *loopInfo, target *ssa.Call, modes []sepMode, ord int, keyed bool) {
	fn := wr.fn
	kind := "list"
	if keyed {
		kind = "map"
	}
	base := fmt.Sprintf("%s: %s emitter #%d", fnName(fn), kind, ord)
	// the element handed to the recursive call
	var elem ssa.Value
	for i, p := range writer.Params {
		if isEmptyIface(p.Type()) && i < len(target.Call.Args) {
			elem = target.Call.Args[i]
		}
	}
	for _, m := range modes {
		e := newS9(c)
		fr := modeFrame(fn, wr, m)
		elemAtom := ""
		if elem != nil {
			elemAtom = "isCollection(" + e.name(fr, elem) + ")"
		}
		// the previous item read back from the collection: x[i-1] for the item position i
		if ind := loopInduction(l); ind.ok && ind.elem != nil {
			for b := range l.body {
				for _, in := range b.Instrs {
					u, ok := in.(*ssa.UnOp)
					if !ok || u.Op != token.MUL {
						continue
					}
					ia, ok := u.X.(*ssa.IndexAddr)
					if !ok {
						continue
					}
					if bo, ok := ia.Index.(*ssa.BinOp); ok && bo.Op == token.SUB && bo.X == ind.elem {
						if k, ok := bo.Y.(*ssa.Const); ok && k.Value != nil && k.Int64() == 1 {
							if x, isLen := isLenOf(ind.length); isLen && sameVal(x, ia.X) {
								fr.resolve[u] = "previous item"
							}
						}
					}
				}
			}
		}
		// carried flags: boolean phis of the loop head
		var carried []*ssa.Phi
		for _, in := range l.head.Instrs {
			p, ok := in.(*ssa.Phi)
			if !ok {
				break
			}
			if bt, ok := p.Type().Underlying().(*types.Basic); ok && bt.Info()&types.IsBoolean != 0 {
				carried = append(carried, p)
			}
		}
		bindHead := func(first bool) {
			fr.headEnv = map[ssa.Value]sval{}
			// the position of the item: 0 for the first, positive afterwards
			if ind := loopInduction(l); ind.ok && ind.elem != nil {
				if first {
					fr.headEnv[ind.elem] = sval{k: svSign, sg: 0}
				} else {
					fr.headEnv[ind.elem] = sval{k: svSign, sg: 1}
				}
			}
			for _, in := range l.head.Instrs {
				p, ok := in.(*ssa.Phi)
				if !ok {
					break
				}
				switch {
				case isErrorType(p.Type()):
					fr.headEnv[p] = sval{k: svNil}
				default:
					isCar := false
					for _, cp := range carried {
						if cp == p {
							isCar = true
						}
					}
					if !isCar {
						continue
					}
					if first {
						st := s9state{env: map[ssa.Value]sval{}, cells: map[ssa.Value]sval{}, lits: map[string]bool{}}
						for i, pred := range l.head.Preds {
							if !l.body[pred] {
								fr.headEnv[p] = e.eval(fr, &st, p.Edges[i])
							}
						}
					} else {
						fr.headEnv[p] = sval{k: svAtom, atom: "carried:" + p.Comment}
					}
				}
			}
		}
		var paths []sepPath
		upd := map[string]map[string]bool{}
		hooks := func(collect *[]sepPath, updates bool) *s9hooks {
			return &s9hooks{
				within: l.body,
				onCall: func(f2 *s9frame, call ssa.CallInstruction, st *s9state) bool {
					if call == ssa.CallInstruction(target) {
						if collect != nil {
							*collect = append(*collect, sepPath{st.sep != "", strings.HasPrefix(st.sep, ","), st.lits})
						}
						return !updates
					}
					cc := call.Common()
					if cc.IsInvoke() && cc.Method.Name() == "Write" && len(cc.Args) == 1 && st.sep == "" {
						v := e.eval(f2, st, cc.Args[0])
						if v.k == svBytes && isSepByte(m, v.str) {
							st.sep = v.str[:1]
						}
					}
					return false
				},
				onBackEdge: func(f2 *s9frame, from, to *ssa.BasicBlock, st *s9state) {
					if !updates || to != l.head {
						return
					}
					idx := -1
					for i, p := range l.head.Preds {
						if p == from {
							idx = i
						}
					}
					for _, cp := range carried {
						v := e.eval(f2, st, cp.Edges[idx])
						k := "carried:" + cp.Comment
						if upd[k] == nil {
							upd[k] = map[string]bool{}
						}
						upd[k][v.String()] = true
					}
				},
			}
		}
		start := func() s9state {
			return s9state{env: map[ssa.Value]sval{}, cells: map[ssa.Value]sval{}, lits: map[string]bool{}}
		}
		// non-first item: reach the item's first byte
		bindHead(false)
		e.run(fr, l.head, firstNonPhi(l.head), start(), map[*ssa.BasicBlock]bool{l.head: true}, hooks(&paths, false))
		// the values the carried flags take at the end of an item
		e.run(fr, l.head, firstNonPhi(l.head), start(), map[*ssa.BasicBlock]bool{l.head: true}, hooks(nil, true))
		// first item
		var firstPaths []sepPath
		bindHead(true)
		e.run(fr, l.head, firstNonPhi(l.head), start(), map[*ssa.BasicBlock]bool{l.head: true}, hooks(&firstPaths, false))
		sepVerdict(c, r, rule, base, m, target.Pos(), e, paths, firstPaths, upd, elemAtom, keyed)
	}
}

func firstNonPhi(b *ssa.BasicBlock) int {
	for i, in := range b.Instrs {
		if _, ok := in.(*ssa.Phi); !ok {
			return i
		}
	}
	return len(b.Instrs)
}

// parentCell: the content of a captured cell when the closure runs, from the stores of the enclosing function.
func parentCell(e *s9, fr *s9frame, al *ssa.Alloc, mc *ssa.MakeClosure) (sval, bool) {
	st := s9state{env: map[ssa.Value]sval{}, cells: map[ssa.Value]sval{}, lits: map[string]bool{}}
	var feas []*ssa.Store
	for _, ref := range *al.Referrers() {
		s, ok := ref.(*ssa.Store)
		if !ok || s.Addr != ssa.Value(al) {
			continue
		}
		ok2 := true
		for _, g := range blockGuards(s.Block()) {
			cv := e.eval(fr, &st, g.cond)
			if cv.k == svBool && cv.b != g.val {
				ok2 = false
			}
		}
		if ok2 {
			feas = append(feas, s)
		}
	}
	if len(feas) == 0 {
		// zero value
		switch u := al.Type().(*types.Pointer).Elem().Underlying().(type) {
		case *types.Slice:
			return sval{k: svBytes, str: "", full: true}, true
		case *types.Basic:
			if u.Info()&types.IsBoolean != 0 {
				return sval{k: svBool, b: false}, true
			}
		case *types.Interface:
			return sval{k: svNil}, true
		}
		return sval{k: svTop}, false
	}
	if len(feas) == 1 {
		s := feas[0]
		certain := s.Block() == mc.Block() || s.Block().Dominates(mc.Block())
		if !certain {
			certain = true
			for _, g := range blockGuards(s.Block()) {
				cv := e.eval(fr, &st, g.cond)
				if cv.k != svBool {
					certain = false
				}
			}
		}
		if certain {
			// loads of other cells in the stored expression see their own parent values
			return e.eval(fr, &st, s.Val), true
		}
	}
	return sval{k: svTop}, false
}

func sepClosureEmitter(c *Ctx, r *Report, rule string, pr *writerRoles, g *ssa.Function, modes []sepMode, ord int) {
	parent := pr.fn
	base := fmt.Sprintf("%s: map emitter #%d", fnName(g), ord)
	// the MakeClosure and its bindings
	var mc *ssa.MakeClosure
	for _, b := range parent.Blocks {
		for _, in := range b.Instrs {
			if m, ok := in.(*ssa.MakeClosure); ok && m.Fn == ssa.Value(g) {
				mc = m
			}
		}
	}
	if mc == nil || len(g.Params) < 2 {
		r.undecided(rule, base, g.Pos(), "closure creation site or (key, value) parameters not found")
		return
	}
	// cells the closure itself assigns a boolean to: carried flags
	carried := map[*ssa.FreeVar]bool{}
	for _, b := range g.Blocks {
		for _, in := range b.Instrs {
			if s, ok := in.(*ssa.Store); ok {
				if fv, ok := s.Addr.(*ssa.FreeVar); ok {
					if bt, ok := s.Val.Type().Underlying().(*types.Basic); ok && bt.Info()&types.IsBoolean != 0 {
						carried[fv] = true
					}
				}
			}
		}
	}
	keyP, valP := g.Params[0], g.Params[1]
	for _, m := range modes {
		e := newS9(c)
		pf := modeFrame(parent, pr, m)
		// cells of the parent that hold parameters: evaluate through the spill store
		for _, b := range parent.Blocks {
			for _, in := range b.Instrs {
				if s, ok := in.(*ssa.Store); ok {
					if al, ok := s.Addr.(*ssa.Alloc); ok {
						if p, ok := s.Val.(*ssa.Parameter); ok {
							if sv, ok := pf.params[p]; ok {
								pf.cells[al] = sv
							}
						}
					}
				}
			}
		}
		fr := &s9frame{fn: g, params: map[*ssa.Parameter]sval{}, cells: map[ssa.Value]sval{}, resolve: map[ssa.Value]string{}, headEnv: map[ssa.Value]sval{}}
		initial := map[*ssa.FreeVar]sval{}
		for k, fv := range g.FreeVars {
			if k >= len(mc.Bindings) {
				break
			}
			al, ok := mc.Bindings[k].(*ssa.Alloc)
			if !ok {
				continue
			}
			if sv, ok := pf.cells[al]; ok {
				fr.cells[fv] = sv
				continue
			}
			if isErrorType(al.Type().(*types.Pointer).Elem()) {
				fr.cells[fv] = sval{k: svNil}
				continue
			}
			if sv, ok := parentCell(e, pf, al, mc); ok {
				if carried[fv] {
					initial[fv] = sv
				} else {
					fr.cells[fv] = sv
				}
			}
		}
		elemAtom := "isCollection(" + e.name(fr, valP) + ")"
		var paths, firstPaths []sepPath
		upd := map[string]map[string]bool{}
		mk := func(collect *[]sepPath, updates bool) *s9hooks {
			return &s9hooks{
				onCall: func(f2 *s9frame, call ssa.CallInstruction, st *s9state) bool {
					cc := call.Common()
					usesKey := false
					for _, a := range cc.Args {
						x := a
						if cv, ok := x.(*ssa.Convert); ok {
							x = cv.X
						}
						if x == ssa.Value(keyP) {
							usesKey = true
						}
					}
					if usesKey {
						if collect != nil && !updates {
							*collect = append(*collect, sepPath{st.sep != "", strings.HasPrefix(st.sep, ","), st.lits})
							return true
						}
						return false
					}
					if cc.IsInvoke() && cc.Method.Name() == "Write" && len(cc.Args) == 1 && st.sep == "" {
						v := e.eval(f2, st, cc.Args[0])
						if v.k == svBytes && isSepByte(m, v.str) {
							st.sep = v.str[:1]
						}
					}
					return false
				},
				onReturn: func(f2 *s9frame, ret *ssa.Return, st *s9state) {
					if !updates {
						return
					}
					for fv := range carried {
						k := "carried:" + fv.Name()
						v, ok := st.cells[fv]
						if !ok {
							v = f2.cells[fv]
						}
						if upd[k] == nil {
							upd[k] = map[string]bool{}
						}
						upd[k][v.String()] = true
					}
				},
			}
		}
		start := func() s9state {
			return s9state{env: map[ssa.Value]sval{}, cells: map[ssa.Value]sval{}, lits: map[string]bool{}}
		}
		for fv := range carried {
			fr.cells[fv] = sval{k: svAtom, atom: "carried:" + fv.Name()}
		}
		e.explore(fr, g.Blocks[0], nil, start(), map[*ssa.BasicBlock]bool{}, mk(&paths, false))
		e.explore(fr, g.Blocks[0], nil, start(), map[*ssa.BasicBlock]bool{}, mk(nil, true))
		okInit := true
		for fv := range carried {
			if sv, ok := initial[fv]; ok {
				fr.cells[fv] = sv
			} else {
				okInit = false
			}
		}
		if okInit {
			e.explore(fr, g.Blocks[0], nil, start(), map[*ssa.BasicBlock]bool{}, mk(&firstPaths, false))
		}
		_ = valP
		sepVerdict(c, r, rule, base, m, g.Pos(), e, paths, firstPaths, upd, elemAtom, true)
	}
}

func sepVerdict(c *Ctx, r *Report, rule, base string, m sepMode, pos token.Pos, e *s9, paths, firstPaths []sepPath, upd map[string]map[string]bool, elemAtom string, keyed bool) {
	key := fmt.Sprintf("%s, %s", base, m)
	if e.capped {
		r.undecided(rule, key, pos, fmt.Sprintf("path enumeration abandoned after %d steps", e.paths))
		return
	}
	if len(paths) == 0 {
		r.undecided(rule, key, pos, "no path from the start of an item to its first own byte was found in this mode")
		return
	}
	// admissible end-of-item values of the carried flags
	flagOK := map[string]bool{}
	var flagDesc []string
	for k, vals := range upd {
		ok := true
		var vs []string
		for v := range vals {
			vs = append(vs, v)
			switch {
			case v == "false":
			case m.sdl && v == elemAtom:
			default:
				ok = false
			}
		}
		sort.Strings(vs)
		flagOK[k] = ok
		flagDesc = append(flagDesc, fmt.Sprintf("%s := {%s}", k, strings.Join(vs, ", ")))
	}
	sort.Strings(flagDesc)
	bad := ""
	nSkip := 0
	for _, p := range paths {
		if p.sepSeen {
			continue
		}
		nSkip++
		okp := false
		for k, v := range p.lits {
			if strings.HasPrefix(k, "carried:") && v && flagOK[k] {
				okp = true
			}
			if m.sdl && !keyed && k == elemAtom && v {
				okp = true
			}
			if m.sdl && k == "isCollection(previous item)" && v {
				okp = true
			}
		}
		if !okp && bad == "" {
			bad = sortedLits(p.lits)
			if bad == "" {
				bad = "(no decision)"
			}
		}
	}
	detail := fmt.Sprintf("%d paths to the item's first byte, %d without a separator write; end-of-item flag values: %s", len(paths), nSkip, strings.Join(flagDesc, "; "))
	if bad != "" {
		what := "two adjacent items are written without a comma between them: the text is not valid JSON"
		if m.sdl {
			what = "two adjacent items are written without separator although neither a closing bracket before nor an opening bracket after delimits them: the text does not parse back to the same value"
		}
		r.add(rule, key, pos, Violated, fmt.Sprintf("a non-first item can be reached without a separator under the decisions [%s]: %s (%s)", bad, what, detail))
		return
	}
	if !m.sdl {
		for _, p := range firstPaths {
			if p.sepSeen && p.comma {
				r.add(rule, key, pos, Violated, "a comma is written before the first item: the text is not valid JSON ("+detail+")")
				return
			}
		}
	}
	r.add(rule, key, pos, Discharged, detail)
}
