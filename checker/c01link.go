package main

import (
	"fmt"
	"go/token"

	"golang.org/x/tools/go/ssa"
)

// C01.FRAGLINK: "after expanding fragments that apply": a fragment spread is expanded through the *Fragment
// its FragRef points at. A spread may be read before the definition of its fragment, so the object the
// spread points at must be the one the definition ends up in. Two shapes are accepted:
//
//	(a) registry: every *Fragment stored into FragRef.Fragment is looked up in Executable.Fragments, or is a
//	    placeholder that is entered into Executable.Fragments where it is made (the definition is later
//	    merged into the registered placeholder);
//	(b) link pass: a placeholder that is not registered is acceptable only if a later pass re-points the
//	    spreads (a store into FragRef.Fragment of a value looked up in Executable.Fragments inside a
//	    selection walker) and that walker is started on the selection sets of the operations AND of the
//	    fragment definitions - a spread inside a fragment definition is a spread too.
func c01FragLink(c *Ctx, r *Report) {
	r.rule("C01.FRAGLINK", "every *Fragment stored into FragRef.Fragment comes from Executable.Fragments or is registered there where it is allocated; an unregistered placeholder requires a re-link walker started on both Executable.Ops and Executable.Fragments bodies")
	type site struct {
		fn    *ssa.Function
		st    *ssa.Store
		unreg []ssa.Value
	}
	var sites []site
	var linkFns []*ssa.Function
	for _, fn := range c.allFns {
		if !c.inPkg(fn) {
			continue
		}
		for _, b := range fn.Blocks {
			for _, in := range b.Instrs {
				st, ok := in.(*ssa.Store)
				if !ok {
					continue
				}
				fa, ok := st.Addr.(*ssa.FieldAddr)
				if !ok {
					continue
				}
				if o, f := fieldOwner(fa.X.Type(), fa.Field); o != "FragRef" || f != "Fragment" {
					continue
				}
				s := site{fn: fn, st: st}
				leaves, _ := phiLeaves(st.Val)
				fromRegistry := false
				for _, lf := range leaves {
					switch {
					case derivedFromField(lf.val, "Executable", "Fragments"):
						fromRegistry = true
					case isNilConst(lf.val):
					default:
						if !registeredInFragments(fn, lf.val, fa.X) {
							s.unreg = append(s.unreg, lf.val)
						}
					}
				}
				if fromRegistry {
					if _, isParamBase := fa.X.(*ssa.Parameter); !isParamBase {
						// a store into a FragRef that was not just allocated here: a re-link site
					}
					if _, isAlloc := fa.X.(*ssa.Alloc); !isAlloc {
						linkFns = append(linkFns, fn)
					}
				}
				sites = append(sites, s)
			}
		}
	}
	// (b) completeness of the link pass
	linkOK, linkWhy := false, "no pass re-points the spreads after the document has been read"
	for _, w := range linkFns {
		ops, frags := false, false
		for _, caller := range c.allFns {
			if caller == w {
				continue
			}
			for _, ci := range callsIn(caller) {
				if ci.Common().StaticCallee() != w {
					continue
				}
				for _, a := range ci.Common().Args {
					if derivedFromField(a, "Executable", "Ops") {
						ops = true
					}
					if derivedFromField(a, "Executable", "Fragments") {
						frags = true
					}
				}
			}
		}
		switch {
		case ops && frags:
			linkOK = true
		case ops:
			linkWhy = fnName(w) + " is started on the selection sets of the operations only: a spread inside a fragment definition that is read before the definition it names keeps its empty placeholder"
		case frags:
			linkWhy = fnName(w) + " is started on the fragment definitions only"
		}
	}
	n := 0
	ord := map[*ssa.Function]int{}
	for _, s := range sites {
		n++
		ord[s.fn]++
		r.fnSeen(fnName(s.fn))
		ok := len(s.unreg) == 0 || linkOK
		d := ""
		if !ok {
			d = "a placeholder (" + shortPath(vpath(s.unreg[0])) + ") that is not entered into Executable.Fragments is stored: " + linkWhy + "; the fields of that fragment are missing from the response depending on the order of the definitions"
		}
		r.check("C01.FRAGLINK", fmt.Sprintf("%s: fragment stored into a spread #%d is the registered one", fnName(s.fn), ord[s.fn]), s.st.Pos(), ok, d)
	}
	r.floor("C01.FRAGLINK", "stores into FragRef.Fragment", n, 1)
}

// registeredInFragments: v (an allocation) is put into a map that is, or becomes, Executable.Fragments in fn.
func registeredInFragments(fn *ssa.Function, v ssa.Value, ref ssa.Value) bool {
	for _, b := range fn.Blocks {
		for _, in := range b.Instrs {
			mu, ok := in.(*ssa.MapUpdate)
			if !ok {
				continue
			}
			if !sameVal(mu.Value, v) {
				// the value read back from the spread it was just stored in
				base, o, f, isLd := loadOfField(mu.Value)
				if !isLd || o != "FragRef" || f != "Fragment" || base != ref {
					continue
				}
			}
			if derivedFromField(mu.Map, "Executable", "Fragments") {
				return true
			}
			// a fresh map that is stored into Executable.Fragments
			for _, ref := range *mu.Map.Referrers() {
				if st, ok := ref.(*ssa.Store); ok && st.Val == mu.Map {
					if fa, ok := st.Addr.(*ssa.FieldAddr); ok {
						if o, f := fieldOwner(fa.X.Type(), fa.Field); o == "Executable" && f == "Fragments" {
							return true
						}
					}
				}
			}
		}
	}
	_ = token.NoPos
	return false
}

// C01.FRAGTYPE: "__typename equal to the object's type name", "after expanding fragments that apply to the
// object": the selections of a fragment that applies are made on the object the fragment was spread on:
// the inline-fragment and spread resolvers hand their own container type parameter on to the selection
// walker - never the fragment's condition type (inside `... on Named {}` the object is still a Band).
func c01FragType(c *Ctx, r *Report, a *Anchors) {
	r.rule("C01.FRAGTYPE", "the inline-fragment and fragment-spread resolvers pass their own container type parameter to the selection walker")
	n := 0
	for _, fn := range []*ssa.Function{a.inline, a.spread} {
		if fn == nil || a.walker == nil {
			continue
		}
		var tP *ssa.Parameter
		for _, p := range fn.Params {
			if c.isNamed(p.Type(), "Type") {
				tP = p
			}
		}
		k := 0
		for _, ci := range callsIn(fn) {
			if ci.Common().StaticCallee() != a.walker {
				continue
			}
			n++
			k++
			r.fnSeen(fnName(fn))
			ok := false
			desc := ""
			for _, arg := range ci.Common().Args {
				if !c.isNamed(arg.Type(), "Type") {
					continue
				}
				if stripIface(arg) == ssa.Value(tP) {
					ok = true
				} else {
					desc = shortPath(vpath(arg))
				}
			}
			r.check("C01.FRAGTYPE", fmt.Sprintf("%s: walker call #%d resolves the fragment's selections on the object's own type", fnName(fn), k), ci.Pos(), ok,
				"the selections are resolved against "+desc+" instead of the container type this resolver was given: inside the fragment __typename reports the condition type and fragments on the object's concrete type no longer apply")
		}
	}
	r.floor("C01.FRAGTYPE", "walker calls in the fragment resolvers", n, 2)
}
