package main

import (
	"fmt"
	"go/token"
	"go/types"

	"golang.org/x/tools/go/ssa"
)

func init() {
	register("C04", checkC04,
		"Must-pass-through and converter-discipline conditions for arguments: (GATE) every resolver invocation receives the argument builder's map and is dominated by len(errors)==0 of that same call; the reflection arm must build its reflected arguments from that map; (ARMS) in the argument substitution every value returned is the result of CoerceIn of the declared type, or is raw only on paths where no declared type exists; (REQ) required-argument scan; (VARS) a caller-supplied variable enters the operation's variable map only as the result of CoerceIn of the variable's declared type and a coercion error returns before any resolver runs; (NARROW) every narrowing numeric conversion in an input coercer is range-guarded or round-trip checked; (INPUT) the input-object coercer rejects undeclared keys before use, fills defaults as the field's declared type coerces them and rejects missing non-null fields.",
		"That the coerced value denotes the same value for every input (boundary arithmetic beyond range guards, Time parsing, float32 precision) - arithmetic on runtime values.")
}

func checkC04(c *Ctx, r *Report) {
	r.rule("C04.GATE", "resolver invocation: args operand = result 0 of the argument builder call C, dominated by len(result 1 of C) == 0; reflected argument vectors are built from the argument builder's map")
	r.rule("C04.ARMS", "argument substitution: each value reaching the return is CoerceIn's result, or raw only where at == nil / at is no InCoercer")
	r.rule("C04.REQ", "required-argument scan (shared with C10.REQ)")
	r.rule("C04.VARS", "opVars[name] = v only for v = vd.Default or CoerceIn(vars[name]) of vd.Type, under err == nil")
	r.rule("C04.NARROW", "narrowing numeric Convert in CoerceIn bodies (and helpers) is dominated by bounds comparisons of the source or round-trip checked")
	r.rule("C04.INPUT", "(*Input).CoerceIn: undeclared-key rejection loop dominates the field loop; defaults filled, each as CoerceIn of the field's type returns it; missing non-null field rejected")
	a := c.anchors()
	if !requireAnchors(r, "C04.GATE", a) {
		return
	}
	c04Gate(c, r, a)
	c04Arms(c, r, a)
	c10Req(c, r, a, "C04.REQ")
	c04Vars(c, r, a)
	c04Source(c, r, a)
	c04Narrow(c, r, "C04.NARROW", "CoerceIn", 6)
	r.rule("C04.BASE", "strconv.ParseInt / ParseUint in input coercers: base is the constant 10")
	c04Base(c, r, "C04.BASE", "CoerceIn")
	c04Input(c, r)
	importRulesFrom(c, r, "C18", func(c *Ctx, sub *Report) { c18Num(c, sub) }, "C04.LITERAL", "an integer literal of a request is converted by strconv.ParseInt and a token it rejects goes to ParseFloat (C18.NUM): a conversion written by hand beside it (a digit loop with its own idea of what fits 64 bits) can wrap a literal around instead of rejecting it", "C18.NUM")
	importRules(c, r, "C10", "C04.FDEF", "the argument declarations a value is coerced against are those of the field definition looked up in the container type of this evaluation (C10.FIELD): a definition taken from a type remembered on the parsed field coerces Int64-declared values for an Int argument", "C10.FIELD~lookup uses the container type")
}

func c04Gate(c *Ctx, r *Report, a *Anchors) {
	n := 0
	for _, ci := range callsIn(a.field) {
		call, ok := ci.(*ssa.Call)
		if !ok || !c.isResolverInvoke(call) {
			continue
		}
		n++
		key := fmt.Sprintf("%s: %s receives the checked argument map", fnName(a.field), calleeDesc(call))
		var argMap ssa.Value
		for _, arg := range call.Call.Args {
			if isStrIfaceMap(arg.Type()) {
				argMap = arg
			}
		}
		ex, isEx := argMap.(*ssa.Extract)
		var fa *ssa.Call
		if isEx && ex.Index == 0 {
			fa, _ = ex.Tuple.(*ssa.Call)
		}
		if fa == nil || fa.Call.StaticCallee() != a.formArgs {
			r.check("C04.GATE", key, call.Pos(), false, "the argument map is not result 0 of the argument builder")
			continue
		}
		gated := hasGuard(call.Block(), func(g guard) bool {
			v, op, k, ok := intCmp(g.cond)
			if !ok {
				return false
			}
			x, isLen := isLenOf(v)
			if !isLen {
				return false
			}
			e, ok := x.(*ssa.Extract)
			if !ok || e.Tuple != ssa.Value(fa) || e.Index != 1 {
				return false
			}
			if !g.val {
				op = negOp(op)
			}
			return (op == token.EQL && k == 0) || (op == token.LEQ && k == 0) || (op == token.LSS && k == 1)
		})
		r.check("C04.GATE", key, call.Pos(), gated, "the invocation is not dominated by len(errors)==0 of the argument builder call that produced its map: a request that cannot be coerced would still invoke the resolver")
	}
	r.floor("C04.GATE", "interface resolver invocations", n, 2)
	// reflection arm
	if a.reflArgs == nil {
		r.undecided("C04.GATE", "anchor: reflection argument builder", a.reflectRes.Pos(), "not found")
		return
	}
	lenZeroOf := func(tuple ssa.Value, idx int) func(g guard) bool {
		return func(g guard) bool {
			v, op, k, ok := intCmp(g.cond)
			if !ok {
				return false
			}
			x, isLen := isLenOf(v)
			if !isLen {
				return false
			}
			e, ok := x.(*ssa.Extract)
			if !ok || e.Tuple != tuple || e.Index != idx {
				return false
			}
			if !g.val {
				op = negOp(op)
			}
			return (op == token.EQL && k == 0) || (op == token.LEQ && k == 0) || (op == token.LSS && k == 1)
		}
	}
	// (i) the reflected call takes the vector built by the reflection argument builder, under no errors
	for _, ci := range callsIn(a.reflectRes) {
		call, ok := ci.(*ssa.Call)
		if !ok || !c.isResolverInvoke(call) {
			continue
		}
		key := fmt.Sprintf("%s: reflected call receives the checked argument vector", fnName(a.reflectRes))
		var vec ssa.Value
		if ex := explicitArgs(call); len(ex) == 1 {
			vec = ex[0]
		}
		ex, isEx := vec.(*ssa.Extract)
		var bc *ssa.Call
		if isEx && ex.Index == 0 {
			bc, _ = ex.Tuple.(*ssa.Call)
		}
		if bc == nil || bc.Call.StaticCallee() != a.reflArgs {
			r.check("C04.GATE", key, call.Pos(), false, "the reflected call's argument vector is not result 0 of the reflection argument builder (or that builder reports no errors)")
			continue
		}
		r.check("C04.GATE", key, call.Pos(), hasGuard(call.Block(), lenZeroOf(bc, 1)), "the reflected call is not dominated by len(errors)==0 of the builder call that produced its argument vector")
	}
	// (ii) inside the builder: values come from the argument builder's map, and a vector is returned only without errors
	var faCall *ssa.Call
	for _, ci := range callsIn(a.reflArgs) {
		if ci.Common().StaticCallee() == a.formArgs {
			faCall, _ = ci.(*ssa.Call)
		}
	}
	if faCall == nil {
		r.check("C04.GATE", fnName(a.reflArgs)+": uses the argument builder", a.reflArgs.Pos(), false, "the reflection argument builder does not call the argument builder: coercion, required-argument and undeclared-argument checks are bypassed for reflected methods")
	} else {
		okRet := true
		for _, rt := range returnsOf(a.reflArgs) {
			if len(rt.Results) < 1 || isNilConst(rt.Results[0]) {
				continue
			}
			if !hasGuard(rt.Block(), lenZeroOf(faCall, 1)) {
				okRet = false
			}
		}
		r.check("C04.GATE", fnName(a.reflArgs)+": returns an argument vector only when the argument builder reported no error", faCall.Pos(), okRet, "a vector is returned on a path where the argument builder's errors may be non-empty")
	}
	k := 0
	for _, ci := range callsIn(a.reflArgs) {
		if !isFuncCall(ci, "reflect", "ValueOf") {
			continue
		}
		call := ci.(*ssa.Call)
		src := stripIface(call.Call.Args[0])
		if _, isP := src.(*ssa.Parameter); isP {
			continue // the receiver object
		}
		k++
		ok := false
		if lk, isL := src.(*ssa.Lookup); isL {
			if ex, isE := lk.X.(*ssa.Extract); isE && ex.Index == 0 {
				if fc, isC := ex.Tuple.(*ssa.Call); isC && fc.Call.StaticCallee() == a.formArgs {
					ok = true
				}
			}
		}
		r.check("C04.GATE", fmt.Sprintf("%s: reflected argument #%d comes from the checked argument map", fnName(a.reflArgs), k), call.Pos(), ok,
			"a reflected method receives "+shortPath(vpath(src))+" - the raw request literal or variable - not the value coerced and checked by the argument builder: omitted, null or mistyped arguments reach reflect.Value.Call")
	}
	r.floor("C04.GATE", "values passed to reflect.ValueOf in the reflection argument builder", k, 1)
}

// paramFedBy: every caller passes result 0 of `producer` for parameter p of fn.
func (c *Ctx) paramFedBy(fn *ssa.Function, p *ssa.Parameter, producer *ssa.Function) bool {
	idx := -1
	for i, fp := range fn.Params {
		if fp == p {
			idx = i
		}
	}
	node := c.cg.Nodes[fn]
	if idx < 0 || node == nil || len(node.In) == 0 {
		return false
	}
	for _, e := range node.In {
		if e.Site == nil || idx >= len(e.Site.Common().Args) {
			return false
		}
		ex, ok := e.Site.Common().Args[idx].(*ssa.Extract)
		if !ok || ex.Index != 0 {
			return false
		}
		call, ok := ex.Tuple.(*ssa.Call)
		if !ok || call.Call.StaticCallee() != producer {
			return false
		}
	}
	return true
}

func isCoerceCall(v ssa.Value, name string) bool {
	ex, ok := v.(*ssa.Extract)
	if !ok || ex.Index != 0 {
		return false
	}
	call, ok := ex.Tuple.(*ssa.Call)
	if !ok {
		return false
	}
	f := calleeObj(call)
	return f != nil && f.Name() == name
}

func c04Arms(c *Ctx, r *Report, a *Anchors) {
	fn := a.subst
	var atP, vP *ssa.Parameter
	for _, p := range fn.Params {
		if c.isNamed(p.Type(), "Type") {
			atP = p
		}
	}
	for _, p := range fn.Params {
		if it, ok := p.Type().Underlying().(*types.Interface); ok && it.NumMethods() == 0 {
			vP = p
		}
	}
	if atP == nil || vP == nil {
		r.undecided("C04.ARMS", fnName(fn)+": parameters (value, declared type)", fn.Pos(), "not recognised")
		return
	}
	n := 0
	seen := map[string]int{}
	for _, rt := range returnsOf(fn) {
		leaves, _ := phiLeaves(rt.Results[0])
		for _, lf := range leaves {
			blk := rt.Block()
			var gs []guard
			if lf.pred != nil {
				gs = edgeGuards(lf.pred, lf.phi.Block())
				blk = lf.pred
			} else {
				gs = blockGuards(blk)
			}
			if infeasibleGuards(gs) {
				continue // `x.(I)` failing for an x made from a type that implements I: no such path
			}
			arm := "default"
			for _, g := range gs {
				if f, ok := assertFactOf(g); ok && f.holds && sameVal(stripIface(f.x), vP) {
					arm = typeStr(f.t)
				}
			}
			_ = blk
			n++
			coerced := isCoerceCall(lf.val, "CoerceIn")
			desc := "raw " + shortPath(vpath(lf.val))
			if coerced {
				desc = "CoerceIn result"
			}
			seen[arm+"|"+desc]++
			key := fmt.Sprintf("%s: arm %s returns %s", fnName(fn), arm, desc)
			if seen[arm+"|"+desc] > 1 {
				key += fmt.Sprintf(" #%d", seen[arm+"|"+desc])
			}
			if coerced {
				// ... by the coercer of the declared type, not of a type found by looking through its list wrappers
				why := ""
				if ex, ok := lf.val.(*ssa.Extract); ok {
					if call, ok := ex.Tuple.(*ssa.Call); ok {
						why = c.enumThroughLists(callRecv(call), 0)
					}
				}
				r.check("C04.ARMS", key, valPos(lf.val), why == "", "the value is coerced by a type that was reached from the declared type by looking through list wrappers ("+why+"): for an argument declared [In] an object literal is coerced as In and reaches the resolver as a map, which was promised a list")
				continue
			}
			noType := false
			listStripped := ""
			// an error is appended on this very path (the value is then discarded by the gate)
			if lf.pred != nil {
				for _, in := range lf.pred.Instrs {
					if call, ok := in.(*ssa.Call); ok && isBuiltinCall(call, "append") && isErrSlice(call.Type()) {
						noType = true
					}
				}
			}
			for _, g := range gs {
				// a symbol that passed the membership test of the declared enum is what Enum.CoerceIn returns
				ng := normGuard(g)
				if ex, ok := ng.cond.(*ssa.Extract); ok && ex.Index == 1 && ng.val {
					if lk, ok := ex.Tuple.(*ssa.Lookup); ok && lk.CommaOk {
						if base, o, f, ok := loadOfField(lk.X); ok && o == "enumValueList" && f == "dict" {
							// ... of the declared type itself: an enum reached by looking through list
							// wrappers is the element type of a list, and a symbol is not a list
							if why := c.enumThroughLists(base, 0); why != "" {
								listStripped = why
							} else {
								noType = true
							}
						}
					}
				}
			}
			for _, g := range gs {
				// a list literal under a declared plain list type: its elements were coerced one by one
				// with the element type, the container itself is what List.CoerceIn returns
				ng := normGuard(g)
				if v, eq, ok := nilCmp(ng.cond); ok && eq != ng.val {
					ls, _ := phiLeaves(v)
					for _, l := range ls {
						if _, o, f, ok := loadOfField(l.val); ok && o == "List" && f == "Base" {
							noType = true
						}
					}
				}
			}
			for _, g := range gs {
				if guardSaysNil(g, atP) {
					noType = true
				}
				if f, ok := assertFactOf(g); ok && !f.holds && stripIface(f.x) == ssa.Value(atP) && derefNamed(f.t) == "InCoercer" {
					noType = true
				}
			}
			if listStripped != "" && !noType {
				r.check("C04.ARMS", key, firstPos(valPos(lf.val), rt.Pos()), false,
					"the symbol is checked against an enum that was reached by looking through list wrappers ("+listStripped+"): for an argument declared [Color] the bare symbol RED passes the membership test and reaches the resolver, which was promised a list")
				continue
			}
			r.check("C04.ARMS", key, firstPos(valPos(lf.val), rt.Pos()), noType,
				"the value is handed on uncoerced although a declared type exists on this path: a literal of the wrong shape for the declared type (object for a scalar, list for a non-list, enum symbol for a non-enum) reaches the resolver unaltered and without an error")
		}
	}
	r.floor("C04.ARMS", "values reaching the return of the argument substitution", n, 5)
}

// varBinder finds the function that builds the operation's variable map (a map made there and
// filled under VarDef.Name keys): the entry point itself, or an in-package helper it calls directly.
// For a helper the call is returned too.
func varBinder(c *Ctx, entry *ssa.Function) (*ssa.Function, *ssa.Call) {
	builds := func(fn *ssa.Function) bool {
		for _, b := range fn.Blocks {
			for _, in := range b.Instrs {
				if mu, ok := in.(*ssa.MapUpdate); ok && isStrIfaceMap(mu.Map.Type()) {
					if _, isMM := madeMaps(mu.Map); isMM {
						if _, o, f, ok := loadOfField(mu.Key); ok && o == "VarDef" && f == "Name" {
							return true
						}
					}
				}
			}
		}
		return false
	}
	if builds(entry) {
		return entry, nil
	}
	for _, ci := range callsIn(entry) {
		call, ok := ci.(*ssa.Call)
		if !ok {
			continue
		}
		if cal := call.Call.StaticCallee(); cal != nil && c.inPkg(cal) && len(cal.Blocks) > 0 && builds(cal) {
			return cal, call
		}
	}
	return entry, nil
}

// madeMaps: v is a map made in this function, or nil on the paths where it was not needed
// (`var m map[..]..; if 0 < len(x) { m = make(..) }`): the MakeMap instructions behind it.
func madeMaps(v ssa.Value) ([]*ssa.MakeMap, bool) {
	leaves, _ := phiLeaves(v)
	var out []*ssa.MakeMap
	for _, lf := range leaves {
		switch t := lf.val.(type) {
		case *ssa.MakeMap:
			out = append(out, t)
		case *ssa.Const:
			if t.Value != nil {
				return nil, false
			}
		default:
			return nil, false
		}
	}
	return out, len(out) > 0
}

// mapUpdatesOf: the MapUpdate instructions that write the made map, directly or through the phis that
// merge it with nil.
func mapUpdatesOf(mm *ssa.MakeMap) []*ssa.MapUpdate {
	var out []*ssa.MapUpdate
	seen := map[ssa.Value]bool{}
	var walk func(v ssa.Value)
	walk = func(v ssa.Value) {
		if seen[v] || v.Referrers() == nil {
			return
		}
		seen[v] = true
		for _, ref := range *v.Referrers() {
			switch t := ref.(type) {
			case *ssa.MapUpdate:
				if t.Map == v {
					out = append(out, t)
				}
			case *ssa.Phi:
				walk(t)
			}
		}
	}
	walk(mm)
	return out
}

func c04Vars(c *Ctx, r *Report, a *Anchors) {
	fn, via := varBinder(c, a.entry)
	r.fnSeen(fnName(fn))
	if via != nil {
		// the helper's error stops the request before any resolver runs
		reach := c.resolverReaching()
		errv := extractOf(via, via.Call.Signature().Results().Len()-1)
		k := 0
		for _, ci := range callsIn(a.entry) {
			cal := ci.Common().StaticCallee()
			if cal == nil || !reach[cal] {
				continue
			}
			k++
			ok := errv != nil && hasGuard(ci.Block(), func(g guard) bool {
				v, eq, isN := nilCmp(g.cond)
				if !isN || eq != g.val {
					return false
				}
				ls, _ := phiLeaves(v)
				for _, l := range ls {
					if l.val == errv {
						return true
					}
				}
				return v == errv
			})
			r.check("C04.VARS", fmt.Sprintf("%s: resolver-reaching call #%d only after the variable binder reported no error", fnName(a.entry), k), ci.Pos(), ok, "a variable that cannot be coerced must stop the request before any resolver runs")
		}
	}
	var rawVars *ssa.Parameter
	for _, p := range fn.Params {
		if isStrIfaceMap(p.Type()) {
			rawVars = p
		}
	}
	n := 0
	for _, b := range fn.Blocks {
		for _, in := range b.Instrs {
			mu, ok := in.(*ssa.MapUpdate)
			if !ok || !isStrIfaceMap(mu.Map.Type()) {
				continue
			}
			if _, isMM := madeMaps(mu.Map); !isMM {
				continue
			}
			// key must be a VarDef name
			if _, o, f, ok := loadOfField(mu.Key); !ok || o != "VarDef" || f != "Name" {
				continue
			}
			leaves, _ := phiLeaves(mu.Value)
			for _, lf := range leaves {
				n++
				if _, o, f, ok := loadOfField(lf.val); ok && o == "VarDef" && f == "Default" {
					r.check("C04.VARS", fnName(fn)+": variable default stored", mu.Pos(), true, "")
					continue
				}
				if isCoerceCall(lf.val, "CoerceIn") {
					// the coercer must come from the variable's declared type, and the store be under err == nil
					call := lf.val.(*ssa.Extract).Tuple.(*ssa.Call)
					fromType := false
					if ex, ok := call.Call.Value.(*ssa.Extract); ok {
						if ta, ok := ex.Tuple.(*ssa.TypeAssert); ok {
							if _, o, f, ok := loadOfField(ta.X); ok && o == "VarDef" && f == "Type" {
								fromType = true
							}
						}
					}
					errv := extractOf(call, 1)
					errNil := func(g guard) bool {
						v, eq, ok := nilCmp(g.cond)
						if !ok || eq != g.val {
							return false
						}
						ls, _ := phiLeaves(v)
						for _, l := range ls {
							if l.val == errv {
								return true
							}
						}
						return false
					}
					underNil := errv != nil && hasGuard(b, errNil)
					if !underNil && errv != nil && lf.pred != nil {
						// the coerced value joins the raw one before the store ("provided = coerced" on one side): the test
						// holds on the edge the coerced value arrives by
						for _, g := range edgeGuards(lf.pred, lf.phi.Block()) {
							if errNil(g) {
								underNil = true
							}
						}
					}
					r.check("C04.VARS", fnName(fn)+": supplied variable stored as CoerceIn result of its declared type, under err == nil", mu.Pos(), fromType && underNil, "a caller-supplied variable value must be coerced by the variable's declared type and a coercion error must return before any resolver runs")
					continue
				}
				// raw value: only where the declared type is no InCoercer
				raw := false
				if lk, ok := lf.val.(*ssa.Lookup); ok && lk.X == rawVars {
					raw = true
				}
				noCoercer := false
				if lf.pred != nil {
					for _, g := range edgeGuards(lf.pred, lf.phi.Block()) {
						if f, ok := assertFactOf(g); ok && !f.holds && derefNamed(f.t) == "InCoercer" {
							noCoercer = true
						}
					}
				}
				r.check("C04.VARS", fnName(fn)+": raw supplied variable stored only when its type has no coercer", mu.Pos(), raw && noCoercer, "the caller's raw value reaches the operation's variable map on a path where the declared type could have coerced it")
			}
		}
	}
	r.floor("C04.VARS", "values stored into the operation's variable map", n, 3)
}

func c04Narrow(c *Ctx, r *Report, rule, method string, floorN int) {
	fns := coercerFuncs(c, method)
	for _, f := range fns {
		r.fnSeen(fnName(f))
	}
	sites := narrowingSites(c, fns)
	ord := map[string]int{}
	for _, s := range sites {
		base := fmt.Sprintf("%s|%s|%s", fnName(s.fn), typeStr(s.conv.X.Type()), typeStr(s.conv.Type()))
		ord[base]++
		r.check(rule, convKey(s, ord[base]), s.conv.Pos(), s.guarded, map[bool]string{true: s.how, false: "narrowing conversion without a range guard: out-of-range input wraps around / overflows to Inf silently"}[s.guarded])
	}
	r.floor(rule, "narrowing conversions in "+method+" bodies and helpers", len(sites), floorN)
	r.floor(rule, method+" bodies and helpers analysed", len(fns), 10)
}

func c04Input(c *Ctx, r *Report) {
	fn := c.fn("(*Input).CoerceIn")
	if fn == nil {
		r.undecided("C04.INPUT", "anchor (*Input).CoerceIn", token.NoPos, "not found")
		return
	}
	r.fnSeen(fnName(fn))
	var keyLoop, fieldLoop *ssa.Range
	for _, b := range fn.Blocks {
		for _, in := range b.Instrs {
			rg, ok := in.(*ssa.Range)
			if !ok {
				continue
			}
			if _, o, f, ok := loadOfField(rg.X); ok && o == "inputFieldList" && f == "dict" {
				fieldLoop = rg
			} else if isStrIfaceMap(rg.X.Type()) {
				keyLoop = rg
			}
		}
	}
	if keyLoop == nil || fieldLoop == nil {
		r.check("C04.INPUT", fnName(fn)+": has a loop over the supplied keys and a loop over the declared fields", fn.Pos(), false, fmt.Sprintf("key loop found=%v, declared-field loop found=%v", keyLoop != nil, fieldLoop != nil))
		return
	}
	r.check("C04.INPUT", fnName(fn)+": has a loop over the supplied keys and a loop over the declared fields", fn.Pos(), true, "")
	// error returns
	type eret struct {
		rt *ssa.Return
	}
	undeclared, missingReq := false, false
	var pU, pM token.Pos
	for _, rt := range returnsOf(fn) {
		if len(rt.Results) != 2 || isNilConst(rt.Results[1]) {
			continue
		}
		for _, g := range blockGuards(rt.Block()) {
			g = normGuard(g)
			if v, eq, ok := nilCmp(g.cond); ok && eq == g.val {
				if cl, ok := v.(*ssa.Call); ok && c.isNamed(cl.Type(), "InputField") {
					undeclared = true
					pU = rt.Pos()
				}
			}
		}
		// missing required: guards ov == nil, Default == nil, NonNull ok
		var ovNil, defNil, nn bool
		for _, g := range blockGuards(rt.Block()) {
			ng := normGuard(g)
			if v, eq, ok := nilCmp(ng.cond); ok && eq == ng.val {
				if _, isL := v.(*ssa.Lookup); isL {
					ovNil = true
				}
				if _, _, f, ok := loadOfField(v); ok && f == "Default" {
					defNil = true
				}
			}
			if f, ok := assertFactOf(g); ok && f.holds && derefNamed(f.t) == "NonNull" {
				nn = true
			}
		}
		if ovNil && defNil && nn {
			missingReq = true
			pM = rt.Pos()
		}
	}
	r.check("C04.INPUT", fnName(fn)+": a key the input type does not declare is rejected", firstPos(pU, fn.Pos()), undeclared, "no error return under a failed declared-field lookup")
	r.check("C04.INPUT", fnName(fn)+": undeclared-key rejection precedes any use of the object", keyLoop.Pos(), keyLoop.Block().Dominates(fieldLoop.Block()), "the key check must dominate the field loop")
	r.check("C04.INPUT", fnName(fn)+": a missing non-null field without default is rejected", firstPos(pM, fn.Pos()), missingReq, "no error return guarded by (no value, no default, *NonNull type)")
	// defaults filled, and what is filled in is the default as the field's declared type coerces it
	filled := false
	var pF token.Pos
	type sinkState struct {
		pos  token.Pos
		bad  string
		seen bool
	}
	sinks := map[string]*sinkState{"result map": {}, "registered Go value": {}}
	for _, b := range fn.Blocks {
		for _, in := range b.Instrs {
			var val ssa.Value
			sink := ""
			switch t := in.(type) {
			case *ssa.MapUpdate:
				val, sink = t.Value, "result map"
			case *ssa.Call:
				if cal := t.Call.StaticCallee(); cal != nil && c.inPkg(cal) && len(t.Call.Args) > 0 {
					val, sink = t.Call.Args[len(t.Call.Args)-1], "registered Go value"
				} else if _, isB := t.Call.Value.(*ssa.Builtin); cal == nil && !isB && !t.Call.IsInvoke() && len(t.Call.Args) > 0 {
					// a local function value (the store decided once before the loop: into the map or into the Go value)
					val, sink = t.Call.Args[len(t.Call.Args)-1], "result map"
				}
			}
			if val == nil {
				continue
			}
			absent := hasGuard(b, func(g guard) bool {
				v, eq, ok := nilCmp(g.cond)
				if !ok || eq != g.val {
					return false
				}
				_, isL := v.(*ssa.Lookup)
				return isL
			})
			if !absent {
				continue
			}
			leaves, _ := phiLeaves(val)
			fromDefault := false
			bad := ""
			for _, lf := range leaves {
				if _, _, f, ok := loadOfField(lf.val); ok && f == "Default" {
					fromDefault = true
					// raw: only where the field's type is no InCoercer
					var gs []guard
					if lf.pred != nil {
						gs = edgeGuards(lf.pred, lf.phi.Block())
					} else {
						gs = blockGuards(b)
					}
					noCoercer := false
					for _, g := range gs {
						if f, ok := assertFactOf(g); ok && !f.holds && derefNamed(f.t) == "InCoercer" {
							noCoercer = true
						}
						if v, eq, ok := nilCmp(normGuard(g).cond); ok && eq == normGuard(g).val {
							if ex, ok := v.(*ssa.Extract); ok {
								if ta, ok := ex.Tuple.(*ssa.TypeAssert); ok && derefNamed(ta.AssertedType) == "InCoercer" {
									noCoercer = true
								}
							} else if ta, ok := v.(*ssa.TypeAssert); ok && derefNamed(ta.AssertedType) == "InCoercer" {
								noCoercer = true
							}
						}
					}
					if !noCoercer {
						bad = "the default is stored as it was parsed from the SDL although the field's type is an InCoercer on this path"
					}
					continue
				}
				if ex, ok := lf.val.(*ssa.Extract); ok && ex.Index == 0 {
					if call, ok := ex.Tuple.(*ssa.Call); ok {
						if f := calleeObj(call); f != nil && f.Name() == "CoerceIn" && call.Call.IsInvoke() && len(call.Call.Args) == 1 {
							if _, _, df, ok := loadOfField(call.Call.Args[0]); ok && df == "Default" {
								fromDefault = true
								recvOK := false
								rv := call.Call.Value
								if e2, ok := rv.(*ssa.Extract); ok {
									rv = e2.Tuple
								}
								if ta, ok := rv.(*ssa.TypeAssert); ok {
									if _, _, tf, ok := loadOfField(ta.X); ok && tf == "Type" {
										recvOK = true
									}
								}
								if !recvOK {
									bad = "the default is coerced by something other than the declared type of the field"
								}
							}
						}
					}
				}
			}
			if !fromDefault {
				continue
			}
			filled = true
			pF = in.Pos()
			st := sinks[sink]
			st.seen = true
			if st.pos == token.NoPos {
				st.pos = in.Pos()
			}
			if bad != "" {
				st.bad = bad
				st.pos = in.Pos()
			}
		}
	}
	r.check("C04.INPUT", fnName(fn)+": field defaults are filled in for absent fields", firstPos(pF, fn.Pos()), filled, "no store of f.Default under ov == nil")
	for _, sink := range []string{"result map", "registered Go value"} {
		st := sinks[sink]
		if !st.seen {
			continue
		}
		r.check("C04.INPUT", fnName(fn)+": the default filled into the "+sink+" is the default as coerced by the field's declared type", st.pos, st.bad == "",
			st.bad+": for 'f: Float = 1' the resolver receives int64(1), for an enum default a Symbol, for a nested input object a map without its own defaults, and for a default that does not fit the type whatever was written")
	}
	// every supplied field value goes through the field type's CoerceIn
	coerces := false
	for _, ci := range callsIn(fn) {
		if f := calleeObj(ci); f != nil && f.Name() == "CoerceIn" && ci.Common().IsInvoke() {
			if ex, ok := ci.Common().Value.(*ssa.Extract); ok {
				if ta, ok := ex.Tuple.(*ssa.TypeAssert); ok {
					if _, _, f, ok := loadOfField(ta.X); ok && f == "Type" {
						coerces = true
					}
				}
			}
		}
	}
	r.check("C04.INPUT", fnName(fn)+": supplied field values are coerced by the field's declared type", fn.Pos(), coerces, "no CoerceIn invocation on the InCoercer of f.Type")
}

// c04Source: what the argument builder hands to a resolver under an argument name is the result of the
// substitution-and-coercion function applied during this very evaluation (together with its errors). A
// value remembered from an earlier evaluation arrives without the errors that evaluation reported, so a
// rejected constant reaches the resolver from the second evaluation on.
func c04Source(c *Ctx, r *Report, a *Anchors) {
	r.rule("C04.SOURCE", "every value stored into the argument map by the argument builder is result #0 of a call of the substitution function made in the same invocation")
	fn := a.formArgs
	if fn == nil || a.subst == nil {
		r.undecided("C04.SOURCE", "anchors: argument builder / substitution", 0, "not found")
		return
	}
	n := 0
	for _, b := range fn.Blocks {
		for _, in := range b.Instrs {
			mu, ok := in.(*ssa.MapUpdate)
			if !ok || !isStrIfaceMap(mu.Map.Type()) {
				continue
			}
			// the key is an argument name taken from the request
			if _, o, f, ok := loadOfField(mu.Key); !ok || o != "ArgValue" || f != "Arg" {
				continue
			}
			n++
			leaves, _ := phiLeaves(mu.Value)
			bad := ""
			for _, lf := range leaves {
				ex, ok := lf.val.(*ssa.Extract)
				if ok && ex.Index == 0 {
					if call, ok := ex.Tuple.(*ssa.Call); ok && call.Call.StaticCallee() == a.subst {
						continue
					}
				}
				bad = shortPath(vpath(lf.val))
			}
			r.check("C04.SOURCE", fmt.Sprintf("%s: argument store #%d takes the substitution's result of this evaluation", fnName(fn), n), mu.Pos(), bad == "",
				"the stored value may be "+bad+", which is not the result of coercing the argument now: the errors found when it was first coerced are not reported again, so the resolver is invoked with a value that was rejected")
		}
	}
	r.floor("C04.SOURCE", "argument stores in the argument builder", n, 1)
}

// c04Base: an integer written as text denotes its decimal value. Every strconv.ParseInt / ParseUint in the
// coercers of the given direction is called with the constant base 10 (base 0 lets a leading zero select
// octal: "010" would arrive as 8).
func c04Base(c *Ctx, r *Report, rule, method string) {
	n := 0
	for _, fn := range coercerFuncs(c, method) {
		k := 0
		for _, ci := range callsIn(fn) {
			f := calleeObj(ci)
			if f == nil || f.Pkg() == nil || f.Pkg().Path() != "strconv" || (f.Name() != "ParseInt" && f.Name() != "ParseUint") {
				continue
			}
			args := ci.Common().Args
			if len(args) < 2 {
				continue
			}
			n++
			k++
			base, isC := args[1].(*ssa.Const)
			ok := isC && base.Value != nil && base.Int64() == 10
			r.check(rule, fmt.Sprintf("%s: integer text #%d is read as decimal", fnName(fn), k), ci.Pos(), ok,
				"the base handed to "+f.Name()+" is not the constant 10: with base 0 a zero-padded decimal string is read as octal (\"010\" -> 8) and \"08\" is refused - the value is altered without an error")
		}
	}
	r.floor(rule, "integer parses in "+method+" bodies and helpers", n, 1)
}

// enumThroughLists: the value (an address or pointer leading to an Enum node) was obtained from the declared
// type by a step that looks through list wrappers - a call of a package function that reads List.Base, or a
// load of List.Base itself. "" when no such step is found.
func (c *Ctx) enumThroughLists(v ssa.Value, depth int) string {
	if depth > 12 || v == nil {
		return ""
	}
	switch t := v.(type) {
	case *ssa.FieldAddr:
		return c.enumThroughLists(t.X, depth+1)
	case *ssa.UnOp:
		if _, o, f, ok := loadOfField(t); ok && o == "List" && f == "Base" {
			return "a load of List.Base"
		}
		return c.enumThroughLists(t.X, depth+1)
	case *ssa.Extract:
		return c.enumThroughLists(t.Tuple, depth+1)
	case *ssa.TypeAssert:
		return c.enumThroughLists(t.X, depth+1)
	case *ssa.ChangeInterface:
		return c.enumThroughLists(t.X, depth+1)
	case *ssa.MakeInterface:
		return c.enumThroughLists(t.X, depth+1)
	case *ssa.Phi:
		for _, e := range t.Edges {
			if w := c.enumThroughLists(e, depth+1); w != "" {
				return w
			}
		}
	case *ssa.Call:
		cal := t.Call.StaticCallee()
		if cal == nil || !c.inPkg(cal) {
			return ""
		}
		for _, b := range cal.Blocks {
			for _, in := range b.Instrs {
				if u, ok := in.(*ssa.UnOp); ok {
					if _, o, f, ok := loadOfField(u); ok && o == "List" && f == "Base" {
						return "through " + cal.Name() + ", which reads List.Base"
					}
				}
			}
		}
	}
	return ""
}
