package main

import (
	"fmt"
	"go/token"
	"sort"
	"strings"

	"golang.org/x/tools/go/ssa"
)

func init() {
	register("C12", checkC12,
		"Ownership, lockset and lock-order analysis of everything reachable from the request-time entry points (ResolveExecutable, ResolveReader/String/Bytes, ParseExecutable*, AddEvent, Unsubscribe): (SHARED) every request-time write to a field of a schema type (Root, Object, FieldDef, Arg, Input, ..., the five list containers) or to an element of a container held by one lands in an object allocated by that request, or in a guarded field (Object.meta under Object.mu; FieldDef.goField / FieldDef.method under FieldDef.mu; Root.subscriptions under Root.subLock) with its guard held on the same object - also across calls (callee writes, caller holds); (READ) every request-time read of a guarded field holds the guard on the same object; (PAIR) every Lock is followed by Unlock of the same mutex on all paths to return (defer counts); (ORDER) the interprocedural lock-order graph over {subLock, FieldDef.mu, Object.mu} is acyclic and no mutex class is re-acquired while held; writes that can only happen while the Root is still uninitialised (inside NewRoot) and writes whose callee precondition (non-empty variadic argument) is refuted at every request-time call site are shown unreachable and exempt.",
		"That concurrent responses equal sequential ones (values); deadlock freedom when an application callback re-enters Root (assumption); races inside application resolvers and on data the application shares between requests; sharing one parsed Executable between goroutines (the request AST is private to the request that parsed it).")
}

func requestEntries(c *Ctx) []*ssa.Function {
	var out []*ssa.Function
	for _, n := range []string{"(*Root).ResolveExecutable", "(*Root).ResolveReader", "(*Root).ResolveString", "(*Root).ResolveBytes",
		"(*Root).ParseExecutableReader", "(*Root).ParseExecutableString", "(*Root).ParseExecutable", "(*Root).AddEvent", "(*Root).Unsubscribe"} {
		if f := c.fn(n); f != nil {
			out = append(out, f)
		}
	}
	return out
}

func isSchemaWrite(ef effect) bool {
	if schemaTypes[ef.owner] {
		return true
	}
	if ef.owner == "" {
		o := ownerOfSel(ef.elemOf)
		if schemaTypes[o] {
			return true
		}
	}
	return false
}

func checkC12(c *Ctx, r *Report) {
	r.rule("C12.SHARED", "request-time write to schema-typed state: fresh in the request, or guarded field with guard held on the same object; nothing else")
	r.rule("C12.READ", "request-time read of a guarded field holds the guard on the same object")
	r.rule("C12.PAIR", "Lock/Unlock pairing on all paths (may-held set empty at every return, deferred unlocks counted)")
	r.rule("C12.ORDER", "lock-order graph acyclic, no class re-acquired while held")
	entries := requestEntries(c)
	if len(entries) < 9 {
		r.undecided("C12.SHARED", "anchors: request-time entry points", token.NoPos, fmt.Sprintf("only %d of 9 public entry points found", len(entries)))
		return
	}
	if a := c.anchors(); len(a.missing) == 0 {
		cacheVerdictRule(c, r, a, "C12.CACHE", "a request's response then depends on which Go type another request made the cache see first: it is no longer the response the request gets when run alone")
	}
	appDataRule(c, r, "C12.APPDATA", "two requests that were handed the same variable map (or resolve the same data) race on it, and one request's coerced values or filled-in defaults show up in the other")
	eng := newEffEngine(c)
	eng.run(entries...)
	r.Tables["guard_table"] = map[string]string{
		"Object.meta":        "Object.mu (always locked: written by assureType on every reflective resolve)",
		"FieldDef.goField":   "FieldDef.mu (write-once published: written in a critical section while still unset)",
		"FieldDef.method":    "FieldDef.mu (write-once published)",
		"Root.subscriptions": "Root.subLock (always locked)",
	}
	type agg struct {
		ef    effect
		paths map[string]bool
		from  map[string]bool
	}
	wr := map[string]*agg{}
	rd := map[string]*agg{}
	nW, nR := 0, 0
	for _, en := range entries {
		s := eng.sums[en]
		if s == nil {
			continue
		}
		for _, ef := range s.effects {
			switch {
			case writeKinds[ef.kind] && isSchemaWrite(ef):
				if ef.initOnly {
					continue
				}
				nW++
				k := fmt.Sprintf("%s: %s", fnName(ef.fn), ef.descr())
				a := wr[k]
				if a == nil {
					a = &agg{ef: ef, paths: map[string]bool{}, from: map[string]bool{}}
					wr[k] = a
				}
				// keep the worst instance
				if !okWrite(eng, ef) && okWrite(eng, a.ef) {
					a.ef = ef
				}
				a.paths[ef.target.String()] = true
				a.from[fnName(en)] = true
			case ef.kind == "read":
				if ef.initOnly {
					continue
				}
				nR++
				k := fmt.Sprintf("%s: read %s.%s", fnName(ef.fn), ef.owner, ef.field)
				a := rd[k]
				if a == nil {
					a = &agg{ef: ef, paths: map[string]bool{}, from: map[string]bool{}}
					rd[k] = a
				}
				if !ef.guarded && a.ef.guarded {
					a.ef = ef
				}
				a.from[fnName(en)] = true
			}
		}
	}
	for _, k := range sortedKeys(wr) {
		a := wr[k]
		ok := okWrite(eng, a.ef)
		why := "guarded field written with its guard held on the same object"
		if !ok {
			if _, g := eng.guardTab[a.ef.owner+"."+a.ef.field]; g {
				why = "the guard mutex of this object is not held at the write (neither here nor at any caller in the chain)"
			} else {
				why = "request-time write to schema state that no mutex protects: concurrent requests race on it and can observe each other's effect"
			}
		}
		r.add("C12.SHARED", k, a.ef.pos, map[bool]Status{true: Discharged, false: Violated}[ok], why,
			"locations: "+strings.Join(firstN(sortedKeys2(a.paths), 3), " ; "), "via: "+strings.Join(a.ef.chain, " -> "), "entry points: "+strings.Join(sortedKeys2(a.from), ", "))
	}
	for _, k := range sortedKeys(rd) {
		a := rd[k]
		r.add("C12.READ", k, a.ef.pos, map[bool]Status{true: Discharged, false: Violated}[a.ef.guarded],
			"a guarded field is read without its guard held on the same object: the read races with the guarded writer", "via: "+strings.Join(a.ef.chain, " -> "), "entry points: "+strings.Join(sortedKeys2(a.from), ", "))
	}
	r.floor("C12.SHARED", "request-time writes to schema-typed state examined", nW, 4)
	r.floor("C12.READ", "request-time reads of guarded fields examined", nR, 6)
	var fns []string
	for f := range eng.sums {
		fns = append(fns, fnName(f))
	}
	r.fnSeen(fns...)
	lockRules(c, r, eng, "C12", eng.sums, 6, 2)
	if a := c.anchors(); len(a.missing) == 0 {
		c12Handout(c, r, eng, a)
	}
}

func okWrite(eng *effEngine, ef effect) bool {
	if _, g := eng.guardTab[ef.owner+"."+ef.field]; g {
		return ef.guarded
	}
	// elements of Root.subscriptions' backing array: guarded when subLock is held
	if ef.owner == "" && ef.elemOf == "Root.subscriptions" {
		for _, h := range ef.held {
			if h == "Root.subLock" {
				return true
			}
		}
	}
	return false
}

func sortedKeys[T any](m map[string]T) []string {
	var o []string
	for k := range m {
		o = append(o, k)
	}
	sort.Strings(o)
	return o
}

func sortedKeys2(m map[string]bool) []string { return sortedKeys(m) }

func firstN(s []string, n int) []string {
	if len(s) > n {
		return s[:n]
	}
	return s
}

// lockRules: PAIR and ORDER over the summarised functions.
func lockRules(c *Ctx, r *Report, eng *effEngine, prop string, sums map[*ssa.Function]*summary, floorLocks, floorEdges int) {
	nLocks := 0
	var fns []*ssa.Function
	for f := range sums {
		fns = append(fns, f)
	}
	sort.Slice(fns, func(i, j int) bool { return fnName(fns[i]) < fnName(fns[j]) })
	for _, f := range fns {
		st := eng.local(f)
		if len(st.lockSites) == 0 {
			continue
		}
		ord := map[string]int{}
		for _, ls := range st.lockSites {
			if !ls.lock {
				continue
			}
			nLocks++
			ord[ls.ref.class]++
			id := lockID(ls.ref)
			leak := ""
			for rt, may := range st.mayAtRet {
				if _, held := may[id]; held && !st.deferred[id] {
					leak = c.pos(rt.Pos())
				}
			}
			r.check(prop+".PAIR", fmt.Sprintf("%s: Lock of %s #%d is released on every path", fnName(f), ls.ref.class, ord[ls.ref.class]), ls.call.Pos(), leak == "",
				"the mutex may still be held at the return at "+leak+": every later request blocks forever")
			// double acquisition of the same mutex
			if held := st.heldAt[ls.call.(ssa.Instruction)]; held != nil {
				if _, again := held[id]; again {
					r.flag(prop+".ORDER", fmt.Sprintf("%s: %s is not re-acquired while held", fnName(f), ls.ref.class), ls.call.Pos(), "sync.Mutex is not reentrant: self-deadlock")
				}
			}
		}
	}
	r.floor(prop+".PAIR", "Lock call sites", nLocks, floorLocks)
	// order graph: union of all edges
	edges := map[string]lockEdge{}
	for _, s := range sums {
		for k, e := range s.edges {
			edges[k] = e
		}
	}
	adj := map[string][]string{}
	var tbl []string
	for _, k := range sortedKeys(edges) {
		e := edges[k]
		adj[e.from] = append(adj[e.from], e.to)
		tbl = append(tbl, fmt.Sprintf("%s -> %s (%s in %s)", e.from, e.to, c.pos(e.pos), fnName(e.fn)))
	}
	r.Tables["lock_order_edges"] = tbl
	for _, k := range sortedKeys(edges) {
		e := edges[k]
		if e.from == e.to {
			r.flag(prop+".ORDER", fmt.Sprintf("lock order: %s acquired while %s is held", e.to, e.from), e.pos, "a mutex of the same class is acquired while one is held: two goroutines taking two objects in opposite orders deadlock")
			continue
		}
		// cycle through this edge?
		cyc := reachesClass(adj, e.to, e.from, map[string]bool{})
		r.check(prop+".ORDER", fmt.Sprintf("lock order: %s acquired while %s is held", e.to, e.from), e.pos, !cyc, "this acquisition closes a cycle in the lock-order graph")
	}
	r.floor(prop+".ORDER", "nested acquisitions (lock-order edges)", len(edges), floorEdges)
}

func reachesClass(adj map[string][]string, from, to string, seen map[string]bool) bool {
	if from == to {
		return true
	}
	if seen[from] {
		return false
	}
	seen[from] = true
	for _, n := range adj[from] {
		if reachesClass(adj, n, to, seen) {
			return true
		}
	}
	return false
}

// c12Handout: what the library hands to application code belongs to that call: the argument map given to a
// resolver is allocated for the invocation (a map made in the call chain of this field evaluation, or nil). A
// map taken from storage that outlives the call (a pool, a cache on a schema node, a package variable) is
// still referenced by the application when the next request refills it: a resolver that keeps its arguments
// (a subscription, a lazily resolved result object) then computes from another request's values.
func c12Handout(c *Ctx, r *Report, eng *effEngine, a *Anchors) {
	r.rule("C12.HANDOUT", "the argument map passed to Resolver.Resolve / AnyResolver.Resolve is request-fresh: every provenance path of the operand is an allocation made during the call (or nil)")
	n := 0
	for _, fn := range []*ssa.Function{a.field, a.reflectRes} {
		if fn == nil {
			continue
		}
		k := 0
		for _, ci := range callsIn(fn) {
			call, ok := ci.(*ssa.Call)
			if !ok || !c.isResolverInvoke(call) {
				continue
			}
			for _, arg := range call.Call.Args {
				if !isStrIfaceMap(arg.Type()) {
					continue
				}
				n++
				k++
				bad := ""
				for _, p := range eng.prov(fn, arg).sorted() {
					if p.kind != rFresh {
						bad = p.String()
					}
				}
				r.check("C12.HANDOUT", fmt.Sprintf("%s: argument map #%d handed to %s is allocated for this invocation", fnName(fn), k, calleeDesc(call)), call.Pos(), bad == "",
					"the map may come from "+bad+": storage that outlives the invocation and is reused by other requests, while the application may still hold the map it was given")
			}
		}
	}
	r.floor("C12.HANDOUT", "argument maps handed to application resolvers", n, 2)
}
