package main

import (
	"fmt"
	"go/token"
	"go/types"
	"sort"
	"strings"

	"golang.org/x/tools/go/ssa"
)

func init() {
	register("C01", checkC01,
		"Structural necessary conditions of selection semantics: (OP) the executed operation is the map entry named by the caller or, only when exactly one operation exists, that one, and no resolver-reaching call is made unless an operation was found; (KEY) response maps are written only by the field resolver and only under field.key(), which is the alias when present and the name otherwise; (LIST) every element loop of the list resolver walks the source in ascending order from 0 by 1 to its length and appends exactly one result element on every path through the body (failed elements included); (SEL/TYPE) the selection walker's kind switch covers every implementer of Selection and the type dispatcher handles every kind IsOutputType admits; (TYPENAME) __typename stores Name() of the container type it was handed.",
		"That leaf values equal the resolver's values, that fragments expand correctly for every document (C08 decides the applicability test), and that nothing is lost for particular data graphs: those need runtime values.")
}

func checkC01(c *Ctx, r *Report) {
	r.rule("C01.OP", "the operation value is exe.Ops[opName] or, control-dependent on len(exe.Ops)==1, the single ranged entry; every resolver-reaching call in the entry point is dominated by a proof that it is non-nil")
	r.rule("C01.KEY", "MapUpdate on a response map (a map that flows to the field resolver's result parameter) occurs only in the field resolver with key = field.key(); key() returns Alias iff len(Alias)>0 else Name")
	r.rule("C01.LIST", "each result-building loop of the list resolver: induction 0..len ascending by 1, element accessed with the induction value, exactly one append to the result list per iteration dominating every back edge")
	r.rule("C01.SEL", "the walker's type switch over Selection has a case for every in-module implementer of Selection")
	r.rule("C01.TYPE", "every type kind named by IsOutputType is either a case of the dispatcher or an OutCoercer handled by its default arm")
	r.rule("C01.TYPENAME", "under field name __typename the stored value is Name() of the Type parameter, under field.key()")
	a := c.anchors()
	if !requireAnchors(r, "C01.OP", a) {
		return
	}
	c01Op(c, r, a)
	c01Key(c, r, a)
	c01List(c, r, a)
	c01Sel(c, r, a)
	c01Typename(c, r, a)
	// excluded selections contribute no response key: the directive evaluator's rules (C09) are part of
	// "exactly the selected data" and are re-stated here under this property
	importRules(c, r, "C09", "C01.SKIP", "the @skip/@include rules of C09 (sticky exclusion, polarity, gate before every dispatch, operation variables), which decide which selections are in the response at all")
	importRules(c, r, "C10", "C01.FDEF", "the field definition used for a resolution is looked up in the container type of that resolution (C10.FIELD): a definition remembered from another container (the first member of a union list) coerces the value with the wrong type", "C10.FIELD")
	importRulesFrom(c, r, "C06", func(c *Ctx, sub *Report) { c06G1(c, sub, a) }, "C01.NESTED", "each element of a list is resolved by the type dispatcher applied to the list's element type (C06.G1): inner lists of [[T]] are mirrored element by element only through the dispatcher", "C06.G1~type dispatcher for the element type")
	c01FragLink(c, r)
	c01FragType(c, r, a)
	r.rule("C01.META", "the Go type recorded for an object type and the type it is compared with are derived from objects in the same way (as C08.METADOM): a union member or interface implementation bound under a different derivation (stripped, re-pointered) is resolved with the wrong method set or not found, so selected fields come back null")
	c08MetaDom(c, r, "C01.META")
	r.rule("C01.NATIVE", "lists held in the Go carriers the library walks itself (frozen table) are mirrored by the library's own element loops on every configuration: no path hands such a value to the root resolver's Len/Nth")
	nativeListRule(c, r, a, "C01.NATIVE", "a root resolver written for its own containers answers Len 0 for it, so the list comes back empty, silently, instead of mirrored element by element")
}

func c01Op(c *Ctx, r *Report, a *Anchors) {
	fn := a.entry
	reach := c.resolverReaching()
	var exeP, nameP *ssa.Parameter
	for _, p := range fn.Params {
		if c.isNamed(p.Type(), "Executable") {
			exeP = p
		}
		if b, ok := p.Type().Underlying().(*types.Basic); ok && b.Kind() == types.String {
			nameP = p
		}
	}
	if exeP == nil || nameP == nil {
		r.undecided("C01.OP", fnName(fn)+": parameters (exe, opName)", fn.Pos(), "entry point signature not recognised")
		return
	}
	isOpsMap := func(v ssa.Value) bool {
		base, _, f, ok := loadOfField(v)
		return ok && f == "Ops" && base == exeP
	}
	// all uses of an *Op value through a field access
	opVals := map[ssa.Value]bool{}
	for _, b := range fn.Blocks {
		for _, in := range b.Instrs {
			if fa, ok := in.(*ssa.FieldAddr); ok && c.isNamed(fa.X.Type(), "Op") {
				opVals[fa.X] = true
			}
		}
	}
	if len(opVals) == 0 {
		r.undecided("C01.OP", fnName(fn)+": operation value", fn.Pos(), "no field access on an *Op value found")
		return
	}
	nLeaves := 0
	for v := range opVals {
		leaves, _ := phiLeaves(v)
		for _, lf := range leaves {
			nLeaves++
			switch t := lf.val.(type) {
			case *ssa.Lookup:
				ok := isOpsMap(t.X) && t.Index == nameP
				r.check("C01.OP", fnName(fn)+": operation source map lookup", t.Pos(), ok, "the operation must be looked up in exe.Ops under the caller's operation name")
			case *ssa.Extract:
				nx, isNext := t.Tuple.(*ssa.Next)
				okSrc := false
				guarded := false
				if isNext {
					if rg, ok := nx.Iter.(*ssa.Range); ok && isOpsMap(rg.X) {
						okSrc = true
						for _, g := range blockGuards(rg.Block()) {
							g = normGuard(g)
							if v, op, k, ok := intCmp(g.cond); ok {
								if x, isLen := isLenOf(v); isLen && isOpsMap(x) {
									if !g.val {
										op = negOp(op)
									}
									if op == token.EQL && k == 1 {
										guarded = true
									}
								}
							}
						}
					}
				}
				r.check("C01.OP", fnName(fn)+": operation source single-operation fallback", valPos(t), okSrc && guarded, "the fallback may take an entry of exe.Ops only when len(exe.Ops) == 1: with several operations and no (or an unknown) name nothing may be executed")
				// ... and only for a caller that named no operation: a name that is not in the document is unknown
				unnamed := false
				if isNext {
					if rg, ok := nx.Iter.(*ssa.Range); ok {
						for _, g := range blockGuards(rg.Block()) {
							g = normGuard(g)
							if v, lit, eq, ok := strConstCmp(g.cond); ok && v == ssa.Value(nameP) && lit == "" && eq == g.val {
								unnamed = true
							}
							if v, op, k, ok := intCmp(g.cond); ok {
								if x, isLen := isLenOf(v); isLen && x == ssa.Value(nameP) {
									if !g.val {
										op = negOp(op)
									}
									if (op == token.EQL && k == 0) || (op == token.LEQ && k == 0) || (op == token.LSS && k == 1) {
										unnamed = true
									}
								}
							}
						}
					}
				}
				r.check("C01.OP", fnName(fn)+": the single-operation fallback is for a request that names no operation", valPos(t), unnamed, "the fallback is taken whatever name the caller gave: `query A {a}` requested with the operation name C executes A, where an unknown name must execute no resolver at all")
			default:
				if isNilConst(lf.val) {
					// "no such operation": fine where every use of the value is behind a nil test of it
					okNil := true
					for _, b := range fn.Blocks {
						for _, in := range b.Instrs {
							if fa, ok := in.(*ssa.FieldAddr); ok && fa.X == v && !provenNonNil(v, b, 0) {
								okNil = false
							}
						}
					}
					nLeaves--
					r.check("C01.OP", fnName(fn)+": a missing operation is not used", valPos(v), okNil, "the operation value can be nil (no operation of that name) where its fields are read")
					continue
				}
				r.flag("C01.OP", fnName(fn)+": operation source "+shortPath(vpath(lf.val)), valPos(lf.val), "the operation value has a source other than exe.Ops[opName] or the single-operation fallback")
			}
		}
	}
	r.floor("C01.OP", "sources of the operation value", nLeaves, 2)
	n := 0
	for _, ci := range callsIn(fn) {
		cal := ci.Common().StaticCallee()
		if cal == nil || !reach[cal] {
			continue
		}
		n++
		ok := false
		for v := range opVals {
			// the op value whose use dominates the call must be proven non-nil there
			if provenNonNil(v, ci.Block(), 0) {
				ok = true
			}
		}
		r.check("C01.OP", fmt.Sprintf("%s: resolver-reaching call #%d to %s is made only with an operation", fnName(fn), n, fnName(cal)), ci.Pos(), ok, "the call is not dominated by a proof that an operation was found: an ambiguous or unknown operation name must execute no resolver")
		// the selections resolved are those of the chosen operation: the *Field handed on is built in this
		// call and its selection list is loaded from the operation value
		for _, arg := range ci.Common().Args {
			if !c.isNamed(arg.Type(), "Field") {
				continue
			}
			okSels, why := true, ""
			leaves, _ := phiLeaves(arg)
			for _, lf := range leaves {
				al, isAlloc := lf.val.(*ssa.Alloc)
				if !isAlloc {
					okSels, why = false, "the field handed to the resolver may be "+shortPath(vpath(lf.val))+", which is not built from the operation chosen in this call"
					continue
				}
				found := false
				for _, b := range fn.Blocks {
					for _, in := range b.Instrs {
						st, isSt := in.(*ssa.Store)
						if !isSt {
							continue
						}
						fa, isFA := st.Addr.(*ssa.FieldAddr)
						if !isFA || rootAlloc(fa) != al {
							continue
						}
						if _, f := fieldOwner(fa.X.Type(), fa.Field); f != "Sels" {
							continue
						}
						if base, _, f2, ok2 := loadOfField(st.Val); ok2 && f2 == "Sels" {
							for d := 0; d < 3; d++ {
								if opVals[base] {
									found = true
								}
								if fa2, isFA2 := base.(*ssa.FieldAddr); isFA2 {
									base = fa2.X
								} else {
									break
								}
							}
						}
					}
				}
				if !found {
					okSels, why = false, "the synthetic root field's selections are not loaded from the chosen operation"
				}
			}
			r.check("C01.OP", fmt.Sprintf("%s: resolver-reaching call #%d resolves the selections of the chosen operation", fnName(fn), n), ci.Pos(), okSels && len(leaves) > 0, why+": a prepared document with several operations would run the selections of another operation than the one named")
		}
	}
	r.floor("C01.OP", "resolver-reaching calls in the entry point", n, 1)
}

// responseMaps computes, per function, the parameters (and local maps) that flow
// into the field resolver's result parameter.
func (c *Ctx) responseMaps(a *Anchors) (params map[*ssa.Parameter]bool, locals map[ssa.Value]bool) {
	params = map[*ssa.Parameter]bool{}
	locals = map[ssa.Value]bool{}
	var resultP *ssa.Parameter
	for _, p := range a.field.Params {
		if isStrIfaceMap(p.Type()) {
			resultP = p // last map parameter: (obj, vars, field, t, result, depth)
		}
	}
	// the result parameter is the one that is MapUpdated in the field resolver
	for _, p := range a.field.Params {
		if !isStrIfaceMap(p.Type()) {
			continue
		}
		for _, ref := range *p.Referrers() {
			if mu, ok := ref.(*ssa.MapUpdate); ok && mu.Map == p {
				resultP = p
			}
		}
	}
	if resultP == nil {
		return
	}
	params[resultP] = true
	changed := true
	for changed {
		changed = false
		for f := range a.reach {
			if !c.inPkg(f) {
				continue
			}
			for _, ci := range callsIn(f) {
				cal := ci.Common().StaticCallee()
				if cal == nil {
					continue
				}
				for i, arg := range ci.Common().Args {
					if i >= len(cal.Params) || !params[cal.Params[i]] {
						continue
					}
					leaves, _ := phiLeaves(arg)
					for _, lf := range leaves {
						switch t := lf.val.(type) {
						case *ssa.Parameter:
							if !params[t] {
								params[t] = true
								changed = true
							}
						case *ssa.MakeMap:
							if !locals[t] {
								locals[t] = true
								changed = true
							}
						}
					}
				}
			}
		}
	}
	return
}

func c01Key(c *Ctx, r *Report, a *Anchors) {
	params, locals := c.responseMaps(a)
	var fieldP *ssa.Parameter
	for _, p := range a.field.Params {
		if c.isNamed(p.Type(), "Field") {
			fieldP = p
		}
	}
	n := 0
	var fns []*ssa.Function
	for f := range a.reach {
		if c.inPkg(f) {
			fns = append(fns, f)
		}
	}
	sort.Slice(fns, func(i, j int) bool { return fnName(fns[i]) < fnName(fns[j]) })
	for _, f := range fns {
		k := 0
		for _, b := range f.Blocks {
			for _, in := range b.Instrs {
				mu, ok := in.(*ssa.MapUpdate)
				if !ok {
					continue
				}
				isResp := false
				leaves, _ := phiLeaves(mu.Map)
				for _, lf := range leaves {
					if p, ok := lf.val.(*ssa.Parameter); ok && params[p] {
						isResp = true
					}
					if locals[lf.val] {
						isResp = true
					}
				}
				if !isResp {
					continue
				}
				// the envelope map of the entry point is C07's
				if f == a.entry {
					continue
				}
				n++
				k++
				key := fmt.Sprintf("%s: response map store #%d", fnName(f), k)
				if f != a.field {
					r.flag("C01.KEY", key, mu.Pos(), "a response map is written outside the field resolver")
					continue
				}
				call, isCall := mu.Key.(*ssa.Call)
				ok2 := isCall && isMethodCall(call, ggqlPath, "Field", "key") && callRecv(call) == fieldP
				r.check("C01.KEY", key, mu.Pos(), ok2, "the response key must be field.key() of the field being resolved (alias when present, name otherwise); got "+shortPath(vpath(mu.Key)))
			}
		}
	}
	r.floor("C01.KEY", "stores into response maps", n, 5)
	// key() itself
	kf := c.fn("(*Field).key")
	if kf == nil {
		r.undecided("C01.KEY", "anchor (*Field).key", token.NoPos, "not found")
		return
	}
	r.fnSeen(fnName(kf))
	rets := returnsOf(kf)
	seen := map[string]bool{}
	for _, rt := range rets {
		leaves, _ := phiLeaves(rt.Results[0])
		for _, lf := range leaves {
			base, owner, f, ok := loadOfField(lf.val)
			if !ok || owner != "Field" || base != kf.Params[0] {
				r.flag("C01.KEY", "(*Field).key: returns "+shortPath(vpath(lf.val)), rt.Pos(), "key() may only return the receiver's Alias or Name")
				continue
			}
			seen[f] = true
			blk := rt.Block()
			var gs []guard
			if lf.pred != nil {
				gs = edgeGuards(lf.pred, lf.phi.Block())
			} else {
				gs = blockGuards(blk)
			}
			aliasNonEmpty, aliasEmpty := false, false
			for _, g := range gs {
				g = normGuard(g)
				if v, op, k, ok := intCmp(g.cond); ok {
					if x, isLen := isLenOf(v); isLen {
						if _, _, ff, ok := loadOfField(x); ok && ff == "Alias" {
							if !g.val {
								op = negOp(op)
							}
							switch {
							case (op == token.GTR && k == 0) || (op == token.NEQ && k == 0) || (op == token.GEQ && k == 1):
								aliasNonEmpty = true
							case (op == token.EQL && k == 0) || (op == token.LEQ && k == 0) || (op == token.LSS && k == 1):
								aliasEmpty = true
							}
						}
					}
				}
			}
			switch f {
			case "Alias":
				r.check("C01.KEY", "(*Field).key: returns Alias only when it is non-empty", rt.Pos(), aliasNonEmpty, "Alias must be returned exactly when len(Alias) > 0")
			case "Name":
				r.check("C01.KEY", "(*Field).key: returns Name only when Alias is empty", rt.Pos(), aliasEmpty, "Name must be returned exactly when Alias is empty")
			default:
				r.flag("C01.KEY", "(*Field).key: returns field "+f, rt.Pos(), "key() may only return Alias or Name")
			}
		}
	}
	r.check("C01.KEY", "(*Field).key: both Alias and Name are possible results", kf.Pos(), seen["Alias"] && seen["Name"], "key() must be able to return the alias and the name")
}

type inductionInfo struct {
	phi    *ssa.Phi
	elem   ssa.Value // the value used as element index
	ok     bool
	why    string
	length ssa.Value
}

// loopInduction recognises `for i := 0; i < n; i++` and the rangeindex form.
func loopInduction(l *loopInfo) inductionInfo {
	var res inductionInfo
	for _, in := range l.head.Instrs {
		p, ok := in.(*ssa.Phi)
		if !ok {
			break
		}
		bt, isB := p.Type().Underlying().(*types.Basic)
		if !isB || bt.Info()&types.IsInteger == 0 {
			continue
		}
		start := int64(99)
		stepOK := true
		var step *ssa.BinOp
		nIn := 0
		for i, e := range p.Edges {
			pred := l.head.Preds[i]
			if l.body[pred] {
				bo, ok := e.(*ssa.BinOp)
				if !ok || bo.Op != token.ADD || bo.X != p {
					stepOK = false
					continue
				}
				k, isC := bo.Y.(*ssa.Const)
				if !isC || k.Int64() != 1 {
					stepOK = false
				}
				step = bo
				nIn++
			} else {
				k, isC := e.(*ssa.Const)
				if !isC {
					start = 98
				} else {
					start = k.Int64()
				}
			}
		}
		if !stepOK || nIn == 0 {
			continue
		}
		// exit test
		var cond ssa.Value
		condBlock := l.head
		if ifi, ok := l.head.Instrs[len(l.head.Instrs)-1].(*ssa.If); ok {
			cond = ifi.Cond
		}
		if cond == nil {
			continue
		}
		v, op, _, isIntC := intCmp(cond)
		_ = v
		_ = isIntC
		bo0, isBO := cond.(*ssa.BinOp)
		if !isBO {
			continue
		}
		bo := struct {
			Op   token.Token
			X, Y ssa.Value
		}{bo0.Op, bo0.X, bo0.Y}
		if bo.Op == token.GTR || bo.Op == token.GEQ {
			bo.Op, bo.X, bo.Y = flipOp(bo.Op), bo.Y, bo.X
		}
		res.phi = p
		switch {
		case start == 0 && bo.Op == token.LSS && bo.X == p:
			res.elem = p
			res.length = bo.Y
			res.ok = true
		case start == -1 && bo.Op == token.LSS && step != nil && bo.X == step && step.Block() == condBlock:
			res.elem = step
			res.length = bo.Y
			res.ok = true
		default:
			res.why = fmt.Sprintf("induction starts at %d with exit test %s %s: not the ascending 0..len-1 walk", start, shortPath(vpath(bo.X)), op)
			if !isIntC {
				res.why = fmt.Sprintf("induction starts at %d with exit test operator %s: not the ascending 0..len-1 walk", start, bo.Op)
			}
		}
		// the bound must be in the true (continue) edge
		if res.ok && !l.body[l.head.Succs[0]] {
			res.ok = false
			res.why = "loop continues on the false edge of the bound test"
		}
		return res
	}
	res.why = "no integer induction variable with step +1 found"
	return res
}

func isLengthValue(v ssa.Value) bool {
	if _, ok := isLenOf(v); ok {
		return true
	}
	if call, ok := v.(*ssa.Call); ok {
		if f := calleeObj(call); f != nil && f.Name() == "Len" {
			return true
		}
	}
	return false
}

func c01List(c *Ctx, r *Report, a *Anchors) {
	fn := a.list
	loops := loopsOf(fn)
	n := 0
	perArm := map[string]int{}
	for _, l := range loops {
		// result-building loop: contains append to []interface{}
		var appends []*ssa.Call
		for _, b := range fn.Blocks {
			if !l.body[b] || innermostLoop(loops, b) != l {
				continue
			}
			for _, in := range b.Instrs {
				call, ok := in.(*ssa.Call)
				if !ok || !isBuiltinCall(call, "append") {
					continue
				}
				if s, ok := call.Type().Underlying().(*types.Slice); ok {
					if it, ok := s.Elem().Underlying().(*types.Interface); ok && it.NumMethods() == 0 {
						appends = append(appends, call)
					}
				}
			}
		}
		if len(appends) == 0 {
			continue
		}
		n++
		arm := armOf(l.head)
		perArm[arm]++
		key := fmt.Sprintf("%s: result loop (%s)", fnName(fn), arm)
		if perArm[arm] > 1 {
			key += fmt.Sprintf(" #%d", perArm[arm])
		}
		pos := appends[0].Pos()
		// exactly one element appended on every path through the body: the list carried round the loop
		// is, on every back edge, the list at the header plus exactly one append
		okOne, why1 := oneAppendPerIteration(l)
		if !okOne {
			// the older form of the test: a single append that dominates every latch
			one := len(appends) == 1
			if one {
				for _, lt := range l.latches {
					if !appends[0].Block().Dominates(lt) {
						one = false
					}
				}
			}
			okOne = one
		}
		r.check("C01.LIST", key+": exactly one result element appended on every path through the body", pos, okOne, fmt.Sprintf("%d append(s) to the result list in the body, %s: a failed or nil element must still occupy its position, and no element may occupy two", len(appends), why1))
		ind := loopInduction(l)
		okInd := ind.ok && isLengthValue(ind.length)
		why := ind.why
		if ind.ok && !isLengthValue(ind.length) {
			why = "loop bound is not the length of the source (" + shortPath(vpath(ind.length)) + ")"
		}
		r.check("C01.LIST", key+": walks the source 0..len-1 ascending", pos, okInd, why)
		if ind.ok {
			// element access uses the induction value
			uses := 0
			okUse := true
			for b := range l.body {
				for _, in := range b.Instrs {
					var idx ssa.Value
					switch t := in.(type) {
					case *ssa.IndexAddr:
						idx = t.Index
					case *ssa.Call:
						f := calleeObj(t)
						args := explicitArgs(t)
						if f != nil && len(args) > 0 && (f.Name() == "Nth" || (f.Name() == "Index" && f.Pkg() != nil && f.Pkg().Path() == "reflect")) {
							idx = args[len(args)-1]
						}
					}
					if idx == nil {
						continue
					}
					if _, isC := idx.(*ssa.Const); isC {
						continue // varargs packing
					}
					uses++
					if idx != ind.elem {
						okUse = false
					}
				}
			}
			r.check("C01.LIST", key+": element is read at the induction value", pos, okUse && uses > 0, fmt.Sprintf("%d element accesses; each must use the loop's induction value", uses))
		}
	}
	r.floor("C01.LIST", "result-building loops in the list resolver", n, 3)
}

// oneAppendPerIteration: some []interface{} value is carried round the loop through a phi at the header, and
// on every back edge it is that phi plus exactly one single-element append, whatever path the body took.
func oneAppendPerIteration(l *loopInfo) (bool, string) {
	isLatch := map[*ssa.BasicBlock]bool{}
	for _, lt := range l.latches {
		isLatch[lt] = true
	}
	found := false
	for _, in := range l.head.Instrs {
		phi, ok := in.(*ssa.Phi)
		if !ok {
			break
		}
		sl, ok := phi.Type().Underlying().(*types.Slice)
		if !ok {
			continue
		}
		if it, ok := sl.Elem().Underlying().(*types.Interface); !ok || it.NumMethods() != 0 {
			continue
		}
		memo := map[ssa.Value]map[int]bool{}
		onStack := map[ssa.Value]bool{}
		var depth func(v ssa.Value) (map[int]bool, bool)
		depth = func(v ssa.Value) (map[int]bool, bool) {
			if v == ssa.Value(phi) {
				return map[int]bool{0: true}, true
			}
			if m, ok := memo[v]; ok {
				return m, m != nil
			}
			if onStack[v] {
				return nil, false
			}
			onStack[v] = true
			defer func() { onStack[v] = false }()
			var out map[int]bool
			switch t := v.(type) {
			case *ssa.Phi:
				out = map[int]bool{}
				for _, e := range t.Edges {
					m, ok := depth(e)
					if !ok {
						out = nil
						break
					}
					for k := range m {
						out[k] = true
					}
				}
			case *ssa.Call:
				// append(x, e) reaches go/ssa as append(x, <slice of a one-element array>)
				if isBuiltinCall(t, "append") && len(t.Call.Args) == 2 {
					if elems, ok := sliceLitElems(t.Call.Args[1]); ok {
						if m, ok := depth(t.Call.Args[0]); ok {
							out = map[int]bool{}
							for k := range m {
								out[k+len(elems)] = true
							}
						}
					}
				}
			case *ssa.ChangeType:
				out, _ = depth(t.X)
			}
			memo[v] = out
			return out, out != nil
		}
		all := true
		why := ""
		n := 0
		for i, pred := range l.head.Preds {
			if !isLatch[pred] {
				continue
			}
			n++
			m, ok := depth(phi.Edges[i])
			if !ok {
				all = false
				why = "the list carried round the loop is not the header's list extended by appends on every path"
				break
			}
			if len(m) != 1 || !m[1] {
				all = false
				var ks []int
				for k := range m {
					ks = append(ks, k)
				}
				sort.Ints(ks)
				why = fmt.Sprintf("the paths through the body append %v elements", ks)
				break
			}
		}
		if n == 0 {
			continue
		}
		found = true
		if !all {
			return false, why
		}
	}
	if !found {
		return false, "no result list carried round the loop"
	}
	return true, "one on every path"
}

// armOf describes the type-switch arm a block belongs to.
func armOf(b *ssa.BasicBlock) string {
	ts := caseTypes(b, nil)
	if len(ts) == 0 {
		return "default arm"
	}
	s := ""
	for i, t := range ts {
		if i > 0 {
			s += ","
		}
		s += typeStr(t)
	}
	return "case " + s
}

func c01Sel(c *Ctx, r *Report, a *Anchors) {
	// SEL
	impl := c.implementers("Selection")
	selT := c.named("Selection")
	have := map[string]bool{}
	for _, b := range a.walker.Blocks {
		for _, in := range b.Instrs {
			if ta, ok := in.(*ssa.TypeAssert); ok && types.Identical(ta.X.Type(), selT) {
				have[typeStr(ta.AssertedType)] = true
			}
		}
	}
	for _, t := range impl {
		r.check("C01.SEL", fmt.Sprintf("%s: case for Selection implementer %s", fnName(a.walker), typeStr(t)), a.walker.Pos(), have[typeStr(t)], "a selection of this kind would be silently ignored")
	}
	r.floor("C01.SEL", "implementers of Selection", len(impl), 3)
	// TYPE
	iot := c.fn("IsOutputType")
	if iot == nil {
		r.undecided("C01.TYPE", "anchor IsOutputType", token.NoPos, "not found")
		return
	}
	r.fnSeen("IsOutputType")
	var tParam *ssa.Parameter
	for _, p := range a.dispatch.Params {
		if c.isNamed(p.Type(), "Type") {
			tParam = p
		}
	}
	dh := map[string]bool{}
	tAlias := wrapperAliases(a.dispatch, tParam)
	for _, b := range a.dispatch.Blocks {
		for _, in := range b.Instrs {
			if ta, ok := in.(*ssa.TypeAssert); ok && tAlias[stripIface(ta.X)] {
				dh[typeStr(ta.AssertedType)] = true
			}
		}
	}
	outC := c.iface("OutCoercer")
	n := 0
	for _, b := range iot.Blocks {
		for _, in := range b.Instrs {
			ta, ok := in.(*ssa.TypeAssert)
			if !ok {
				continue
			}
			if _, isI := ta.AssertedType.Underlying().(*types.Interface); isI {
				continue
			}
			n++
			name := typeStr(ta.AssertedType)
			handled := dh[name]
			if !handled && outC != nil && types.Implements(ta.AssertedType, outC) && dh["OutCoercer"] {
				handled = true
			}
			r.check("C01.TYPE", fmt.Sprintf("%s: output kind %s is handled", fnName(a.dispatch), name), a.dispatch.Pos(), handled, "IsOutputType admits this kind in field positions but the dispatcher has neither a case for it nor is it an OutCoercer reaching the default arm: such a field would resolve to null silently")
		}
	}
	r.floor("C01.TYPE", "concrete kinds named by IsOutputType", n, 7)
}

func c01Typename(c *Ctx, r *Report, a *Anchors) {
	fn := a.field
	var fieldP, tP *ssa.Parameter
	for _, p := range fn.Params {
		if c.isNamed(p.Type(), "Field") {
			fieldP = p
		}
		if c.isNamed(p.Type(), "Type") {
			tP = p
		}
	}
	found := false
	for _, b := range fn.Blocks {
		for _, in := range b.Instrs {
			mu, ok := in.(*ssa.MapUpdate)
			if !ok {
				continue
			}
			inArm := hasGuard(b, func(g guard) bool {
				v, lit, eq, ok := strConstCmp(g.cond)
				if !ok || lit != "__typename" || eq != g.val {
					return false
				}
				base, _, f, ok := loadOfField(v)
				return ok && f == "Name" && base == fieldP
			})
			if !inArm {
				continue
			}
			found = true
			val := stripIface(mu.Value)
			call, isCall := val.(*ssa.Call)
			ok2 := isCall && call.Call.IsInvoke() && call.Call.Method.Name() == "Name" && call.Call.Value == tP
			r.check("C01.TYPENAME", fnName(fn)+": __typename stores Name() of the container type", mu.Pos(), ok2, "the value stored for __typename must be t.Name() of the Type the field resolver was handed; got "+shortPath(vpath(val)))
		}
	}
	if !found {
		r.undecided("C01.TYPENAME", fnName(fn)+": __typename arm", fn.Pos(), "no response-map store under a field.Name == \"__typename\" test was found")
	}
}

// importRules evaluates another property's rule set and re-states its obligations under one rule of
// this property (same constructs, same verdicts).
func importRules(c *Ctx, r *Report, from, rule, text string, only ...string) {
	pd := registry[from]
	if pd == nil {
		r.undecided(rule, "rule set "+from, token.NoPos, "not registered")
		return
	}
	importRulesFrom(c, r, from, pd.run, rule, text, only...)
}

// importRulesFrom: as importRules, with the part of the other property's rule set to run given explicitly
// (when only one rule family of an expensive property is wanted).
func importRulesFrom(c *Ctx, r *Report, from string, run func(*Ctx, *Report), rule, text string, only ...string) {
	sub := newReport(from, r.Tier, c)
	run(c, sub)
	r.rule(rule, text)
	for _, o := range sub.Obls {
		if len(only) > 0 {
			keep := false
			for _, w := range only {
				// "RULE" or "RULE~substring of the construct"
				rule, sub := w, ""
				if i := strings.IndexByte(w, '~'); i >= 0 {
					rule, sub = w[:i], w[i+1:]
				}
				if o.Rule == rule && (sub == "" || strings.Contains(o.Key, sub)) {
					keep = true
				}
			}
			if !keep {
				continue
			}
		}
		r.Obls = append(r.Obls, Obligation{Rule: rule, Key: o.Rule + " " + o.Key, Pos: o.Pos, Status: o.Status, Detail: o.Detail, Path: o.Path, NegOnly: o.NegOnly})
		r.seenKeys[rule+"|"+o.Rule+" "+o.Key] = true
	}
	for f := range sub.FuncsSeen {
		r.FuncsSeen[f] = true
	}
}
