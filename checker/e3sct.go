package main

// E3, second verdict: size-change termination (Lee, Jones, Ben-Amram 2001) over the
// recursive components. Every call edge inside a component yields a size-change
// graph: arcs from a caller parameter to a callee parameter labelled "strictly
// smaller" or "not larger" in a well-founded order (non-negative integers with a
// dominating lower-bound test; finite trees under the proper-part relation along
// tree selectors; the complement of a visited set; the unread input of a scanner).
// The component terminates on every input if every idempotent composition G: f -> f
// in the closure of these graphs has a strict arc x -> x. This is decided exactly
// for the arcs found; unlike the per-edge classification it requires the decreasing
// parameter to be one consistent thread (a value taken from a *different* parameter,
// e.g. a variable looked up in the variable table, is a part of that table, not of
// the value being walked, and so decreases nothing).

import (
	"fmt"
	"go/token"
	"go/types"
	"sort"
	"strings"

	"golang.org/x/tools/go/ssa"
)

type scGraph struct {
	from, to *ssa.Function
	arcs     map[[2]int]bool // (caller formal, callee formal) -> strict
	wit      []string        // the call sites this graph is composed of
}

func (g *scGraph) key() string {
	var ks []string
	for a, s := range g.arcs {
		ks = append(ks, fmt.Sprintf("%d>%d:%v", a[0], a[1], s))
	}
	sort.Strings(ks)
	return fnName(g.from) + "=>" + fnName(g.to) + "{" + strings.Join(ks, ",") + "}"
}

func scCompose(a, b *scGraph) *scGraph {
	out := &scGraph{from: a.from, to: b.to, arcs: map[[2]int]bool{}}
	for x, s1 := range a.arcs {
		for y, s2 := range b.arcs {
			if x[1] != y[0] {
				continue
			}
			k := [2]int{x[0], y[1]}
			st := s1 || s2
			if old, ok := out.arcs[k]; !ok || (st && !old) {
				out.arcs[k] = st
			}
		}
	}
	out.wit = append(append([]string{}, a.wit...), b.wit...)
	if len(out.wit) > 6 {
		out.wit = append(out.wit[:5:5], "…")
	}
	return out
}

func formalName(f *ssa.Function, i int) string {
	if i < len(f.Params) {
		return f.Params[i].Name()
	}
	if k := i - len(f.Params); k < len(f.FreeVars) {
		return f.FreeVars[k].Name()
	}
	return fmt.Sprintf("#%d", i)
}

// lowerBounded: on the way to b a test has established p > k or p >= k for a constant k.
func lowerBounded(b *ssa.BasicBlock, p ssa.Value) bool {
	return hasGuard(b, func(g guard) bool {
		v, op, _, ok := intCmp(g.cond)
		if !ok || v != p {
			return false
		}
		if !g.val {
			op = negOp(op)
		}
		return op == token.GTR || op == token.GEQ
	})
}

// sizeChangeOf derives the size-change graph of one call edge.
func sizeChangeOf(c *Ctx, eng *effEngine, e recEdge) *scGraph {
	f, g, site := e.from, e.to, e.site
	sg := &scGraph{from: f, to: g, arcs: map[[2]int]bool{}, wit: []string{fmt.Sprintf("%s -> %s at %s", fnName(f), fnName(g), c.pos(site.Pos()))}}
	cc := site.Common()
	var actuals []ssa.Value
	if cc.IsInvoke() {
		actuals = append(actuals, cc.Value)
	}
	actuals = append(actuals, cc.Args...)
	set := func(i, j int, strict bool) {
		k := [2]int{i, j}
		if old, ok := sg.arcs[k]; !ok || (strict && !old) {
			sg.arcs[k] = strict
		}
	}
	// cellParam: the parameter a local cell holds when the cell is only ever assigned that parameter (a
	// parameter captured by a closure is spilled into such a cell at entry)
	cellParam := func(al *ssa.Alloc) int {
		idx, n := -1, 0
		for _, ref := range *al.Referrers() {
			if st, ok := ref.(*ssa.Store); ok && st.Addr == ssa.Value(al) {
				n++
				if p, ok := st.Val.(*ssa.Parameter); ok && p.Parent() == f {
					idx = paramIndex(f, p)
				} else {
					return -1
				}
			}
		}
		if n != 1 {
			return -1
		}
		return idx
	}
	formalIdx := func(v ssa.Value) int {
		switch t := v.(type) {
		case *ssa.Parameter:
			if t.Parent() == f {
				return paramIndex(f, t)
			}
		case *ssa.FreeVar:
			for k, fv := range f.FreeVars {
				if fv == t {
					return len(f.Params) + k
				}
			}
		case *ssa.UnOp:
			if t.Op == token.MUL {
				switch x := t.X.(type) {
				case *ssa.FreeVar:
					for k, fv := range f.FreeVars {
						if fv == x {
							// the captured cell is read: its content is the captured variable unless this closure assigns it
							for _, ref := range *x.Referrers() {
								if st, ok := ref.(*ssa.Store); ok && st.Addr == ssa.Value(x) {
									return -1
								}
							}
							return len(f.Params) + k
						}
					}
				case *ssa.Alloc:
					return cellParam(x)
				}
			}
		}
		return -1
	}
	// a closure made here: what it captures keeps its size
	if g.Parent() == f {
		for _, b := range f.Blocks {
			for _, in := range b.Instrs {
				mc, ok := in.(*ssa.MakeClosure)
				if !ok || mc.Fn != ssa.Value(g) {
					continue
				}
				for k, bnd := range mc.Bindings {
					if al, ok := bnd.(*ssa.Alloc); ok {
						if i := cellParam(al); i >= 0 {
							set(i, len(g.Params)+k, false)
						}
					} else if i := formalIdx(bnd); i >= 0 {
						set(i, len(g.Params)+k, false)
					}
				}
			}
		}
	}
	if isScannerFn(c, f) && isScannerFn(c, g) && len(f.Params) > 0 && len(g.Params) > 0 {
		// the scanner state: unread input never grows; a recursive descent first consumes the opening token
		set(0, 0, e.class == "INPUT" || e.class == "BOUNDED")
		return sg
	}
	for j, a := range actuals {
		if j >= len(g.Params) {
			break
		}
		pt := g.Params[j].Type().Underlying()
		if bt, ok := pt.(*types.Basic); ok {
			if bt.Info()&types.IsInteger == 0 {
				continue
			}
			if i := formalIdx(a); i >= 0 {
				set(i, j, false)
				continue
			}
			if bo, ok := a.(*ssa.BinOp); ok && bo.Op == token.SUB {
				if i := formalIdx(bo.X); i >= 0 {
					if k, isC := bo.Y.(*ssa.Const); isC && k.Value != nil && k.Int64() >= 1 {
						// strict only in a well-founded order: the caller has established a lower bound
						set(i, j, lowerBounded(site.Block(), bo.X))
					}
				}
			}
			continue
		}
		switch pt.(type) {
		case *types.Pointer, *types.Interface, *types.Slice, *types.Map:
		default:
			continue
		}
		if e.class == "VISITED" {
			if i := formalIdx(a); i >= 0 {
				if _, isMap := a.Type().Underlying().(*types.Map); isMap {
					set(i, j, true) // the set of keys not yet visited shrinks
					continue
				}
			}
		}
		ps := recProv(c, eng, f, a)
		if len(ps) == 0 {
			continue
		}
		root, strict, ok := -1, true, true
		for _, p := range ps {
			var idx int
			switch p.kind {
			case rParam:
				idx = p.idx
			case rFree:
				idx = len(f.Params) + p.idx
			default:
				ok = false
			}
			if !ok {
				break
			}
			if root == -1 {
				root = idx
			} else if root != idx {
				ok = false
				break
			}
			sl := p.selList()
			if len(sl) == 0 {
				strict = false
			}
			for _, s := range sl {
				if _, isRef := referenceSelectors[s]; isRef || s == "…" {
					ok = false
				}
			}
		}
		if ok && root >= 0 {
			set(root, j, strict)
		}
	}
	return sg
}

// sctVerdict closes the component's graphs under composition and looks for an idempotent
// self-graph without a strictly decreasing thread. Returns nil when the component is
// size-change terminating; otherwise the offending graph. capped reports an abandoned closure.
func sctVerdict(c *Ctx, eng *effEngine, sc *recSCC) (bad *scGraph, n int, capped bool) {
	seen := map[string]*scGraph{}
	var all, work []*scGraph
	push := func(g *scGraph) {
		k := g.key()
		if _, ok := seen[k]; ok {
			return
		}
		seen[k] = g
		all = append(all, g)
		work = append(work, g)
	}
	var base []*scGraph
	for _, e := range sc.edges {
		g := sizeChangeOf(c, eng, e)
		base = append(base, g)
		push(g)
	}
	const limit = 20000
	for len(work) > 0 {
		g := work[len(work)-1]
		work = work[:len(work)-1]
		for _, b := range base {
			if g.to == b.from {
				push(scCompose(g, b))
			}
		}
		if len(all) > limit {
			return nil, len(all), true
		}
	}
	sort.Slice(all, func(i, j int) bool {
		if len(all[i].wit) != len(all[j].wit) {
			return len(all[i].wit) < len(all[j].wit)
		}
		return all[i].key() < all[j].key()
	})
	for _, g := range all {
		if g.from != g.to {
			continue
		}
		if scCompose(g, g).key() != g.key() {
			continue
		}
		dec := false
		for a, s := range g.arcs {
			if a[0] == a[1] && s {
				dec = true
			}
		}
		if !dec {
			return g, len(all), false
		}
	}
	return nil, len(all), false
}

func (g *scGraph) describe() string {
	var ks []string
	for a, s := range g.arcs {
		op := ">="
		if s {
			op = ">"
		}
		ks = append(ks, fmt.Sprintf("%s %s %s'", formalName(g.from, a[0]), op, formalName(g.to, a[1])))
	}
	sort.Strings(ks)
	if len(ks) == 0 {
		return "no parameter of the callee is bounded by a parameter of the caller"
	}
	return strings.Join(ks, ", ")
}
