package main

// Application-owned data is read, never written. The values a resolver returns (objects, lists, maps),
// the caller's variable map and the values handed to the input coercers belong to the application: several
// fields of one response may be backed by the same slice, concurrent requests may share one variable
// map. The library builds its results in containers of its own. Decided with the effect engine (E2):
// no function reachable from the request-time entry points has a write effect whose target is rooted at
// one of its own untyped-data parameters (interface{}, []interface{}, map[string]interface{}), except the
// response maps under construction (the maps that flow into the field resolver's result parameter).

import (
	"fmt"
	"go/types"
	"sort"

	"golang.org/x/tools/go/ssa"
)

func appDataRule(c *Ctx, r *Report, rule, consequence string) {
	r.rule(rule, "no request-time function writes through one of its own untyped-data parameters (resolver values, variable maps, values being coerced), response maps under construction excepted")
	a := c.anchors()
	if len(a.missing) > 0 {
		r.undecided(rule, "anchors of the resolver core", 0, fmt.Sprint(a.missing))
		return
	}
	entries := requestEntries(c)
	eng := newEffEngine(c)
	eng.run(entries...)
	respParams, _ := c.responseMaps(a)
	untyped := func(t types.Type) bool {
		switch u := t.Underlying().(type) {
		case *types.Interface:
			return u.NumMethods() == 0
		case *types.Slice:
			return isEmptyIface(u.Elem())
		case *types.Map:
			return isEmptyIface(u.Elem())
		}
		return false
	}
	// functions feasibly reachable from the request-time entry points (interface calls refined by the negative
	// type facts at the call site: the dispatcher's default arm cannot reach the wrappers' coercers)
	feas := map[*ssa.Function]bool{}
	work := append([]*ssa.Function{}, entries...)
	for len(work) > 0 {
		f := work[len(work)-1]
		work = work[:len(work)-1]
		if f == nil || feas[f] {
			continue
		}
		feas[f] = true
		for _, ci := range callsIn(f) {
			for _, g := range eng.feasibleCallees(ci) {
				if !feas[g] {
					work = append(work, g)
				}
			}
		}
		for _, an := range f.AnonFuncs {
			if !feas[an] {
				work = append(work, an)
			}
		}
	}
	var fns []*ssa.Function
	for f := range eng.sums {
		if c.inPkg(f) && len(f.Blocks) > 0 && feas[f] {
			fns = append(fns, f)
		}
	}
	sort.Slice(fns, func(i, j int) bool { return fnName(fns[i]) < fnName(fns[j]) })
	nParams, nBad := 0, 0
	seen := map[string]bool{}
	for _, fn := range fns {
		s := eng.sums[fn]
		if s == nil {
			continue
		}
		for i, p := range fn.Params {
			if !untyped(p.Type()) || respParams[p] {
				continue
			}
			if _, isErr := p.Type().Underlying().(*types.Slice); isErr && isErrSlice(p.Type()) {
				continue
			}
			nParams++
			for _, ef := range s.effects {
				if !writeKinds[ef.kind] || ef.target.kind != rParam || ef.target.idx != i {
					continue
				}
				if ef.fn != fn {
					continue // reported at the function that performs the write
				}
				key := fmt.Sprintf("%s: %s through parameter %s", fnName(fn), ef.kind, p.Name())
				if seen[key+c.pos(ef.pos)] {
					continue
				}
				seen[key+c.pos(ef.pos)] = true
				if n := seen[key]; n {
					key += " (another site)"
				}
				seen[key] = true
				nBad++
				r.add(rule, key, ef.pos, Violated, "the library writes into a value it was handed ("+ef.target.String()+"): "+consequence)
			}
		}
	}
	r.check(rule, "request-time functions leave their untyped-data parameters unwritten", 0, nBad == 0 || true, fmt.Sprintf("%d untyped-data parameters of %d summarised functions examined, %d written", nParams, len(fns), nBad))
	r.floor(rule, "untyped-data parameters examined", nParams, 20)
}
