package main

// E8: finite-domain reasoning over one integer-valued SSA variable: the exact set of
// values for which control can reach a block, from the constant comparisons that
// dominate it. Sets are finite unions of closed intervals.

import (
	"fmt"
	"go/token"
	"sort"

	"golang.org/x/tools/go/ssa"
)

type ival struct{ lo, hi int64 }
type iset []ival

func (s iset) norm() iset {
	var t iset
	for _, v := range s {
		if v.lo <= v.hi {
			t = append(t, v)
		}
	}
	sort.Slice(t, func(i, j int) bool { return t[i].lo < t[j].lo })
	var out iset
	for _, v := range t {
		if n := len(out); n > 0 && v.lo <= out[n-1].hi+1 {
			if v.hi > out[n-1].hi {
				out[n-1].hi = v.hi
			}
			continue
		}
		out = append(out, v)
	}
	return out
}

func (s iset) intersect(o iset) iset {
	var out iset
	for _, a := range s {
		for _, b := range o {
			lo, hi := a.lo, a.hi
			if b.lo > lo {
				lo = b.lo
			}
			if b.hi < hi {
				hi = b.hi
			}
			if lo <= hi {
				out = append(out, ival{lo, hi})
			}
		}
	}
	return out.norm()
}

func (s iset) String() string {
	str := ""
	for i, v := range s {
		if i > 0 {
			str += " ∪ "
		}
		if v.lo == v.hi {
			str += fmt.Sprintf("{%#x}", v.lo)
		} else {
			str += fmt.Sprintf("[%#x,%#x]", v.lo, v.hi)
		}
	}
	if str == "" {
		return "∅"
	}
	return str
}

// constraintSet: values of v satisfying `v op k` within universe u.
func constraintSet(op token.Token, k int64, u ival) iset {
	switch op {
	case token.EQL:
		return iset{{k, k}}
	case token.NEQ:
		return iset{{u.lo, k - 1}, {k + 1, u.hi}}.norm()
	case token.LSS:
		return iset{{u.lo, k - 1}}.norm()
	case token.LEQ:
		return iset{{u.lo, k}}.norm()
	case token.GTR:
		return iset{{k + 1, u.hi}}.norm()
	case token.GEQ:
		return iset{{k, u.hi}}.norm()
	}
	return iset{u}
}

// reachSet: the set of values of v for which block b can be reached, using only comparisons of
// v with constants in dominating guards (other guards are ignored: over-approximation).
func reachSet(b *ssa.BasicBlock, v ssa.Value, u ival) iset {
	return reachSetD(b, v, u, 0)
}

func reachSetD(b *ssa.BasicBlock, v ssa.Value, u ival, depth int) iset {
	// a block with several predecessors (multi-value case clause): union over the incoming edges
	if len(b.Preds) > 1 && depth < 3 {
		allCmp := true
		var un iset
		for _, p := range b.Preds {
			es := reachSetD(p, v, u, depth+1)
			constrained := false
			if len(p.Instrs) > 0 {
				if ifi, ok := p.Instrs[len(p.Instrs)-1].(*ssa.If); ok && p.Succs[0] != p.Succs[1] {
					g := normGuard(guard{ifi.Cond, p.Succs[0] == b, ifi})
					if x, op, k, ok := intCmp(g.cond); ok && sameVal(x, v) {
						if !g.val {
							op = negOp(op)
						}
						es = es.intersect(constraintSet(op, k, u))
						constrained = true
					}
				}
			}
			if !constrained {
				allCmp = false
			}
			un = append(un, es...)
		}
		if allCmp {
			return un.norm()
		}
	}
	s := iset{u}
	for _, g := range blockGuards(b) {
		g = normGuard(g)
		x, op, k, ok := intCmp(g.cond)
		if !ok || !sameVal(x, v) {
			continue
		}
		if !g.val {
			op = negOp(op)
		}
		s = s.intersect(constraintSet(op, k, u))
	}
	return s
}
