package main

// E8: finite-domain reasoning over one integer-valued SSA variable: the exact set of
// values for which control can reach a block, from the constant comparisons that
// dominate it. Sets are finite unions of closed intervals.

import (
	"fmt"
	"go/constant"
	"go/token"
	"go/types"
	"os"
	"sort"
	"sync"

	"golang.org/x/tools/go/ssa"
)

type ival struct{ lo, hi int64 }
type iset []ival

func (s iset) norm() iset {
	var t iset
	for _, v := range s {
		if v.lo <= v.hi {
			t = append(t, v)
		}
	}
	sort.Slice(t, func(i, j int) bool { return t[i].lo < t[j].lo })
	var out iset
	for _, v := range t {
		if n := len(out); n > 0 && v.lo <= out[n-1].hi+1 {
			if v.hi > out[n-1].hi {
				out[n-1].hi = v.hi
			}
			continue
		}
		out = append(out, v)
	}
	return out
}

func (s iset) intersect(o iset) iset {
	var out iset
	for _, a := range s {
		for _, b := range o {
			lo, hi := a.lo, a.hi
			if b.lo > lo {
				lo = b.lo
			}
			if b.hi < hi {
				hi = b.hi
			}
			if lo <= hi {
				out = append(out, ival{lo, hi})
			}
		}
	}
	return out.norm()
}

func (s iset) String() string {
	str := ""
	for i, v := range s {
		if i > 0 {
			str += " ∪ "
		}
		if v.lo == v.hi {
			str += fmt.Sprintf("{%#x}", v.lo)
		} else {
			str += fmt.Sprintf("[%#x,%#x]", v.lo, v.hi)
		}
	}
	if str == "" {
		return "∅"
	}
	return str
}

// constraintSet: values of v satisfying `v op k` within universe u.
func constraintSet(op token.Token, k int64, u ival) iset {
	switch op {
	case token.EQL:
		return iset{{k, k}}
	case token.NEQ:
		return iset{{u.lo, k - 1}, {k + 1, u.hi}}.norm()
	case token.LSS:
		return iset{{u.lo, k - 1}}.norm()
	case token.LEQ:
		return iset{{u.lo, k}}.norm()
	case token.GTR:
		return iset{{k + 1, u.hi}}.norm()
	case token.GEQ:
		return iset{{k, u.hi}}.norm()
	}
	return iset{u}
}

// tableOf, when set, gives the constant entries of a package-level array that is declared with a literal and
// written nowhere else (index -> value); it lets a guard `table[v] != 0` constrain v.
// One entry per loaded program: controls analyse several programs at the same time.
var tableProgs sync.Map // *ssa.Program -> func(*ssa.Global) (map[int64]int64, bool)

func tableOf(g *ssa.Global) (map[int64]int64, bool) {
	if g == nil || g.Pkg == nil {
		return nil, false
	}
	f, ok := tableProgs.Load(g.Pkg.Prog)
	if !ok {
		return nil, false
	}
	return f.(func(*ssa.Global) (map[int64]int64, bool))(g)
}

// tableIndexed: x is table[v] (a load of &table[v], v possibly converted) for a package-level array.
func tableIndexed(x ssa.Value, v ssa.Value) (*ssa.Global, bool) {
	u, ok := x.(*ssa.UnOp)
	if !ok || u.Op != token.MUL {
		return nil, false
	}
	ia, ok := u.X.(*ssa.IndexAddr)
	if !ok {
		return nil, false
	}
	g, ok := ia.X.(*ssa.Global)
	if !ok {
		return nil, false
	}
	idx := ia.Index
	if cv, ok := idx.(*ssa.Convert); ok {
		idx = cv.X
	}
	if !sameVal(idx, v) {
		return nil, false
	}
	return g, true
}

// guardSet: the values of v (within u) for which guard g holds, when g is a comparison of v with a
// constant or of table[v] with a constant; ok is false for other guards.
func guardSet(g guard, v ssa.Value, u ival) (iset, bool) {
	return guardSetD(g, v, u, 0)
}

func guardSetD(g guard, v ssa.Value, u ival, depth int) (iset, bool) {
	g = normGuard(g)
	// a || b and a && b used as a value: a phi of booleans, one edge per way the value came about
	if phi, isPhi := g.cond.(*ssa.Phi); isPhi && depth < 3 {
		var un iset
		for i, e := range phi.Edges {
			pred := phi.Block().Preds[i]
			es := reachSetD(pred, v, u, depth+1)
			if len(pred.Instrs) > 0 {
				if ifi, ok := pred.Instrs[len(pred.Instrs)-1].(*ssa.If); ok && pred.Succs[0] != pred.Succs[1] {
					if cs, ok := guardSetD(guard{ifi.Cond, pred.Succs[0] == phi.Block(), ifi}, v, u, depth+1); ok {
						es = es.intersect(cs)
					}
				}
			}
			if k, isC := e.(*ssa.Const); isC && k.Value != nil && k.Value.Kind() == constant.Bool {
				if constant.BoolVal(k.Value) != g.val {
					es = nil
				}
			} else if cs, ok := guardSetD(guard{e, g.val, g.at}, v, u, depth+1); ok {
				es = es.intersect(cs)
			} else {
				return nil, false
			}
			un = append(un, es...)
		}
		return un.norm(), true
	}
	x, op, k, ok := intCmp(g.cond)
	if !ok {
		return nil, false
	}
	if !g.val {
		op = negOp(op)
	}
	if sameVal(x, v) {
		return constraintSet(op, k, u), true
	}
	if tab, isT := tableIndexed(x, v); isT {
		ents, known := tableOf(tab)
		if !known {
			return nil, false
		}
		// the table's length bounds v on this path as well (an index out of range panics)
		var out iset
		n := int64(0)
		for i := range ents {
			if i+1 > n {
				n = i + 1
			}
		}
		if at, ok := tab.Type().Underlying().(*types.Pointer).Elem().Underlying().(*types.Array); ok {
			n = at.Len()
		}
		for i := int64(0); i < n; i++ {
			val := ents[i] // zero when not listed
			hold := false
			switch op {
			case token.EQL:
				hold = val == k
			case token.NEQ:
				hold = val != k
			case token.LSS:
				hold = val < k
			case token.LEQ:
				hold = val <= k
			case token.GTR:
				hold = val > k
			case token.GEQ:
				hold = val >= k
			}
			if hold && i >= u.lo && i <= u.hi {
				out = append(out, ival{i, i})
			}
		}
		return out.norm(), true
	}
	return nil, false
}

// reachSetEdge: the values of v for which the edge pred -> succ can be taken.
func reachSetEdge(pred, succ *ssa.BasicBlock, v ssa.Value, u ival) iset {
	s := reachSet(pred, v, u)
	if len(pred.Instrs) > 0 {
		if ifi, ok := pred.Instrs[len(pred.Instrs)-1].(*ssa.If); ok && pred.Succs[0] != pred.Succs[1] {
			if cs, ok := guardSet(guard{ifi.Cond, pred.Succs[0] == succ, ifi}, v, u); ok {
				s = s.intersect(cs)
			}
		}
	}
	return s
}

// reachSet: the set of values of v for which block b can be reached, using only comparisons of
// v with constants in dominating guards (other guards are ignored: over-approximation).
func reachSet(b *ssa.BasicBlock, v ssa.Value, u ival) iset {
	return reachSetD(b, v, u, 0)
}

func reachSetD(b *ssa.BasicBlock, v ssa.Value, u ival, depth int) iset {
	if depth > 6 {
		return iset{u}
	}
	// a block with several predecessors (multi-value case clause): union over the incoming edges
	if len(b.Preds) > 1 && depth < 3 {
		allCmp := true
		var un iset
		for _, p := range b.Preds {
			es := reachSetD(p, v, u, depth+1)
			constrained := false
			if len(p.Instrs) > 0 {
				if ifi, ok := p.Instrs[len(p.Instrs)-1].(*ssa.If); ok && p.Succs[0] != p.Succs[1] {
					if cs, ok := guardSetD(guard{ifi.Cond, p.Succs[0] == b, ifi}, v, u, depth+1); ok {
						es = es.intersect(cs)
						constrained = true
					}
				}
			}
			if !constrained {
				allCmp = false
			}
			un = append(un, es...)
		}
		if os.Getenv("E8_DEBUG") != "" {
			fmt.Fprintf(os.Stderr, "reachSetD block %d preds %d allCmp %v un %s\n", b.Index, len(b.Preds), allCmp, un.norm())
		}
		if allCmp {
			return un.norm()
		}
	}
	s := iset{u}
	for _, g := range blockGuards(b) {
		if cs, ok := guardSetD(g, v, u, depth+1); ok {
			s = s.intersect(cs)
		}
	}
	// the nearest dominator that merges several constrained edges (`case a, b:` / `if x == a || x == b`)
	// bounds what reaches b as well
	if depth < 3 {
		for d := b.Idom(); d != nil; d = d.Idom() {
			if len(d.Preds) < 2 {
				continue
			}
			allCmp := true
			var un iset
			for _, p := range d.Preds {
				es := reachSetD(p, v, u, depth+1)
				constrained := false
				if len(p.Instrs) > 0 {
					if ifi, ok := p.Instrs[len(p.Instrs)-1].(*ssa.If); ok && p.Succs[0] != p.Succs[1] {
						if cs, ok := guardSetD(guard{ifi.Cond, p.Succs[0] == d, ifi}, v, u, depth+1); ok {
							es = es.intersect(cs)
							constrained = true
						}
					}
				}
				if !constrained {
					allCmp = false
				}
				un = append(un, es...)
			}
			if allCmp {
				s = s.intersect(un.norm())
			}
			break
		}
	}
	return s
}
