package main

import (
	"fmt"
	"go/token"
	"os"
	"sort"

	"golang.org/x/tools/go/ssa"
)

func init() {
	register("C03", checkC03,
		"placeholder",
		"placeholder")
}

func checkC03(c *Ctx, r *Report) {
	r.rule("C03.LOOP", "every loop of the scanners consumes at least one input byte, or leaves the loop, on every path from its header back to its header (error and end-of-input paths included)")
	c03Loop(c, r)
}

func c03Loop(c *Ctx, r *Report) {
	e := newE4(c)
	if e.readByte == nil || e.putBack == nil {
		r.undecided("C03.LOOP", "anchors (*parser).readByte / putBack", token.NoPos, "not found")
		return
	}
	e.run()
	if f := os.Getenv("E4_DUMP"); f != "" {
		e.dumpSummaries(f)
	}
	var fns []*ssa.Function
	for f := range e.scan {
		fns = append(fns, f)
	}
	sort.Slice(fns, func(i, j int) bool { return fnName(fns[i]) < fnName(fns[j]) })
	n := 0
	for _, fn := range fns {
		r.fnSeen(fnName(fn))
		if fn == e.readByte {
			continue
		}
		if e.blown[fn] {
			r.undecided("C03.LOOP", fnName(fn)+": state budget", fn.Pos(), "abstract state space exceeded the budget")
			continue
		}
		for li, l := range e.loops[fn] {
			n++
			key := fmt.Sprintf("%s: loop %d (%s)", fnName(fn), li+1, loopDesc(c, l))
			fd := e.findings[fmt.Sprintf("%s#%d", fnName(fn), li)]
			pos := loopPos(l)
			if why, ok := countedLoop(l); ok {
				r.add("C03.LOOP", key, pos, Discharged, "bounded: "+why)
				continue
			}
			switch {
			case fd == nil:
				r.add("C03.LOOP", key, pos, Discharged, "no abstract path completes an iteration: the loop body always leaves the loop")
			case fd.ok:
				r.add("C03.LOOP", key, pos, Discharged, fmt.Sprintf("%d abstract states reached the back edge, all with at least one byte consumed since the header", fd.states))
			default:
				r.add("C03.LOOP", key, pos, Violated, "a path returns to the loop header without having consumed input: with that input the loop never terminates", fd.witness...)
			}
		}
	}
	r.floor("C03.LOOP", "loops in the scanner functions", n, 25)
	r.Notes = append(r.Notes, fmt.Sprintf("scanner progress: %d functions, %d summaries, %d abstract states explored", len(fns), len(e.sums), e.nStates))
}

func loopPos(l *loopInfo) token.Pos {
	for _, in := range l.head.Instrs {
		if in.Pos().IsValid() {
			return in.Pos()
		}
	}
	for b := range l.body {
		for _, in := range b.Instrs {
			if in.Pos().IsValid() {
				return in.Pos()
			}
		}
	}
	return token.NoPos
}

func loopDesc(c *Ctx, l *loopInfo) string {
	return l.head.Comment
}

// countedLoop: the loop is controlled by an integer induction variable that moves by a constant
// towards a loop-invariant bound tested in the header.
func countedLoop(l *loopInfo) (string, bool) {
	if len(l.head.Instrs) == 0 {
		return "", false
	}
	ifi, ok := l.head.Instrs[len(l.head.Instrs)-1].(*ssa.If)
	if !ok {
		return "", false
	}
	bo, ok := ifi.Cond.(*ssa.BinOp)
	if !ok {
		return "", false
	}
	invariant := func(v ssa.Value) bool {
		switch t := v.(type) {
		case *ssa.Const, *ssa.Parameter:
			return true
		case ssa.Instruction:
			return !l.body[t.Block()]
		}
		return false
	}
	for _, in := range l.head.Instrs {
		p, ok := in.(*ssa.Phi)
		if !ok {
			break
		}
		step := int64(0)
		var stepVal ssa.Value
		good := true
		for i, e := range p.Edges {
			if !l.body[l.head.Preds[i]] {
				continue
			}
			b2, ok := e.(*ssa.BinOp)
			if !ok || b2.X != ssa.Value(p) || (b2.Op != token.ADD && b2.Op != token.SUB) {
				good = false
				break
			}
			k, ok := b2.Y.(*ssa.Const)
			if !ok || k.Int64() <= 0 {
				good = false
				break
			}
			st := k.Int64()
			if b2.Op == token.SUB {
				st = -st
			}
			if step != 0 && step != st {
				good = false
			}
			step = st
			stepVal = b2
		}
		if !good || step == 0 {
			continue
		}
		// the header test compares the induction value (or its stepped value) with an invariant, in the direction of the step
		x, y, op := bo.X, bo.Y, bo.Op
		isInd := func(v ssa.Value) bool { return v == ssa.Value(p) || v == stepVal }
		if isInd(y) && invariant(x) {
			x, y, op = y, x, flipOp(op)
		}
		if !isInd(x) || !invariant(y) {
			continue
		}
		stayTrue := l.body[l.head.Succs[0]]
		if !stayTrue {
			op = negOp(op)
		}
		if (step > 0 && (op == token.LSS || op == token.LEQ)) || (step < 0 && (op == token.GTR || op == token.GEQ)) {
			return fmt.Sprintf("integer induction variable with step %+d tested against a loop-invariant bound", step), true
		}
	}
	return "", false
}

func (e *e4Engine) dumpSummaries(filter string) {
	var ks []sumKey
	for k := range e.sums {
		ks = append(ks, k)
	}
	sort.Slice(ks, func(i, j int) bool { return fnName(ks[i].fn)+fmt.Sprint(ks[i].deck, ks[i].eof) < fnName(ks[j].fn)+fmt.Sprint(ks[j].deck, ks[j].eof) })
	for _, k := range ks {
		if filter != "" && fnName(k.fn) != filter {
			continue
		}
		fmt.Printf("SUM %s deck=%d eof=%d:\n", fnName(k.fn), k.deck, k.eof)
		var os []string
		for kk := range e.sums[k] {
			os = append(os, kk)
		}
		sort.Strings(os)
		for _, o := range os {
			fmt.Println("    c|rd|deck|eof|res =", o)
		}
	}
}
