package main

import (
	"fmt"
	"go/constant"
	"go/token"
	"go/types"
	"os"
	"sort"
	"strings"

	"golang.org/x/tools/go/ssa"
)

func init() {
	register("C03", checkC03,
		"Crash- and hang-freedom clauses that are visible in the shape of the code: (LOOP) scanner progress - a path-partitioned abstract interpretation of the three scanners (net input consumption since the loop header, look-ahead cell, eof flag, nil/zero/empty tags, callee summaries to a fixpoint) shows that on every path from a loop header back to it at least one byte was consumed or the loop is left, including error and end-of-input paths; (REC) every cycle of the in-package call graph contains a call that decreases a depth parameter tested against <= 0, descends to a proper part of a tree-shaped argument, is guarded by a growing visited set, or first consumes scanner input; cycles that follow reference fields are reported; (STACK) recursion whose depth is proportional to input nesting must carry a bounded depth counter; (BOUND) every other loop is a range, a counted loop, or a reviewed entry; (CMP) no == / != on two interface{} operands of unknown dynamic type; (NILTYPE) a possibly-nil scanner result stored into the request/schema is nil-checked; (ASSERT) single-value type assertions are on values whose producer fixes the dynamic type; (TABLE) constant tables indexed by a byte or masked value are long enough; (REFLECT) reflected calls get an arity-checked, type-converted argument vector; (NILMAP) map stores are to maps that were just made or are nil-checked; (DEPTH) the depth guard dominates every descent of the type dispatcher.",
		"Absence of every nil dereference or reflect panic (a general nil-safety proof is out of reach; nilaway is a cross-reference only), wall-clock bounds, readers that return (0, nil) forever (io.Reader contract assumed), and termination of application callbacks.")
}

func checkC03(c *Ctx, r *Report) {
	r.rule("C03.LOOP", "every loop of the scanners consumes at least one input byte, or leaves the loop, on every path from its header back to its header (error and end-of-input paths included)")
	r.rule("C03.REC", "every call-graph cycle contains a measure-decreasing edge (DEC depth, DESC tree descent, VISITED, INPUT consumption)")
	r.rule("C03.STACK", "input-proportional recursion carries a depth counter compared with a constant")
	r.rule("C03.BOUND", "non-scanner loops: range, counted, or reviewed table entry")
	r.rule("C03.CMP", "no equality test between two interface{} values of unknown dynamic type")
	r.rule("C03.NILTYPE", "readType results reach a struct field only under a nil test (before or immediately after, failing the parse)")
	r.rule("C03.ASSERT", "x.(T) without ok only where x's producer guarantees T")
	r.rule("C03.TABLE", "index range of constant-table lookups < table length")
	r.rule("C03.EXPO", "a recursive call that follows a reference selector and is measured by a depth counter only, in a component with a recursive call inside a loop, is also guarded by a visited set")
	r.rule("C03.REFLECT", "reflect.Value.Call: arity check and per-argument Zero / AssignableTo / ConvertibleTo")
	r.rule("C03.NILMAP", "MapUpdate on a field-held map is preceded by a nil test with initialisation")
	r.rule("C03.DEPTH", "depth <= 0 exit dominates the dispatcher's descents; entry points pass MaxResolveDepth or a constant")
	c03Loop(c, r)
	c03Rec(c, r)
	c03Bound(c, r)
	c03Cmp(c, r)
	c03NilType(c, r)
	c03Assert(c, r)
	c03Table(c, r)
	c03GlobalSlice(c, r)
	c03Reflect(c, r)
	c03NilMap(c, r)
	c03Depth(c, r)
	c03NilUse(c, r)
}

func c03Loop(c *Ctx, r *Report) {
	e := newE4(c)
	if e.readByte == nil || e.putBack == nil {
		r.undecided("C03.LOOP", "anchors (*parser).readByte / putBack", token.NoPos, "not found")
		return
	}
	e.run()
	if f := os.Getenv("E4_DUMP"); f != "" {
		e.dumpSummaries(f)
	}
	var fns []*ssa.Function
	for f := range e.scan {
		fns = append(fns, f)
	}
	sort.Slice(fns, func(i, j int) bool { return fnName(fns[i]) < fnName(fns[j]) })
	n := 0
	for _, fn := range fns {
		r.fnSeen(fnName(fn))
		if fn == e.readByte || e.rawRead[fn] {
			continue // modelled by hand; its retry loop around the raw read is a C03.BOUND obligation
		}
		if e.blown[fn] {
			r.undecided("C03.LOOP", fnName(fn)+": state budget", fn.Pos(), "abstract state space exceeded the budget")
			continue
		}
		for li, l := range e.loops[fn] {
			if rawReadLoop(l) {
				continue // the retry loop around the raw read, wherever it stands: a C03.BOUND obligation
			}
			n++
			key := fmt.Sprintf("%s: loop %d (%s)", fnName(fn), li+1, loopDesc(c, l))
			fd := e.findings[fmt.Sprintf("%s#%d", fnName(fn), li)]
			pos := loopPos(l)
			if why, ok := countedLoop(l); ok {
				r.add("C03.LOOP", key, pos, Discharged, "bounded: "+why)
				continue
			}
			switch {
			case fd == nil:
				r.add("C03.LOOP", key, pos, Discharged, "no abstract path completes an iteration: the loop body always leaves the loop")
			case fd.ok:
				r.add("C03.LOOP", key, pos, Discharged, fmt.Sprintf("%d abstract states reached the back edge, all with at least one byte consumed since the header", fd.states))
			default:
				r.add("C03.LOOP", key, pos, Violated, "a path returns to the loop header without having consumed input: with that input the loop never terminates", fd.witness...)
			}
		}
	}
	r.floor("C03.LOOP", "loops in the scanner functions", n, 25)
	r.Notes = append(r.Notes, fmt.Sprintf("scanner progress: %d functions, %d summaries, %d abstract states explored", len(fns), len(e.sums), e.nStates))
}

func loopPos(l *loopInfo) token.Pos {
	for _, in := range l.head.Instrs {
		if in.Pos().IsValid() {
			return in.Pos()
		}
	}
	for b := range l.body {
		for _, in := range b.Instrs {
			if in.Pos().IsValid() {
				return in.Pos()
			}
		}
	}
	return token.NoPos
}

func loopDesc(c *Ctx, l *loopInfo) string {
	return l.head.Comment
}

// countedLoop: the loop is controlled by an integer induction variable that moves by a constant
// towards a loop-invariant bound tested in the header.
// descentLoop: a loop-carried pointer or interface variable is replaced, on every back edge, by a
// proper part of itself reached through tree selectors (x = x.Base): the loop ends at the latest at
// the leaves of the finite structure. Reference selectors (which may close cycles) do not count.
func descentLoop(l *loopInfo) (string, bool) {
	for _, in := range l.head.Instrs {
		p, ok := in.(*ssa.Phi)
		if !ok {
			break
		}
		switch p.Type().Underlying().(type) {
		case *types.Pointer, *types.Interface:
		default:
			continue
		}
		good, nBack := true, 0
		var sels []string
		for i, e := range p.Edges {
			if !l.body[l.head.Preds[i]] {
				continue
			}
			nBack++
			v := e
			steps := 0
			for d := 0; d < 12 && v != ssa.Value(p); d++ {
				switch t := v.(type) {
				case *ssa.MakeInterface:
					v = t.X
				case *ssa.ChangeInterface:
					v = t.X
				case *ssa.ChangeType:
					v = t.X
				case *ssa.TypeAssert:
					v = t.X
				case *ssa.Extract:
					if ta, ok := t.Tuple.(*ssa.TypeAssert); ok && t.Index == 0 {
						v = ta.X
					} else {
						d = 99
					}
				case *ssa.UnOp:
					if fa, ok := t.X.(*ssa.FieldAddr); ok && t.Op == token.MUL {
						sel := selOfField(fa.X.Type(), fa.Field)
						if _, isRef := referenceSelectors[sel]; isRef {
							d = 99
						} else {
							steps++
							sels = append(sels, sel)
							v = fa.X
						}
					} else {
						d = 99
					}
				default:
					d = 99
				}
			}
			if v != ssa.Value(p) || steps == 0 {
				good = false
			}
		}
		if good && nBack > 0 {
			return fmt.Sprintf("%s is replaced by its own %s on every back edge", p.Comment, strings.Join(sels, ", ")), true
		}
	}
	return "", false
}

func countedLoop(l *loopInfo) (string, bool) {
	if len(l.head.Instrs) == 0 {
		return "", false
	}
	ifi, ok := l.head.Instrs[len(l.head.Instrs)-1].(*ssa.If)
	if !ok {
		return "", false
	}
	bo, ok := ifi.Cond.(*ssa.BinOp)
	if !ok {
		return "", false
	}
	var invariant func(v ssa.Value) bool
	invariant = func(v ssa.Value) bool {
		switch t := v.(type) {
		case *ssa.Const, *ssa.Parameter:
			return true
		case *ssa.Call:
			// len / cap of an invariant value: an SSA string or slice value never changes its length
			if isBuiltinCall(t, "len") || isBuiltinCall(t, "cap") {
				if invariant(t.Call.Args[0]) {
					return true
				}
			}
			return !l.body[t.Block()]
		case *ssa.UnOp:
			// a load of a local cell (a variable whose address was taken before the loop, `errors.As(err, &ea)`)
			// that nothing in the loop writes or hands out
			if al, ok := t.X.(*ssa.Alloc); ok && t.Op == token.MUL && l.body[t.Block()] && al.Referrers() != nil {
				for _, ref := range *al.Referrers() {
					if ref.Block() == nil || !l.body[ref.Block()] {
						continue
					}
					if u, isLoad := ref.(*ssa.UnOp); isLoad && u.Op == token.MUL {
						continue
					}
					return false
				}
				return true
			}
			// a load of a field of an invariant object, re-read on every turn, in a loop that calls nothing
			// and stores to no field of that name
			if fa, ok := t.X.(*ssa.FieldAddr); ok && t.Op == token.MUL && l.body[t.Block()] && invariant(fa.X) {
				o, f := fieldOwner(fa.X.Type(), fa.Field)
				quiet := true
				for b := range l.body {
					for _, in := range b.Instrs {
						switch x := in.(type) {
						case *ssa.Store:
							if fa2, ok := x.Addr.(*ssa.FieldAddr); ok {
								if o2, f2 := fieldOwner(fa2.X.Type(), fa2.Field); o2 == o && f2 == f {
									quiet = false
								}
							} else if _, isAl := x.Addr.(*ssa.Alloc); !isAl {
								quiet = false
							}
						case ssa.CallInstruction:
							if _, isB := x.Common().Value.(*ssa.Builtin); !isB {
								quiet = false
							}
						}
					}
				}
				if quiet {
					return true
				}
			}
			return !l.body[t.Block()]
		case ssa.Instruction:
			return !l.body[t.Block()]
		}
		return false
	}
	for _, in := range l.head.Instrs {
		p, ok := in.(*ssa.Phi)
		if !ok {
			break
		}
		step := int64(0)
		var stepVal ssa.Value
		good := true
		for i, e := range p.Edges {
			if !l.body[l.head.Preds[i]] {
				continue
			}
			b2, ok := e.(*ssa.BinOp)
			if !ok || b2.X != ssa.Value(p) || (b2.Op != token.ADD && b2.Op != token.SUB) {
				good = false
				break
			}
			k, ok := b2.Y.(*ssa.Const)
			if !ok || k.Int64() <= 0 {
				good = false
				break
			}
			st := k.Int64()
			if b2.Op == token.SUB {
				st = -st
			}
			if step != 0 && step != st {
				good = false
			}
			step = st
			stepVal = b2
		}
		if !good || step == 0 {
			continue
		}
		// the header test compares the induction value (or its stepped value) with an invariant, in the direction of the step
		x, y, op := bo.X, bo.Y, bo.Op
		isInd := func(v ssa.Value) bool { return v == ssa.Value(p) || v == stepVal }
		if isInd(y) && invariant(x) {
			x, y, op = y, x, flipOp(op)
		}
		if !isInd(x) || !invariant(y) {
			continue
		}
		stayTrue := l.body[l.head.Succs[0]]
		if !stayTrue {
			op = negOp(op)
		}
		if (step > 0 && (op == token.LSS || op == token.LEQ)) || (step < 0 && (op == token.GTR || op == token.GEQ)) {
			return fmt.Sprintf("integer induction variable with step %+d tested against a loop-invariant bound", step), true
		}
	}
	return "", false
}

func (e *e4Engine) dumpSummaries(filter string) {
	var ks []sumKey
	for k := range e.sums {
		ks = append(ks, k)
	}
	sort.Slice(ks, func(i, j int) bool {
		return fnName(ks[i].fn)+fmt.Sprint(ks[i].deck, ks[i].eof) < fnName(ks[j].fn)+fmt.Sprint(ks[j].deck, ks[j].eof)
	})
	for _, k := range ks {
		if filter != "" && fnName(k.fn) != filter {
			continue
		}
		fmt.Printf("SUM %s deck=%d eof=%d:\n", fnName(k.fn), k.deck, k.eof)
		var os []string
		for kk := range e.sums[k] {
			os = append(os, kk)
		}
		sort.Strings(os)
		for _, o := range os {
			fmt.Println("    c|rd|deck|eof|res =", o)
		}
	}
}

// ---- REC / STACK -------------------------------------------------------------

func c03Rec(c *Ctx, r *Report) {
	eng := newEffEngine(c)
	var roots []*ssa.Function
	for _, f := range c.allFns {
		if f.Parent() == nil {
			roots = append(roots, f)
		}
	}
	eng.run(roots...)
	sccs := recursionSCCs(c, eng)
	r.Tables["reference_selectors"] = referenceSelectors
	var tbl []string
	for _, sc := range sccs {
		key := "recursion {" + sc.name() + "}"
		var desc []string
		classes := map[string]int{}
		for _, e := range sc.edges {
			classes[e.class]++
			desc = append(desc, fmt.Sprintf("%s -> %s at %s: %s (%s)", fnName(e.from), fnName(e.to), c.pos(e.site.Pos()), e.class, e.why))
		}
		tbl = append(tbl, key+": "+fmt.Sprint(classes))
		cyc := sc.residualCycle()
		pos := sc.fns[0].Pos()
		if cyc == nil {
			bad, ng, capped := sctVerdict(c, eng, sc)
			for _, e := range sc.edges {
				desc = append(desc, "size-change "+sizeChangeOf(c, eng, e).wit[0]+": "+sizeChangeOf(c, eng, e).describe())
			}
			switch {
			case capped:
				r.add("C03.REC", key, pos, Undecided, fmt.Sprintf("the closure of the size-change graphs was abandoned after %d graphs", ng), desc...)
			case bad != nil:
				w := append([]string{"call sequence: " + strings.Join(bad.wit, " ; "), "size change along it: " + bad.describe()}, desc...)
				r.add("C03.REC", key, pos, Violated, "size-change analysis: a repeatable call sequence on which no single parameter keeps decreasing ("+bad.describe()+"): a value taken from another parameter (a table looked up by name, a referenced definition) restarts the measure, so on cyclic data the recursion does not terminate and overflows the stack, which cannot be recovered", w...)
			default:
				r.add("C03.REC", key, pos, Discharged, fmt.Sprintf("every cycle contains a measure-decreasing call, and every idempotent composition of the %d size-change graphs has a strictly decreasing parameter", ng), desc...)
			}
		} else {
			var w []string
			for _, e := range cyc {
				w = append(w, fmt.Sprintf("%s -> %s at %s: %s (%s)", fnName(e.from), fnName(e.to), c.pos(e.site.Pos()), e.class, e.why))
			}
			pos = cyc[0].site.Pos()
			r.add("C03.REC", key, pos, Violated, "a cycle of calls on which nothing decreases: on cyclic data (or unbounded input) the recursion does not terminate and overflows the stack, which cannot be recovered", w...)
		}
		// EXPO: a call that re-enters the recursion through a reference (a fragment spread entering the fragment's
		// definition) and is bounded by nothing but a depth counter is made again for every path that leads to
		// it. When the recursion also fans out (a recursive call inside a loop) the number of calls is
		// fan-out^depth: a fragment that spreads itself twice costs 2^100 calls. Such an edge must also be cut by a
		// visited set.
		fanOut := false
		for _, e := range sc.edges {
			if inLoop(e.site.Block()) {
				fanOut = true
			}
		}
		for _, e := range sc.edges {
			if e.class != "DEC" && e.class != "VISITED" {
				continue
			}
			sel := followsReference(c, eng, e.from, e.to, e.site)
			// only references inside the request re-enter the tree that is being walked; a reference on the schema
			// side (a union's member, a field's type) selects the type of one value and is followed once per value
			if sel != "FragRef.Fragment" && sel != "Executable.Fragments" {
				continue
			}
			ekey := fmt.Sprintf("reference call %s -> %s through %s", fnName(e.from), fnName(e.to), sel)
			vis := visitedGuarded(e.from, e.to, e.site)
			if vis && fanOut && setShrinks(e.from, e.site) {
				// an "active path" set (entry deleted when the walk returns) stops cycles but not sharing: a definition
				// reached along k paths is walked k times, which is exponential for a chain of definitions that each
				// refer to the next one twice
				r.add("C03.EXPO", ekey, e.site.Pos(), Violated,
					"the set that guards the call through "+sel+" is an active-path set (entries are deleted again after the call): it cuts cycles, but a definition shared by k referrers is still walked once per path - `fragment F0 {...F1 ...F1} fragment F1 {...F2 ...F2} ...` costs 2^n walks for n fragments")
				continue
			}
			r.add("C03.EXPO", ekey, e.site.Pos(), map[bool]Status{true: Discharged, false: Violated}[vis || !fanOut],
				"the call follows "+sel+" back into a recursion that fans out and is bounded by a depth counter only: a definition that refers to itself (or to a shared definition) k times at every level is expanded k^depth times - `fragment A on Query { title ...A ...A }` does not return in any useful time")
		}
		// STACK: input-consuming recursion needs a depth bound
		if classes["INPUT"] > 0 || classes["BOUNDED"] > 0 {
			// every cycle must pass a call that is dominated by the nesting guard
			bounded := true
			{
				tmp := &recSCC{fns: sc.fns}
				for _, e := range sc.edges {
					if e.class == "INPUT" {
						e2 := e
						e2.class = "NEUT"
						tmp.edges = append(tmp.edges, e2)
					} else {
						tmp.edges = append(tmp.edges, e)
					}
				}
				if tmp.residualCycle() != nil {
					bounded = false
				}
			}
			r.add("C03.STACK", "scanner "+key, pos, map[bool]Status{true: Discharged, false: Violated}[bounded],
				"the recursion depth of the scanner is proportional to the nesting of the input and nothing bounds it: deeply nested input overflows the goroutine stack (fatal, not recoverable)")
		}
	}
	r.Tables["recursion_components"] = tbl
	r.floor("C03.REC", "recursive components of the call graph", len(sccs), 12)
}

// ---- BOUND ---------------------------------------------------------------------

var reviewedLoops = map[string]string{
	"(*parser).readByte":     "retry loop around Reader.Read: io.Reader must not return (0, nil) forever (assumption)",
	"(*Object).metaCheck":    "for bt.Kind() == reflect.Ptr { bt = bt.Elem() }: pointer types have finite depth",
	"(*Root).resolveReflect": "goto TOP after replacing an interface type by the concrete *Object found by getReflectType (or nil): at most two rounds, the second one cannot take the *Interface arm",
}

func c03Bound(c *Ctx, r *Report) {
	r.Tables["reviewed_loops"] = reviewedLoops
	n := 0
	for _, fn := range c.allFns {
		scanner := isScannerFn(c, fn) && fn.Name() != "readByte"
		for li, l := range loopsOf(fn) {
			if scanner && !rawReadLoop(l) {
				continue // C03.LOOP
			}
			n++
			key := fmt.Sprintf("%s: loop %d (%s)", fnName(fn), li+1, l.head.Comment)
			pos := loopPos(l)
			switch {
			case strings.HasPrefix(l.head.Comment, "rangeindex") || strings.HasPrefix(l.head.Comment, "rangeiter") || strings.HasPrefix(l.head.Comment, "rangechan"):
				r.add("C03.BOUND", key, pos, Discharged, "range loop: the operand is evaluated once")
			default:
				if why, ok := countedLoop(l); ok {
					r.add("C03.BOUND", key, pos, Discharged, "counted loop: "+why)
				} else if why, ok := descentLoop(l); ok {
					r.add("C03.BOUND", key, pos, Discharged, "descent loop: "+why)
				} else if ptrPeelLoop(l) {
					r.add("C03.BOUND", key, pos, Discharged, "for t.Kind() == reflect.Ptr { t = t.Elem() }: a type has finitely many pointer levels")
				} else if why, ok := reviewedLoops[fnName(fn)]; ok || rawReadLoop(l) {
					if rawReadLoop(l) {
						why = reviewedLoops["(*parser).readByte"]
						// the reviewed argument covers exactly one way round the loop: Read returned (0, nil). Every back edge
						// must be taken only when the read reported no error.
						okRetry := true
						at := pos
						for _, lt := range l.latches {
							gs := edgeGuards(lt, l.head)
							errNil := false
							for _, g := range gs {
								g = normGuard(g)
								if v, eq, isN := nilCmp(g.cond); isN && isErrorType(v.Type()) && eq == g.val {
									errNil = true
								}
							}
							if !errNil {
								okRetry = false
								at = valPosInstr(lt)
							}
						}
						if !okRetry {
							r.add("C03.BOUND", key, at, Violated, "the read is retried on a path where the reader returned an error: a reader that keeps failing (a deadline that has passed, a closed connection reporting itself temporary) makes every parse entry point spin forever")
							continue
						}
					}
					r.add("C03.BOUND", key, pos, Discharged, "reviewed: "+why)
				} else if why, ok := reviewedLoops[fnName(parentOf(fn))]; ok {
					r.add("C03.BOUND", key, pos, Discharged, "reviewed: "+why)
				} else {
					r.add("C03.BOUND", key, pos, Undecided, "a loop that is neither a range nor a counted loop and has no reviewed termination argument")
				}
			}
		}
	}
	r.floor("C03.BOUND", "loops outside the scanners", n, 60)
}

// ptrPeelLoop: the loop is left unless Kind() of a reflect.Type carried round the loop is reflect.Ptr, and the value
// carried round is Elem() of it: every way round takes one pointer level off a type.
func ptrPeelLoop(l *loopInfo) bool {
	if len(l.head.Instrs) == 0 {
		return false
	}
	ifi, ok := l.head.Instrs[len(l.head.Instrs)-1].(*ssa.If)
	if !ok {
		return false
	}
	g := normGuard(guard{ifi.Cond, true, ifi})
	bo, ok := g.cond.(*ssa.BinOp)
	if !ok || (bo.Op != token.EQL && bo.Op != token.NEQ) {
		return false
	}
	var kindCall *ssa.Call
	for _, op := range []ssa.Value{bo.X, bo.Y} {
		if cl, ok := op.(*ssa.Call); ok && cl.Call.IsInvoke() && cl.Call.Method.Name() == "Kind" && isReflectNamed(cl.Call.Value.Type(), "Type") {
			kindCall = cl
		}
		if k, ok := op.(*ssa.Const); ok && (k.Value == nil || k.Value.Kind() != constant.Int || k.Int64() != 22) {
			return false
		}
	}
	if kindCall == nil {
		return false
	}
	phi, ok := kindCall.Call.Value.(*ssa.Phi)
	if !ok || phi.Block() != l.head {
		return false
	}
	// the successor taken when the kind is Ptr stays in the loop; every value carried round is Elem() of the phi
	for i, pred := range l.head.Preds {
		if !l.body[pred] {
			continue
		}
		cl, ok := phi.Edges[i].(*ssa.Call)
		if !ok || !cl.Call.IsInvoke() || cl.Call.Method.Name() != "Elem" || cl.Call.Value != ssa.Value(phi) {
			return false
		}
	}
	stay := l.head.Succs[0]
	if (bo.Op == token.NEQ) == g.val {
		stay = l.head.Succs[1]
	}
	return l.body[stay]
}

// typeKeyedLiteral: see c03Assert.
func (c *Ctx) typeKeyedLiteral(fn *ssa.Function, ta *ssa.TypeAssert) bool {
	if fn.Parent() == nil || len(fn.Params) == 0 || len(fn.FreeVars) != 0 {
		return false
	}
	p0, ok := stripIface(ta.X).(*ssa.Parameter)
	if !ok || p0 != fn.Params[0] {
		return false
	}
	typeOfArg := func(v ssa.Value) ssa.Value {
		call, ok := v.(*ssa.Call)
		if !ok || !isFuncCall(call, "reflect", "TypeOf") || len(call.Call.Args) != 1 {
			return nil
		}
		return call.Call.Args[0]
	}
	// where the literal goes: one map update in the parent, keyed by reflect.TypeOf(<value of the asserted type>)
	var table ssa.Value
	uses := 0
	for _, b := range fn.Parent().Blocks {
		for _, in := range b.Instrs {
			for _, op := range in.Operands(nil) {
				if *op != ssa.Value(fn) {
					continue
				}
				uses++
				mu, ok := in.(*ssa.MapUpdate)
				if !ok || mu.Value != ssa.Value(fn) {
					return false
				}
				arg := typeOfArg(mu.Key)
				if arg == nil {
					return false
				}
				mi, ok := arg.(*ssa.MakeInterface)
				if !ok || !types.Identical(mi.X.Type(), ta.AssertedType) {
					return false
				}
				table = mu.Map
			}
		}
	}
	if uses != 1 || table == nil {
		return false
	}
	// the map is the initial value of one package-level variable
	var g *ssa.Global
	if table.Referrers() == nil {
		return false
	}
	for _, ref := range *table.Referrers() {
		if st, ok := ref.(*ssa.Store); ok && st.Val == table {
			if gg, ok := st.Addr.(*ssa.Global); ok {
				g = gg
			}
		}
	}
	if g == nil {
		return false
	}
	// every other use of the variable: a lookup under reflect.TypeOf(x) whose result is nil-tested or called with x first
	for _, f := range c.allFns {
		for _, b := range f.Blocks {
			for _, in := range b.Instrs {
				u, ok := in.(*ssa.UnOp)
				if !ok || u.Op != token.MUL || u.X != ssa.Value(g) {
					if st, isSt := in.(*ssa.Store); isSt && st.Addr == ssa.Value(g) && st.Val != table {
						return false
					}
					continue
				}
				if u.Referrers() == nil {
					return false
				}
				for _, ref := range *u.Referrers() {
					lk, ok := ref.(*ssa.Lookup)
					if !ok || lk.X != ssa.Value(u) {
						return false // ranged over, updated, handed on
					}
					x := typeOfArg(lk.Index)
					if x == nil {
						return false
					}
					var fv ssa.Value = lk
					if lk.Referrers() == nil {
						return false
					}
					for _, r2 := range *lk.Referrers() {
						if ex, isEx := r2.(*ssa.Extract); isEx && ex.Index == 0 {
							fv = ex
						}
					}
					vals := []ssa.Value{fv}
					if fv != ssa.Value(lk) {
						vals = append(vals, lk)
					}
					for _, v := range vals {
						if v.Referrers() == nil {
							return false
						}
						for _, r3 := range *v.Referrers() {
							switch t := r3.(type) {
							case *ssa.Extract:
							case *ssa.BinOp:
								if !isNilConst(t.X) && !isNilConst(t.Y) {
									return false
								}
							case *ssa.Call:
								if t.Call.Value != v || len(t.Call.Args) == 0 || !sameVal(t.Call.Args[0], x) {
									return false
								}
							case *ssa.If:
							default:
								return false
							}
						}
					}
				}
			}
		}
	}
	return true
}

func parentOf(f *ssa.Function) *ssa.Function {
	for f.Parent() != nil {
		f = f.Parent()
	}
	return f
}

// ---- CMP ------------------------------------------------------------------------

func isEmptyIface(t types.Type) bool {
	it, ok := t.Underlying().(*types.Interface)
	return ok && it.NumMethods() == 0
}

func c03Cmp(c *Ctx, r *Report) {
	n, bad := 0, 0
	for _, fn := range c.allFns {
		k := 0
		for _, b := range fn.Blocks {
			for _, in := range b.Instrs {
				bo, ok := in.(*ssa.BinOp)
				if !ok || (bo.Op != token.EQL && bo.Op != token.NEQ) {
					continue
				}
				if !isEmptyIface(bo.X.Type()) || !isEmptyIface(bo.Y.Type()) {
					continue
				}
				n++
				if isNilConst(bo.X) || isNilConst(bo.Y) {
					continue
				}
				// a side boxed from a comparable static type makes the comparison safe
				safe := false
				for _, v := range []ssa.Value{bo.X, bo.Y} {
					if mi, ok := v.(*ssa.MakeInterface); ok && types.Comparable(mi.X.Type()) {
						safe = true
					}
				}
				k++
				if !safe {
					bad++
				}
				r.check("C03.CMP", fmt.Sprintf("%s: interface comparison #%d", fnName(fn), k), bo.Pos(), safe, "both operands are interface{} values of unknown dynamic type: a list- or object-valued operand ([]interface{}, map) makes the comparison panic")
			}
		}
	}
	r.check("C03.CMP", "package: equality tests on interface{} values examined", token.NoPos, true, fmt.Sprintf("%d comparisons involving interface{} operands, %d unsafe", n, bad))
	r.floor("C03.CMP", "comparisons with interface{} operands", n, 5)
}

// ---- NILTYPE ----------------------------------------------------------------------

func c03NilType(c *Ctx, r *Report) {
	rt := c.fn("(*parser).readType")
	if rt == nil {
		r.undecided("C03.NILTYPE", "anchor (*parser).readType", token.NoPos, "not found")
		return
	}
	tolerant := map[string]string{"Inline.Condition": "nil means 'no type condition'; every use tests for nil"}
	r.Tables["nil_tolerant_fields"] = tolerant
	n := 0
	for _, fn := range c.allFns {
		k := 0
		for _, ci := range callsIn(fn) {
			call, ok := ci.(*ssa.Call)
			if !ok || call.Call.StaticCallee() != rt {
				continue
			}
			res := extractOf(call, 0)
			if res == nil {
				continue
			}
			// all values derived from res through phis
			derived := map[ssa.Value]bool{res: true}
			changed := true
			for changed {
				changed = false
				for _, b := range fn.Blocks {
					for _, in := range b.Instrs {
						if phi, ok := in.(*ssa.Phi); ok && !derived[phi] {
							for _, e := range phi.Edges {
								if derived[e] {
									derived[phi] = true
									changed = true
								}
							}
						}
					}
				}
			}
			for _, b := range fn.Blocks {
				for _, in := range b.Instrs {
					st, ok := in.(*ssa.Store)
					if !ok || !derived[st.Val] {
						continue
					}
					fa, ok := st.Addr.(*ssa.FieldAddr)
					if !ok {
						continue
					}
					o, f := fieldOwner(fa.X.Type(), fa.Field)
					n++
					k++
					key := fmt.Sprintf("%s: readType result #%d stored into %s.%s", fnName(fn), k, o, f)
					if why, ok := tolerant[o+"."+f]; ok {
						r.check("C03.NILTYPE", key, st.Pos(), true, "nil-tolerant field: "+why)
						continue
					}
					okNil := provenNonNil(st.Val, b, 0)
					if !okNil {
						// a nil test of the stored field (or of the value) after the store that fails the parse
						okNil = nilTestFails(fn, st, fa)
					}
					r.check("C03.NILTYPE", key, st.Pos(), okNil, "readType returns (nil, nil) when no type follows; the nil is stored and dereferenced later (Name(), validation)")
				}
			}
		}
	}
	r.floor("C03.NILTYPE", "stores of readType results", n, 5)
}

// nilTestFails: after the store, the function tests the stored location (or value) for nil and the nil branch
// returns or sets a non-nil error.
func nilTestFails(fn *ssa.Function, st *ssa.Store, fa *ssa.FieldAddr) bool {
	want := vpath(fa)
	for _, b := range fn.Blocks {
		if len(b.Instrs) == 0 {
			continue
		}
		ifi, ok := b.Instrs[len(b.Instrs)-1].(*ssa.If)
		if !ok {
			continue
		}
		if !(st.Block() == b || st.Block().Dominates(b)) {
			continue
		}
		g := normGuard(guard{ifi.Cond, true, ifi})
		v, eq, isN := nilCmp(g.cond)
		if !isN {
			continue
		}
		same := v == st.Val
		if u, ok := v.(*ssa.UnOp); ok && u.Op == token.MUL && vpath(u.X) == want {
			same = true
		}
		if !same {
			continue
		}
		nilEdge := 0
		if eq != g.val {
			nilEdge = 1
		}
		// the nil branch (within two blocks) returns a non-nil error or creates one
		front := []*ssa.BasicBlock{b.Succs[nilEdge]}
		for depth := 0; depth < 2; depth++ {
			var next []*ssa.BasicBlock
			for _, tb := range front {
				for _, in := range tb.Instrs {
					switch t := in.(type) {
					case *ssa.Return:
						if len(t.Results) > 0 && !isNilConst(t.Results[len(t.Results)-1]) {
							return true
						}
					case *ssa.Call:
						if f := calleeObj(t); f != nil && (f.Name() == "Errorf" || f.Name() == "parseError") {
							return true
						}
					}
				}
				next = append(next, tb.Succs...)
			}
			front = next
		}
	}
	return false
}

// ---- ASSERT ------------------------------------------------------------------------

func c03Assert(c *Ctx, r *Report) {
	n := 0
	for _, fn := range c.allFns {
		k := 0
		for _, b := range fn.Blocks {
			for _, in := range b.Instrs {
				ta, ok := in.(*ssa.TypeAssert)
				if !ok || ta.CommaOk {
					continue
				}
				n++
				k++
				safe, why := false, ""
				// producer guarantees the type: call to an in-package constructor that always returns that type
				if call, ok := ta.X.(*ssa.Call); ok {
					if cal := call.Call.StaticCallee(); cal != nil && c.inPkg(cal) && c.alwaysStarError(cal) && derefNamed(ta.AssertedType) == "Error" {
						safe, why = true, "the operand is the result of a constructor that always returns *Error"
					}
				}
				// the same assertion already succeeded with ok on this path
				for _, f := range assertFacts(b) {
					if f.holds && sameVal(f.x, ta.X) && types.Identical(f.t, ta.AssertedType) {
						safe, why = true, "dominated by a successful checked assertion"
					}
				}
				// inside a case of a type switch on the operand, asserted to an interface every type of the case has
				if !safe {
					if it, isI := ta.AssertedType.Underlying().(*types.Interface); isI {
						cts := caseTypesOf(b, func(v ssa.Value) bool { return sameVal(v, stripIface(ta.X)) || sameVal(v, ta.X) })
						all := len(cts) > 0
						for _, ct := range cts {
							if !types.Implements(ct, it) {
								all = false
							}
						}
						if all {
							safe, why = true, "inside a case of a type switch on the operand, every type of the case implements the asserted interface"
						}
					}
				}
				// a function literal kept in a package-level table under the key reflect.TypeOf(T(..)), asserting its
				// argument to that T; the table is only looked up under reflect.TypeOf(x) and what it yields only
				// called with that x
				if !safe && c.typeKeyedLiteral(fn, ta) {
					safe, why = true, "the function literal is stored under reflect.TypeOf of the asserted type in a table that is only looked up with reflect.TypeOf of the argument it is then called with"
				}
				// phi of constructor results
				if !safe {
					ls, _ := phiLeaves(ta.X)
					all := len(ls) > 0
					for _, l := range ls {
						call, ok := l.val.(*ssa.Call)
						if !ok || call.Call.StaticCallee() == nil || !c.alwaysStarError(call.Call.StaticCallee()) {
							all = false
						}
					}
					if all && derefNamed(ta.AssertedType) == "Error" {
						safe, why = true, "every source of the operand is a constructor that returns *Error"
					}
				}
				// assertion to an interface on unsafe.Pointer tricks etc. is never safe by construction
				r.check("C03.ASSERT", fmt.Sprintf("%s: unchecked assertion #%d to %s", fnName(fn), k, typeStr(ta.AssertedType)), ta.Pos(), safe,
					map[bool]string{true: why, false: "x.(T) without the ok form panics when x holds another type and nothing on this path fixes x's dynamic type"}[safe])
			}
		}
	}
	r.check("C03.ASSERT", "package: unchecked type assertions examined", token.NoPos, true, fmt.Sprintf("%d", n))
}

// ---- TABLE -------------------------------------------------------------------------

func c03Table(c *Ctx, r *Report) {
	n := 0
	for _, fn := range c.allFns {
		k := 0
		for _, b := range fn.Blocks {
			for _, in := range b.Instrs {
				var x, idx ssa.Value
				switch t := in.(type) {
				case *ssa.Index:
					x, idx = t.X, t.Index
				case *ssa.Lookup:
					x, idx = t.X, t.Index
				default:
					continue
				}
				s, ok := constStr(x)
				if !ok {
					continue
				}
				n++
				k++
				max := int64(-1)
				switch {
				case isByte(idx.Type()):
					max = 255
				}
				// masked: v & m
				if bo, ok := idx.(*ssa.BinOp); ok {
					switch bo.Op {
					case token.AND:
						if kc, ok := bo.Y.(*ssa.Const); ok {
							max = kc.Int64()
						}
					case token.SHR:
						if kc, ok := bo.Y.(*ssa.Const); ok {
							rs := reachSet(b, bo.X, ival{0, 0x10FFFF})
							hi := int64(0)
							for _, iv := range rs {
								if iv.hi > hi {
									hi = iv.hi
								}
							}
							max = hi >> uint(kc.Int64())
						}
					}
				}
				if cv, ok := idx.(*ssa.Convert); ok {
					if isByte(cv.X.Type()) {
						max = 255
					}
				}
				if max < 0 {
					// a dominating `len(table) <= int(i)` (false edge) or `int(i) < len(table)` (true edge) bounds the index
					if guardedByLen(b, idx, int64(len(s))) {
						max = int64(len(s)) - 1
					}
				}
				if max < 0 {
					r.undecided("C03.TABLE", fmt.Sprintf("%s: constant table lookup #%d", fnName(fn), k), in.Pos(), "index range not determined")
					continue
				}
				r.check("C03.TABLE", fmt.Sprintf("%s: constant table lookup #%d (table of %d, index up to %d)", fnName(fn), k, len(s), max), in.Pos(), max < int64(len(s)),
					"the table is shorter than the index range: an input byte beyond it panics with index out of range")
			}
		}
	}
	r.floor("C03.TABLE", "lookups in constant tables", n, 2)
}

// ---- REFLECT -------------------------------------------------------------------------

// c03RValid: methods of reflect.Value that panic on the zero Value (Type, Convert, Interface, Elem, Field,
// Index, Len, ...) are applied to a Value made by reflect.ValueOf(x) from an interface value x only where
// IsValid() has been established, or x has been compared with nil: ValueOf(nil) is the zero Value, and an
// omitted or null argument is exactly a nil interface.
func c03RValid(c *Ctx, r *Report) {
	r.rule("C03.RVALID", "a reflect.Value obtained from reflect.ValueOf(<interface value>) is used with a method that panics on the zero Value only under IsValid() == true or after a nil test of the interface value")
	panicky := map[string]bool{"Type": true, "Convert": true, "Interface": true, "Elem": true, "Field": true, "FieldByName": true, "FieldByNameFunc": true, "Index": true, "Len": true, "MapIndex": true, "MapKeys": true, "Call": true, "Method": true, "NumField": true, "NumMethod": true, "IsNil": true, "Set": true, "String": false, "Kind": false, "IsValid": false}
	a := c.anchors()
	n := 0
	var fns []*ssa.Function
	for f := range a.reach {
		if c.inPkg(f) {
			fns = append(fns, f)
		}
	}
	sort.Slice(fns, func(i, j int) bool { return fnName(fns[i]) < fnName(fns[j]) })
	for _, fn := range fns {
		k := 0
		for _, ci := range callsIn(fn) {
			f := calleeObj(ci)
			if f == nil || f.Pkg() == nil || f.Pkg().Path() != "reflect" || recvTypeName(f) != "Value" || !panicky[f.Name()] {
				continue
			}
			recv := callRecv(ci)
			if recv == nil {
				continue
			}
			// does the receiver (through phis) come from ValueOf of a possibly-nil interface value?
			leaves, _ := phiLeaves(recv)
			for _, lf := range leaves {
				vo, ok := lf.val.(*ssa.Call)
				if !ok || !isFuncCall(vo, "reflect", "ValueOf") || len(vo.Call.Args) != 1 {
					continue
				}
				x := vo.Call.Args[0]
				if mi, ok := x.(*ssa.MakeInterface); ok {
					if _, isI := mi.X.Type().Underlying().(*types.Interface); !isI {
						if _, isP := mi.X.Type().Underlying().(*types.Pointer); !isP {
							continue // a concrete non-pointer value: never the zero Value
						}
					}
					x = mi.X
				}
				n++
				k++
				gs := blockGuards(ci.Block())
				if lf.pred != nil {
					gs = append(gs, edgeGuards(lf.pred, lf.phi.Block())...)
				}
				ok2 := false
				for _, g := range gs {
					g = normGuard(g)
					if call, isCall := g.cond.(*ssa.Call); isCall && g.val {
						if cf := calleeObj(call); cf != nil && cf.Name() == "IsValid" && cf.Pkg() != nil && cf.Pkg().Path() == "reflect" {
							if rv := callRecv(call); rv != nil {
								ls2, _ := phiLeaves(rv)
								for _, l2 := range ls2 {
									if l2.val == ssa.Value(vo) {
										ok2 = true
									}
								}
								if sameVal(rv, recv) {
									ok2 = true
								}
							}
						}
					}
					if guardSaysNonNil(g, x) || guardSaysNonNil(g, vo.Call.Args[0]) {
						ok2 = true
					}
					// Kind() == <a kind other than Invalid>: the zero Value has kind Invalid
					if bo, isBO := g.cond.(*ssa.BinOp); isBO && bo.Op == token.EQL && g.val {
						for _, side := range [][2]ssa.Value{{bo.X, bo.Y}, {bo.Y, bo.X}} {
							call, isCall := side[0].(*ssa.Call)
							k, isK := side[1].(*ssa.Const)
							if !isCall || !isK || k.Value == nil || k.Int64() == 0 {
								continue
							}
							if cf := calleeObj(call); cf != nil && cf.Name() == "Kind" && cf.Pkg() != nil && cf.Pkg().Path() == "reflect" {
								if rv := callRecv(call); rv != nil {
									ls2, _ := phiLeaves(rv)
									for _, l2 := range ls2 {
										if l2.val == ssa.Value(vo) {
											ok2 = true
										}
									}
								}
							}
						}
					}
				}
				if provenNonNil(x, ci.Block(), 0) {
					ok2 = true
				}
				// a case clause listing several kinds: every edge into it comes from a successful Kind() == k test
				for d := ci.Block(); d != nil && !ok2; d = d.Idom() {
					if len(d.Preds) < 2 {
						continue
					}
					all := true
					for _, p := range d.Preds {
						okEdge := false
						if len(p.Instrs) > 0 {
							if ifi, isIf := p.Instrs[len(p.Instrs)-1].(*ssa.If); isIf && p.Succs[0] == d {
								if bo, isBO := ifi.Cond.(*ssa.BinOp); isBO && bo.Op == token.EQL {
									call, isCall := bo.X.(*ssa.Call)
									k, isK := bo.Y.(*ssa.Const)
									if isCall && isK && k.Value != nil && k.Int64() != 0 {
										if cf := calleeObj(call); cf != nil && cf.Name() == "Kind" && cf.Pkg() != nil && cf.Pkg().Path() == "reflect" {
											if rv := callRecv(call); rv != nil {
												ls2, _ := phiLeaves(rv)
												for _, l2 := range ls2 {
													if l2.val == ssa.Value(vo) {
														okEdge = true
													}
												}
											}
										}
									}
								}
							}
						}
						if !okEdge {
							all = false
						}
					}
					if all {
						ok2 = true
					}
				}
				r.check("C03.RVALID", fmt.Sprintf("%s: reflect Value.%s #%d on ValueOf(%s) only when valid", fnName(fn), f.Name(), k, shortPath(vpath(x))), ci.Pos(), ok2,
					"reflect.ValueOf of a nil interface is the zero Value and this method panics on it: a null or omitted value reaching this point takes the process down")
			}
		}
	}
	r.floor("C03.RVALID", "uses of reflect.ValueOf results with methods that panic on the zero Value", n, 1)
}

func c03Reflect(c *Ctx, r *Report) {
	c03RValid(c, r)
	c03RIface(c, r)
	c03TypedNil(c, r)
	a := c.anchors()
	if a.reflArgs == nil || a.reflectRes == nil {
		r.undecided("C03.REFLECT", "anchor: reflection argument builder", token.NoPos, "not found")
		return
	}
	fn := a.reflArgs
	// arity: a comparison involving NumIn() guards an error return before any append of arguments
	arity := false
	for _, b := range fn.Blocks {
		if len(b.Instrs) == 0 {
			continue
		}
		ifi, ok := b.Instrs[len(b.Instrs)-1].(*ssa.If)
		if !ok {
			continue
		}
		usesNumIn := false
		var walk func(v ssa.Value, d int)
		walk = func(v ssa.Value, d int) {
			if d > 5 || v == nil {
				return
			}
			switch t := v.(type) {
			case *ssa.Call:
				if f := calleeObj(t); f != nil && f.Name() == "NumIn" {
					usesNumIn = true
				}
			case *ssa.BinOp:
				walk(t.X, d+1)
				walk(t.Y, d+1)
			case *ssa.Phi:
				for _, e := range t.Edges {
					walk(e, d+1)
				}
			}
		}
		walk(ifi.Cond, 0)
		if usesNumIn {
			arity = true
		}
	}
	r.check("C03.REFLECT", fnName(fn)+": the method's arity is compared with the declared arguments", fn.Pos(), arity, "reflect.Value.Call panics on too few / too many arguments")
	// each appended argument value (other than the receiver parameter) is Zero(pt), assignable, or converted
	n := 0
	for _, ci := range callsIn(fn) {
		call, ok := ci.(*ssa.Call)
		if !ok || !isBuiltinCall(call, "append") {
			continue
		}
		elems, known := sliceLitElems(call.Call.Args[1])
		if !known {
			continue
		}
		for _, el := range elems {
			if _, isP := el.(*ssa.Parameter); isP {
				continue
			}
			n++
			ls, _ := phiLeaves(el)
			okAll := true
			for _, l := range ls {
				okLeaf := false
				if cl, ok := l.val.(*ssa.Call); ok {
					if f := calleeObj(cl); f != nil && f.Pkg() != nil && f.Pkg().Path() == "reflect" && (f.Name() == "Zero" || f.Name() == "Convert") {
						okLeaf = true
					}
				}
				if !okLeaf && l.pred != nil {
					for _, g := range edgeGuards(l.pred, l.phi.Block()) {
						g = normGuard(g)
						if cl, ok := g.cond.(*ssa.Call); ok && g.val {
							if f := calleeObj(cl); f != nil && f.Name() == "AssignableTo" {
								okLeaf = true
							}
						}
					}
				}
				if !okLeaf {
					okAll = false
				}
			}
			r.check("C03.REFLECT", fmt.Sprintf("%s: reflected argument #%d is the zero value, assignable, or converted", fnName(fn), n), call.Pos(), okAll, "a value of another type is passed to reflect.Value.Call, which panics")
		}
	}
	r.floor("C03.REFLECT", "argument values appended to the reflected call vector", n, 1)
}

// ---- NILMAP --------------------------------------------------------------------------

func c03NilMap(c *Ctx, r *Report) {
	n := 0
	for _, fn := range c.allFns {
		k := 0
		for _, b := range fn.Blocks {
			for _, in := range b.Instrs {
				mu, ok := in.(*ssa.MapUpdate)
				if !ok {
					continue
				}
				ld, ok := mu.Map.(*ssa.UnOp)
				if !ok || ld.Op != token.MUL {
					continue // locals, parameters, fresh maps
				}
				fa, ok := ld.X.(*ssa.FieldAddr)
				if !ok {
					continue
				}
				o, f := fieldOwner(fa.X.Type(), fa.Field)
				n++
				k++
				key := fmt.Sprintf("%s: store into map %s.%s #%d", fnName(fn), o, f, k)
				okInit := provenNonNil(ld, b, 0)
				want := vpath(fa)
				if !okInit {
					// a store of a fresh map into the same field dominates, or an `if m == nil { m = make }` whose join dominates
					for _, b2 := range fn.Blocks {
						for _, in2 := range b2.Instrs {
							st, ok := in2.(*ssa.Store)
							if !ok {
								continue
							}
							if fa2, ok := st.Addr.(*ssa.FieldAddr); !ok || vpath(fa2) != want {
								continue
							}
							if _, isMM := st.Val.(*ssa.MakeMap); !isMM {
								continue
							}
							if b2.Dominates(b) {
								okInit = true
							}
							// conditional initialisation: the nil test's block dominates the update
							for _, g := range blockGuards(b2) {
								ng := normGuard(g)
								if v, eq, ok := nilCmp(ng.cond); ok && eq == ng.val {
									if u, ok := v.(*ssa.UnOp); ok && vpath(u.X) == want && g.at.Block().Dominates(b) {
										okInit = true
									}
								}
							}
						}
					}
				}
				// the object was built in this function with the map initialised (composite literal)
				if !okInit {
					if al := rootAlloc(fa.X); al != nil {
						okInit = true
					}
				}
				// constructor-initialised tables: every composite literal / constructor of the owner initialises the field
				if !okInit && c.fieldAlwaysInitialised(o, f) {
					okInit = true
				}
				r.check("C03.NILMAP", key, mu.Pos(), okInit, "the map held by this field may be nil here: assignment to an entry of a nil map panics")
			}
		}
	}
	r.floor("C03.NILMAP", "stores into maps held by struct fields", n, 6)
}

// fieldAlwaysInitialised: every place in the package that creates a value of the owner type stores a made map into the field
// (constructor discipline), and no function stores nil into it.
func (c *Ctx) fieldAlwaysInitialised(owner, field string) bool {
	created, inited := 0, 0
	for _, fn := range c.allFns {
		for _, b := range fn.Blocks {
			for _, in := range b.Instrs {
				al, ok := in.(*ssa.Alloc)
				if !ok {
					continue
				}
				if nt, isN := al.Type().(*types.Pointer).Elem().(*types.Named); !isN || nt.Obj().Name() != owner {
					continue // cells holding a pointer to the owner are not creations
				}
				created++
				for _, b2 := range fn.Blocks {
					for _, in2 := range b2.Instrs {
						if st, ok := in2.(*ssa.Store); ok {
							if fa, ok := st.Addr.(*ssa.FieldAddr); ok && rootAlloc(fa) == al {
								if o, f := fieldOwner(fa.X.Type(), fa.Field); o == owner && f == field {
									if _, isMM := st.Val.(*ssa.MakeMap); isMM {
										inited++
									}
								}
							}
						}
					}
				}
			}
		}
	}
	return created > 0 && created == inited
}

// ---- DEPTH ----------------------------------------------------------------------------

func c03Depth(c *Ctx, r *Report) {
	a := c.anchors()
	if a.dispatch == nil || a.entry == nil {
		r.undecided("C03.DEPTH", "anchors: type dispatcher / entry", token.NoPos, "not found")
		return
	}
	fn := a.dispatch
	var depthP *ssa.Parameter
	for _, p := range fn.Params {
		if bt, ok := p.Type().Underlying().(*types.Basic); ok && bt.Kind() == types.Int {
			depthP = p
		}
	}
	var guardIf *ssa.If
	for _, b := range fn.Blocks {
		if len(b.Instrs) == 0 {
			continue
		}
		if ifi, ok := b.Instrs[len(b.Instrs)-1].(*ssa.If); ok {
			if v, op, k, ok := intCmp(ifi.Cond); ok && v == ssa.Value(depthP) && ((op == token.LEQ && k == 0) || (op == token.LSS && k == 1)) {
				// the true edge must leave without descending
				guardIf = ifi
			}
		}
	}
	r.check("C03.DEPTH", fnName(fn)+": has an exit on depth <= 0", fn.Pos(), guardIf != nil, "no depth guard")
	if guardIf != nil {
		n := 0
		for _, ci := range callsIn(fn) {
			cal := ci.Common().StaticCallee()
			if cal == nil || !(cal == a.list || cal == a.fieldSels || cal == fn) {
				continue
			}
			n++
			ok := hasGuard(ci.Block(), func(g guard) bool { return g.at == guardIf && !g.val })
			r.check("C03.DEPTH", fmt.Sprintf("%s: descent #%d (%s) happens only with depth > 0", fnName(fn), n, fnName(cal)), ci.Pos(), ok, "the descent is not dominated by the depth guard")
		}
		r.floor("C03.DEPTH", "descents in the type dispatcher", n, 2)
	}
	// entry points pass MaxResolveDepth or a constant
	k := 0
	for _, efn := range []*ssa.Function{a.entry, c.fn("(*Root).AddEvent")} {
		if efn == nil {
			continue
		}
		for _, ci := range callsIn(efn) {
			cal := ci.Common().StaticCallee()
			if cal == nil || !(cal == a.field || cal == a.dispatch) {
				continue
			}
			for i, arg := range ci.Common().Args {
				if i >= len(cal.Params) {
					continue
				}
				if bt, ok := cal.Params[i].Type().Underlying().(*types.Basic); !ok || bt.Kind() != types.Int {
					continue
				}
				k++
				// a constant or MaxResolveDepth, or a choice between such values made before the call
				leaves, _ := phiLeaves(arg)
				okArg := len(leaves) > 0
				for _, lf := range leaves {
					okLeaf := false
					if _, isC := lf.val.(*ssa.Const); isC {
						okLeaf = true
					}
					if u, ok := lf.val.(*ssa.UnOp); ok && u.Op == token.MUL {
						if g, ok := u.X.(*ssa.Global); ok && g.Name() == "MaxResolveDepth" {
							okLeaf = true
						}
					}
					if !okLeaf {
						okArg = false
					}
				}
				r.check("C03.DEPTH", fmt.Sprintf("%s: resolution is entered with a bounded depth (#%d)", fnName(efn), k), ci.Pos(), okArg, "the depth argument is neither MaxResolveDepth nor a constant")
			}
		}
	}
}

// guardedByLen: the block is only reached when idx (possibly through a conversion) is below n, by a comparison with the constant n
// (len of a constant string folds to a constant).
func guardedByLen(b *ssa.BasicBlock, idx ssa.Value, n int64) bool {
	strip := func(v ssa.Value) ssa.Value {
		for {
			cv, ok := v.(*ssa.Convert)
			if !ok {
				return v
			}
			v = cv.X
		}
	}
	want := strip(idx)
	// the lower bound: unsigned, or a rune produced by ranging over a string (never negative)
	nonNeg := false
	if bt, ok := want.Type().Underlying().(*types.Basic); ok && bt.Info()&types.IsUnsigned != 0 {
		nonNeg = true
	}
	if ex, ok := want.(*ssa.Extract); ok && ex.Index == 2 {
		if nx, ok := ex.Tuple.(*ssa.Next); ok && nx.IsString {
			nonNeg = true
		}
	}
	if !nonNeg {
		return false
	}
	return hasGuard(b, func(gd guard) bool {
		bo, ok := gd.cond.(*ssa.BinOp)
		if !ok {
			return false
		}
		kx, xk := bo.X.(*ssa.Const)
		ky, yk := bo.Y.(*ssa.Const)
		switch {
		case xk && !yk && strip(bo.Y) == want && kx.Value != nil:
			// n <= i false, n > i true
			k := kx.Int64()
			return k <= n && ((bo.Op == token.LEQ && !gd.val) || (bo.Op == token.GTR && gd.val))
		case yk && !xk && strip(bo.X) == want && ky.Value != nil:
			k := ky.Int64()
			return k <= n && ((bo.Op == token.LSS && gd.val) || (bo.Op == token.GEQ && !gd.val))
		}
		return false
	})
}

// ---- NILUSE ---------------------------------------------------------------------
//
// C03.NILTYPE accepts a nil stored into a nil-tolerant field on the belief that "every use tests for nil".
// NILUSE checks that belief: a value loaded from such a field is the receiver of an interface method call
// or of a single-result type assertion (both panic on nil) only where a dominating test establishes that it
// is not nil (v != nil, a successful assertion, a type-switch case); handing the value to a function of the
// package moves the obligation to the uses of that parameter (bounded depth).
func c03NilUse(c *Ctx, r *Report) {
	r.rule("C03.NILUSE", "a value loaded from a nil-tolerant field (Inline.Condition) is invoked / hard-asserted only under a dominating non-nil fact; passing it on moves the obligation to the callee's parameter")
	tolerant := map[string]bool{"Inline.Condition": true}
	n := 0
	type use struct {
		in  ssa.Instruction
		how string
	}
	var unguarded func(fn *ssa.Function, v ssa.Value, depth int, seen map[ssa.Value]bool) []use
	unguarded = func(fn *ssa.Function, v ssa.Value, depth int, seen map[ssa.Value]bool) []use {
		if seen[v] || v.Referrers() == nil {
			return nil
		}
		seen[v] = true
		var out []use
		nonNil := func(b *ssa.BasicBlock) bool {
			if provenNonNil(v, b, 0) {
				return true
			}
			for _, f := range assertFacts(b) {
				if f.holds && sameVal(f.x, v) {
					return true
				}
			}
			return len(caseTypes(b, v)) > 0 // inside a type-switch arm on v
		}
		for _, ref := range *v.Referrers() {
			switch t := ref.(type) {
			case *ssa.Phi:
				out = append(out, unguarded(fn, t, depth, seen)...)
			case *ssa.ChangeInterface:
				out = append(out, unguarded(fn, t, depth, seen)...)
			case *ssa.TypeAssert:
				if !t.CommaOk && !nonNil(t.Block()) {
					out = append(out, use{t, "asserted to " + typeStr(t.AssertedType) + " without ok"})
				}
			case ssa.CallInstruction:
				cm := t.Common()
				if cm.IsInvoke() && cm.Value == v {
					if !nonNil(t.Block()) {
						out = append(out, use{t, "method " + cm.Method.Name() + " called on it"})
					}
					continue
				}
				cal := cm.StaticCallee()
				if cal == nil || !c.inPkg(cal) || len(cal.Blocks) == 0 || depth >= 3 {
					continue
				}
				if nonNil(t.Block()) {
					continue
				}
				for i, a := range cm.Args {
					if a == v && i < len(cal.Params) {
						for _, u := range unguarded(cal, cal.Params[i], depth+1, seen) {
							out = append(out, use{u.in, u.how + " (reached through the call at " + c.pos(t.Pos()) + ")"})
						}
					}
				}
			}
		}
		return out
	}
	for _, fn := range c.allFns {
		if !c.inPkg(fn) {
			continue
		}
		k := 0
		for _, b := range fn.Blocks {
			for _, in := range b.Instrs {
				v, ok := in.(ssa.Value)
				if !ok {
					continue
				}
				_, o, f, isLd := loadOfField(v)
				if !isLd || !tolerant[o+"."+f] {
					continue
				}
				n++
				k++
				r.fnSeen(fnName(fn))
				us := unguarded(fn, v, 0, map[ssa.Value]bool{})
				d, pos := "", in.Pos()
				if len(us) > 0 {
					d = us[0].how + " where it may be nil (a spread of an undefined fragment, a definition without a type name, an inline fragment without a condition): nil dereference inside parse / validate / resolve"
					pos = us[0].in.Pos()
				}
				r.check("C03.NILUSE", fmt.Sprintf("%s: use #%d of %s.%s tolerates nil", fnName(fn), k, o, f), pos, len(us) == 0, d)
			}
		}
	}
	r.floor("C03.NILUSE", "loads of nil-tolerant fields", n, 4)
}

// c03GlobalSlice: a prefix cut from a prepared package-level table (`table[:n+1]`) panics when the bound
// exceeds the table. For every slice expression whose operand is a package-level slice/array variable and
// whose high bound is not a constant, the bound is written as base + c and a dominating comparison must
// establish base + c <= len(table): `base <= len - c`, i.e. a guard base < len(table) for c = 1, base <= len for
// c = 0. (`if len(table) < n { fallback }` followed by table[:n+1] leaves n == len unguarded.)
func c03GlobalSlice(c *Ctx, r *Report) {
	n := 0
	for _, fn := range c.allFns {
		if !c.inPkg(fn) {
			continue
		}
		k := 0
		for _, b := range fn.Blocks {
			for _, in := range b.Instrs {
				sl, ok := in.(*ssa.Slice)
				if !ok || sl.High == nil {
					continue
				}
				ld, ok := sl.X.(*ssa.UnOp)
				if !ok {
					continue
				}
				g, ok := ld.X.(*ssa.Global)
				if !ok {
					continue
				}
				if _, isC := sl.High.(*ssa.Const); isC {
					continue
				}
				n++
				k++
				base, cst := sl.High, int64(0)
				if bo, ok := sl.High.(*ssa.BinOp); ok && bo.Op == token.ADD {
					if kc, ok := bo.Y.(*ssa.Const); ok {
						base, cst = bo.X, kc.Int64()
					} else if kc, ok := bo.X.(*ssa.Const); ok {
						base, cst = bo.Y, kc.Int64()
					}
				}
				isLenOfTable := func(v ssa.Value) bool {
					inner, ok := isLenOf(v)
					if !ok {
						return false
					}
					u, ok := inner.(*ssa.UnOp)
					return ok && u.X == ssa.Value(g)
				}
				// strongest established slack d with base <= len - d
				proven := false
				for _, gd := range blockGuards(b) {
					gd = normGuard(gd)
					bo, ok := gd.cond.(*ssa.BinOp)
					if !ok {
						continue
					}
					op := bo.Op
					x, y := bo.X, bo.Y
					if isLenOfTable(x) && sameVal(y, base) {
						x, y = y, x
						op = flipOp(op)
					} else if !(sameVal(x, base) && isLenOfTable(y)) {
						continue
					}
					if !gd.val {
						op = negOp(op)
					}
					// now: base OP len
					switch op {
					case token.LSS: // base < len: base <= len-1
						if cst <= 1 {
							proven = true
						}
					case token.LEQ: // base <= len
						if cst <= 0 {
							proven = true
						}
					}
				}
				r.check("C03.TABLE", fmt.Sprintf("%s: prefix #%d of the package table %s stays inside it", fnName(fn), k, g.Name()), sl.Pos(), proven,
					fmt.Sprintf("the high bound is %s+%d and no dominating comparison establishes that it does not exceed len(%s): for the one value at the edge of the fallback test the slice expression panics with 'slice bounds out of range'", shortPath(vpath(base)), cst, g.Name()))
			}
		}
	}
	r.Notes = append(r.Notes, fmt.Sprintf("C03.TABLE: %d variable-length prefixes of package-level tables", n))
}
