package main

import (
	"fmt"
	"go/types"
	"sort"

	"golang.org/x/tools/go/ssa"
)

// C15.ORDER: reader/writer agreement on the ORDER of the parts of a definition. The SDL grammar fixes the
// order (InputValueDefinition: Name ':' Type DefaultValue? Directives?), the reader consumes the parts in
// that order, so the printer has to emit them in the order the reader stores them, or the printed text is
// not accepted by a fresh root.
//
// Reader side: in each SDL reader function, the points where members of a struct T allocated there are
// stored (field stores, add() calls, helper calls taking &T.member); A is "read before" B iff a store of A
// reaches a store of B in the flow graph and no store of B reaches a store of A.
// Writer side: in (*T).Write (and a function it hands the receiver to), the emission points of a member are
// the calls that take the output writer and a value derived from that member; "emitted before" is defined
// the same way. The rule: no pair read A-before-B is emitted B-before-A.
func c15Order(c *Ctx, r *Report) {
	r.rule("C15.ORDER", "for every pair of members the SDL reader stores in a fixed order (flow-graph reachability between the stores) the printer's emission points (calls taking the writer and a value derived from the member) are not in the opposite order")
	type pt = ssa.Instruction
	// ---- reader side
	readPts := map[string]map[string][]pt{} // T -> member -> points
	for _, fn := range c.allFns {
		recv := fn.Signature.Recv()
		if recv == nil || !c.isNamed(recv.Type(), "sdlParser") {
			continue
		}
		add := func(T, m string, in pt) {
			if readPts[T] == nil {
				readPts[T] = map[string][]pt{}
			}
			readPts[T][m] = append(readPts[T][m], in)
		}
		for _, b := range fn.Blocks {
			for _, in := range b.Instrs {
				switch t := in.(type) {
				case *ssa.Store:
					fa, ok := t.Addr.(*ssa.FieldAddr)
					if !ok {
						continue
					}
					if _, isAlloc := rootValue(fa).(*ssa.Alloc); !isAlloc {
						continue
					}
					if isZeroStore(t.Val) {
						continue
					}
					o, f := fieldOwner(fa.X.Type(), fa.Field)
					if _, isParam := t.Val.(*ssa.Parameter); isParam {
						continue // consumed by the caller, before anything this function reads
					}
					add(rootStructOf(fa), o+"."+f, readPointOf(c, t))
				case ssa.CallInstruction:
					for _, a := range t.Common().Args {
						if fa, ok := a.(*ssa.FieldAddr); ok {
							if _, isAlloc := rootValue(fa).(*ssa.Alloc); isAlloc {
								o, f := fieldOwner(fa.X.Type(), fa.Field)
								add(rootStructOf(fa), o+"."+f, t)
							}
						}
					}
				}
			}
		}
	}
	// ---- writer side
	nPairs := 0
	for _, T := range schemaStructs {
		w := c.fn("(*" + T + ").Write")
		if w == nil || len(readPts[T]) < 2 {
			continue
		}
		emit := map[string][]pt{}
		c15Emissions(c, w, w.Params[0], emit, 0)
		var ms []string
		for m := range readPts[T] {
			if len(emit[m]) > 0 {
				ms = append(ms, m)
			}
		}
		sort.Strings(ms)
		r.fnSeen(fnName(w))
		for _, a := range ms {
			for _, b := range ms {
				if a == b || !ptsBefore(readPts[T][a], readPts[T][b]) {
					continue
				}
				nPairs++
				inverted := ptsBefore(emit[b], emit[a])
				r.check("C15.ORDER", fmt.Sprintf("%s: %s is read before %s and not printed after it", T, a, b), emit[b][0].Pos(), !inverted,
					fmt.Sprintf("the reader takes %s before %s, the printer emits %s first: the printed definition is not accepted by the SDL reader (or reads back as something else)", a, b, b))
			}
		}
	}
	r.floor("C15.ORDER", "ordered member pairs compared between reader and printer", nPairs, 8)
}

func rootValue(v ssa.Value) ssa.Value {
	for i := 0; i < 8; i++ {
		fa, ok := v.(*ssa.FieldAddr)
		if !ok {
			break
		}
		v = fa.X
	}
	return v
}

func isZeroStore(v ssa.Value) bool {
	k, ok := v.(*ssa.Const)
	return ok && k.Value == nil
}

// ptsBefore: some point of as reaches some point of bs and no point of bs reaches a point of as.
func ptsBefore(as, bs []ssa.Instruction) bool {
	fwd, back := false, false
	for _, a := range as {
		for _, b := range bs {
			if a == b {
				continue
			}
			if instrReaches(a, b) {
				fwd = true
			}
			if instrReaches(b, a) {
				back = true
			}
		}
	}
	return fwd && !back
}

// instrReaches: y can execute after x (same function).
func instrReaches(x, y ssa.Instruction) bool {
	bx, by := x.Block(), y.Block()
	if bx == nil || by == nil || bx.Parent() != by.Parent() {
		return false
	}
	if bx == by {
		ix, iy := -1, -1
		for i, in := range bx.Instrs {
			if in == x {
				ix = i
			}
			if in == y {
				iy = i
			}
		}
		if ix < iy {
			return true
		}
		// round a loop
		for _, s := range bx.Succs {
			if s == bx || reachableBlocks(s)[bx] {
				return true
			}
		}
		return false
	}
	for _, s := range bx.Succs {
		if s == by || reachableBlocks(s)[by] {
			return true
		}
	}
	return false
}

// c15Emissions: calls in fn that take an output sink and a value derived from a member of recv.
func c15Emissions(c *Ctx, fn *ssa.Function, recv ssa.Value, emit map[string][]ssa.Instruction, depth int) {
	isSink := func(v ssa.Value) bool {
		t := v.Type()
		if p, ok := t.(*types.Pointer); ok {
			t = p.Elem()
		}
		if n, ok := t.(*types.Named); ok {
			if n.Obj().Name() == "Writer" || n.Obj().Name() == "Buffer" || n.Obj().Name() == "Builder" {
				return true
			}
		}
		return false
	}
	// forward slice per member
	derived := map[ssa.Value]string{}
	var mark func(v ssa.Value, m string)
	mark = func(v ssa.Value, m string) {
		if _, ok := derived[v]; ok {
			return
		}
		derived[v] = m
		refs := v.Referrers()
		if refs == nil {
			return
		}
		for _, ref := range *refs {
			switch t := ref.(type) {
			case *ssa.UnOp, *ssa.Convert, *ssa.ChangeType, *ssa.MakeInterface, *ssa.Slice, *ssa.Phi, *ssa.ChangeInterface, *ssa.Field, *ssa.Index, *ssa.Lookup, *ssa.Extract, *ssa.Range, *ssa.Next, *ssa.TypeAssert:
				mark(t.(ssa.Value), m)
			case *ssa.FieldAddr:
				// a member of the member (Base.N): keep the outer name for embedded structs only
				if _, isStruct := t.Type().(*types.Pointer).Elem().Underlying().(*types.Struct); !isStruct {
					o, f := fieldOwner(t.X.Type(), t.Field)
					mark(t, o+"."+f)
				} else {
					mark(t, m)
				}
			case *ssa.IndexAddr:
				mark(t, m)
			case *ssa.Call:
				// a pure helper (valueString(a.Default), t.Name()): its result carries the member
				hasSink := false
				for _, a := range t.Call.Args {
					if isSink(a) {
						hasSink = true
					}
				}
				if t.Call.IsInvoke() && isSink(t.Call.Value) {
					hasSink = true
				}
				if !hasSink {
					mark(t, m)
				}
			}
		}
	}
	// roots: fields of the receiver
	if recv.Referrers() != nil {
		for _, ref := range *recv.Referrers() {
			if fa, ok := ref.(*ssa.FieldAddr); ok {
				if _, isStruct := fa.Type().(*types.Pointer).Elem().Underlying().(*types.Struct); isStruct {
					// embedded struct (Base): members are its fields
					for _, r2 := range *fa.Referrers() {
						if fa2, ok := r2.(*ssa.FieldAddr); ok {
							o, f := fieldOwner(fa2.X.Type(), fa2.Field)
							mark(fa2, o+"."+f)
						}
					}
					o, f := fieldOwner(fa.X.Type(), fa.Field)
					if f == "fields" || f == "args" || f == "values" {
						mark(fa, o+"."+f)
					}
					continue
				}
				o, f := fieldOwner(fa.X.Type(), fa.Field)
				mark(fa, o+"."+f)
			}
		}
	}
	for _, ci := range callsIn(fn) {
		cm := ci.Common()
		hasSink := cm.IsInvoke() && isSink(cm.Value)
		for _, a := range cm.Args {
			if isSink(a) {
				hasSink = true
			}
		}
		// the receiver handed on as a whole: look inside
		if cal := cm.StaticCallee(); cal != nil && c.inPkg(cal) && depth < 2 {
			for i, a := range cm.Args {
				if a == recv && i < len(cal.Params) {
					sub := map[string][]ssa.Instruction{}
					c15Emissions(c, cal, cal.Params[i], sub, depth+1)
					if depth == 0 && len(sub) > 0 && fn.Name() == "Write" && onlyDelegates(fn, ci) {
						for m, ps := range sub {
							emit[m] = append(emit[m], ps...)
						}
					}
				}
			}
		}
		if !hasSink {
			continue
		}
		for _, a := range cm.Args {
			if m, ok := derived[a]; ok {
				emit[m] = append(emit[m], ci)
			}
		}
	}
}

// onlyDelegates: the Write method does nothing but hand the receiver to one printing function.
func onlyDelegates(fn *ssa.Function, the ssa.CallInstruction) bool {
	n := 0
	for range callsIn(fn) {
		n++
	}
	return n == 1
}

// readPointOf: where the text of the member was consumed: the scanner call that produced the stored value
// (a composite literal stores its members in literal order, whatever the order they were read in), or the
// store itself when the value is not the direct result of a scanner call.
func readPointOf(c *Ctx, st *ssa.Store) ssa.Instruction {
	v := st.Val
	for i := 0; i < 6; i++ {
		switch t := v.(type) {
		case *ssa.Extract:
			v = t.Tuple
			continue
		case *ssa.Convert:
			v = t.X
			continue
		case *ssa.ChangeType:
			v = t.X
			continue
		case *ssa.MakeInterface:
			v = t.X
			continue
		case *ssa.Call:
			if cal := t.Call.StaticCallee(); cal != nil && cal.Signature.Recv() != nil &&
				(c.isNamed(cal.Signature.Recv().Type(), "sdlParser") || c.isNamed(cal.Signature.Recv().Type(), "parser")) {
				return t
			}
		}
		break
	}
	return st
}

// C15.ALLDEFS: the whole-schema printer emits every definition that is not built in. In (*Root).SDL each
// loop over a definition table reaches the element's SDL() under no other in-loop condition than the
// loop's own test, the `full` parameter and the element's Core() answer. Any further predicate on the
// element (a definition "implied" by others, a name pattern) leaves a definition out that a fresh root
// then derives differently or not at all.
func c15AllDefs(c *Ctx, r *Report) {
	r.rule("C15.ALLDEFS", "(*Root).SDL: the emission of a table element is guarded inside the loop only by the range test, the full flag and element.Core()")
	fn := c.fn("(*Root).SDL")
	if fn == nil {
		r.undecided("C15.ALLDEFS", "anchor (*Root).SDL", 0, "not found")
		return
	}
	r.fnSeen(fnName(fn))
	loops := loopsOf(fn)
	n := 0
	for _, ci := range callsIn(fn) {
		cm := ci.Common()
		if !cm.IsInvoke() || cm.Method.Name() != "SDL" {
			continue
		}
		l := innermostLoop(loops, ci.Block())
		if l == nil {
			continue
		}
		n++
		bad := ""
		var walk func(v ssa.Value, d int) string
		walk = func(v ssa.Value, d int) string {
			if d > 6 {
				return shortPath(vpath(v))
			}
			switch t := v.(type) {
			case *ssa.Parameter:
				return ""
			case *ssa.Phi:
				// short-circuit || / &&: every operand must be acceptable
				for _, e := range t.Edges {
					if k, ok := e.(*ssa.Const); ok && k.Value != nil {
						continue
					}
					if w := walk(e, d+1); w != "" {
						return w
					}
				}
				return ""
			case *ssa.UnOp:
				return walk(t.X, d+1)
			case *ssa.Call:
				if t.Call.IsInvoke() && t.Call.Method.Name() == "Core" && sameVal(t.Call.Value, cm.Value) {
					return ""
				}
			}
			if isRangeCond(v) {
				return ""
			}
			return shortPath(vpath(v))
		}
		for _, d := range loopControlDeps(l, ci.Block()) {
			if w := walk(d.ifi.Cond, 0); w != "" {
				bad = w
			}
		}
		r.check("C15.ALLDEFS", fmt.Sprintf("%s: table loop %d prints every definition that is not built in", fnName(fn), n), ci.Pos(), bad == "",
			"a definition is also left out depending on "+bad+": the printed schema lacks it, a fresh root loading the text derives that part by its own defaults (an object named Subscription becomes a root operation type)")
	}
	r.floor("C15.ALLDEFS", "definition table loops in the whole-schema printer", n, 2)
}

// c15Format: text of the schema (descriptions, names, defaults) is data, never a format: in the functions
// reachable from the printers (Write / SDL methods, writeDesc and helpers) every fmt formatting call has a
// constant format string.
func c15Format(c *Ctx, r *Report) {
	r.rule("C15.FORMAT", "every fmt.*printf / Errorf call reachable from the SDL printers has a constant format string")
	var roots []*ssa.Function
	for _, T := range schemaStructs {
		for _, m := range []string{"Write", "SDL"} {
			if fn := c.fn("(*" + T + ")." + m); fn != nil {
				roots = append(roots, fn)
			}
		}
	}
	if fn := c.fn("(*Root).SDL"); fn != nil {
		roots = append(roots, fn)
	}
	if len(roots) == 0 {
		r.undecided("C15.FORMAT", "anchors: printers", 0, "not found")
		return
	}
	reach := c.reachable(roots...)
	var fns []*ssa.Function
	for f := range reach {
		if c.inPkg(f) {
			fns = append(fns, f)
		}
	}
	sort.Slice(fns, func(i, j int) bool { return fnName(fns[i]) < fnName(fns[j]) })
	n := 0
	fmtIdx := map[string]int{"Fprintf": 1, "Sprintf": 0, "Printf": 0, "Errorf": 0, "Fscanf": 1, "Sscanf": 1, "Appendf": 1}
	for _, fn := range fns {
		k := 0
		for _, ci := range callsIn(fn) {
			f := calleeObj(ci)
			if f == nil || f.Pkg() == nil || f.Pkg().Path() != "fmt" {
				continue
			}
			idx, isF := fmtIdx[f.Name()]
			if !isF || idx >= len(ci.Common().Args) {
				continue
			}
			n++
			k++
			_, isC := ci.Common().Args[idx].(*ssa.Const)
			if bo, ok := ci.Common().Args[idx].(*ssa.BinOp); ok && !isC {
				// constant prefix + constant (folded) is a Const already; "%w: "+format with a parameter is a helper's own format
				_ = bo
			}
			r.check("C15.FORMAT", fmt.Sprintf("%s: format #%d of fmt.%s is a constant", fnName(fn), k, f.Name()), ci.Pos(), isC,
				"the format string is computed: text taken from the schema is interpreted as formatting verbs - a description containing % is garbled, one ending in % swallows its closing quote and the printed SDL no longer parses")
		}
	}
	r.check("C15.FORMAT", "printer family examined", 0, true, fmt.Sprintf("%d fmt formatting calls in %d functions reachable from the printers", n, len(fns)))
}

// c15Fresh: the whole-schema printer renders the tables as they are at the time of the call: the string it
// returns is built during the call, not loaded from the Root. A remembered rendering is stale as soon as an
// existing definition is extended, which changes no table length.
func c15Fresh(c *Ctx, r *Report) {
	r.rule("C15.RENDER", "(*Root).SDL returns text built during the call: no returned value is loaded from state of the Root")
	fn := c.fn("(*Root).SDL")
	if fn == nil || len(fn.Params) == 0 {
		r.undecided("C15.RENDER", "anchor (*Root).SDL", 0, "not found")
		return
	}
	recv := fn.Params[0]
	n := 0
	for _, rt := range returnsOf(fn) {
		if len(rt.Results) == 0 {
			continue
		}
		n++
		bad := ""
		seen := map[ssa.Value]bool{}
		var walk func(v ssa.Value, d int)
		walk = func(v ssa.Value, d int) {
			if v == nil || seen[v] || d > 8 {
				return
			}
			seen[v] = true
			switch t := v.(type) {
			case *ssa.Phi:
				for _, e := range t.Edges {
					walk(e, d+1)
				}
			case *ssa.UnOp:
				if rootValueOfLoad(t.X) == ssa.Value(recv) {
					bad = shortPath(vpath(t))
					return
				}
				if al, ok := t.X.(*ssa.Alloc); ok {
					for _, st := range cellStores(al) {
						walk(st.Val, d+1)
					}
					return
				}
				walk(t.X, d+1)
			case *ssa.FieldAddr:
				walk(t.X, d+1)
			case *ssa.Field:
				walk(t.X, d+1)
			}
		}
		walk(resolveCell(rt.Results[0]), 0)
		r.check("C15.RENDER", fmt.Sprintf("%s: return #%d hands out text rendered by this call", fnName(fn), n), rt.Pos(), bad == "",
			"the returned text is "+bad+", remembered from an earlier call: an `extend` (or AddField / AddValue) changes an existing definition without changing what the cache is keyed on, and the printed schema lacks what the root has accepted")
	}
	r.floor("C15.RENDER", "returns of the whole-schema printer", n, 1)
}
