package main

import (
	"fmt"
	"go/ast"
	"go/token"
	"go/types"
	"reflect"
	"sort"
	"strings"

	"golang.org/x/tools/go/ssa"
)

func init() {
	register("C06", checkC06,
		"Path-prefix typestate over every CFG path of the resolver core: (G1) in every element loop of the list resolver each error produced in the iteration receives the list-index prefix exactly once before the iteration ends, with the same SSA value that indexed the source; (G2) in the field resolver every error that reaches a return has received the field's response-key prefix exactly once (errors constructed with the key count as prefixed; the synthetic top-level field is exempt by the depth==MaxResolveDepth test); (G3) the error adder has an arm that recurses over all members of an error group, an arm that carries Extensions of a structured error, and a default arm; (G4) a value returned by a resolver together with an error does not reach the response; (G5) who-may-prefix: key prefixes only in the field resolver, index prefixes only in the list resolver and list coercers, argument-name prefixes only in the argument builder and input coercers, no other kind of path segment anywhere.",
		"That other selected positions keep their values, and exact error multiplicity for arbitrary nestings beyond 'prefixed exactly once per level on every path' - both need runtime values.")
}

func checkC06(c *Ctx, r *Report) {
	r.rule("C06.G1", "list resolver: every error source created inside an element loop has index-prefix count exactly 1 at every back edge and return, and every index prefix in the loop uses the value that indexed the source list")
	r.rule("C06.G2", "field resolver: every error source reaching a return has key-prefix count exactly 1 (constructed-with-key counts as 1; top-level exemption on depth==MaxResolveDepth)")
	r.rule("C06.G3", "error adder: group arm ranges over all members recursively threading the accumulator; structured arm copies Extensions; default arm appends")
	r.rule("C06.G4", "a resolver's value reaches the type dispatcher / the response map only on paths where the error returned with it is nil")
	r.rule("C06.G5", "who-may-prefix table: (kind of path segment) -> functions allowed to add it")
	a := c.anchors()
	if !requireAnchors(r, "C06.G2", a) {
		return
	}
	c06G5(c, r, a)
	c06G2(c, r, a)
	c06G1(c, r, a)
	c06Prefixer(c, r)
	c06NilKinds(c, r)
	c06G3(c, r, a)
	c06G4(c, r, a)
	c06Once(c, r, a)
	c06PerMember(c, r)
	r.rule("C06.ALLSELS", "the selection walker's dispatching loop has no exit other than the exhaustion of the selection list")
	c06AllSels(c, r, a, "C06.ALLSELS")
	importRulesFrom(c, r, "C03", c03Rec, "C06.APPLYONCE", "a fragment is applied to one object once (the visited-set rule of C03.EXPO on the spread -> fragment edge, with the set the caller handed down - a set allocated in the callee is not seen by the sibling selections): applied twice, a failing field inside it yields two entries for one position, or a value next to its error entry", "C03.EXPO")
}

func c06G5(c *Ctx, r *Report, a *Anchors) {
	n := 0
	table := []string{}
	for _, fn := range c.allFns {
		e := newPfxEngine(c, fn)
		ord := map[pfxKind]int{}
		for _, b := range fn.Blocks {
			for _, in := range b.Instrs {
				pc, ok := e.prefix[in]
				if !ok {
					continue
				}
				if fn.Name() == "in" && (recvTypeName(fn.Object().(*types.Func)) == "Errors") {
					if p, isP := pc.arg.(*ssa.Parameter); isP && p == fn.Params[len(fn.Params)-1] {
						continue // Errors.in forwards its own argument to (*Error).in for each member
					}
				}
				n++
				ord[pc.kind]++
				mayAdd := func(fn *ssa.Function, k pfxKind) bool {
					switch k {
					case kKey:
						return fn == a.field
					case kIndex:
						return fn == a.list || fn.Name() == "CoerceIn"
					case kArg:
						return fn == a.formArgs || fn.Name() == "CoerceIn" || c.onlyCalledFrom(fn, "CoerceIn")
					}
					return false
				}
				allowed := mayAdd(fn, pc.kind)
				if par, isP := pc.arg.(*ssa.Parameter); isP && pc.kind == kOther && par.Parent() == fn {
					// the segment is handed in by the caller as an untyped value (an index from the list
					// coercer, a field name from the input coercer): each caller must be allowed to add
					// the kind of segment it hands in
					idx := -1
					for i, q := range fn.Params {
						if q == par {
							idx = i
						}
					}
					sites := 0
					allowed = true
					for _, cf := range c.allFns {
						for _, ci := range callsIn(cf) {
							if ci.Common().StaticCallee() != fn || idx < 0 || idx >= len(ci.Common().Args) {
								continue
							}
							sites++
							if !mayAdd(cf, e.classify(stripIface(ci.Common().Args[idx]))) {
								allowed = false
							}
						}
					}
					if sites == 0 {
						allowed = false
					}
				}
				key := fmt.Sprintf("%s: %s prefix #%d", fnName(fn), kindName[pc.kind], ord[pc.kind])
				table = append(table, key)
				r.check("C06.G5", key, in.Pos(), allowed, fmt.Sprintf("a %s path segment (%s) is added in a function that is not allowed to add that kind: response paths must consist of response keys (field resolver), list indexes (list resolver / list coercer) and argument names (argument builder / input coercer) only", kindName[pc.kind], shortPath(vpath(pc.arg))))
			}
		}
	}
	r.Tables["prefix_call_sites"] = table
	r.floor("C06.G5", "Errors.in / (*Error).in call sites in the package", n, 10)
}

func (c *Ctx) onlyCalledFrom(fn *ssa.Function, methodName string) bool {
	n := c.cg.Nodes[fn]
	if n == nil || len(n.In) == 0 {
		return false
	}
	for _, e := range n.In {
		if e.Caller.Func.Name() != methodName {
			return false
		}
	}
	return true
}

func c06G2(c *Ctx, r *Report, a *Anchors) {
	e := newPfxEngine(c, a.field)
	e.edgeHk = topLevelExemptHook
	worst := map[*pfxSrc]uint8{}
	pos := map[*pfxSrc]token.Pos{}
	e.run(func(ret *ssa.Return, st pfxState) {
		// only sources contained in the returned slice matter
		var retSrcs map[*pfxSrc]bool
		for _, res := range ret.Results {
			if isErrish(res.Type()) {
				retSrcs = e.sourcesOf(res)
			}
		}
		for s, cn := range st {
			if retSrcs != nil && !retSrcs[s] {
				continue
			}
			worst[s] |= cn[kKey]
			if cn[kKey] != 2 {
				pos[s] = ret.Pos()
			}
		}
	}, nil)
	n := 0
	for _, s := range e.order {
		m, ok := worst[s]
		if !ok {
			continue
		}
		n++
		p := s.site.Pos()
		d := fmt.Sprintf("key-prefix count at return is %s; must be exactly 1", cntStr(m))
		if m != 2 {
			d += fmt.Sprintf(" (offending return at %s): the error's path would %s the response key of this field", c.pos(pos[s]), map[bool]string{true: "lack", false: "repeat"}[m&1 != 0])
		}
		r.check("C06.G2", fmt.Sprintf("%s: errors from %s", fnName(a.field), s.desc), p, m == 2, d)
	}
	r.floor("C06.G2", "error sources reaching a return of the field resolver", n, 8)
}

func c06G1(c *Ctx, r *Report, a *Anchors) {
	for _, fn := range []*ssa.Function{a.list} {
		if fn == nil {
			continue
		}
		kind := kIndex
		rule := "C06.G1"
		if fn == a.formArgs {
			kind = kArg
		}
		e := newPfxEngine(c, fn)
		worst := map[*pfxSrc]uint8{}
		retSrcs := map[*pfxSrc]bool{}
		for _, b := range fn.Blocks {
			for _, in := range b.Instrs {
				if rt, ok := in.(*ssa.Return); ok {
					for _, res := range rt.Results {
						if isErrish(res.Type()) {
							for s := range e.sourcesOf(res) {
								retSrcs[s] = true
							}
						}
					}
				}
			}
		}
		e.run(func(ret *ssa.Return, st pfxState) {
			for s, cn := range st {
				if s.block != nil && innermostLoop(e.loops, s.block) != nil {
					worst[s] |= cn[kind]
				}
			}
		}, func(l *loopInfo, latch *ssa.BasicBlock, st pfxState) {
			for s, cn := range st {
				if s.block != nil && l.body[s.block] {
					worst[s] |= cn[kind]
				}
			}
		})
		n := 0
		for _, s := range e.order {
			if s.block == nil || innermostLoop(e.loops, s.block) == nil || !retSrcs[s] {
				continue
			}
			m, ok := worst[s]
			if !ok {
				// created in a loop but never reaches a back edge or return with state: e.g. immediately returned
				continue
			}
			n++
			r.check(rule, fmt.Sprintf("%s: in-loop errors from %s", fnName(fn), s.desc), s.site.Pos(), m == 2,
				fmt.Sprintf("%s-prefix count at the end of the iteration is %s; must be exactly 1: the error's path would %s the position of the element", kindName[kind], cntStr(m), map[bool]string{true: "lack", false: "repeat"}[m&1 != 0]))
		}
		if fn == a.list {
			r.floor(rule, "in-loop error sources in the list resolver", n, 5)
			// index identity
			c06IndexIdentity(c, r, fn, e, a)
		} else {
			r.floor(rule, "in-loop error sources in the argument builder", n, 1)
		}
	}
}

// c06IndexIdentity: every index prefix inside a loop uses the SSA value that indexes the source.
func c06IndexIdentity(c *Ctx, r *Report, fn *ssa.Function, e *pfxEngine, a *Anchors) {
	n := 0
	for li, l := range e.loops {
		// element-index candidates
		var idx []ssa.Value
		for b := range l.body {
			for _, in := range b.Instrs {
				switch t := in.(type) {
				case *ssa.IndexAddr:
					idx = append(idx, t.Index)
				case *ssa.Index:
					idx = append(idx, t.Index)
				case *ssa.Call:
					f := calleeObj(t)
					if f == nil {
						continue
					}
					args := explicitArgs(t)
					if (f.Name() == "Nth" || (f.Name() == "Index" && f.Pkg() != nil && f.Pkg().Path() == "reflect")) && len(args) > 0 {
						idx = append(idx, args[len(args)-1])
					}
				}
			}
		}
		k := 0
		for _, b := range fn.Blocks {
			if !l.body[b] {
				continue
			}
			for _, in := range b.Instrs {
				pc, ok := e.prefix[in]
				if !ok || pc.kind != kIndex {
					continue
				}
				if il := innermostLoop(e.loops, b); il != l {
					continue
				}
				n++
				k++
				same := false
				for _, i := range idx {
					if sameVal(i, pc.arg) {
						same = true
					}
				}
				r.check("C06.G1", fmt.Sprintf("%s: loop %d index prefix #%d uses the element index", fnName(fn), li+1, k), in.Pos(), same,
					fmt.Sprintf("the value given to .in(%s) is not the value that indexes the source list in this loop", shortPath(vpath(pc.arg))))
				// the errors that receive the index are those of the type dispatcher applied to the element
				// type: only the dispatcher re-enters the list resolver for an inner list, which is what gives
				// the members of [[T]] their own inner index
				fromDispatch := pc.recv != nil
				why := ""
				if pc.recv != nil && !isErrSlice(pc.recv.Type()) && !c.isNamed(pc.recv.Type(), "Errors") {
					continue // a single error made from the accessor's failure: it has no inner positions
				}
				if pc.recv != nil {
					leaves, _ := phiLeaves(stripIface(pc.recv))
					for _, lf := range leaves {
						v := lf.val
						if ct, ok := v.(*ssa.ChangeType); ok {
							v = ct.X
						}
						if k, ok := v.(*ssa.Const); ok && k.Value == nil {
							continue
						}
						ex, ok := v.(*ssa.Extract)
						call, ok2 := (ssa.Value)(nil), false
						if ok {
							call, ok2 = ex.Tuple.(*ssa.Call)
						}
						if ok && ok2 && call.(*ssa.Call).Call.StaticCallee() != a.dispatch && delegatesTo(call.(*ssa.Call), a.dispatch) {
							continue // a local helper whose every variant only hands its argument to the dispatcher
						}
						if !ok || !ok2 || call.(*ssa.Call).Call.StaticCallee() != a.dispatch {
							fromDispatch = false
							why = shortPath(vpath(v))
							continue
						}
						// its type argument is the list's element type
						okT := false
						for _, arg := range call.(*ssa.Call).Call.Args {
							if _, o, f, isF := loadOfField(stripIface(arg)); isF && o == "List" && f == "Base" {
								okT = true
							}
						}
						if !okT {
							fromDispatch = false
							why = "the dispatcher is not applied to the list's element type"
						}
					}
				}
				// ... and they are the errors of THIS iteration: the prefixed value does not flow in through a phi at
				// the loop header (a variable that some path of the body leaves as the previous element left it)
				if pc.recv != nil {
					_, phis := phiLeaves(stripIface(pc.recv))
					stale := false
					for ph := range phis {
						if ph.Block() == l.head {
							stale = true
						}
					}
					r.check("C06.G1", fmt.Sprintf("%s: loop %d index prefix #%d prefixes errors made in this iteration", fnName(fn), li+1, k), in.Pos(), !stale,
						"on some path through the loop body the error list that receives the index is still the one the previous element left: those errors, already collected, get a second index and are appended again - one failure is reported twice, under a wrong path")
				}
				r.check("C06.G1", fmt.Sprintf("%s: loop %d index prefix #%d is applied to the errors of the type dispatcher for the element type", fnName(fn), li+1, k), in.Pos(), fromDispatch,
					"the element's errors come from "+why+", not from a static call of the type dispatcher on List.Base: an inner list resolved any other way gets no inner index, so a failing member of [[T]] is reported at [field, i] instead of [field, i, j] and takes its whole row with it")
			}
		}
	}
	r.floor("C06.G1", "index prefix calls inside element loops", n, 5)
}

// c06AdderReturns: every value the error adder returns is acc+1 (one single-element append to the
// accumulator parameter), a result of the adder itself, or the accumulator parameter seen through the
// header phi of a loop (no member in the group).
func c06AdderReturns(fn *ssa.Function) bool {
	var acc *ssa.Parameter
	for _, p := range fn.Params {
		if isErrSlice(p.Type()) {
			acc = p
		}
	}
	if acc == nil {
		return false
	}
	loops := loopsOf(fn)
	isHead := map[*ssa.BasicBlock]bool{}
	for _, l := range loops {
		isHead[l.head] = true
	}
	seen := map[ssa.Value]bool{}
	ok := true
	n := 0
	var walk func(v ssa.Value, viaLoop bool)
	walk = func(v ssa.Value, viaLoop bool) {
		if !ok {
			return
		}
		if v == ssa.Value(acc) {
			if !viaLoop {
				ok = false
			}
			return
		}
		if seen[v] {
			return
		}
		seen[v] = true
		switch t := v.(type) {
		case *ssa.Phi:
			for _, e := range t.Edges {
				walk(e, viaLoop || isHead[t.Block()])
			}
		case *ssa.Call:
			if isBuiltinCall(t, "append") && len(t.Call.Args) == 2 {
				elems, isLit := sliceLitElems(t.Call.Args[1])
				if !isLit || len(elems) != 1 {
					ok = false
					return
				}
				n++
				// what is extended: the parameter, or something that already satisfies the rule
				if t.Call.Args[0] != ssa.Value(acc) {
					walk(t.Call.Args[0], true)
				}
				return
			}
			if t.Call.StaticCallee() == fn {
				return
			}
			ok = false
		default:
			ok = false
		}
	}
	for _, rt := range returnsOf(fn) {
		for _, res := range rt.Results {
			if isErrSlice(res.Type()) {
				walk(res, false)
			}
		}
	}
	return ok && n > 0
}

func c06G3(c *Ctx, r *Report, a *Anchors) {
	fn := a.addError
	obj, _ := fn.Object().(*types.Func)
	fd := c.declOf[obj]
	if fd == nil {
		r.undecided("C06.G3", "error adder: declaration", fn.Pos(), "no syntax")
		return
	}
	info := c.P.TypesInfo
	// parameters
	var accParam, errParam types.Object
	for _, fl := range fd.Type.Params.List {
		for _, nm := range fl.Names {
			o := info.Defs[nm]
			switch {
			case isErrSlice(o.Type()):
				accParam = o
			case isErrorType(o.Type()):
				errParam = o
			}
		}
	}
	groupArm, extArm, defaultArm := false, false, false
	var groupPos, extPos token.Pos
	ast.Inspect(fd.Body, func(n ast.Node) bool {
		switch t := n.(type) {
		case *ast.RangeStmt:
			// for _, e := range es { ea = addError(f, ea, e) }
			xt := info.TypeOf(t.X)
			if xt == nil || !c.isNamed(xt, "Errors") {
				return true
			}
			var elem types.Object
			if id, ok := t.Value.(*ast.Ident); ok {
				elem = info.Defs[id]
			}
			ast.Inspect(t.Body, func(m ast.Node) bool {
				as, ok := m.(*ast.AssignStmt)
				if !ok || len(as.Lhs) != 1 || len(as.Rhs) != 1 {
					return true
				}
				call, ok := as.Rhs[0].(*ast.CallExpr)
				if !ok {
					return true
				}
				lhs, _ := as.Lhs[0].(*ast.Ident)
				if lhs == nil || info.Uses[lhs] != accParam {
					return true
				}
				var callee types.Object
				switch f := call.Fun.(type) {
				case *ast.SelectorExpr:
					callee = info.Uses[f.Sel]
				case *ast.Ident:
					callee = info.Uses[f]
				}
				if callee != obj {
					return true
				}
				usesAcc, usesElem := false, false
				for _, arg := range call.Args {
					if id, ok := arg.(*ast.Ident); ok {
						if info.Uses[id] == accParam {
							usesAcc = true
						}
						if elem != nil && info.Uses[id] == elem {
							usesElem = true
						}
					}
				}
				if usesAcc && usesElem {
					groupArm = true
					groupPos = t.Pos()
				}
				return true
			})
		case *ast.AssignStmt:
			// x.Extensions = y.Extensions
			if len(t.Lhs) == 1 && len(t.Rhs) == 1 {
				l, lok := t.Lhs[0].(*ast.SelectorExpr)
				rr, rok := t.Rhs[0].(*ast.SelectorExpr)
				if lok && rok && l.Sel.Name == "Extensions" && rr.Sel.Name == "Extensions" {
					extArm = true
					extPos = t.Pos()
				}
			}
		case *ast.CaseClause:
			if t.List == nil {
				// default arm must append to the accumulator
				ast.Inspect(t, func(m ast.Node) bool {
					if call, ok := m.(*ast.CallExpr); ok {
						if id, ok := call.Fun.(*ast.Ident); ok && id.Name == "append" && len(call.Args) >= 2 {
							if a0, ok := call.Args[0].(*ast.Ident); ok && info.Uses[a0] == accParam {
								defaultArm = true
							}
						}
					}
					return true
				})
			}
		}
		return true
	})
	_ = errParam
	r.check("C06.G3", fnName(fn)+": group arm ranges over every member and recurses, threading the accumulator", firstPos(groupPos, fd.Pos()), groupArm, "a resolver returning a group of errors must yield one entry per member: no range over the Errors value with a recursive call on each element was found")
	r.check("C06.G3", fnName(fn)+": structured-error arm carries Extensions", firstPos(extPos, fd.Pos()), extArm, "the Extensions of a resolver's *Error must be copied to the reported error")
	if !defaultArm {
		// the same fact read from the value flow, whatever the statement form (switch, if chain, guard
		// clauses): every accumulator the function returns is the parameter plus exactly one append, the
		// result of the recursive call, or the parameter as it comes round the loop over a group
		defaultArm = c06AdderReturns(fn)
	}
	r.check("C06.G3", fnName(fn)+": default arm appends the error", fd.Pos(), defaultArm, "plain errors must be appended in the default arm: some return hands back the accumulator as it came in, outside the loop over a group")
	// each non-group path appends exactly one entry: SSA check - appends to the accumulator outside loops add exactly one element
	n := 0
	for _, b := range fn.Blocks {
		for _, in := range b.Instrs {
			call, ok := in.(*ssa.Call)
			if !ok || !isBuiltinCall(call, "append") || !isErrSlice(call.Type()) {
				continue
			}
			n++
			one := false
			if sl, ok := call.Call.Args[1].(*ssa.Slice); ok {
				if al, ok := sl.X.(*ssa.Alloc); ok {
					if arr, ok := al.Type().(*types.Pointer).Elem().(*types.Array); ok && arr.Len() == 1 {
						one = true
					}
				}
			}
			r.check("C06.G3", fmt.Sprintf("%s: append #%d adds exactly one entry", fnName(fn), n), in.Pos(), one, "each non-group error must yield exactly one entry")
		}
	}
	r.floor("C06.G3", "appends in the error adder", n, 2)
	// the group handed in by the resolver is read, never rewritten: a helper that filters or expands it in
	// place (append into group[:0]) overwrites members that have not been read yet, so one member is lost
	// and another reported twice
	eng := newEffEngine(c)
	eng.run(fn)
	nG := 0
	for _, ci := range callsIn(fn) {
		g := ci.Common().StaticCallee()
		if g == nil || !c.inPkg(g) || g == fn {
			continue
		}
		for i, arg := range ci.Common().Args {
			if !(isErrSlice(arg.Type()) || c.isNamed(arg.Type(), "Errors")) {
				continue
			}
			u, ok := arg.(*ssa.UnOp)
			if !ok {
				continue
			}
			if _, isAl := u.X.(*ssa.Alloc); !isAl {
				continue
			}
			nG++
			sum := eng.sums[g]
			bad := ""
			if sum != nil {
				for _, ef := range sum.effects {
					if writeKinds[ef.kind] && ef.target.kind == rParam && ef.target.idx == i {
						bad = fmt.Sprintf("%s at %s", ef.kind, c.pos(ef.pos))
					}
				}
			}
			r.check("C06.G3", fmt.Sprintf("%s: group handed to %s is not modified", fnName(fn), fnName(g)), ci.Pos(), bad == "",
				"the helper writes into the error group it was given ("+bad+"): members not yet visited are overwritten, so the response has a duplicate entry for one member and none for another")
		}
	}
	_ = nG
}

func firstPos(a, b token.Pos) token.Pos {
	if a.IsValid() {
		return a
	}
	return b
}

// c06G4: value returned with an error must not be used.
func c06G4(c *Ctx, r *Report, a *Anchors) {
	n := 0
	for _, fn := range []*ssa.Function{a.field, a.reflectRes} {
		if fn == nil {
			continue
		}
		ord := 0
		for _, ci := range callsIn(fn) {
			call, ok := ci.(*ssa.Call)
			if !ok || !c.isResolverInvoke(call) {
				continue
			}
			ord++
			n++
			key := fmt.Sprintf("%s: resolver invocation #%d (%s)", fnName(fn), ord, calleeDesc(call))
			// find value and error components
			var val, errv ssa.Value
			if tup, ok := call.Type().(*types.Tuple); ok && tup.Len() == 2 {
				for _, ref := range *call.Referrers() {
					if ex, ok := ref.(*ssa.Extract); ok {
						if ex.Index == 0 {
							val = ex
						} else {
							errv = ex
						}
					}
				}
			}
			if val == nil {
				// reflect.Value.Call: []reflect.Value; handled structurally: every Interface() of element 0 used under the 2-result case must be dropped when element 1 is a non-nil error
				ok, pos, why := c06ReflectPair(call)
				r.check("C06.G4", key, firstPos(pos, call.Pos()), ok, why)
				continue
			}
			if errv == nil {
				r.flag("C06.G4", key, call.Pos(), "the error result of the resolver is discarded")
				continue
			}
			// every use of val that flows onward (phi edge or direct use) must be guarded by errv == nil,
			// or val must be replaced by nil on the err != nil path before any use.
			ok2, why := valueDroppedOnError(val, errv)
			r.check("C06.G4", key, call.Pos(), ok2, why)
		}
	}
	r.floor("C06.G4", "resolver invocations (Resolver, AnyResolver, reflection)", n, 3)
	// output coercion in the type dispatcher: the position is null when the coercion fails
	m := 0
	if fn := a.dispatch; fn != nil {
		for _, ci := range callsIn(fn) {
			call, ok := ci.(*ssa.Call)
			if !ok {
				continue
			}
			if f := calleeObj(call); f == nil || f.Name() != "CoerceOut" {
				continue
			}
			m++
			key := fmt.Sprintf("%s: output coercion #%d yields null on failure", fnName(fn), m)
			val, errv := extractOf(call, 0), extractOf(call, 1)
			switch {
			case errv == nil:
				r.flag("C06.G4", key, call.Pos(), "the coercion error is discarded")
			case val == nil:
				r.check("C06.G4", key, call.Pos(), true, "")
			default:
				ok2, why := valueDroppedOnError(val, errv)
				r.check("C06.G4", key, call.Pos(), ok2, why+": an output coercer may return the unconverted value together with its error")
			}
		}
	}
	r.floor("C06.G4", "output coercions in the type dispatcher", m, 1)
}

func calleeDesc(call *ssa.Call) string {
	if call.Call.IsInvoke() {
		return typeStr(call.Call.Value.Type()) + "." + call.Call.Method.Name()
	}
	if f := calleeObj(call); f != nil {
		return f.FullName()
	}
	return "call"
}

// valueDroppedOnError: at every non-phi use of a value derived (through phis) from val,
// either the use is dominated by err==nil, or the derivation passed a phi that merges nil
// on the err!=nil edge. Implemented as: for each phi P reachable from val, edges carrying val
// (or a derived phi) must be guarded by err == nil OR there must exist a sibling edge carrying
// nil that is guarded by err != nil, and all uses are of such phis.
func valueDroppedOnError(val, errv ssa.Value) (bool, string) {
	type item struct{ v ssa.Value }
	seen := map[ssa.Value]bool{}
	var bad string
	var visit func(v ssa.Value)
	errNilAt := func(b *ssa.BasicBlock, extra []guard) bool {
		for _, g := range append(blockGuards(b), extra...) {
			if guardSaysNil(g, errv) {
				return true
			}
		}
		return false
	}
	visit = func(v ssa.Value) {
		if seen[v] || bad != "" {
			return
		}
		seen[v] = true
		refs := v.Referrers()
		if refs == nil {
			return
		}
		for _, ref := range *refs {
			if _, ok := ref.(*ssa.DebugRef); ok {
				continue
			}
			if p, ok := ref.(*ssa.Phi); ok {
				for i, e := range p.Edges {
					if e != v {
						continue
					}
					pred := p.Block().Preds[i]
					if !errNilAt(pred, edgeGuards(pred, p.Block())) {
						bad = fmt.Sprintf("the resolver's value flows on (phi at block %d) on an edge where the accompanying error may be non-nil", p.Block().Index)
						return
					}
				}
				// beyond a guarded phi the value is clean
				continue
			}
			if !errNilAt(ref.Block(), nil) {
				bad = fmt.Sprintf("the resolver's value is used (%T) where the accompanying error may be non-nil: a resolver returning both a value and an error leaves that value in the response next to the error", ref)
				return
			}
		}
	}
	visit(val)
	if bad != "" {
		return false, bad
	}
	return true, "every onward use of the value is guarded by err == nil"
}

// c06ReflectPair: for mva := method.Call(args): in the two-result arm the value
// mva[0].Interface() must not survive when mva[1] is a non-nil error.
func c06ReflectPair(call *ssa.Call) (bool, token.Pos, string) {
	// find Interface() calls on elements of the result
	var val0 *ssa.Call
	var errExtract ssa.Value
	var val0s []*ssa.Call
	for _, ref := range *call.Referrers() {
		ia, ok := ref.(*ssa.IndexAddr)
		if !ok {
			continue
		}
		k, isC := ia.Index.(*ssa.Const)
		if !isC {
			continue
		}
		idx := k.Int64()
		for _, r2 := range *ia.Referrers() {
			ld, ok := r2.(*ssa.UnOp)
			if !ok {
				continue
			}
			for _, r3 := range *ld.Referrers() {
				c3, ok := r3.(*ssa.Call)
				if !ok {
					continue
				}
				if f := calleeObj(c3); f != nil && f.Name() == "Interface" {
					if idx == 0 {
						val0s = append(val0s, c3)
					} else if idx == 1 {
						// err, _ = mva[1].Interface().(error)
						for _, r4 := range *c3.Referrers() {
							if ta, ok := r4.(*ssa.TypeAssert); ok {
								for _, r5 := range *ta.Referrers() {
									if ex, ok := r5.(*ssa.Extract); ok && ex.Index == 0 {
										errExtract = ex
									}
								}
							}
						}
					}
				}
			}
		}
	}
	if errExtract == nil {
		return false, call.Pos(), "no error result is extracted from the reflected call"
	}
	// the value taken in the same arm as the error extraction
	for _, v := range val0s {
		if v.Block() == errExtract.(*ssa.Extract).Block() || v.Block().Dominates(errExtract.(*ssa.Extract).Block()) && len(val0s) > 1 && v != val0s[0] {
			val0 = v
		}
	}
	if val0 == nil && len(val0s) > 0 {
		val0 = val0s[len(val0s)-1]
	}
	if val0 == nil {
		return false, call.Pos(), "no value result found"
	}
	ok, why := valueDroppedOnError(val0, errExtract)
	return ok, val0.Pos(), why
}

var _ = strings.Contains

// delegatesTo: the call's callee is a closure made in this function (or a phi of such closures) and
// every one of them makes exactly one call, a static call of target, and returns that call's results.
func delegatesTo(call *ssa.Call, target *ssa.Function) bool {
	var fns []*ssa.Function
	leaves, _ := phiLeaves(call.Call.Value)
	for _, lf := range leaves {
		mc, ok := lf.val.(*ssa.MakeClosure)
		if !ok {
			return false
		}
		fn, ok := mc.Fn.(*ssa.Function)
		if !ok {
			return false
		}
		fns = append(fns, fn)
	}
	if len(fns) == 0 {
		return false
	}
	for _, fn := range fns {
		var only *ssa.Call
		n := 0
		for _, ci := range callsIn(fn) {
			n++
			only, _ = ci.(*ssa.Call)
		}
		if n != 1 || only == nil || only.Call.StaticCallee() != target {
			return false
		}
		for _, rt := range returnsOf(fn) {
			for _, res := range rt.Results {
				ex, ok := res.(*ssa.Extract)
				if !ok || ex.Tuple != ssa.Value(only) {
					return false
				}
			}
		}
	}
	return true
}

// c06Prefixer: the path of an error is assembled by prefixing one segment per level while the recursion
// unwinds. The prefixing functions therefore prepend unconditionally: a prefix that is skipped when the
// path already starts with the same segment drops a level whenever two adjacent segments of the true
// path are equal (node{node{..}}, grid[1][1]).
func c06Prefixer(c *Ctx, r *Report) {
	r.rule("C06.PREFIX", "(*Error).in stores append([loc], Path...) into Path on every path to its return; Errors.in calls it for every member that is an *Error")
	in := c.fn("(*Error).in")
	if in == nil {
		r.undecided("C06.PREFIX", "anchor (*Error).in", 0, "not found")
		return
	}
	// every return is dominated by a store to Error.Path whose value is an append starting with a fresh one-element slice holding loc
	var locP *ssa.Parameter
	for _, p := range in.Params {
		if isEmptyIface(p.Type()) {
			locP = p
		}
	}
	// stores that put loc into the path: Path = append([loc], Path...), or Path[0] = loc after shifting
	var stores []*ssa.Store
	for _, b := range in.Blocks {
		for _, ins := range b.Instrs {
			st, ok := ins.(*ssa.Store)
			if !ok {
				continue
			}
			switch ad := st.Addr.(type) {
			case *ssa.FieldAddr:
				if o, f := fieldOwner(ad.X.Type(), ad.Field); o == "Error" && f == "Path" {
					if call, ok := st.Val.(*ssa.Call); ok && isBuiltinCall(call, "append") {
						if els, ok := sliceLitElems(call.Call.Args[0]); ok && len(els) == 1 && stripIface(els[0]) == ssa.Value(locP) {
							stores = append(stores, st)
						}
					}
					// path := make([]interface{}, len(Path)+1); path[0] = loc; copy(path[1:], Path); Path = path
					if ms, ok := st.Val.(*ssa.MakeSlice); ok && ms.Referrers() != nil {
						head, tail := false, false
						for _, ref := range *ms.Referrers() {
							switch t := ref.(type) {
							case *ssa.IndexAddr:
								if k, ok := t.Index.(*ssa.Const); ok && k.Value != nil && k.Int64() == 0 && t.Referrers() != nil {
									for _, r2 := range *t.Referrers() {
										if s2, ok := r2.(*ssa.Store); ok && stripIface(s2.Val) == ssa.Value(locP) && instrDominates(s2, st) {
											head = true
										}
									}
								}
							case *ssa.Slice:
								if k, ok := t.Low.(*ssa.Const); ok && k.Value != nil && k.Int64() == 1 && t.High == nil && t.Referrers() != nil {
									for _, r2 := range *t.Referrers() {
										if cp, ok := r2.(*ssa.Call); ok && isBuiltinCall(cp, "copy") && cp.Call.Args[0] == ssa.Value(t) && instrDominates(cp, st) {
											if _, o2, f2, ok := loadOfField(cp.Call.Args[1]); ok && o2 == "Error" && f2 == "Path" {
												tail = true
											}
										}
									}
								}
							}
						}
						// the new slice is one longer than the old path
						longer := false
						if bo, ok := ms.Len.(*ssa.BinOp); ok && bo.Op == token.ADD {
							for _, pr := range [][2]ssa.Value{{bo.X, bo.Y}, {bo.Y, bo.X}} {
								if k, ok := pr[1].(*ssa.Const); ok && k.Value != nil && k.Int64() == 1 {
									if inner, isLen := isLenOf(pr[0]); isLen {
										if _, o2, f2, ok := loadOfField(inner); ok && o2 == "Error" && f2 == "Path" {
											longer = true
										}
									}
								}
							}
						}
						if head && tail && longer {
							stores = append(stores, st)
						}
					}
				}
			case *ssa.IndexAddr:
				if _, o, f, ok := loadOfField(ad.X); ok && o == "Error" && f == "Path" && stripIface(st.Val) == ssa.Value(locP) {
					if k, ok := ad.Index.(*ssa.Const); ok && k.Value != nil && k.Int64() == 0 {
						stores = append(stores, st)
					}
				}
			}
		}
	}
	okAll := len(stores) > 0
	why := "no store that puts the location at the head of Error.Path"
	for _, rt := range returnsOf(in) {
		dom := false
		for _, st := range stores {
			if st.Block() == rt.Block() || st.Block().Dominates(rt.Block()) {
				dom = true
			}
		}
		if !dom {
			okAll = false
			why = "a return at " + c.pos(rt.Pos()) + " is reached without the location having been put at the head of Path"
		}
	}
	r.check("C06.PREFIX", "(*Error).in prepends the location unconditionally", in.Pos(), okAll, why+": a segment is dropped where the true path repeats a key or an index, so the reported path does not address the failing position")
	// Errors.in: the call of (*Error).in sits in a loop over the receiver and is conditioned only by errors.As
	es := c.fn("(Errors).in")
	if es == nil {
		r.undecided("C06.PREFIX", "anchor (Errors).in", 0, "not found")
		return
	}
	okE := false
	for _, ci := range callsIn(es) {
		if ci.Common().StaticCallee() != in {
			continue
		}
		okE = inLoop(ci.Block())
	}
	r.check("C06.PREFIX", "(Errors).in prefixes every member that carries a path", es.Pos(), okE, "the per-member prefix is not applied in a loop over the group")
}

// c06NilKinds: "the value at the failing position is null" rests on IsNil recognising every nil a resolver can
// return next to its error: a nil pointer, but also a nil map, slice, func, channel or interface. The data-word
// test does; a reflect-based test must cover all nilable kinds.
func c06NilKinds(c *Ctx, r *Report) {
	r.rule("C06.NILKINDS", "IsNil is the data-word test, or applies reflect.Value.IsNil under a kind test that admits Ptr, Map, Slice, Func, Chan, Interface (and UnsafePointer)")
	fn := c.fn("IsNil")
	if fn == nil {
		r.undecided("C06.NILKINDS", "anchor IsNil", 0, "not found")
		return
	}
	usesReflectIsNil := false
	kinds := map[int64]bool{}
	for _, b := range fn.Blocks {
		for _, in := range b.Instrs {
			switch t := in.(type) {
			case *ssa.Call:
				if f := calleeObj(t); f != nil && f.Pkg() != nil && f.Pkg().Path() == "reflect" && f.Name() == "IsNil" {
					usesReflectIsNil = true
				}
			case *ssa.BinOp:
				if t.Op == token.EQL {
					if call, ok := t.X.(*ssa.Call); ok {
						if f := calleeObj(call); f != nil && f.Name() == "Kind" {
							if k, ok := t.Y.(*ssa.Const); ok && k.Value != nil {
								kinds[k.Int64()] = true
							}
						}
					}
				}
			}
		}
	}
	if !usesReflectIsNil {
		r.check("C06.NILKINDS", "IsNil recognises every nilable kind", fn.Pos(), true, "data-word test (no reflect.Value.IsNil)")
		return
	}
	need := map[string]reflect.Kind{"Ptr": reflect.Ptr, "Map": reflect.Map, "Slice": reflect.Slice, "Func": reflect.Func, "Chan": reflect.Chan, "Interface": reflect.Interface}
	var missing []string
	for n, k := range need {
		if !kinds[int64(k)] {
			missing = append(missing, n)
		}
	}
	sort.Strings(missing)
	r.check("C06.NILKINDS", "IsNil recognises every nilable kind", fn.Pos(), len(missing) == 0,
		"the reflect-based test does not admit the kinds "+strings.Join(missing, ", ")+": a typed nil of such a kind returned next to an error is not seen as nil, so the failing position holds an object of nulls instead of null and the fields below it fail again (more than one entry for one failure)")
}
