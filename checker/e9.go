package main

// E9: mode-specialised path enumeration over SSA. A function is explored path by path with some
// parameters (and captured cells) bound to abstract constants: booleans, signs of integers, nil
// errors, byte strings with a known first byte. Branches whose condition evaluates to a constant
// are followed on one side only; branches on an opaque boolean ("atom": the result of a predicate
// call, a flag carried from the previous iteration) fork the path and record the decision, and a
// path never decides one atom both ways. Phi nodes are resolved by the edge the path came along, so
// short-circuit conditions (a && b && c) are evaluated exactly. Small in-package helpers without
// side effects are expanded into alternatives (decisions, result) by the same exploration.
//
// Nothing is executed: this is a finite case analysis over the control-flow graph. It is used by the
// separator rules of C07/C18.

import (
	"fmt"
	"go/token"
	"go/types"
	"sort"
	"strings"

	"golang.org/x/tools/go/ssa"
)

type svKind int

const (
	svTop svKind = iota
	svBool
	svSign
	svNil
	svBytes
	svAtom
	svNonNeg // an integer known to be >= 0
)

type sval struct {
	k    svKind
	b    bool   // svBool: the value; svAtom: negated
	sg   int    // svSign: -1, 0, 1
	str  string // svBytes: known leading bytes
	full bool   // svBytes: str is the whole content
	atom string
}

func (v sval) String() string {
	switch v.k {
	case svBool:
		return fmt.Sprint(v.b)
	case svSign:
		return map[int]string{-1: "<0", 0: "0", 1: ">0"}[v.sg]
	case svNil:
		return "nil"
	case svBytes:
		if v.full {
			return fmt.Sprintf("bytes%q", v.str)
		}
		return fmt.Sprintf("bytes%q…", v.str)
	case svAtom:
		if v.b {
			return "!" + v.atom
		}
		return v.atom
	case svNonNeg:
		return ">=0"
	}
	return "?"
}

type s9frame struct {
	fn      *ssa.Function
	params  map[*ssa.Parameter]sval
	cells   map[ssa.Value]sval   // initial content of captured cells (FreeVar) and local cells (Alloc)
	resolve map[ssa.Value]string // parameter / free variable -> name of the value it stands for in the outermost frame
	headEnv map[ssa.Value]sval   // bindings of phis at the start block
}

type s9state struct {
	env   map[ssa.Value]sval
	cells map[ssa.Value]sval
	lits  map[string]bool
	sep   string // first byte of the first recognised constant write since the start ("" = none)
	seps  []string
}

func (s s9state) clone() s9state {
	n := s9state{env: make(map[ssa.Value]sval, len(s.env)), cells: make(map[ssa.Value]sval, len(s.cells)), lits: make(map[string]bool, len(s.lits)), sep: s.sep}
	for k, v := range s.env {
		n.env[k] = v
	}
	for k, v := range s.cells {
		n.cells[k] = v
	}
	for k, v := range s.lits {
		n.lits[k] = v
	}
	n.seps = append([]string{}, s.seps...)
	return n
}

type s9hooks struct {
	// onCall is told about every call; it returns true to end the path there.
	onCall     func(fr *s9frame, call ssa.CallInstruction, st *s9state) bool
	onReturn   func(fr *s9frame, ret *ssa.Return, st *s9state)
	onBackEdge func(fr *s9frame, from, to *ssa.BasicBlock, st *s9state)
	within     map[*ssa.BasicBlock]bool // explore only these blocks (nil: all)
}

type s9 struct {
	c      *Ctx
	paths  int
	limit  int
	capped bool
	depth  int
	nnMemo map[*ssa.Parameter]int
}

func newS9(c *Ctx) *s9 { return &s9{c: c, limit: 20000} }

type s9alt struct {
	lits map[string]bool
	val  sval
}

func (e *s9) name(fr *s9frame, v ssa.Value) string {
	v = stripIface(v)
	if n, ok := fr.resolve[v]; ok {
		return n
	}
	return v.Name() + "@" + fnName(fr.fn)
}

func signOf(n int64) int {
	switch {
	case n < 0:
		return -1
	case n > 0:
		return 1
	}
	return 0
}

// cmpInts decides a op b for small integers (sign classes compared with the constant 0 are exact).
func cmpInts(op token.Token, a, b int) bool {
	switch op {
	case token.LSS:
		return a < b
	case token.LEQ:
		return a <= b
	case token.GTR:
		return a > b
	case token.GEQ:
		return a >= b
	case token.EQL:
		return a == b
	}
	return a != b
}

func (e *s9) eval(fr *s9frame, st *s9state, v ssa.Value) sval {
	if sv, ok := st.env[v]; ok {
		return sv
	}
	if sv, ok := fr.headEnv[v]; ok {
		return sv
	}
	switch t := v.(type) {
	case *ssa.Const:
		if t.Value == nil {
			if isBasicNonNil(t.Type()) {
				return sval{k: svTop}
			}
			if _, isSl := t.Type().Underlying().(*types.Slice); isSl {
				return sval{k: svBytes, str: "", full: true}
			}
			return sval{k: svNil}
		}
		if bt, ok := t.Type().Underlying().(*types.Basic); ok {
			switch {
			case bt.Info()&types.IsBoolean != 0:
				return sval{k: svBool, b: t.Value.String() == "true"}
			case bt.Info()&types.IsInteger != 0:
				return sval{k: svSign, sg: signOf(t.Int64())}
			case bt.Info()&types.IsString != 0:
				if s, ok := constStr(t); ok {
					return sval{k: svBytes, str: s, full: true}
				}
			}
		}
	case *ssa.Parameter:
		if sv, ok := fr.params[t]; ok && sv.k != svTop {
			return sv
		}
		if isErrorType(t.Type()) {
			return sval{k: svTop}
		}
		if e.nonNegParam(t) {
			return sval{k: svNonNeg}
		}
	case *ssa.UnOp:
		switch t.Op {
		case token.NOT:
			x := e.eval(fr, st, t.X)
			switch x.k {
			case svBool:
				return sval{k: svBool, b: !x.b}
			case svAtom:
				x.b = !x.b
				return x
			}
		case token.MUL:
			if sv, ok := st.cells[t.X]; ok {
				return sv
			}
			if sv, ok := fr.cells[t.X]; ok {
				return sv
			}
			if g, ok := t.X.(*ssa.Global); ok {
				if sv, ok := e.globalInit(g); ok {
					return sv
				}
			}
			// a local that lives in a cell only because a closure captures it, assigned exactly once in this
			// function and nowhere else: its value is that of the assigned expression
			if al, ok := t.X.(*ssa.Alloc); ok && al.Parent() == fr.fn && e.depth < 6 {
				sts := cellStores(al)
				if len(sts) == 1 && sts[0].Parent() == fr.fn {
					e.depth++
					sv := e.eval(fr, st, sts[0].Val)
					e.depth--
					if sv.k != svTop {
						return sv
					}
				}
			}
			if isErrorType(t.Type()) {
				return sval{k: svNil} // fault-free writer: every error cell holds nil
			}
		}
	case *ssa.BinOp:
		x, y := e.eval(fr, st, t.X), e.eval(fr, st, t.Y)
		switch t.Op {
		case token.EQL, token.NEQ:
			if x.k == svNil && y.k == svNil {
				return sval{k: svBool, b: t.Op == token.EQL}
			}
			if x.k == svBool && y.k == svBool {
				return sval{k: svBool, b: (x.b == y.b) == (t.Op == token.EQL)}
			}
		}
		switch t.Op {
		case token.LSS, token.LEQ, token.GTR, token.GEQ, token.EQL, token.NEQ:
			if ky, ok := t.Y.(*ssa.Const); ok && ky.Value != nil && x.k == svSign && y.k == svSign && ky.Int64() == 0 {
				return sval{k: svBool, b: cmpInts(t.Op, x.sg, 0)}
			}
			if kx, ok := t.X.(*ssa.Const); ok && kx.Value != nil && x.k == svSign && y.k == svSign && kx.Int64() == 0 {
				return sval{k: svBool, b: cmpInts(t.Op, 0, y.sg)}
			}
		}
		if t.Op == token.ADD {
			if x.k == svBytes && x.str != "" {
				return sval{k: svBytes, str: x.str}
			}
		}
		if t.Op == token.ADD || t.Op == token.MUL {
			nn := func(v sval) bool { return v.k == svNonNeg || (v.k == svSign && v.sg >= 0) }
			pos := func(v sval) bool { return v.k == svSign && v.sg > 0 }
			switch {
			case t.Op == token.ADD && nn(x) && nn(y) && (pos(x) || pos(y)):
				return sval{k: svSign, sg: 1}
			case t.Op == token.MUL && pos(x) && pos(y):
				return sval{k: svSign, sg: 1}
			case nn(x) && nn(y):
				return sval{k: svNonNeg}
			}
		}
	case *ssa.Phi:
		if sv, ok := fr.headEnv[t]; ok {
			return sv
		}
		return e.outsidePhi(fr, st, t)
	case *ssa.Slice:
		if elems, ok := sliceLitElems(t); ok {
			var sb strings.Builder
			all := true
			for _, el := range elems {
				k, isC := el.(*ssa.Const)
				if !isC || k.Value == nil {
					all = false
					break
				}
				sb.WriteByte(byte(k.Int64()))
			}
			if all {
				return sval{k: svBytes, str: sb.String(), full: true}
			}
			if k, isC := elems[0].(*ssa.Const); isC && k.Value != nil {
				return sval{k: svBytes, str: string([]byte{byte(k.Int64())})}
			}
		}
		// a prefix x[:h] with h > 0 keeps the first byte of x
		if t.Low == nil {
			x := e.eval(fr, st, t.X)
			if x.k == svBytes && x.str != "" {
				if t.High == nil {
					return x
				}
				if h := e.eval(fr, st, t.High); h.k == svSign && h.sg > 0 {
					return sval{k: svBytes, str: x.str[:1]}
				}
			}
		}
	case *ssa.Convert:
		x := e.eval(fr, st, t.X)
		if x.k == svBytes {
			return x
		}
	case *ssa.ChangeType:
		return e.eval(fr, st, t.X)
	case *ssa.MakeInterface:
		return e.eval(fr, st, t.X)
	case *ssa.Extract:
		if isErrorType(t.Type()) {
			return sval{k: svNil}
		}
	case *ssa.Call:
		if b, ok := t.Call.Value.(*ssa.Builtin); ok {
			switch b.Name() {
			case "len":
				x := e.eval(fr, st, t.Call.Args[0])
				if x.k == svBytes {
					if x.str != "" {
						return sval{k: svSign, sg: 1}
					}
					if x.full {
						return sval{k: svSign, sg: 0}
					}
				}
			case "append":
				x := e.eval(fr, st, t.Call.Args[0])
				if x.k == svBytes && x.str != "" {
					return sval{k: svBytes, str: x.str}
				}
			}
			return sval{k: svTop}
		}
		if isErrorType(t.Type()) {
			return sval{k: svNil}
		}
		// a byte-string helper called before the explored region (layout prepared ahead of a loop): when all its
		// alternatives agree on the first byte, that much is known of the result
		if cal := t.Call.StaticCallee(); e.expandable(cal) && e.depth < 4 {
			e.depth++
			alts := e.alternatives(fr, st, t)
			e.depth--
			first := ""
			okAll := len(alts) > 0
			for _, a := range alts {
				if a.val.k != svBytes || a.val.str == "" {
					okAll = false
					break
				}
				if first == "" {
					first = a.val.str[:1]
				} else if first != a.val.str[:1] {
					okAll = false
				}
			}
			if okAll {
				return sval{k: svBytes, str: first}
			}
		}
		if bt, ok := t.Type().Underlying().(*types.Basic); ok && bt.Info()&types.IsBoolean != 0 {
			if cal := t.Call.StaticCallee(); cal != nil && e.c.inPkg(cal) && len(t.Call.Args) == 1 {
				pred := cal.Name()
				if collectionPredicate(cal) {
					pred = "isCollection"
				}
				return sval{k: svAtom, atom: pred + "(" + e.name(fr, t.Call.Args[0]) + ")"}
			}
			return sval{k: svAtom, atom: t.Name() + "@" + fnName(fr.fn)}
		}
	}
	if bt, ok := v.Type().Underlying().(*types.Basic); ok && bt.Info()&types.IsBoolean != 0 {
		return sval{k: svAtom, atom: v.Name() + "@" + fnName(fr.fn)}
	}
	return sval{k: svTop}
}

// outsidePhi evaluates a phi that was not entered along the current path (defined before the start):
// the join of the operands on edges whose dominating guards are not refuted by the bindings.
func (e *s9) outsidePhi(fr *s9frame, st *s9state, p *ssa.Phi) sval {
	if e.depth > 6 {
		return sval{k: svTop}
	}
	e.depth++
	defer func() { e.depth-- }()
	var got []sval
	for i, ed := range p.Edges {
		pred := p.Block().Preds[i]
		feasible := true
		for _, g := range edgeGuards(pred, p.Block()) {
			cv := e.eval(fr, st, g.cond)
			if cv.k == svBool && cv.b != g.val {
				feasible = false
			}
		}
		if feasible {
			got = append(got, e.eval(fr, st, ed))
		}
	}
	if len(got) == 0 {
		return sval{k: svTop}
	}
	for _, g := range got[1:] {
		if g != got[0] {
			return sval{k: svTop}
		}
	}
	return got[0]
}

// collectionPredicate: fn(v interface{}) bool answers true exactly under successful type tests for
// []interface{} and map[string]interface{}.
func collectionPredicate(fn *ssa.Function) bool {
	if len(fn.Params) != 1 || fn.Signature.Results().Len() != 1 || !isEmptyIface(fn.Params[0].Type()) {
		return false
	}
	sawSlice, sawMap := false, false
	for _, rt := range returnsOf(fn) {
		k, ok := rt.Results[0].(*ssa.Const)
		if !ok || k.Value == nil {
			return false
		}
		if k.Value.String() != "true" {
			continue
		}
		cts := caseTypes(rt.Block(), nil)
		if len(cts) == 0 {
			return false
		}
		for _, t := range cts {
			switch u := t.Underlying().(type) {
			case *types.Slice:
				if !isEmptyIface(u.Elem()) {
					return false
				}
				sawSlice = true
			case *types.Map:
				sawMap = true
			default:
				return false
			}
		}
	}
	return sawSlice && sawMap
}

// expandable: a small in-package helper without writer parameter and without stores, whose result the
// paths depend on (a separator chooser): explored into alternatives.
func (e *s9) expandable(cal *ssa.Function) bool {
	if cal == nil || !e.c.inPkg(cal) || len(cal.Blocks) == 0 || len(cal.Blocks) > 40 {
		return false
	}
	res := cal.Signature.Results()
	if res.Len() != 1 {
		return false
	}
	if sl, ok := res.At(0).Type().Underlying().(*types.Slice); !ok || !isByte(sl.Elem()) {
		return false
	}
	for _, b := range cal.Blocks {
		for _, in := range b.Instrs {
			switch t := in.(type) {
			case *ssa.Call:
				if t.Call.IsInvoke() {
					return false
				}
			case *ssa.MapUpdate, *ssa.Go, *ssa.Defer:
				return false
			}
		}
	}
	return true
}

func (e *s9) alternatives(fr *s9frame, st *s9state, call *ssa.Call) []s9alt {
	cal := call.Call.StaticCallee()
	sub := &s9frame{fn: cal, params: map[*ssa.Parameter]sval{}, cells: map[ssa.Value]sval{}, resolve: map[ssa.Value]string{}}
	for i, p := range cal.Params {
		if i < len(call.Call.Args) {
			sub.params[p] = e.eval(fr, st, call.Call.Args[i])
			sub.resolve[p] = e.name(fr, call.Call.Args[i])
		}
	}
	var alts []s9alt
	h := &s9hooks{onReturn: func(f2 *s9frame, ret *ssa.Return, s2 *s9state) {
		lits := map[string]bool{}
		for k, v := range s2.lits {
			lits[k] = v
		}
		alts = append(alts, s9alt{lits, e.eval(f2, s2, ret.Results[0])})
	}}
	start := s9state{env: map[ssa.Value]sval{}, cells: map[ssa.Value]sval{}, lits: map[string]bool{}}
	for k, v := range st.lits {
		start.lits[k] = v
	}
	e.explore(sub, cal.Blocks[0], nil, start, map[*ssa.BasicBlock]bool{}, h)
	return alts
}

// explore walks the paths from the beginning of block b (entered from `from`).
func (e *s9) explore(fr *s9frame, b, from *ssa.BasicBlock, st s9state, onStack map[*ssa.BasicBlock]bool, h *s9hooks) {
	e.paths++
	if e.paths > e.limit {
		e.capped = true
		return
	}
	onStack[b] = true
	defer delete(onStack, b)
	// phis by incoming edge
	if from != nil {
		idx := -1
		for i, p := range b.Preds {
			if p == from {
				idx = i
			}
		}
		var vals []sval
		var phis []*ssa.Phi
		for _, in := range b.Instrs {
			p, ok := in.(*ssa.Phi)
			if !ok {
				break
			}
			phis = append(phis, p)
			if idx >= 0 {
				vals = append(vals, e.eval(fr, &st, p.Edges[idx]))
			} else {
				vals = append(vals, sval{k: svTop})
			}
		}
		for i, p := range phis {
			st.env[p] = vals[i]
		}
	}
	e.run(fr, b, 0, st, onStack, h)
}

func (e *s9) run(fr *s9frame, b *ssa.BasicBlock, start int, st s9state, onStack map[*ssa.BasicBlock]bool, h *s9hooks) {
	for i := start; i < len(b.Instrs); i++ {
		switch t := b.Instrs[i].(type) {
		case *ssa.Store:
			switch t.Addr.(type) {
			case *ssa.Alloc, *ssa.FreeVar:
				st.cells[t.Addr] = e.eval(fr, &st, t.Val)
			}
		case *ssa.Call:
			if h.onCall != nil && h.onCall(fr, t, &st) {
				return
			}
			if cal := t.Call.StaticCallee(); e.expandable(cal) {
				alts := e.alternatives(fr, &st, t)
				if len(alts) > 0 {
					for _, a := range alts {
						s2 := st.clone()
						ok := true
						for k, v := range a.lits {
							if old, has := s2.lits[k]; has && old != v {
								ok = false
							}
							s2.lits[k] = v
						}
						if !ok {
							continue
						}
						s2.env[t] = a.val
						e.run(fr, b, i+1, s2, onStack, h)
					}
					return
				}
			}
		case *ssa.Return:
			if h.onReturn != nil {
				h.onReturn(fr, t, &st)
			}
			return
		case *ssa.If:
			cv := e.eval(fr, &st, t.Cond)
			follow := func(k int, s2 s9state) {
				succ := b.Succs[k]
				if h.within != nil && !h.within[succ] {
					return
				}
				if onStack[succ] {
					if h.onBackEdge != nil {
						h.onBackEdge(fr, b, succ, &s2)
					}
					return
				}
				e.explore(fr, succ, b, s2, onStack, h)
			}
			switch cv.k {
			case svBool:
				if cv.b {
					follow(0, st)
				} else {
					follow(1, st)
				}
			case svAtom:
				if old, has := st.lits[cv.atom]; has {
					if old != cv.b { // atom true (and not negated) or atom false and negated -> condition true
						follow(0, st)
					} else {
						follow(1, st)
					}
					return
				}
				s1 := st.clone()
				s1.lits[cv.atom] = !cv.b
				follow(0, s1)
				s2 := st.clone()
				s2.lits[cv.atom] = cv.b
				follow(1, s2)
			default:
				follow(0, st.clone())
				follow(1, st.clone())
			}
			return
		case *ssa.Jump:
			succ := b.Succs[0]
			if h.within != nil && !h.within[succ] {
				return
			}
			if onStack[succ] {
				if h.onBackEdge != nil {
					h.onBackEdge(fr, b, succ, &st)
				}
				return
			}
			e.explore(fr, succ, b, st, onStack, h)
			return
		case *ssa.Panic:
			return
		}
	}
}

func sortedLits(m map[string]bool) string {
	var ks []string
	for k, v := range m {
		ks = append(ks, fmt.Sprintf("%s=%v", k, v))
	}
	sort.Strings(ks)
	return strings.Join(ks, " ∧ ")
}

// globalInit: the value a package-level variable is given by its initialiser (the single store in the
// package's init function), when no other function of the package stores to it.
func (e *s9) globalInit(g *ssa.Global) (sval, bool) {
	if e.depth > 6 {
		return sval{}, false
	}
	var init *ssa.Store
	for _, fn := range e.c.allFns {
		for _, b := range fn.Blocks {
			for _, in := range b.Instrs {
				if st, ok := in.(*ssa.Store); ok && st.Addr == ssa.Value(g) {
					if fn.Name() != "init" || init != nil {
						return sval{}, false
					}
					init = st
				}
			}
		}
	}
	if init == nil {
		// the synthetic package initialiser is not among the source functions
		if pk := g.Pkg; pk != nil {
			if fn := pk.Func("init"); fn != nil {
				for _, b := range fn.Blocks {
					for _, in := range b.Instrs {
						if st, ok := in.(*ssa.Store); ok && st.Addr == ssa.Value(g) {
							if init != nil {
								return sval{}, false
							}
							init = st
						}
					}
				}
			}
		}
	}
	if init == nil {
		return sval{}, false
	}
	e.depth++
	defer func() { e.depth-- }()
	fr := &s9frame{fn: init.Parent(), params: map[*ssa.Parameter]sval{}, cells: map[ssa.Value]sval{}, resolve: map[ssa.Value]string{}}
	st := &s9state{env: map[ssa.Value]sval{}, cells: map[ssa.Value]sval{}, lits: map[string]bool{}}
	sv := e.eval(fr, st, init.Val)
	return sv, sv.k == svBytes
}

// nonNegParam: an int parameter that is >= 0 by induction over the package's call sites: every call passes a
// non-negative constant, or the caller's own inductively non-negative parameter plus a non-negative constant.
func (e *s9) nonNegParam(p *ssa.Parameter) bool {
	bt, ok := p.Type().Underlying().(*types.Basic)
	if !ok || bt.Info()&types.IsInteger == 0 {
		return false
	}
	if e.nnMemo == nil {
		e.nnMemo = map[*ssa.Parameter]int{}
	}
	switch e.nnMemo[p] {
	case 1:
		return true
	case 2:
		return false
	case 3:
		return true // assumed while proving (induction hypothesis)
	}
	e.nnMemo[p] = 3
	fn := p.Parent()
	idx := -1
	for i, q := range fn.Params {
		if q == p {
			idx = i
		}
	}
	ok = idx >= 0
	sites := 0
	var nonNeg func(v ssa.Value, d int) bool
	nonNeg = func(v ssa.Value, d int) bool {
		if d > 4 {
			return false
		}
		switch t := v.(type) {
		case *ssa.Const:
			return t.Value != nil && t.Int64() >= 0
		case *ssa.Parameter:
			return e.nonNegParam(t)
		case *ssa.BinOp:
			if t.Op == token.ADD || t.Op == token.MUL {
				return nonNeg(t.X, d+1) && nonNeg(t.Y, d+1)
			}
		case *ssa.UnOp:
			// a spilled parameter
			if sp := spilledParam(t); sp != nil {
				return e.nonNegParam(sp)
			}
			if fv, isFV := t.X.(*ssa.FreeVar); isFV {
				if al := cellRoot(fv); al != nil {
					all := true
					for _, st := range cellStores(al) {
						if !nonNeg(st.Val, d+1) {
							all = false
						}
					}
					return all
				}
			}
		}
		return false
	}
	for _, caller := range e.c.allFns {
		for _, ci := range callsIn(caller) {
			if ci.Common().StaticCallee() != fn {
				continue
			}
			sites++
			if idx >= len(ci.Common().Args) || !nonNeg(ci.Common().Args[idx], 0) {
				ok = false
			}
		}
	}
	if fn.Object() != nil && fn.Object().Exported() {
		ok = false // callers outside the package
	}
	if sites == 0 {
		ok = false
	}
	if ok {
		e.nnMemo[p] = 1
	} else {
		e.nnMemo[p] = 2
	}
	return ok
}
