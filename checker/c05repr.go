package main

import (
	"fmt"
	"go/token"
	"sort"
	"strings"

	"golang.org/x/tools/go/ssa"
)

// C05.REPR: "for leaves the representation of the declared scalar": the set of dynamic Go types an output
// coercer can return (result #0, followed through phis, spilled result cells, helper calls and pass-through
// of the argument under the case of a type switch) is contained in the representation set of its scalar.
// A coercer that returns text for some magnitudes of a number puts a string at a position declared Int64.
var scalarRepr = map[string][]string{
	"intScalar":     {"int32"},
	"int64Scalar":   {"int64"},
	"floatScalar":   {"float32"},
	"float64Scalar": {"float64"},
	"stringScalar":  {"string"},
	"booleanScalar": {"bool"},
	"idScalar":      {"string"},
	"timeScalar":    {"string"},
}

func c05Repr(c *Ctx, r *Report) {
	r.rule("C05.REPR", "dynamic types returned by each built-in scalar's CoerceOut ⊆ the scalar's representation set (frozen table)")
	r.Tables["scalar_representation"] = scalarRepr
	n := 0
	var names []string
	for k := range scalarRepr {
		names = append(names, k)
	}
	sort.Strings(names)
	for _, sc := range names {
		fn := c.fn("(*" + sc + ").CoerceOut")
		if fn == nil {
			continue
		}
		n++
		r.fnSeen(fnName(fn))
		got := map[string]token.Pos{}
		resultTypes(c, fn, 0, got, map[ssa.Value]bool{})
		allowed := map[string]bool{"nil": true}
		for _, a := range scalarRepr[sc] {
			allowed[a] = true
		}
		var bad []string
		var pos token.Pos
		var all []string
		for t, p := range got {
			all = append(all, t)
			if !allowed[t] {
				bad = append(bad, t)
				pos = p
			}
		}
		sort.Strings(bad)
		sort.Strings(all)
		r.check("C05.REPR", fmt.Sprintf("%s: returns only %s (or nil)", fnName(fn), strings.Join(scalarRepr[sc], " / ")), firstPos(pos, fn.Pos()), len(bad) == 0,
			fmt.Sprintf("the coercer can also return %s (all: %s): a position declared with this scalar then holds a value of another representation, for some inputs only", strings.Join(bad, ", "), strings.Join(all, ", ")))
	}
	r.floor("C05.REPR", "built-in scalar output coercers", n, 6)
}

// resultTypes collects the dynamic types that can be returned as result #idx of fn.
func resultTypes(c *Ctx, fn *ssa.Function, idx int, out map[string]token.Pos, seen map[ssa.Value]bool) {
	errPhi := map[*ssa.BasicBlock]*ssa.Phi{}
	edgeTo := map[ssa.Value]*ssa.BasicBlock{}
	var curErr ssa.Value // the error returned by the return whose value is being walked
	var walk func(v ssa.Value, at *ssa.BasicBlock, depth int)
	walk = func(v ssa.Value, at *ssa.BasicBlock, depth int) {
		if v == nil || depth > 10 {
			return
		}
		key := v
		if seen[key] {
			return
		}
		seen[key] = true
		switch t := v.(type) {
		case *ssa.Const:
			if t.Value == nil {
				out["nil"] = token.NoPos
			} else {
				out[typeStr(t.Type())] = t.Pos()
			}
		case *ssa.MakeInterface:
			out[typeStr(t.X.Type())] = t.Pos()
		case *ssa.Phi:
			for i, e := range t.Edges {
				// a value that comes back together with a non-nil error is dropped by the caller (C05.NILERR):
				// skip the edges on which the error result of the same return is known to be non-nil
				if ep := errPhi[t.Block()]; ep != nil && i < len(ep.Edges) && edgeErrNonNil(c, ep.Edges[i], t.Block().Preds[i], t.Block()) {
					continue
				}
				// facts on the edge itself: the value is nil there, or the error returned with it is not
				skip := false
				for _, g := range edgeGuards(t.Block().Preds[i], t.Block()) {
					g = normGuard(g)
					if guardSaysNil(g, e) {
						out["nil"] = token.NoPos
						skip = true
					}
					if curErr != nil && guardSaysNonNil(g, curErr) {
						skip = true
					}
				}
				if skip {
					continue
				}
				if _, isP := e.(*ssa.Parameter); isP {
					edgeTo[e] = t.Block()
					delete(seen, e) // the parameter is judged per edge
				}
				walk(e, t.Block().Preds[i], depth+1)
			}
		case *ssa.UnOp:
			if al, ok := t.X.(*ssa.Alloc); ok && t.Op == token.MUL {
				for _, st := range cellStores(al) {
					walk(st.Val, st.Block(), depth+1)
				}
				return
			}
			out["?"+shortPath(vpath(v))] = t.Pos()
		case *ssa.Parameter:
			// the argument itself: its dynamic type under the cases that lead here
			if at != nil && hasGuard(at, func(g guard) bool { return guardSaysNil(g, t) }) {
				out["nil"] = token.NoPos
				return
			}
			// the value arrives on the branch edge of `if v != nil`: the edge itself says nil
			if at != nil && edgeTo[v] != nil {
				for _, g := range edgeGuards(at, edgeTo[v]) {
					if guardSaysNil(g, t) {
						out["nil"] = token.NoPos
						return
					}
				}
			}
			ts := caseTypes(at, t)
			if len(ts) == 0 {
				out["the argument as it is"] = t.Pos()
				return
			}
			for _, ct := range ts {
				out[typeStr(ct)] = t.Pos()
			}
		case *ssa.Extract:
			if call, ok := t.Tuple.(*ssa.Call); ok {
				if cal := call.Call.StaticCallee(); cal != nil && c.inPkg(cal) && len(cal.Blocks) > 0 {
					for _, rt := range returnsOf(cal) {
						if t.Index < len(rt.Results) {
							walkFn := rt.Results[t.Index]
							sub := map[ssa.Value]bool{}
							_ = sub
							resultTypesOf(c, cal, walkFn, rt.Block(), out, seen, depth+1)
						}
					}
					return
				}
			}
			out["?"+shortPath(vpath(v))] = t.Pos()
		case *ssa.Call:
			if cal := t.Call.StaticCallee(); cal != nil && c.inPkg(cal) && len(cal.Blocks) > 0 {
				for _, rt := range returnsOf(cal) {
					if len(rt.Results) > 0 {
						resultTypesOf(c, cal, rt.Results[0], rt.Block(), out, seen, depth+1)
					}
				}
				return
			}
			out["?"+shortPath(vpath(v))] = t.Pos()
		default:
			if isEmptyIface(v.Type()) {
				out["?"+shortPath(vpath(v))] = v.Pos()
			} else {
				out[typeStr(v.Type())] = v.Pos()
			}
		}
	}
	for _, rt := range returnsOf(fn) {
		if idx < len(rt.Results) {
			curErr = nil
			if len(rt.Results) == 2 {
				if ep, ok := rt.Results[1].(*ssa.Phi); ok {
					errPhi[ep.Block()] = ep
				}
				if isErrorType(rt.Results[1].Type()) {
					curErr = rt.Results[1]
				}
			}
			walk(rt.Results[idx], rt.Block(), 0)
		}
	}
}

// edgeErrNonNil: the error value carried on this edge is known not to be nil: a tested value on its non-nil
// branch, or the result of a constructor that never returns nil.
func edgeErrNonNil(c *Ctx, e ssa.Value, pred, succ *ssa.BasicBlock) bool {
	if isNilConst(e) {
		return false
	}
	if hasGuard(pred, func(g guard) bool { return guardSaysNonNil(g, e) }) {
		return true
	}
	if succ != nil {
		for _, g := range edgeGuards(pred, succ) {
			if guardSaysNonNil(normGuard(g), e) {
				return true
			}
		}
	}
	if call, ok := e.(*ssa.Call); ok {
		if f := calleeObj(call); f != nil && f.Pkg() != nil {
			if f.Pkg().Path() == "fmt" && f.Name() == "Errorf" || f.Pkg().Path() == "errors" && f.Name() == "New" {
				return true
			}
		}
		if cal := call.Call.StaticCallee(); cal != nil && c.inPkg(cal) && len(cal.Blocks) > 0 {
			all := true
			for _, rt := range returnsOf(cal) {
				for _, res := range rt.Results {
					if isErrorType(res.Type()) && !edgeErrNonNil(c, res, rt.Block(), nil) {
						all = false
					}
				}
			}
			return all
		}
	}
	if mi, ok := e.(*ssa.MakeInterface); ok {
		_, isAlloc := mi.X.(*ssa.Alloc)
		return isAlloc
	}
	return false
}

func resultTypesOf(c *Ctx, fn *ssa.Function, v ssa.Value, at *ssa.BasicBlock, out map[string]token.Pos, seen map[ssa.Value]bool, depth int) {
	// a small re-entry: collect through the same walker by treating v as a returned value of fn
	tmp := map[string]token.Pos{}
	var walk func(v ssa.Value, at *ssa.BasicBlock, d int)
	walk = func(v ssa.Value, at *ssa.BasicBlock, d int) {
		if v == nil || d > 10 || seen[v] {
			return
		}
		seen[v] = true
		switch t := v.(type) {
		case *ssa.Const:
			if t.Value == nil {
				tmp["nil"] = token.NoPos
			} else {
				tmp[typeStr(t.Type())] = t.Pos()
			}
		case *ssa.MakeInterface:
			tmp[typeStr(t.X.Type())] = t.Pos()
		case *ssa.Phi:
			for i, e := range t.Edges {
				walk(e, t.Block().Preds[i], d+1)
			}
		case *ssa.UnOp:
			if al, ok := t.X.(*ssa.Alloc); ok && t.Op == token.MUL {
				for _, st := range cellStores(al) {
					walk(st.Val, st.Block(), d+1)
				}
				return
			}
			tmp["?"+shortPath(vpath(v))] = t.Pos()
		case *ssa.Parameter:
			ts := caseTypes(at, t)
			if len(ts) == 0 {
				tmp["the argument as it is"] = t.Pos()
				return
			}
			for _, ct := range ts {
				tmp[typeStr(ct)] = t.Pos()
			}
		default:
			if isEmptyIface(v.Type()) {
				tmp["?"+shortPath(vpath(v))] = v.Pos()
			} else {
				tmp[typeStr(v.Type())] = v.Pos()
			}
		}
	}
	walk(v, at, depth)
	for k, p := range tmp {
		out[k] = p
	}
}
