package main

import (
	"fmt"
	"go/ast"
	"go/constant"
	"go/token"
	"go/types"
	"sort"
	"strings"
	"sync"

	"golang.org/x/tools/go/ssa"
)

func init() {
	register("C17", checkC17,
		"Table agreement and purity of the introspection machinery: (CASES) every field name built into a __ type by its constructor is handled by a case of the Resolve method of every Go type that serves that __ type (frozen serving table: __Type <- Object, Interface, Union, Enum, Input, Scalar, List, NonNull; __Field <- FieldDef; __InputValue <- Arg, InputField; __EnumValue <- EnumValue; __Directive <- Directive; __Schema <- Root); (MAP) each such case yields the struct field it names (frozen case -> field table); (LISTS) every list-valued introspection result is a ListResolver, []interface{} or a natively handled typed slice, so the list resolver never hands library internals to an installed root resolver or to raw reflection order; (PURE) the Resolve methods write nothing reachable from their receivers; (DEPR) fields / enumValues are filtered by deprecation exactly when includeDeprecated is not true, in every type that has them; (NULL) __type of an unknown name stores nil; precedence of schema nodes over an installed root resolver is C02.PREC.",
		"Equality of the introspection answer with an independent reading of the SDL (values).")
}

type servingEntry struct {
	uu      string
	ctor    string
	servers []string
}

var servingTable = []servingEntry{
	{"__Type", "newUuType", []string{"Object", "Interface", "Union", "Enum", "Input", "Scalar", "List", "NonNull"}},
	{"__Field", "newUuField", []string{"FieldDef"}},
	{"__InputValue", "newUuInputValue", []string{"Arg", "InputField"}},
	{"__EnumValue", "newUuEnumValue", []string{"EnumValue"}},
	{"__Directive", "newUuDirective", []string{"Directive"}},
	{"__Schema", "newUuSchema", []string{"Root"}},
}

// case -> acceptable sources (selector / method names, or "nil" for kinds without that member)
// rootOpConst: __Schema field -> the OpType constant its root type is registered under.
var rootOpConst = map[string]string{"queryType": "OpQuery", "mutationType": "OpMutation", "subscriptionType": "OpSubscription"}

var caseFieldTable = map[string][]string{
	"name":              {"N", "Name", "Value"},
	"description":       {"Desc", "Description"},
	"args":              {"args"},
	"type":              {"Type"},
	"defaultValue":      {"Default"},
	"ofType":            {"Base"},
	"interfaces":        {"Interfaces"},
	"fields":            {"fields"},
	"enumValues":        {"values"},
	"inputFields":       {"fields"},
	"possibleTypes":     {"Members", "possibleTypes", "Interfaces"},
	"kind":              {"Locate", "\"LIST\"", "\"NON_NULL\""},
	"locations":         {"On"},
	"isDeprecated":      {"Dirs", "Directives", "isDeprecated"},
	"deprecationReason": {"Dirs", "Directives"},
	"types":             {"types"},
	"directives":        {"dirs"},
	"queryType":         {"schema"},
	"mutationType":      {"schema"},
	"subscriptionType":  {"schema"},
}

func (c *Ctx) methodDecl(recv, name string) (*ast.FuncDecl, *types.Func) {
	n := c.named(recv)
	if n == nil {
		return nil, nil
	}
	obj, _, _ := types.LookupFieldOrMethod(types.NewPointer(n), true, c.P.Types, name)
	f, _ := obj.(*types.Func)
	if f == nil {
		return nil, nil
	}
	return c.declOf[f], f
}

func (c *Ctx) constString(e ast.Expr) (string, bool) {
	tv, ok := c.P.TypesInfo.Types[e]
	if !ok || tv.Value == nil || tv.Value.Kind() != constant.String {
		return "", false
	}
	return constant.StringVal(tv.Value), true
}

// builtinFieldNames extracts the N of every FieldDef composite literal in a constructor.
func (c *Ctx) builtinFieldNames(ctor string) (names []string, listValued map[string]bool, pos token.Pos) {
	listValued = map[string]bool{}
	fd, _ := c.methodDecl("Root", ctor)
	if fd == nil {
		return nil, nil, token.NoPos
	}
	pos = fd.Pos()
	seen := map[string]bool{}
	ast.Inspect(fd.Body, func(n ast.Node) bool {
		cl, ok := n.(*ast.CompositeLit)
		if !ok {
			return true
		}
		t := c.P.TypesInfo.TypeOf(cl)
		if t == nil || !c.isNamed(t, "FieldDef") {
			return true
		}
		name := ""
		isList := false
		for _, el := range cl.Elts {
			kv, ok := el.(*ast.KeyValueExpr)
			if !ok {
				continue
			}
			k, _ := kv.Key.(*ast.Ident)
			if k == nil {
				continue
			}
			switch k.Name {
			case "Base":
				if bl, ok := kv.Value.(*ast.CompositeLit); ok {
					for _, be := range bl.Elts {
						if bkv, ok := be.(*ast.KeyValueExpr); ok {
							if bk, _ := bkv.Key.(*ast.Ident); bk != nil && bk.Name == "N" {
								if s, ok := c.constString(bkv.Value); ok {
									name = s
								}
							}
						}
					}
				}
			case "Type":
				// list valued when the type expression contains a List literal
				ast.Inspect(kv.Value, func(m ast.Node) bool {
					if l, ok := m.(*ast.CompositeLit); ok {
						if lt := c.P.TypesInfo.TypeOf(l); lt != nil && c.isNamed(lt, "List") {
							isList = true
						}
					}
					if id, ok := m.(*ast.Ident); ok && id.Name == "typeList" {
						isList = true
					}
					return true
				})
			}
		}
		if name != "" && !seen[name] {
			seen[name] = true
			names = append(names, name)
			if isList {
				listValued[name] = true
			}
		}
		return true
	})
	sort.Strings(names)
	return
}

type caseInfo struct {
	clause *ast.CaseClause
	names  []string
}

// resolveCases: the case clauses of `switch field.Name` in a Resolve method.
func (c *Ctx) resolveCases(fd *ast.FuncDecl) (cases map[string]*ast.CaseClause, hasDefault bool) {
	cases = map[string]*ast.CaseClause{}
	ast.Inspect(fd.Body, func(n ast.Node) bool {
		sw, ok := n.(*ast.SwitchStmt)
		if !ok || sw.Tag == nil {
			return true
		}
		sel, ok := sw.Tag.(*ast.SelectorExpr)
		if !ok || sel.Sel.Name != "Name" {
			return true
		}
		if t := c.P.TypesInfo.TypeOf(sel.X); t == nil || !c.isNamed(t, "Field") {
			return true
		}
		for _, st := range sw.Body.List {
			cc := st.(*ast.CaseClause)
			if cc.List == nil {
				hasDefault = true
			}
			for _, e := range cc.List {
				if s, ok := c.constString(e); ok {
					cases[s] = cc
				}
			}
		}
		return false
	})
	// names served through a table: `if v, ok := table[field.Name]; ok { body }` with table a package-level
	// map declared with constant keys and written nowhere else is a clause for each key of the table
	ast.Inspect(fd.Body, func(n ast.Node) bool {
		ifs, ok := n.(*ast.IfStmt)
		if !ok || ifs.Init == nil {
			return true
		}
		as, ok := ifs.Init.(*ast.AssignStmt)
		if !ok || len(as.Lhs) != 2 || len(as.Rhs) != 1 {
			return true
		}
		ix, ok := as.Rhs[0].(*ast.IndexExpr)
		if !ok {
			return true
		}
		sel, ok := ix.Index.(*ast.SelectorExpr)
		if !ok || sel.Sel.Name != "Name" {
			return true
		}
		if t := c.P.TypesInfo.TypeOf(sel.X); t == nil || !c.isNamed(t, "Field") {
			return true
		}
		okID, _ := as.Lhs[1].(*ast.Ident)
		condID, _ := ifs.Cond.(*ast.Ident)
		if okID == nil || condID == nil || c.P.TypesInfo.Uses[condID] == nil || c.P.TypesInfo.Uses[condID] != c.P.TypesInfo.Defs[okID] {
			return true
		}
		tid, ok := ix.X.(*ast.Ident)
		if !ok {
			return true
		}
		for _, k := range c.tableKeys(tid) {
			if _, have := cases[k]; !have {
				cc := &ast.CaseClause{Case: ifs.Pos(), Colon: ifs.Body.Lbrace, Body: ifs.Body.List}
				cases[k] = cc
				tableClauseMu.Lock()
				tableClauseOf[cc] = tid
				tableClauseMu.Unlock()
			}
		}
		return true
	})
	return
}

// tableClauseOf: synthetic clauses made from a table lookup -> the table's identifier.
var tableClauseOf = map[*ast.CaseClause]*ast.Ident{}
var tableClauseMu sync.RWMutex

func tableClause(cc *ast.CaseClause) *ast.Ident {
	tableClauseMu.RLock()
	defer tableClauseMu.RUnlock()
	return tableClauseOf[cc]
}

// tableValueText: the source text of the value the table holds under key.
func (c *Ctx) tableValueText(id *ast.Ident, key string) string {
	info := c.P.TypesInfo
	tv, _ := info.Uses[id].(*types.Var)
	for _, f := range c.P.Syntax {
		for _, d := range f.Decls {
			gd, ok := d.(*ast.GenDecl)
			if !ok || gd.Tok != token.VAR {
				continue
			}
			for _, sp := range gd.Specs {
				vs := sp.(*ast.ValueSpec)
				for i, nm := range vs.Names {
					if tv == nil || info.Defs[nm] != types.Object(tv) || i >= len(vs.Values) {
						continue
					}
					if cl, ok := vs.Values[i].(*ast.CompositeLit); ok {
						for _, el := range cl.Elts {
							if kv, ok := el.(*ast.KeyValueExpr); ok {
								if s, ok := c.constString(kv.Key); ok && s == key {
									return types.ExprString(kv.Value)
								}
							}
						}
					}
				}
			}
		}
	}
	return ""
}

// tableKeys: the constant string keys of a package-level map declared with a literal and written nowhere
// else.
func (c *Ctx) tableKeys(id *ast.Ident) []string {
	info := c.P.TypesInfo
	tv, ok := info.Uses[id].(*types.Var)
	if !ok || tv.Parent() != c.P.Types.Scope() {
		return nil
	}
	g, ok := c.SP.Members[tv.Name()].(*ssa.Global)
	if !ok {
		return nil
	}
	// no MapUpdate on a load of the table, no store to it outside its declaration
	for _, fn := range c.allFns {
		for _, b := range fn.Blocks {
			for _, in := range b.Instrs {
				switch t := in.(type) {
				case *ssa.Store:
					if rootGlobal(t.Addr) == g {
						return nil
					}
				case *ssa.MapUpdate:
					if u, ok := t.Map.(*ssa.UnOp); ok && u.X == ssa.Value(g) {
						return nil
					}
				}
			}
		}
	}
	var out []string
	for _, f := range c.P.Syntax {
		for _, d := range f.Decls {
			gd, ok := d.(*ast.GenDecl)
			if !ok || gd.Tok != token.VAR {
				continue
			}
			for _, sp := range gd.Specs {
				vs := sp.(*ast.ValueSpec)
				for i, nm := range vs.Names {
					if info.Defs[nm] != types.Object(tv) || i >= len(vs.Values) {
						continue
					}
					cl, ok := vs.Values[i].(*ast.CompositeLit)
					if !ok {
						return nil
					}
					for _, el := range cl.Elts {
						kv, ok := el.(*ast.KeyValueExpr)
						if !ok {
							return nil
						}
						s, ok := c.constString(kv.Key)
						if !ok {
							return nil
						}
						out = append(out, s)
					}
				}
			}
		}
	}
	return out
}

func mentions(n ast.Node, names []string) (string, bool) {
	found := ""
	ast.Inspect(n, func(m ast.Node) bool {
		switch t := m.(type) {
		case *ast.SelectorExpr:
			for _, nm := range names {
				if t.Sel.Name == nm {
					found = nm
				}
			}
		case *ast.Ident:
			for _, nm := range names {
				if t.Name == nm {
					found = nm
				}
			}
		case *ast.BasicLit:
			for _, nm := range names {
				if t.Value == nm {
					found = nm
				}
			}
		}
		return found == ""
	})
	return found, found != ""
}

// mentionsDeep: as mentions, and when the node itself does not name the member, the bodies of the unexported
// functions of the package it calls are looked at too (one step): `result = t.possibleTypes()` and the same loop
// written out in the case name the same source.
func (c *Ctx) mentionsDeep(n ast.Node, names []string) (string, bool) {
	if got, ok := mentions(n, names); ok {
		return got, ok
	}
	found := ""
	ast.Inspect(n, func(m ast.Node) bool {
		call, ok := m.(*ast.CallExpr)
		if !ok || found != "" {
			return found == ""
		}
		var id *ast.Ident
		switch t := call.Fun.(type) {
		case *ast.Ident:
			id = t
		case *ast.SelectorExpr:
			id = t.Sel
		}
		if id == nil {
			return true
		}
		fo, ok := c.P.TypesInfo.Uses[id].(*types.Func)
		if !ok || fo.Pkg() != c.P.Types || fo.Exported() {
			return true
		}
		for _, f := range c.P.Syntax {
			for _, d := range f.Decls {
				if fd, ok := d.(*ast.FuncDecl); ok && fd.Body != nil && c.P.TypesInfo.Defs[fd.Name] == types.Object(fo) {
					if got, ok := mentions(fd.Body, names); ok {
						found = got
					}
				}
			}
		}
		return found == ""
	})
	return found, found != ""
}

func checkC17(c *Ctx, r *Report) {
	r.rule("C17.CASES", "built-in field names of each __ type ⊆ case constants of Resolve of every serving Go type")
	r.rule("C17.MAP", "each case yields the struct member it names (frozen table), or nothing at all for members the kind does not have")
	r.rule("C17.LISTS", "list-valued introspection results are ListResolver, []interface{} or natively handled typed slices")
	r.rule("C17.PURE", "no Resolve method of a schema node writes a location reachable from its receiver")
	r.rule("C17.DEPR", "fields/enumValues: unfiltered result only under includeDeprecated == true; otherwise filtered by isDeprecated")
	r.rule("C17.NULL", "__type stores nil when the named type does not exist")
	st := map[string][]string{}
	for _, e := range servingTable {
		st[e.uu] = e.servers
	}
	r.Tables["serving_table"] = st
	r.Tables["case_field_table"] = caseFieldTable
	listRes := c.iface("ListResolver")
	var resolveFns []*ssa.Function
	nCases := 0
	for _, e := range servingTable {
		names, listValued, pos := c.builtinFieldNames(e.ctor)
		if len(names) == 0 {
			r.undecided("C17.CASES", "constructor "+e.ctor+": built-in fields", pos, "no FieldDef literals with constant names found")
			continue
		}
		r.fnSeen("(*Root)." + e.ctor)
		for _, srv := range e.servers {
			fd, fobj := c.methodDecl(srv, "Resolve")
			if fd == nil {
				r.check("C17.CASES", fmt.Sprintf("%s: served by (*%s).Resolve", e.uu, srv), pos, false, "serving type has no Resolve method")
				continue
			}
			fnS := c.prog.FuncValue(fobj)
			if fnS != nil {
				resolveFns = append(resolveFns, fnS)
				r.fnSeen(fnName(fnS))
			}
			cases, _ := c.resolveCases(fd)
			for _, nm := range names {
				nCases++
				cc := cases[nm]
				r.check("C17.CASES", fmt.Sprintf("%s.%s handled by (*%s).Resolve", e.uu, nm, srv), fd.Pos(), cc != nil, "the built-in field has no case in this Resolve: introspection reports null (or an error) for it on nodes of this kind")
				if cc == nil {
					continue
				}
				// MAP
				want := caseFieldTable[nm]
				if want == nil {
					r.undecided("C17.MAP", fmt.Sprintf("(*%s).Resolve case %q", srv, nm), cc.Pos(), "no entry in the case -> field table")
					continue
				}
				if len(cc.Body) == 0 || onlyNilReturn(cc) {
					// member absent for this kind: null result is right only if the struct has no such member
					has := c.hasMember(srv, nm)
					r.check("C17.MAP", fmt.Sprintf("(*%s).Resolve case %q", srv, nm), cc.Pos(), !has, "the case yields null although the node has a member for it")
					continue
				}
				// the first name of a multi-name clause decides; every name must be satisfied by the body
				got, ok := c.mentionsDeep(&ast.BlockStmt{List: cc.Body}, want)
				if opc := rootOpConst[nm]; opc != "" && ok {
					// the root operation type is looked up under the operation's own name
					_, inBody := mentions(&ast.BlockStmt{List: cc.Body}, []string{opc})
					if tid := tableClause(cc); tid != nil {
						inBody = c.tableValueText(tid, nm) == opc
					} else if len(cc.List) > 1 {
						inBody = false
					}
					r.check("C17.MAP", fmt.Sprintf("(*%s).Resolve case %q looks the type up under %s", srv, nm, opc), cc.Pos(), inBody, "the root operation type reported for this field is looked up under another operation's name")
				}
				// a clause shared with another name must not serve this name with the other's source
				shared := ""
				if ok && len(cc.List) > 1 && strings.HasPrefix(got, "\"") {
					for _, e2 := range cc.List {
						if s, _ := c.constString(e2); s != nm && s != "" {
							if nm != "kind" {
								shared = s
							}
						}
					}
				}
				if !ok {
					// maybe the clause serves this name with a constant that belongs to another name
					if lit, isLit := mentions(&ast.BlockStmt{List: cc.Body}, []string{"\"LIST\"", "\"NON_NULL\""}); isLit && nm != "kind" {
						shared = "kind (" + lit + ")"
					}
				}
				r.check("C17.MAP", fmt.Sprintf("(*%s).Resolve case %q", srv, nm), cc.Pos(), ok && shared == "",
					fmt.Sprintf("the case for %q does not yield %s%s", nm, strings.Join(want, " / "), map[bool]string{true: "; it shares its result with case " + shared, false: ""}[shared != ""]))
				// LISTS
				if listValued[nm] && fnS != nil {
					c17Lists(c, r, fnS, srv, nm, listRes)
				}
			}
		}
	}
	r.floor("C17.CASES", "(built-in field, serving type) pairs", nCases, 90)
	c17Pure(c, r, resolveFns)
	c17Total(c, r, resolveFns)
	c17DeprReason(c, r, resolveFns)
	r.rule("C17.ADDED", "in the loader's insertion loop every completed iteration added the definition, or is the reviewed re-declared-scalar exemption")
	c17Added(c, r, "C17.ADDED")
	importRules(c, r, "C16", "C17.EXTREFS", "the references an extension brings along are resolved before it is merged (C16.EXTREFS): the implicit schema object is in no table, so a root operation type added by `extend schema` and resolved only by a later table-wide pass stays a placeholder and __schema.mutationType describes a *Ref", "C16.EXTREFS")
	c17Depr(c, r)
	c17Null(c, r)
	c17Roots(c, r)
	importRules(c, r, "C14", "C17.TABLES", "the tables __schema.types and __schema.directives are read from are never shared with a table that a rejected load wrote into (C14.W3)", "C14.W3")
}

// c17Roots: the root operation types introspection reports are those of the declared schema block;
// the default names (Query, Mutation, Subscription) are used only to build a schema when none was
// declared. Every insertion into Root.schema's fields outside the SDL reader is therefore
// control-dependent on Root.schema having been nil.
func c17Roots(c *Ctx, r *Report) {
	r.rule("C17.ROOTS", "outside the SDL reader, root operation fields are added only to a schema that was not declared: under root.schema == nil, or to a fresh Schema that replaces root.schema on paths where root.schema is nil or marked as implied (the mark is set on schemas made there only); a declared schema block is never completed by default names")
	add := c.fn("(*fieldList).add")
	if add == nil {
		r.undecided("C17.ROOTS", "anchor (*fieldList).add", token.NoPos, "not found")
		return
	}
	// the mark of an implied schema is only ever set on a Schema made outside the reader
	for _, fn := range c.allFns {
		for _, b := range fn.Blocks {
			for _, in := range b.Instrs {
				st, ok := in.(*ssa.Store)
				if !ok {
					continue
				}
				fa, ok := st.Addr.(*ssa.FieldAddr)
				if !ok {
					continue
				}
				if o, f := fieldOwner(fa.X.Type(), fa.Field); o != "Schema" || f != "implied" {
					continue
				}
				fresh := rootAlloc(fa.X) != nil && !isScannerFn(c, fn)
				r.check("C17.ROOTS", fmt.Sprintf("%s: the implied mark is set on a schema made here, outside the reader", fnName(fn)), st.Pos(), fresh, "a schema that was declared (or one made by the reader) is marked as implied: later loads complete it with default root operation names")
			}
		}
	}
	n := 0
	for _, fn := range c.allFns {
		if isScannerFn(c, fn) || fn.Name() == "Extend" {
			continue
		}
		k := 0
		for _, ci := range callsIn(fn) {
			if ci.Common().StaticCallee() != add || len(ci.Common().Args) < 1 {
				continue
			}
			// receiver &X.fields with X reached from a load of Root.schema, or X a Schema made here that is
			// stored into Root.schema
			onSchema := false
			var fresh *ssa.Alloc
			v := ci.Common().Args[0]
			for d := 0; d < 6 && v != nil; d++ {
				switch t := v.(type) {
				case *ssa.FieldAddr:
					v = t.X
				case *ssa.UnOp:
					if _, o, f, ok := loadOfField(t); ok && o == "Root" && f == "schema" {
						onSchema = true
					}
					v = nil
				case *ssa.Alloc:
					if derefNamed(t.Type()) == "Schema" {
						fresh = t
					}
					v = nil
				default:
					v = nil
				}
			}
			var replaces *ssa.Store
			if fresh != nil {
				for _, b := range fn.Blocks {
					for _, in := range b.Instrs {
						if st, ok := in.(*ssa.Store); ok && st.Val == ssa.Value(fresh) {
							if fa, ok := st.Addr.(*ssa.FieldAddr); ok {
								if o, f := fieldOwner(fa.X.Type(), fa.Field); o == "Root" && f == "schema" {
									replaces = st
								}
							}
						}
					}
				}
			}
			if !onSchema && replaces == nil {
				continue
			}
			n++
			k++
			ok := false
			if onSchema {
				ok = hasGuard(ci.Block(), func(g guard) bool {
					x, eq, isN := nilCmp(g.cond)
					if !isN || eq != g.val {
						return false
					}
					_, o, f, isF := loadOfField(x)
					return isF && o == "Root" && f == "schema"
				})
			} else {
				ok = !c17DeclaredReaches(fn, replaces.Block())
				if !ok && fn.Object() != nil && !fn.Object().Exported() {
					// the test may stand at the call sites: no caller reaches its call with a declared schema
					ncall := 0
					ok = true
					for _, caller := range c.allFns {
						for _, cs := range callsIn(caller) {
							if cs.Common().StaticCallee() != fn {
								continue
							}
							ncall++
							if c17DeclaredReaches(caller, cs.Block()) {
								ok = false
							}
						}
					}
					if ncall == 0 {
						ok = false
					}
				}
			}
			r.check("C17.ROOTS", fmt.Sprintf("%s: insertion #%d into the schema's root fields only while building an undeclared schema", fnName(fn), k), ci.Pos(), ok,
				"a root operation field is added to a schema that may have been declared: with `schema { query: Query }` and ordinary types named Mutation or Subscription, introspection reports mutationType / subscriptionType the SDL does not declare")
		}
	}
	r.floor("C17.ROOTS", "insertions into Root.schema's fields outside the reader", n, 1)
}

// c17DeclaredReaches: can control reach target while root.schema is a declared schema? The edges on which
// root.schema is known to be nil, or its implied mark known to be set, are cut; what is still reachable from
// the entry is reachable with a declared schema.
func c17DeclaredReaches(fn *ssa.Function, target *ssa.BasicBlock) bool {
	cut := map[[2]*ssa.BasicBlock]bool{}
	for _, b := range fn.Blocks {
		if len(b.Instrs) == 0 {
			continue
		}
		ifi, ok := b.Instrs[len(b.Instrs)-1].(*ssa.If)
		if !ok {
			continue
		}
		for i, succ := range b.Succs {
			g := normGuard(guard{ifi.Cond, i == 0, ifi})
			if x, eq, isN := nilCmp(g.cond); isN && eq == g.val {
				if _, o, f, ok := loadOfField(x); ok && o == "Root" && f == "schema" {
					cut[[2]*ssa.BasicBlock{b, succ}] = true
				}
			}
			if _, o, f, ok := loadOfField(g.cond); ok && o == "Schema" && f == "implied" && g.val {
				cut[[2]*ssa.BasicBlock{b, succ}] = true
			}
		}
	}
	seen := map[*ssa.BasicBlock]bool{fn.Blocks[0]: true}
	work := []*ssa.BasicBlock{fn.Blocks[0]}
	for len(work) > 0 {
		b := work[len(work)-1]
		work = work[:len(work)-1]
		if b == target {
			return true
		}
		for _, s := range b.Succs {
			if cut[[2]*ssa.BasicBlock{b, s}] || seen[s] {
				continue
			}
			seen[s] = true
			work = append(work, s)
		}
	}
	return false
}

func onlyNilReturn(cc *ast.CaseClause) bool {
	for _, s := range cc.Body {
		rt, ok := s.(*ast.ReturnStmt)
		if !ok {
			return false
		}
		for _, e := range rt.Results {
			if id, ok := e.(*ast.Ident); !ok || id.Name != "nil" {
				return false
			}
		}
	}
	return true
}

// c17Lists: values returned/assigned under the case must be list-resolvable natively.
func c17Lists(c *Ctx, r *Report, fn *ssa.Function, srv, nm string, listRes *types.Interface) {
	// the carriers the list resolver walks itself before consulting an installed root
	// resolver are derived from the list resolver on this run (C02.NATIVE's derivation)
	natSet, anyKind, natSite := c.nativeListSetMemo()
	nativeSlice := func(t types.Type) bool {
		if _, ok := t.Underlying().(*types.Slice); !ok {
			return false
		}
		if natSite == nil || anyKind {
			return true
		}
		for _, u := range natSet {
			if types.Identical(t, u) {
				return true
			}
		}
		return false
	}
	var fieldP *ssa.Parameter
	for _, p := range fn.Params {
		if c.isNamed(p.Type(), "Field") {
			fieldP = p
		}
	}
	for _, b := range fn.Blocks {
		inCase := false
		for _, g := range blockGuards(b) {
			g = normGuard(g)
			if v, lit, eq, ok := strConstCmp(g.cond); ok && eq == g.val && lit == nm {
				if base, _, f, ok := loadOfField(v); ok && f == "Name" && base == ssa.Value(fieldP) {
					inCase = true
				}
			}
		}
		if !inCase {
			continue
		}
		for _, in := range b.Instrs {
			mi, ok := in.(*ssa.MakeInterface)
			if !ok {
				continue
			}
			if it, ok := mi.Type().Underlying().(*types.Interface); !ok || it.NumMethods() != 0 {
				continue
			}
			t := mi.X.Type()
			okT := nativeSlice(t) || (listRes != nil && (types.Implements(t, listRes)))
			if _, isBasic := t.Underlying().(*types.Basic); isBasic {
				continue
			}
			r.check("C17.LISTS", fmt.Sprintf("(*%s).Resolve case %q returns a natively list-resolvable value", srv, nm), mi.Pos(), okT,
				fmt.Sprintf("the list result has type %s, which is neither a ListResolver nor []interface{} nor a natively handled slice: with a root (any) resolver installed the list resolver hands this library value to the application's resolver", typeStr(t)))
		}
	}
}

func isNamedType(t types.Type) bool {
	n, ok := t.(*types.Named)
	return ok && n.Obj().Pkg() != nil
}

func c17Pure(c *Ctx, r *Report, fns []*ssa.Function) {
	eng := newEffEngine(c)
	eng.run(fns...)
	for _, fn := range fns {
		s := eng.sums[fn]
		if s == nil {
			continue
		}
		bad := ""
		var pos token.Pos
		n := 0
		for _, ef := range s.effects {
			if !writeKinds[ef.kind] {
				continue
			}
			n++
			if ef.target.kind == rParam && ef.target.idx == 0 {
				bad = fmt.Sprintf("%s %s (%s) in %s", ef.kind, ef.target, ef.descr(), fnName(ef.fn))
				pos = ef.pos
			}
		}
		r.check("C17.PURE", fmt.Sprintf("%s: writes nothing reachable from the schema node", fnName(fn)), firstPos(pos, fn.Pos()), bad == "", "introspection modifies the schema it describes: "+bad)
	}
	r.floor("C17.PURE", "Resolve methods of schema nodes summarised", len(fns), 14)
}

// c17Depr: in every Resolve that has a fields / enumValues case with members, the unfiltered
// container is returned only under includeDeprecated == true and a filtered one otherwise.
func c17Depr(c *Ctx, r *Report) {
	n := 0
	for _, srv := range []string{"Object", "Interface", "Enum"} {
		fd, _ := c.methodDecl(srv, "Resolve")
		if fd == nil {
			continue
		}
		cases, _ := c.resolveCases(fd)
		for _, nm := range []string{"fields", "enumValues"} {
			cc := cases[nm]
			if cc == nil || len(cc.Body) == 0 {
				continue
			}
			n++
			// must contain an if on getBoolArg(args, includeDeprecated) and a call to isDeprecated in the else part
			hasArgTest, hasFilter := false, false
			ast.Inspect(&ast.BlockStmt{List: cc.Body}, func(m ast.Node) bool {
				switch t := m.(type) {
				case *ast.IfStmt:
					if _, ok := mentions(t.Cond, []string{"getBoolArg"}); !ok {
						return true
					}
					if s, _ := mentionsConst(c, t.Cond, "includeDeprecated"); !s {
						return true
					}
					cond := ast.Expr(t.Cond)
					neg := false
					for {
						if p, ok := cond.(*ast.ParenExpr); ok {
							cond = p.X
							continue
						}
						if u, ok := cond.(*ast.UnaryExpr); ok && u.Op == token.NOT {
							neg = !neg
							cond = u.X
							continue
						}
						break
					}
					if _, isCall := cond.(*ast.CallExpr); !isCall {
						return true
					}
					hasArgTest = true
					var unfiltered, filtered ast.Node = t.Body, t.Else
					if neg {
						unfiltered, filtered = t.Else, t.Body
					}
					if unfiltered == nil || filtered == nil {
						return true
					}
					if _, bad := mentions(unfiltered, []string{"isDeprecated"}); bad {
						return true
					}
					// the filtered branch keeps a member only when it is NOT deprecated
					ast.Inspect(filtered, func(x ast.Node) bool {
						if ifs, ok := x.(*ast.IfStmt); ok {
							if u, ok := ifs.Cond.(*ast.UnaryExpr); ok && u.Op == token.NOT {
								if _, ok := mentions(u.X, []string{"isDeprecated"}); ok {
									if _, adds := mentions(ifs.Body, []string{"add", "append"}); adds {
										hasFilter = true
									}
								}
							}
						}
						return true
					})
				}
				return true
			})
			if !(hasArgTest && hasFilter) {
				// the same fact read from the value flow, whatever the statement form
				if fn := c.fn("(*" + srv + ").Resolve"); fn != nil && c17DeprFlow(c, fn, nm) {
					hasArgTest, hasFilter = true, true
				}
			}
			r.check("C17.DEPR", fmt.Sprintf("(*%s).Resolve case %q honours includeDeprecated", srv, nm), cc.Pos(), hasArgTest && hasFilter,
				"deprecated members are returned regardless of includeDeprecated (the sibling implementations filter them unless includeDeprecated is true)")
		}
	}
	r.floor("C17.DEPR", "fields / enumValues cases with members", n, 3)
}

// c17DeprFlow: in the arm of Resolve for the introspection field caseName, the member table of the
// receiver itself reaches the result only on an edge where getBoolArg(.., "includeDeprecated") is true, and
// the other list that reaches the result is filled by add / append calls that are all under
// isDeprecated() == false.
func c17DeprFlow(c *Ctx, fn *ssa.Function, caseName string) bool {
	if len(fn.Params) == 0 {
		return false
	}
	recv := fn.Params[0]
	inArm := func(gs []guard) bool {
		for _, g := range gs {
			g = normGuard(g)
			if _, lit, eq, ok := strConstCmp(g.cond); ok && lit == caseName && eq == g.val {
				return true
			}
		}
		return false
	}
	isFlag := func(v ssa.Value) bool {
		call, ok := v.(*ssa.Call)
		if !ok {
			return false
		}
		f := calleeObj(call)
		if f == nil || f.Name() != "getBoolArg" {
			return false
		}
		for _, a := range call.Call.Args {
			if s, ok := constStr(a); ok && s == "includeDeprecated" {
				return true
			}
		}
		return false
	}
	notDeprecated := func(b *ssa.BasicBlock) bool {
		return hasGuard(b, func(g guard) bool {
			call, ok := g.cond.(*ssa.Call)
			if !ok || g.val {
				return false
			}
			f := calleeObj(call)
			return f != nil && f.Name() == "isDeprecated"
		})
	}
	unfiltered, filtered, bad := false, false, false
	seen := map[ssa.Value]bool{}
	var visit func(v ssa.Value, gs []guard)
	visit = func(v ssa.Value, gs []guard) {
		v = stripIface(v)
		if seen[v] {
			return
		}
		seen[v] = true
		if phi, ok := v.(*ssa.Phi); ok {
			for i, e := range phi.Edges {
				visit(e, edgeGuards(phi.Block().Preds[i], phi.Block()))
			}
			return
		}
		if !inArm(gs) {
			return
		}
		switch t := v.(type) {
		case *ssa.FieldAddr:
			if t.X != ssa.Value(recv) {
				return
			}
			ok := false
			for _, g := range gs {
				g = normGuard(g)
				if isFlag(g.cond) && g.val {
					ok = true
				}
			}
			if ok {
				unfiltered = true
			} else {
				bad = true
			}
		case *ssa.Alloc:
			// every add to the fresh list is under !isDeprecated()
			n := 0
			for _, ci := range callsIn(fn) {
				f := calleeObj(ci)
				if f == nil || (f.Name() != "add") {
					continue
				}
				if r := callRecv(ci); r == nil || rootAlloc(r) != t {
					continue
				}
				n++
				if !notDeprecated(ci.Block()) {
					bad = true
				}
			}
			if n > 0 {
				filtered = true
			}
		}
	}
	for _, rt := range returnsOf(fn) {
		if len(rt.Results) > 0 {
			visit(rt.Results[0], blockGuards(rt.Block()))
		}
	}
	return unfiltered && filtered && !bad
}

func mentionsConst(c *Ctx, n ast.Node, val string) (bool, bool) {
	found := false
	ast.Inspect(n, func(m ast.Node) bool {
		if e, ok := m.(ast.Expr); ok {
			if s, ok := c.constString(e); ok && s == val {
				found = true
			}
		}
		return !found
	})
	return found, true
}

func c17Null(c *Ctx, r *Report) {
	a := c.anchors()
	if a.field == nil {
		r.undecided("C17.NULL", "anchor: field resolver", token.NoPos, "not found")
		return
	}
	fn := a.field
	var fieldP *ssa.Parameter
	for _, p := range fn.Params {
		if c.isNamed(p.Type(), "Field") {
			fieldP = p
		}
	}
	found := false
	nilOnMiss := false
	guardedStores := 0
	for _, b := range fn.Blocks {
		for _, in := range b.Instrs {
			mu, ok := in.(*ssa.MapUpdate)
			if !ok {
				continue
			}
			inArm := hasGuard(b, func(g guard) bool {
				v, lit, eq, ok := strConstCmp(g.cond)
				if !ok || lit != "__type" || eq != g.val {
					return false
				}
				base, _, f, ok := loadOfField(v)
				return ok && f == "Name" && base == ssa.Value(fieldP)
			})
			if !inArm {
				continue
			}
			found = true
			// value: phi; on the edge where GetType returned nil the value must be nil
			ls, _ := phiLeaves(mu.Value)
			allNil := len(ls) > 0
			for _, l := range ls {
				if !isNilConst(l.val) {
					allNil = false
				}
			}
			getTypeGuard := func(b *ssa.BasicBlock, wantNil bool) bool {
				return hasGuard(b, func(g guard) bool {
					v, eq, ok := nilCmp(g.cond)
					if !ok || (eq == g.val) != wantNil {
						return false
					}
					call, ok := stripIface(v).(*ssa.Call)
					return ok && call.Call.StaticCallee() != nil && call.Call.StaticCallee().Name() == "GetType"
				})
			}
			if allNil {
				if getTypeGuard(b, true) {
					nilOnMiss = true // `if named == nil { result[key] = nil; return }`
				}
				continue // an early exit of the arm that stores null whatever the lookup said
			}
			if getTypeGuard(b, false) {
				guardedStores++
				continue // stored only where the lookup succeeded; the miss is an early exit of its own
			}
			okNil := false
			for _, l := range ls {
				if !isNilConst(l.val) || l.pred == nil {
					continue
				}
				for _, g := range edgeGuards(l.pred, l.phi.Block()) {
					ng := normGuard(g)
					if v, eq, ok := nilCmp(ng.cond); ok && eq == ng.val {
						if call, ok := stripIface(v).(*ssa.Call); ok && call.Call.StaticCallee() != nil && call.Call.StaticCallee().Name() == "GetType" {
							okNil = true
						}
					}
				}
			}
			r.check("C17.NULL", fnName(fn)+": __type of an unknown name yields null", mu.Pos(), okNil, "no nil value flows to the response on the path where the type lookup failed")
		}
	}
	if guardedStores > 0 {
		r.check("C17.NULL", fnName(fn)+": __type of an unknown name yields null (early exit)", fn.Pos(), nilOnMiss, "the value of a successful lookup is stored under GetType(..) != nil, but nothing stores null where the lookup failed")
	}
	if !found {
		r.undecided("C17.NULL", fnName(fn)+": __type arm", fn.Pos(), "no response store under field.Name == \"__type\"")
	}
}

// memberTypes: introspection field -> (struct member, required type of that member)
var memberTypes = map[string][2]string{
	"description":   {"Desc", "string"},
	"fields":        {"fields", "fieldList"},
	"inputFields":   {"fields", "inputFieldList"},
	"enumValues":    {"values", "enumValueList"},
	"interfaces":    {"Interfaces", "[]Type"},
	"possibleTypes": {"Members", "[]Type"},
	"ofType":        {"Base", "Type"},
	"args":          {"args", "argList"},
	"type":          {"Type", "Type"},
	"defaultValue":  {"Default", "interface{}"},
	"locations":     {"On", "[]Location"},
}

// hasMember: does the serving struct have the member an introspection field stands for?
func (c *Ctx) hasMember(srv, field string) bool {
	mt, ok := memberTypes[field]
	if !ok {
		return false
	}
	n := c.named(srv)
	if n == nil {
		return false
	}
	o, _, _ := types.LookupFieldOrMethod(types.NewPointer(n), true, c.P.Types, mt[0])
	v, ok := o.(*types.Var)
	if !ok {
		return false
	}
	return typeStr(v.Type()) == mt[1]
}

// c17Total: "introspection describes every argument as declared". A Resolve case may route a member of the
// node through a helper of the package (a formatter for default values, a filter). Such a helper must be
// total on present values: it returns the untyped nil only on paths where its argument IS nil (v == nil, or
// reflect.ValueOf(v) not valid). A nil returned under any other test (IsZero, a length, a kind) reports a
// declared member as absent for some values - a default of 0, false or "" disappears from the description.
func c17Total(c *Ctx, r *Report, resolveFns []*ssa.Function) {
	r.rule("C17.TOTAL", "a package helper that a Resolve method applies to a member of its node returns nil only under a dominating proof that the argument is nil")
	n := 0
	seen := map[*ssa.Function]bool{}
	for _, fn := range resolveFns {
		if len(fn.Params) == 0 {
			continue
		}
		recv := fn.Params[0]
		for _, ci := range callsIn(fn) {
			cal := ci.Common().StaticCallee()
			if cal == nil || !c.inPkg(cal) || len(cal.Blocks) == 0 || cal.Signature.Results().Len() != 1 {
				continue
			}
			if !isEmptyIface(cal.Signature.Results().At(0).Type()) {
				continue
			}
			// an argument that is a member of the receiver
			pi := -1
			for i, a := range ci.Common().Args {
				if base, _, _, ok := loadOfField(stripIface(a)); ok && rootValueOfLoad(base) == ssa.Value(recv) && i < len(cal.Params) {
					pi = i
				}
			}
			if pi < 0 || seen[cal] {
				continue
			}
			// the helper describes the member's value (interface{} in, interface{} out); a helper that searches a
			// list the member holds (the directive uses for @deprecated) answers nil for "not there" by design
			if !isEmptyIface(cal.Params[pi].Type()) {
				continue
			}
			seen[cal] = true
			n++
			r.fnSeen(fnName(cal))
			p := cal.Params[pi]
			bad := ""
			var at ssa.Instruction
			for _, rt := range returnsOf(cal) {
				leaves, _ := phiLeaves(rt.Results[0])
				for _, lf := range leaves {
					if !isNilConst(lf.val) {
						continue
					}
					b := rt.Block()
					if lf.pred != nil {
						b = lf.pred
					}
					if !hasGuard(b, func(g guard) bool { return provesNilArg(g, p) }) {
						bad = "a path returns nil without having established that " + p.Name() + " is nil"
						at = rt
					}
				}
			}
			pos := cal.Pos()
			if at != nil {
				pos = at.Pos()
			}
			r.check("C17.TOTAL", fmt.Sprintf("%s (applied to a member in %s): nil only for a nil argument", fnName(cal), fnName(fn)), pos, bad == "",
				bad+": a declared value for which that test also holds (0, false, \"\") is described as absent")
		}
	}
	r.Notes = append(r.Notes, fmt.Sprintf("C17.TOTAL: %d helper(s) applied to node members inside Resolve methods", n))
}

func rootValueOfLoad(v ssa.Value) ssa.Value {
	for i := 0; i < 6; i++ {
		switch t := v.(type) {
		case *ssa.FieldAddr:
			v = t.X
		case *ssa.UnOp:
			v = t.X
		default:
			return v
		}
	}
	return v
}

// provesNilArg: the guard establishes p == nil, or that reflect.ValueOf(p) is not valid.
func provesNilArg(g guard, p *ssa.Parameter) bool {
	g = normGuard(g)
	if v, eq, ok := nilCmp(g.cond); ok && eq == g.val && stripIface(v) == ssa.Value(p) {
		return true
	}
	if call, ok := g.cond.(*ssa.Call); ok && !g.val {
		if f := calleeObj(call); f != nil && f.Pkg() != nil && f.Pkg().Path() == "reflect" && f.Name() == "IsValid" && len(call.Call.Args) == 1 {
			if vo, ok := call.Call.Args[0].(*ssa.Call); ok {
				if f2 := calleeObj(vo); f2 != nil && f2.Name() == "ValueOf" && len(vo.Call.Args) == 1 && stripIface(vo.Call.Args[0]) == ssa.Value(p) {
					return true
				}
			}
		}
	}
	return false
}

// c17DeprReason: deprecationReason is the `reason` argument of the @deprecated use - of that use, not of
// whichever use follows it. Every lookup of the argument "reason" in a directive use's argument map, in the
// Resolve methods of field definitions and enum values and the helpers they call, is dominated by the test
// that the name of THAT use's directive is "deprecated" (a flag carried over from an earlier iteration of the
// loop is not such a test).
func c17DeprReason(c *Ctx, r *Report, resolveFns []*ssa.Function) {
	r.rule("C17.DEPRREASON", "a lookup Args[\"reason\"] on a directive use is dominated by Directive.Name() == \"deprecated\" of the same use")
	seen := map[*ssa.Function]bool{}
	var fns []*ssa.Function
	var add func(f *ssa.Function, d int)
	add = func(f *ssa.Function, d int) {
		if f == nil || seen[f] || !c.inPkg(f) {
			return
		}
		seen[f] = true
		fns = append(fns, f)
		if d == 0 {
			return
		}
		for _, ci := range callsIn(f) {
			if cal := ci.Common().StaticCallee(); cal != nil {
				add(cal, d-1)
			}
		}
	}
	for _, f := range resolveFns {
		if rn := recvName(f); rn == "FieldDef" || rn == "EnumValue" {
			add(f, 2)
		}
	}
	n := 0
	for _, fn := range fns {
		k := 0
		for _, b := range fn.Blocks {
			for _, in := range b.Instrs {
				lk, ok := in.(*ssa.Lookup)
				if !ok {
					continue
				}
				if s, isC := constStr(lk.Index); !isC || s != "reason" {
					continue
				}
				base, o, f, isLd := loadOfField(lk.X)
				if !isLd || o != "DirectiveUse" || f != "Args" {
					continue
				}
				n++
				k++
				r.fnSeen(fnName(fn))
				guarded := hasGuard(b, func(g guard) bool {
					v, lit, eq, ok := strConstCmp(g.cond)
					if !ok || lit != "deprecated" || eq != g.val {
						return false
					}
					call, ok := v.(*ssa.Call)
					if !ok || !call.Call.IsInvoke() || call.Call.Method.Name() != "Name" {
						return false
					}
					b2, o2, f2, ok := loadOfField(call.Call.Value)
					return ok && o2 == "DirectiveUse" && f2 == "Directive" && sameVal(b2, base)
				})
				r.check("C17.DEPRREASON", fmt.Sprintf("%s: reason lookup #%d is made on the @deprecated use itself", fnName(fn), k), lk.Pos(), guarded,
					"the reason argument is read from a directive use that has not just been tested to be @deprecated: the reason of another directive written after @deprecated is reported as the deprecation reason")
			}
		}
	}
	r.floor("C17.DEPRREASON", "lookups of the reason argument", n, 1)
}

// c17Added: "__schema describes exactly the accepted schema": a definition handed to the loader is in the
// tables afterwards or the load is refused. In the loader's insertion loop every path through an iteration
// calls the table's add, returns (an error), or is the reviewed exemption for a re-declared scalar
// (guarded by a comparison of the definition's Rank() with a constant). A definition skipped for any other
// reason (a re-declared built-in directive) is accepted on paper and absent from what introspection reports.
func c17Added(c *Ctx, r *Report, rule string) {
	fn := c.fn("(*Root).addTypes")
	if fn == nil {
		r.undecided(rule, "anchor (*Root).addTypes", token.NoPos, "not found")
		return
	}
	r.fnSeen(fnName(fn))
	n := 0
	for li, l := range loopsOf(fn) {
		var adds []*ssa.BasicBlock
		for b := range l.body {
			for _, in := range b.Instrs {
				if ci, ok := in.(ssa.CallInstruction); ok {
					if cal := ci.Common().StaticCallee(); cal != nil && cal.Name() == "add" && recvName(cal) == "typeList" {
						adds = append(adds, b)
					}
				}
			}
		}
		if len(adds) == 0 {
			continue
		}
		for _, lt := range l.latches {
			n++
			covered := false
			for _, a := range adds {
				if a == lt || a.Dominates(lt) {
					covered = true
				}
			}
			why := "the definition was added"
			if !covered {
				// a latch reached from several arms: every predecessor chain must be an add or the scalar exemption
				covered = true
				var check func(b *ssa.BasicBlock, seen map[*ssa.BasicBlock]bool) bool
				check = func(b *ssa.BasicBlock, seen map[*ssa.BasicBlock]bool) bool {
					if seen[b] {
						return true
					}
					seen[b] = true
					for _, a := range adds {
						if a == b {
							return true
						}
					}
					if hasGuard(b, func(g guard) bool {
						bo, ok := g.cond.(*ssa.BinOp)
						if !ok || bo.Op != token.EQL || !g.val {
							return false
						}
						for _, side := range []ssa.Value{bo.X, bo.Y} {
							if call, ok := side.(*ssa.Call); ok && call.Call.IsInvoke() && call.Call.Method.Name() == "Rank" {
								return true
							}
						}
						return false
					}) {
						return true
					}
					if b == l.head {
						return false
					}
					for _, p := range b.Preds {
						if l.body[p] && !check(p, seen) {
							return false
						}
					}
					return len(b.Preds) > 0
				}
				covered = check(lt, map[*ssa.BasicBlock]bool{})
				// the exemption may be the condition of the back edge itself (`if rank == scalar { continue }`)
				if !covered {
					for _, g := range edgeGuards(lt, l.head) {
						g = normGuard(g)
						if bo, ok := g.cond.(*ssa.BinOp); ok && bo.Op == token.EQL && g.val {
							for _, side := range []ssa.Value{bo.X, bo.Y} {
								if call, ok := side.(*ssa.Call); ok && call.Call.IsInvoke() && call.Call.Method.Name() == "Rank" {
									covered = true
								}
							}
						}
					}
				}
				why = "every way round is an insertion or the re-declared-scalar exemption"
			}
			pos := token.NoPos
			for _, in := range lt.Instrs {
				if in.Pos().IsValid() {
					pos = in.Pos()
				}
			}
			r.check(rule, fmt.Sprintf("%s: loop %d back edge %d is taken only after the definition was added (or for a re-declared scalar)", fnName(fn), li+1, n), firstPos(pos, fn.Pos()), covered,
				"an iteration can complete without inserting the definition and without an error: the load is accepted, the definition is dropped, and introspection describes the built-in (or earlier) one instead of the accepted text ("+why+")")
		}
	}
	r.floor(rule, "back edges of the loader's insertion loop", n, 1)
}
