package main

// The truth table of the directive evaluator, by conditional constant propagation.
//
// C09 is a statement about a boolean function: what one @skip / @include use does to the exclusion
// accumulator, for each directive name and each source of the condition. The function is tiny and its inputs
// are finite, so instead of recognising one way of writing it (an arm per name, `skip = skip || v` in each),
// the rule propagates constants through one iteration of the evaluator's directive loop under each
// combination of assumptions
//
//	name      in { "skip", "include", some other directive }
//	argument  in { absent, literal true/false, variable bound to true/false, variable bound to a non-boolean }
//
// with the accumulator at the start of the iteration as a symbol OLD. Branches whose condition is a known
// constant are followed on one side only (the usual rule of sparse conditional constant propagation); a
// branch on OLD splits the path and fixes OLD on each side; any other unknown condition splits the path.
// What reaches the loop header on the back edge (or a return) must be, on every path,
//
//	@skip true -> true      @skip false -> OLD      @include false -> true     @include true -> OLD
//	non-boolean variable -> true, with an error appended       absent argument / other directive -> OLD
//
// Nothing is executed: the values are the lattice {constant, OLD, marker, unknown} over SSA registers.

import (
	"fmt"
	"go/constant"
	"go/token"
	"go/types"

	"golang.org/x/tools/go/ssa"
)

type cvKind int

const (
	cvUnknown cvKind = iota
	cvBool
	cvStr
	cvNil
	cvNonNil
	cvOld    // the accumulator at the start of the iteration
	cvArgVal // the value of the directive's `if` argument
	cvVarVal // what the variable map holds for the variable
)

type cval struct {
	k cvKind
	b bool
	s string
}

type c09Case struct {
	name    string // directive name
	arg     string // absent | literal | var | varbad
	cond    bool
	expect  string // true | old
	wantErr bool
	rule    string
	label   string
}

type c09Path struct {
	blk, prev *ssa.BasicBlock
	env       map[ssa.Value]cval
	tup       map[ssa.Value][]cval
	old       *bool
	errApp    bool
	steps     int
}

func (p *c09Path) clone() *c09Path {
	n := &c09Path{blk: p.blk, prev: p.prev, env: make(map[ssa.Value]cval, len(p.env)), tup: make(map[ssa.Value][]cval, len(p.tup)), errApp: p.errApp, steps: p.steps}
	for k, v := range p.env {
		n.env[k] = v
	}
	for k, v := range p.tup {
		n.tup[k] = v
	}
	if p.old != nil {
		b := *p.old
		n.old = &b
	}
	return n
}

type c09Outcome struct {
	v      cval
	errApp bool
	old    *bool
	at     token.Pos
}

// c09Table evaluates the table; ok is false when the evaluator does not have the shape the evaluation
// needs (no directive loop with a boolean accumulator, no Name() call in it).
func c09Table(c *Ctx, r *Report, ev *ssa.Function) bool {
	// the vars parameter
	var varsP *ssa.Parameter
	for _, p := range ev.Params {
		if isStrIfaceMap(p.Type()) {
			varsP = p
		}
	}
	// the directive loop: the loop that contains the invoke of Name()
	var loop *loopInfo
	loops := loopsOf(ev)
	for _, ci := range callsIn(ev) {
		if ci.Common().IsInvoke() && ci.Common().Method.Name() == "Name" {
			if l := innermostLoop(loops, ci.Block()); l != nil {
				loop = l
			}
		}
	}
	if loop == nil || varsP == nil {
		return false
	}
	// the accumulator: a bool phi at the header that reaches result 0
	var acc *ssa.Phi
	for _, in := range loop.head.Instrs {
		phi, ok := in.(*ssa.Phi)
		if !ok {
			break
		}
		if bt, ok := phi.Type().Underlying().(*types.Basic); ok && bt.Kind() == types.Bool {
			acc = phi
		}
	}
	if acc == nil {
		return false
	}
	cases := []c09Case{
		{"skip", "literal", true, "true", false, "C09.POL", "@skip(if: true) excludes"},
		{"skip", "literal", false, "old", false, "C09.STICKY", "@skip(if: false) leaves the decision as it was"},
		{"include", "literal", false, "true", false, "C09.POL", "@include(if: false) excludes"},
		{"include", "literal", true, "old", false, "C09.STICKY", "@include(if: true) leaves the decision as it was"},
		{"skip", "var", true, "true", false, "C09.POL", "@skip(if: $v) with $v = true excludes"},
		{"skip", "var", false, "old", false, "C09.STICKY", "@skip(if: $v) with $v = false leaves the decision as it was"},
		{"include", "var", false, "true", false, "C09.POL", "@include(if: $v) with $v = false excludes"},
		{"include", "var", true, "old", false, "C09.STICKY", "@include(if: $v) with $v = true leaves the decision as it was"},
		{"skip", "varbad", false, "true", true, "C09.POL", "@skip(if: $v) with a non-boolean $v excludes and reports an error"},
		{"include", "varbad", false, "true", true, "C09.POL", "@include(if: $v) with a non-boolean $v excludes and reports an error"},
		{"skip", "absent", false, "old", false, "C09.STICKY", "@skip without an if argument leaves the decision as it was"},
		{"deprecated", "literal", true, "old", false, "C09.STICKY", "a directive other than @skip / @include leaves the decision as it was"},
	}
	for _, cs := range cases {
		outs, why := c09Eval(c, ev, loop, acc, varsP, cs)
		key := fmt.Sprintf("%s: %s", fnName(ev), cs.label)
		if why != "" {
			r.undecided(cs.rule, key, ev.Pos(), "the evaluation of one iteration of the directive loop did not finish: "+why)
			continue
		}
		ok := len(outs) > 0
		detail := ""
		pos := ev.Pos()
		for _, o := range outs {
			good := false
			switch cs.expect {
			case "true":
				good = (o.v.k == cvBool && o.v.b) || (o.v.k == cvOld && o.old != nil && *o.old)
			case "old":
				good = o.v.k == cvOld || (o.v.k == cvBool && o.old != nil && *o.old == o.v.b)
			}
			if good && cs.wantErr && !o.errApp {
				good = false
				detail = "the selection is excluded without an error being appended"
				pos = o.at
			}
			if !good {
				ok = false
				if detail == "" {
					detail = fmt.Sprintf("the accumulator becomes %s on a path through the iteration; expected %s", c09Show(o.v, o.old), map[string]string{"true": "true", "old": "its value before this directive"}[cs.expect])
					pos = o.at
				}
			}
		}
		if len(outs) == 0 {
			detail = "no path through the iteration returns to the loop header"
		}
		r.check(cs.rule, key, pos, ok, detail)
	}
	return true
}

func c09Show(v cval, old *bool) string {
	switch v.k {
	case cvBool:
		return fmt.Sprint(v.b)
	case cvOld:
		return "its old value"
	}
	return "a value the propagation cannot determine"
}

func c09Eval(c09Prog *Ctx, ev *ssa.Function, loop *loopInfo, acc *ssa.Phi, varsP *ssa.Parameter, cs c09Case) ([]c09Outcome, string) {
	start := &c09Path{blk: loop.head, env: map[ssa.Value]cval{}, tup: map[ssa.Value][]cval{}}
	start.env[acc] = cval{k: cvOld}
	work := []*c09Path{start}
	var outs []c09Outcome
	first := true
	npaths := 0
	for len(work) > 0 {
		p := work[len(work)-1]
		work = work[:len(work)-1]
		npaths++
		if npaths > 400 {
			return nil, "too many paths"
		}
		for {
			p.steps++
			if p.steps > 300 {
				return nil, "a path does not come back to the loop header"
			}
			b := p.blk
			val := func(v ssa.Value) cval {
				if k, ok := v.(*ssa.Const); ok {
					switch {
					case k.Value == nil:
						if _, isB := k.Type().Underlying().(*types.Basic); isB {
							return cval{}
						}
						return cval{k: cvNil}
					case k.Value.Kind() == constant.Bool:
						return cval{k: cvBool, b: constant.BoolVal(k.Value)}
					case k.Value.Kind() == constant.String:
						return cval{k: cvStr, s: constant.StringVal(k.Value)}
					}
					return cval{}
				}
				x := p.env[v]
				if x.k == cvOld && p.old != nil {
					return cval{k: cvBool, b: *p.old}
				}
				return x
			}
			// phis
			if !(first && b == loop.head) {
				for _, in := range b.Instrs {
					phi, ok := in.(*ssa.Phi)
					if !ok {
						break
					}
					for i, pr := range b.Preds {
						if pr == p.prev {
							p.env[phi] = val(phi.Edges[i])
						}
					}
				}
			}
			first = false
			var next []*ssa.BasicBlock
			done := false
			for _, in := range b.Instrs {
				switch t := in.(type) {
				case *ssa.Phi:
				case *ssa.Call:
					cm := t.Common()
					switch {
					case cm.IsInvoke() && cm.Method.Name() == "Name":
						p.env[t] = cval{k: cvStr, s: cs.name}
					case isBuiltinCall(t, "append") && isErrSlice(t.Type()):
						p.errApp = true
					}
				case *ssa.Lookup:
					var res cval
					switch {
					case t.X == ssa.Value(varsP):
						res = cval{k: cvVarVal}
					default:
						// a package-level table of constants keyed by the directive's name
						if u, isLd := t.X.(*ssa.UnOp); isLd && u.Op == token.MUL {
							if g, isG := u.X.(*ssa.Global); isG {
								if tab, okT := c09Prog.globalMapLit(g); okT {
									if k := val(t.Index); k.k == cvStr {
										v, has := tab[k.s]
										var cv cval
										switch {
										case has && v.Kind() == constant.Bool:
											cv = cval{k: cvBool, b: constant.BoolVal(v)}
										case has && v.Kind() == constant.String:
											cv = cval{k: cvStr, s: constant.StringVal(v)}
										case !has:
											if bt, okB := t.Type().Underlying().(*types.Basic); okB && bt.Kind() == types.Bool {
												cv = cval{k: cvBool, b: false}
											} else if tt, okTu := t.Type().(*types.Tuple); okTu && tt.Len() == 2 {
												if bt, okB := tt.At(0).Type().Underlying().(*types.Basic); okB && bt.Kind() == types.Bool {
													cv = cval{k: cvBool, b: false}
												}
											}
										}
										if t.CommaOk {
											p.tup[t] = []cval{cv, {k: cvBool, b: has}}
										} else {
											p.env[t] = cv
										}
										continue
									}
								}
							}
						}
						if key, ok := constStr(t.Index); ok && key == "if" {
							if cs.arg == "absent" {
								res = cval{k: cvNil}
							} else {
								res = cval{k: cvNonNil}
							}
						}
					}
					if t.CommaOk {
						p.tup[t] = []cval{res, {}}
					} else {
						p.env[t] = res
					}
				case *ssa.UnOp:
					switch t.Op {
					case token.NOT:
						if x := val(t.X); x.k == cvBool {
							p.env[t] = cval{k: cvBool, b: !x.b}
						}
					case token.MUL:
						if _, o, f, ok := loadOfField(t); ok && o == "ArgValue" && f == "Value" {
							p.env[t] = cval{k: cvArgVal}
						}
					}
				case *ssa.TypeAssert:
					x := val(t.X)
					toBool := false
					if bt, ok := t.AssertedType.Underlying().(*types.Basic); ok && bt.Kind() == types.Bool {
						toBool = true
					}
					toVar := derefNamed(t.AssertedType) == "Var"
					var v, okv cval
					switch {
					case x.k == cvArgVal && toBool:
						if cs.arg == "literal" {
							v, okv = cval{k: cvBool, b: cs.cond}, cval{k: cvBool, b: true}
						} else {
							v, okv = cval{k: cvBool, b: false}, cval{k: cvBool, b: false}
						}
					case x.k == cvArgVal && toVar:
						okv = cval{k: cvBool, b: cs.arg == "var" || cs.arg == "varbad"}
					case x.k == cvVarVal && toBool:
						if cs.arg == "var" {
							v, okv = cval{k: cvBool, b: cs.cond}, cval{k: cvBool, b: true}
						} else {
							v, okv = cval{k: cvBool, b: false}, cval{k: cvBool, b: false}
						}
					}
					if t.CommaOk {
						p.tup[t] = []cval{v, okv}
					} else {
						if okv.k == cvBool && !okv.b {
							done = true // the assertion panics: no such path in a correct program
						}
						p.env[t] = v
					}
				case *ssa.Extract:
					if tv, ok := p.tup[t.Tuple]; ok && t.Index < len(tv) {
						p.env[t] = tv[t.Index]
					}
				case *ssa.BinOp:
					if t.Op == token.EQL || t.Op == token.NEQ {
						x, y := val(t.X), val(t.Y)
						var res *bool
						eq := func(v bool) { res = &v }
						switch {
						case x.k == cvBool && y.k == cvBool:
							eq(x.b == y.b)
						case x.k == cvStr && y.k == cvStr:
							eq(x.s == y.s)
						case (x.k == cvNil || x.k == cvNonNil) && y.k == cvNil:
							eq(x.k == cvNil)
						case (y.k == cvNil || y.k == cvNonNil) && x.k == cvNil:
							eq(y.k == cvNil)
						}
						if res != nil {
							p.env[t] = cval{k: cvBool, b: *res == (t.Op == token.EQL)}
						}
					}
				case *ssa.Convert:
					p.env[t] = val(t.X)
				case *ssa.ChangeType:
					p.env[t] = val(t.X)
				case *ssa.ChangeInterface:
					p.env[t] = val(t.X)
				case *ssa.MakeInterface:
					p.env[t] = val(t.X)
				case *ssa.If:
					cv := val(t.Cond)
					switch {
					case cv.k == cvBool:
						if cv.b {
							next = []*ssa.BasicBlock{b.Succs[0]}
						} else {
							next = []*ssa.BasicBlock{b.Succs[1]}
						}
					case cv.k == cvOld:
						// split on the old value of the accumulator
						for i, bv := range []bool{true, false} {
							q := p.clone()
							v := bv
							q.old = &v
							q.prev, q.blk = b, b.Succs[i]
							work = append(work, q)
						}
						done = true
					default:
						next = []*ssa.BasicBlock{b.Succs[0], b.Succs[1]}
					}
				case *ssa.Jump:
					next = []*ssa.BasicBlock{b.Succs[0]}
				case *ssa.Return:
					if len(t.Results) > 0 {
						outs = append(outs, c09Outcome{val(t.Results[0]), p.errApp, p.old, t.Pos()})
					}
					done = true
				case *ssa.Panic:
					done = true
				}
				if done {
					break
				}
			}
			if done {
				break
			}
			// leaving the loop from its header is the end of the range, not a path through an iteration
			var succs []*ssa.BasicBlock
			for _, s := range next {
				if b == loop.head && !loop.body[s] {
					continue
				}
				succs = append(succs, s)
			}
			if len(succs) == 0 {
				break
			}
			for _, s := range succs[1:] {
				q := p.clone()
				q.prev, q.blk = b, s
				work = append(work, q)
			}
			s := succs[0]
			if s == loop.head {
				for i, pr := range loop.head.Preds {
					if pr == b {
						outs = append(outs, c09Outcome{val(acc.Edges[i]), p.errApp, p.old, lastPos(b)})
					}
				}
				// the other successors were queued; this path ends here
				break
			}
			if !loop.body[s] {
				// left the loop inside an iteration (break): what the accumulator's users see is its exit value;
				// followed until a return
				p.prev, p.blk = b, s
				continue
			}
			p.prev, p.blk = b, s
		}
		// queued successors that are the header itself
		var rest []*c09Path
		for _, q := range work {
			if q.blk == loop.head && q.prev != nil {
				for i, pr := range loop.head.Preds {
					if pr == q.prev {
						v := q.env[acc.Edges[i]]
						if k, ok := acc.Edges[i].(*ssa.Const); ok && k.Value != nil && k.Value.Kind() == constant.Bool {
							v = cval{k: cvBool, b: constant.BoolVal(k.Value)}
						}
						if v.k == cvOld && q.old != nil {
							v = cval{k: cvBool, b: *q.old}
						}
						outs = append(outs, c09Outcome{v, q.errApp, q.old, lastPos(q.prev)})
					}
				}
				continue
			}
			rest = append(rest, q)
		}
		work = rest
	}
	return outs, ""
}

func lastPos(b *ssa.BasicBlock) token.Pos {
	for i := len(b.Instrs) - 1; i >= 0; i-- {
		if p := b.Instrs[i].Pos(); p.IsValid() {
			return p
		}
	}
	return token.NoPos
}
