package main

import (
	"fmt"
	"go/types"

	"golang.org/x/tools/go/ssa"
)

func init() {
	register("C02", checkC02,
		"The precedence clause of the statement, and sibling agreement of the three invocation arms: (PREC) in the field resolver the Resolver arm requires the object to implement Resolver, the root-resolver arm requires that it does not and that a root resolver is installed, the reflection arm requires neither; in the list resolver the root-resolver arm requires the ListResolver and []interface{} tests to have failed and a root resolver to be installed, raw reflection requires no root resolver; (PIPE) each arm obtains its arguments from the same argument builder applied to its own (vars, field), is skipped when that builder reports errors, and routes a returned error through the error adder (flattening of groups, Extensions).",
		"Equality of responses across strategies is a relation over all requests and data graphs (runtime values): not decided. Case-insensitive Go field/method lookup of the reflection strategy is not modelled.")
}

func checkC02(c *Ctx, r *Report) {
	r.rule("C02.PREC", "strategy dispatch is an ordered chain: Resolver, then AnyResolver, then reflection (field resolver); ListResolver / native slices, then AnyResolver, then reflection (list resolver)")
	r.rule("C02.PIPE", "each invocation arm: arguments = argument builder(vars, field, fd) of its own parameters; gated by no errors; returned error goes through the error adder")
	a := c.anchors()
	if !requireAnchors(r, "C02.PREC", a) {
		return
	}
	c02PrecField(c, r, a)
	c02PrecList(c, r, a)
	c02Pipe(c, r, a)
}

// anyResolverField: v is a load of Root.AnyResolver
func isAnyResolverLoad(v ssa.Value) bool {
	_, o, f, ok := loadOfField(v)
	return ok && o == "Root" && f == "AnyResolver"
}

func c02PrecField(c *Ctx, r *Report, a *Anchors) {
	fn := a.field
	var objP *ssa.Parameter
	for _, p := range fn.Params {
		if it, ok := p.Type().Underlying().(*types.Interface); ok && it.NumMethods() == 0 {
			objP = p
			break
		}
	}
	facts := func(b *ssa.BasicBlock) (isRes, notRes, anySet, anyNil bool) {
		for _, g := range blockGuards(b) {
			if f, ok := assertFactOf(g); ok && derefNamed(f.t) == "Resolver" && stripIface(f.x) == ssa.Value(objP) {
				if f.holds {
					isRes = true
				} else {
					notRes = true
				}
			}
			ng := normGuard(g)
			if v, eq, ok := nilCmp(ng.cond); ok && isAnyResolverLoad(v) {
				if eq == ng.val {
					anyNil = true
				} else {
					anySet = true
				}
			}
		}
		return
	}
	n := 0
	for _, ci := range callsIn(fn) {
		cc := ci.Common()
		isRes, notRes, anySet, anyNil := facts(ci.Block())
		switch {
		case cc.IsInvoke() && cc.Method.Name() == "Resolve" && c.isNamed(cc.Value.Type(), "Resolver"):
			n++
			r.check("C02.PREC", fnName(fn)+": Resolver arm taken exactly when the object implements Resolver", ci.Pos(), isRes && !anySet && !anyNil, "the interface-resolver arm must be the first test of the dispatch")
		case cc.IsInvoke() && cc.Method.Name() == "Resolve" && c.isNamed(cc.Value.Type(), "AnyResolver"):
			n++
			r.check("C02.PREC", fnName(fn)+": root-resolver arm taken only when the object is no Resolver and a root resolver is installed", ci.Pos(), notRes && anySet, "an object implementing Resolver must not be handed to the root resolver; interface resolver > root resolver")
		case cc.StaticCallee() == a.reflectRes:
			n++
			r.check("C02.PREC", fnName(fn)+": reflection arm taken only when the object is no Resolver and no root resolver is installed", ci.Pos(), notRes && anyNil, "root resolver > reflection")
		}
	}
	r.floor("C02.PREC", "strategy arms in the field resolver", n, 3)
}

func c02PrecList(c *Ctx, r *Report, a *Anchors) {
	fn := a.list
	var objP *ssa.Parameter
	for _, p := range fn.Params {
		if it, ok := p.Type().Underlying().(*types.Interface); ok && it.NumMethods() == 0 {
			objP = p
			break
		}
	}
	type st struct{ isLR, notLR, notSlice, anySet, anyNil bool }
	facts := func(b *ssa.BasicBlock) st {
		var s st
		for _, g := range blockGuards(b) {
			if f, ok := assertFactOf(g); ok && stripIface(f.x) == ssa.Value(objP) {
				if derefNamed(f.t) == "ListResolver" {
					if f.holds {
						s.isLR = true
					} else {
						s.notLR = true
					}
				}
				if sl, ok := f.t.(*types.Slice); ok && !f.holds {
					if it, ok := sl.Elem().Underlying().(*types.Interface); ok && it.NumMethods() == 0 {
						s.notSlice = true
					}
				}
			}
			ng := normGuard(g)
			if v, eq, ok := nilCmp(ng.cond); ok && isAnyResolverLoad(v) {
				if eq == ng.val {
					s.anyNil = true
				} else {
					s.anySet = true
				}
			}
		}
		return s
	}
	n := 0
	seen := map[string]bool{}
	for _, ci := range callsIn(fn) {
		cc := ci.Common()
		f := calleeObj(ci)
		if f == nil {
			continue
		}
		s := facts(ci.Block())
		switch {
		case cc.IsInvoke() && c.isNamed(cc.Value.Type(), "ListResolver") && (f.Name() == "Len" || f.Name() == "Nth"):
			n++
			r.check("C02.PREC", fmt.Sprintf("%s: ListResolver.%s used exactly when the object implements ListResolver", fnName(fn), f.Name()), ci.Pos(), s.isLR && !s.anySet && !s.anyNil, "the ListResolver arm must not depend on the root resolver")
		case cc.IsInvoke() && c.isNamed(cc.Value.Type(), "AnyResolver") && (f.Name() == "Len" || f.Name() == "Nth"):
			n++
			r.check("C02.PREC", fmt.Sprintf("%s: AnyResolver.%s used only after the ListResolver and []interface{} tests failed and with a root resolver installed", fnName(fn), f.Name()), ci.Pos(), s.notLR && s.notSlice && s.anySet, "ListResolver and native slices take precedence over the root resolver")
		case f.Pkg() != nil && f.Pkg().Path() == "reflect" && recvTypeName(f) == "Value" && (f.Name() == "Len" || f.Name() == "Index"):
			if seen[f.Name()] {
				continue
			}
			seen[f.Name()] = true
			n++
			r.check("C02.PREC", fmt.Sprintf("%s: reflect Value.%s used only when no root resolver is installed and the object is no ListResolver", fnName(fn), f.Name()), ci.Pos(), s.notLR && s.anyNil, "root resolver > reflection for lists")
		}
	}
	r.floor("C02.PREC", "strategy-specific list accessors", n, 6)
}

func c02Pipe(c *Ctx, r *Report, a *Anchors) {
	type arm struct {
		name   string
		fn     *ssa.Function
		invoke *ssa.Call
	}
	var arms []arm
	for _, ci := range callsIn(a.field) {
		if call, ok := ci.(*ssa.Call); ok && c.isResolverInvoke(call) {
			arms = append(arms, arm{calleeDesc(call), a.field, call})
		}
	}
	for _, ci := range callsIn(a.reflectRes) {
		if call, ok := ci.(*ssa.Call); ok && c.isResolverInvoke(call) {
			arms = append(arms, arm{"reflection", a.reflectRes, call})
		}
	}
	for _, am := range arms {
		// (i) argument builder call feeding the arm
		var fa *ssa.Call
		var host *ssa.Function
		if am.fn == a.field {
			for _, arg := range am.invoke.Call.Args {
				if ex, ok := arg.(*ssa.Extract); ok && ex.Index == 0 {
					if call, ok := ex.Tuple.(*ssa.Call); ok && call.Call.StaticCallee() == a.formArgs {
						fa = call
						host = a.field
					}
				}
			}
		} else if a.reflArgs != nil {
			for _, ci := range callsIn(a.reflArgs) {
				if ci.Common().StaticCallee() == a.formArgs {
					fa, _ = ci.(*ssa.Call)
					host = a.reflArgs
				}
			}
		}
		key := fmt.Sprintf("arm %s", am.name)
		if fa == nil {
			r.check("C02.PIPE", key+": arguments come from the argument builder", am.invoke.Pos(), false, "this arm does not obtain its arguments from the argument builder used by the other arms")
			continue
		}
		ex := explicitArgs(fa)
		ownParams := len(ex) == 3
		if ownParams {
			for i, want := range []string{"", "Field", "FieldDef"} {
				if i == 0 {
					p, ok := ex[0].(*ssa.Parameter)
					if !ok || !isStrIfaceMap(p.Type()) || p.Parent() != host {
						ownParams = false
					}
					continue
				}
				if !c.isNamed(ex[i].Type(), want) {
					ownParams = false
				}
			}
			if p, ok := ex[1].(*ssa.Parameter); !ok || p.Parent() != host {
				ownParams = false
			}
		}
		r.check("C02.PIPE", key+": arguments = argument builder(vars, field, fd) of the arm's own request", fa.Pos(), ownParams, "the argument builder must be applied to the arm's own vars and field parameters and a field definition")
		// (ii) gating is C04.GATE's; here: the invocation is dominated by a len(errors)==0 test at all
		gated := hasGuard(am.invoke.Block(), func(g guard) bool {
			v, _, _, ok := intCmp(g.cond)
			if !ok {
				return false
			}
			x, isLen := isLenOf(v)
			return isLen && isErrSlice(x.Type())
		})
		r.check("C02.PIPE", key+": skipped when the argument builder reported errors", am.invoke.Pos(), gated, "no len(errors) test dominates the invocation")
		// (iii) returned error through the error adder
		routed := false
		var errv ssa.Value
		if am.fn == a.field {
			errv = extractOf(am.invoke, 1)
		} else {
			// err, _ = mva[1].Interface().(error)
			for _, b := range am.fn.Blocks {
				for _, in := range b.Instrs {
					if ta, ok := in.(*ssa.TypeAssert); ok && isErrorType(ta.AssertedType) {
						errv = extractOf(ta, 0)
						if errv == nil && !ta.CommaOk {
							errv = ta
						}
					}
				}
			}
		}
		if errv != nil {
			for _, ci := range callsIn(am.fn) {
				if ci.Common().StaticCallee() != a.addError {
					continue
				}
				for _, arg := range ci.Common().Args {
					ls, _ := phiLeaves(arg)
					for _, l := range ls {
						if l.val == errv {
							routed = true
						}
					}
				}
			}
		}
		r.check("C02.PIPE", key+": a returned error is routed through the error adder", am.invoke.Pos(), routed, "the error returned by this arm is not passed to the error adder: a grouped error is not flattened into one entry per member and Extensions of a structured error are lost, unlike in the sibling arms")
	}
	r.floor("C02.PIPE", "invocation arms", len(arms), 3)
}
